module verifharness

go 1.25.0

require (
	github.com/anishathalye/porcupine v1.3.0
	github.com/miekg/dns v0.0.0
)

replace github.com/miekg/dns => /repo
