// Package netsim provides in-memory stream and datagram transports with programmable
// segmentation, fault injection and close logging.
package netsim

import (
	"errors"
	"io"
	"net"
	"os"
	"sync"
	"sync/atomic"
	"time"
)

// Addr is a simulated network address.
type Addr string

func (a Addr) Network() string { return "sim" }
func (a Addr) String() string  { return string(a) }

// ErrInjected is the error returned at an injected read fault.
var ErrInjected = errors.New("netsim: injected read error")

type half struct {
	holdNext, holding bool // see Stream.HoldNextRead
	mu        sync.Mutex
	cond      *sync.Cond
	buf       []byte
	eof       bool  // writer closed
	closed    bool  // reader closed
	plan      []int // sizes of the next Read results (deterministic segmentation)
	failAfter int   // inject failErr after this many delivered octets (-1: never)
	failErr   error
	delivered int
	deadline  time.Time
	timer     *time.Timer
}

func newHalf() *half {
	h := &half{failAfter: -1}
	h.cond = sync.NewCond(&h.mu)
	return h
}

// Stream is one end of a simulated byte stream; it implements net.Conn.
type Stream struct {
	// CloseDelay makes Close take that long before the stream counts as closed.
	CloseDelay time.Duration
	rd, wr     *half // rd: what this end reads; wr: the peer's rd
	local, rem Addr
	closes     atomic.Int32
	wdeadline  atomic.Int64
	// WriteLog, if non-nil, receives a copy of every Write of this end.
	wmu      sync.Mutex
	writeLog [][]byte
	logW     atomic.Bool
	// shortWrite: if > 0, Write accepts at most this many octets and returns an error.
	shortWrite int
	// WriteGap, if > 0, is slept after every Write has delivered its octets (a transport on which a
	// write takes a moment): what a writer puts on the wire in two calls can be separated by another
	// writer's call.
	WriteGap time.Duration
	// OnSetReadDeadline, if set (before the connection is used), is called at the start of
	// every SetReadDeadline: a scenario may block in it to pause the caller at that point.
	OnSetReadDeadline func(t time.Time)
}

// StreamPair returns the two ends of a stream.
func StreamPair() (client, server *Stream) {
	a, b := newHalf(), newHalf()
	client = &Stream{rd: a, wr: b, local: "client", rem: "server"}
	server = &Stream{rd: b, wr: a, local: "server", rem: "client"}
	return
}

// SetReadPlan makes the following Reads return exactly plan[i] octets (waiting until that
// many are available, or EOF); afterwards Reads return whatever is available.
func (s *Stream) SetReadPlan(plan []int) {
	s.rd.mu.Lock()
	s.rd.plan = append([]int(nil), plan...)
	s.rd.mu.Unlock()
}

// FailReadAfter injects err (io.EOF for an early close) once n octets have been delivered.
func (s *Stream) FailReadAfter(n int, err error) {
	s.rd.mu.Lock()
	s.rd.failAfter, s.rd.failErr = n, err
	s.rd.mu.Unlock()
	s.rd.cond.Broadcast()
}

// LogWrites enables recording of this end's writes.
func (s *Stream) LogWrites() { s.logW.Store(true) }

// Writes returns the recorded writes.
func (s *Stream) Writes() [][]byte {
	s.wmu.Lock()
	defer s.wmu.Unlock()
	return append([][]byte(nil), s.writeLog...)
}

// ShortWrites makes every Write accept at most n octets and fail with io.ErrShortWrite.
func (s *Stream) ShortWrites(n int) { s.shortWrite = n }

// Drain returns (and consumes) whatever is buffered for reading on this end, without blocking.
func (s *Stream) Drain() []byte {
	h := s.rd
	h.mu.Lock()
	defer h.mu.Unlock()
	b := h.buf
	h.buf = nil
	h.delivered += len(b)
	return b
}

// Closes returns how often Close was called on this end.
func (s *Stream) Closes() int { return int(s.closes.Load()) }

// HoldNextRead: the next Read that delivers data hands it to its caller only after the read deadline
// has been moved into the past or the stream was closed. HoldingRead reports whether one is being held.
func (s *Stream) HoldNextRead() { s.rd.mu.Lock(); s.rd.holdNext = true; s.rd.mu.Unlock() }
func (s *Stream) HoldingRead() bool {
	s.rd.mu.Lock()
	defer s.rd.mu.Unlock()
	return s.rd.holding
}

// TemporaryErr is a transient failure that is not a timeout (ECONNABORTED, EMFILE, ENOBUFS ... on a real
// socket): net.Error with Temporary() true and Timeout() false.
type TemporaryErr struct{ What string }

func (e TemporaryErr) Error() string { return "netsim: transient failure: " + e.What }
func (TemporaryErr) Timeout() bool   { return false }
func (TemporaryErr) Temporary() bool { return true }

type timeoutErr struct{}

func (timeoutErr) Error() string   { return "netsim: i/o timeout" }
func (timeoutErr) Timeout() bool   { return true }
func (timeoutErr) Temporary() bool { return true }
func (timeoutErr) Unwrap() error   { return os.ErrDeadlineExceeded }

func (s *Stream) Read(p []byte) (int, error) {
	h := s.rd
	h.mu.Lock()
	defer h.mu.Unlock()
	for {
		if h.closed {
			return 0, net.ErrClosed
		}
		if !h.deadline.IsZero() && !time.Now().Before(h.deadline) {
			return 0, timeoutErr{}
		}
		if h.failAfter >= 0 && h.delivered >= h.failAfter {
			return 0, h.failErr
		}
		want := len(p)
		planned := false
		if len(h.plan) > 0 {
			planned = true
			if h.plan[0] < want {
				want = h.plan[0]
			}
		}
		if h.failAfter >= 0 && h.delivered+want > h.failAfter {
			want = h.failAfter - h.delivered
			planned = false
		}
		if want == 0 && len(p) == 0 {
			return 0, nil
		}
		avail := len(h.buf)
		if avail > 0 && (!planned || avail >= want || h.eof) {
			n := want
			if avail < n {
				n = avail
			}
			copy(p, h.buf[:n])
			h.buf = h.buf[n:]
			h.delivered += n
			if len(h.plan) > 0 {
				h.plan[0] -= n
				if h.plan[0] <= 0 {
					h.plan = h.plan[1:]
				}
			}
			if h.holdNext {
				// the read has completed inside the "kernel"; it returns to the caller only once somebody has
				// moved the read deadline into the past (or closed the stream): a read that finishes at the very
				// moment a shutdown begins
				h.holdNext = false
				h.holding = true
				for !h.closed && (h.deadline.IsZero() || time.Now().Before(h.deadline)) {
					h.cond.Wait()
				}
				h.holding = false
			}
			return n, nil
		}
		if h.eof && avail == 0 {
			return 0, io.EOF
		}
		h.cond.Wait()
	}
}

func (s *Stream) Write(p []byte) (int, error) {
	if d := s.wdeadline.Load(); d != 0 && time.Now().UnixNano() >= d {
		return 0, timeoutErr{}
	}
	if s.closes.Load() > 0 {
		return 0, net.ErrClosed
	}
	h := s.wr
	h.mu.Lock()
	if h.eof {
		h.mu.Unlock()
		return 0, net.ErrClosed
	}
	if h.closed {
		h.mu.Unlock()
		return 0, io.ErrClosedPipe
	}
	n := len(p)
	var err error
	if s.shortWrite > 0 && n > s.shortWrite {
		n = s.shortWrite
		err = io.ErrShortWrite
	}
	if s.logW.Load() { // logged before the octets become visible to the peer
		s.wmu.Lock()
		s.writeLog = append(s.writeLog, append([]byte(nil), p[:n]...))
		s.wmu.Unlock()
	}
	h.buf = append(h.buf, p[:n]...)
	h.mu.Unlock()
	h.cond.Broadcast()
	if s.WriteGap > 0 {
		time.Sleep(s.WriteGap)
	}
	return n, err
}

// Close closes this end: the peer reads EOF after draining, own reads fail.
func (s *Stream) Close() error {
	if d := s.CloseDelay; d > 0 {
		time.Sleep(d) // a close that takes a while (TLS close_notify, lingering socket)
	}
	first := s.closes.Add(1) == 1
	s.rd.mu.Lock()
	s.rd.closed = true
	s.rd.mu.Unlock()
	s.rd.cond.Broadcast()
	s.wr.mu.Lock()
	s.wr.eof = true
	s.wr.mu.Unlock()
	s.wr.cond.Broadcast()
	if !first {
		return net.ErrClosed
	}
	return nil
}

func (s *Stream) LocalAddr() net.Addr  { return s.local }
func (s *Stream) RemoteAddr() net.Addr { return s.rem }

func (s *Stream) SetDeadline(t time.Time) error {
	s.SetReadDeadline(t)
	return s.SetWriteDeadline(t)
}

func (s *Stream) SetReadDeadline(t time.Time) error {
	if f := s.OnSetReadDeadline; f != nil {
		f(t)
	}
	h := s.rd
	h.mu.Lock()
	h.deadline = t
	if h.timer != nil {
		h.timer.Stop()
		h.timer = nil
	}
	if !t.IsZero() {
		if d := time.Until(t); d > 0 {
			h.timer = time.AfterFunc(d, h.cond.Broadcast)
		}
	}
	h.mu.Unlock()
	h.cond.Broadcast()
	return nil
}

func (s *Stream) SetWriteDeadline(t time.Time) error {
	if t.IsZero() {
		s.wdeadline.Store(0)
	} else {
		s.wdeadline.Store(t.UnixNano())
	}
	return nil
}

// Listener hands out the server ends of simulated streams.
type Listener struct {
	mu       sync.Mutex
	cond     *sync.Cond
	queue    []*Stream
	closed   bool
	all      []*Stream
	accepted []*Stream
	// Prepare, if set, is applied to every server-side stream before it can be accepted.
	Prepare func(server *Stream)
	// ClosedErr, if set, is what Accept returns once the listener is closed (listeners that wrap
	// others - multiplexers, in-memory listeners - have sentinels of their own, not net.ErrClosed).
	ClosedErr error
	acceptErr  error
	acceptErrs int
}

// AcceptErrors reports how many injected accept errors have been handed out.
func (l *Listener) AcceptErrors() int { l.mu.Lock(); defer l.mu.Unlock(); return l.acceptErrs }

// FailAccept makes the pending (or next) Accept return err although the listener is not closed: the
// kind of failure a real listener reports when the process runs out of descriptors.
func (l *Listener) FailAccept(err error) {
	l.mu.Lock()
	l.acceptErr = err
	l.mu.Unlock()
	l.cond.Broadcast()
}

// NewListener returns a simulated listener.
func NewListener() *Listener {
	l := &Listener{}
	l.cond = sync.NewCond(&l.mu)
	return l
}

// Dial creates a connection; the server end becomes available to Accept.
func (l *Listener) Dial() (*Stream, error) {
	c, s := StreamPair()
	if l.Prepare != nil {
		l.Prepare(s)
	}
	l.mu.Lock()
	defer l.mu.Unlock()
	if l.closed {
		return nil, net.ErrClosed
	}
	l.queue = append(l.queue, s)
	l.all = append(l.all, s)
	l.cond.Broadcast()
	return c, nil
}

func (l *Listener) Accept() (net.Conn, error) {
	l.mu.Lock()
	defer l.mu.Unlock()
	for {
		if l.acceptErr != nil {
			err := l.acceptErr
			l.acceptErr = nil
			l.acceptErrs++
			return nil, err
		}
		if l.closed {
			if l.ClosedErr != nil {
				return nil, l.ClosedErr
			}
			return nil, net.ErrClosed
		}
		if len(l.queue) > 0 {
			s := l.queue[0]
			l.queue = l.queue[1:]
			l.accepted = append(l.accepted, s)
			return s, nil
		}
		l.cond.Wait()
	}
}

func (l *Listener) Close() error {
	l.mu.Lock()
	l.closed = true
	l.mu.Unlock()
	l.cond.Broadcast()
	return nil
}

func (l *Listener) Addr() net.Addr { return Addr("listener") }

// Accepted returns the server-side connections that were returned by Accept.
func (l *Listener) Accepted() []*Stream {
	l.mu.Lock()
	defer l.mu.Unlock()
	return append([]*Stream(nil), l.accepted...)
}

// ServerConns returns every server-side connection ever created (accepted or still queued).
func (l *Listener) ServerConns() []*Stream {
	l.mu.Lock()
	defer l.mu.Unlock()
	return append([]*Stream(nil), l.all...)
}

// Datagram is one simulated packet.
type Datagram struct {
	Data []byte
	Addr net.Addr
}

// PacketConn is a simulated datagram socket (server side): implements net.PacketConn.
type PacketConn struct {
	mu         sync.Mutex
	cond       *sync.Cond
	in         []Datagram
	out        map[string][]Datagram
	outCond    *sync.Cond
	closed     bool
	deadline   time.Time
	timer      *time.Timer
	closes     int
	closesDone int
	// HoldNextDelivery: the next datagram read is handed to the caller only after the read deadline
	// has been moved into the past or the socket was closed.
	HoldNextDelivery bool
	holding          bool
	// CloseDelay makes Close take that long before the socket counts as released.
	CloseDelay time.Duration
	// OnSetReadDeadline: see Stream.OnSetReadDeadline.
	OnSetReadDeadline func(t time.Time)
	readErr           error
	readErrs          int
	// Flood, if set, is a datagram that is always ready to be read when nothing else is queued (a socket
	// under constant load); DropWrites discards what the owner sends instead of keeping it for Sent.
	Flood      []byte
	DropWrites bool
}

// FailRead makes the pending (or next) ReadFrom return err once although the socket is open.
func (p *PacketConn) FailRead(err error) {
	p.mu.Lock()
	p.readErr = err
	p.mu.Unlock()
	p.cond.Broadcast()
}

// ReadErrors reports how many injected read errors have been handed out.
func (p *PacketConn) ReadErrors() int { p.mu.Lock(); defer p.mu.Unlock(); return p.readErrs }

// NewPacketConn returns a simulated datagram socket.
func NewPacketConn() *PacketConn {
	p := &PacketConn{out: map[string][]Datagram{}}
	p.cond = sync.NewCond(&p.mu)
	p.outCond = sync.NewCond(&p.mu)
	return p
}

// Inject delivers a datagram from addr to the socket.
func (p *PacketConn) Inject(data []byte, from net.Addr) {
	p.mu.Lock()
	p.in = append(p.in, Datagram{append([]byte(nil), data...), from})
	p.mu.Unlock()
	p.cond.Broadcast()
}

// Sent waits up to d for the next datagram the socket wrote to addr.
func (p *PacketConn) Sent(to net.Addr, d time.Duration) ([]byte, bool) {
	deadline := time.Now().Add(d)
	t := time.AfterFunc(d, p.outCond.Broadcast)
	defer t.Stop()
	p.mu.Lock()
	defer p.mu.Unlock()
	for {
		if q := p.out[to.String()]; len(q) > 0 {
			p.out[to.String()] = q[1:]
			return q[0].Data, true
		}
		if !time.Now().Before(deadline) {
			return nil, false
		}
		p.outCond.Wait()
	}
}

// TakeSent returns (and consumes) the datagrams written to addr so far, without blocking.
func (p *PacketConn) TakeSent(to net.Addr) [][]byte {
	p.mu.Lock()
	defer p.mu.Unlock()
	var out [][]byte
	for _, d := range p.out[to.String()] {
		out = append(out, d.Data)
	}
	delete(p.out, to.String())
	return out
}

// Pending reports the number of datagrams not yet read by the socket's owner.
func (p *PacketConn) Pending() int {
	p.mu.Lock()
	defer p.mu.Unlock()
	return len(p.in)
}

func (p *PacketConn) ReadFrom(b []byte) (int, net.Addr, error) {
	p.mu.Lock()
	defer p.mu.Unlock()
	for {
		if p.closed {
			return 0, nil, net.ErrClosed
		}
		if p.readErr != nil {
			err := p.readErr
			p.readErr = nil
			p.readErrs++
			return 0, nil, err
		}
		if !p.deadline.IsZero() && !time.Now().Before(p.deadline) {
			return 0, nil, timeoutErr{}
		}
		if len(p.in) == 0 && p.Flood != nil {
			return copy(b, p.Flood), Addr("flood"), nil
		}
		if len(p.in) > 0 {
			d := p.in[0]
			p.in = p.in[1:]
			n := copy(b, d.Data)
			if p.HoldNextDelivery {
				// the read has completed inside the "kernel"; it returns to the caller only once
				// somebody has moved the deadline into the past (or closed the socket): a read that
				// finishes at the very moment a shutdown begins
				p.HoldNextDelivery = false
				p.holding = true
				for !p.closed && (p.deadline.IsZero() || time.Now().Before(p.deadline)) {
					p.cond.Wait()
				}
				p.holding = false
			}
			return n, d.Addr, nil
		}
		p.cond.Wait()
	}
}

// Holding reports whether a completed read is being held back (see HoldNextDelivery).
func (p *PacketConn) Holding() bool { p.mu.Lock(); defer p.mu.Unlock(); return p.holding }

// SetHoldNextDelivery arms HoldNextDelivery.
func (p *PacketConn) SetHoldNextDelivery() { p.mu.Lock(); p.HoldNextDelivery = true; p.mu.Unlock() }

func (p *PacketConn) WriteTo(b []byte, addr net.Addr) (int, error) {
	p.mu.Lock()
	defer p.mu.Unlock()
	if p.closed {
		return 0, net.ErrClosed
	}
	if p.DropWrites {
		return len(b), nil
	}
	p.out[addr.String()] = append(p.out[addr.String()], Datagram{append([]byte(nil), b...), addr})
	p.outCond.Broadcast()
	return len(b), nil
}

func (p *PacketConn) Close() error {
	p.mu.Lock()
	p.closes++
	d := p.CloseDelay
	p.mu.Unlock()
	if d > 0 {
		time.Sleep(d) // a socket whose release takes a moment (SO_LINGER-like); Close is synchronous
	}
	p.mu.Lock()
	p.closed = true
	p.closesDone++
	p.mu.Unlock()
	p.cond.Broadcast()
	p.outCond.Broadcast()
	return nil
}

// ClosesDone returns how many Close calls have returned.
func (p *PacketConn) ClosesDone() int { p.mu.Lock(); defer p.mu.Unlock(); return p.closesDone }

// Closes returns how often Close was called.
func (p *PacketConn) Closes() int { p.mu.Lock(); defer p.mu.Unlock(); return p.closes }

func (p *PacketConn) LocalAddr() net.Addr { return Addr("packetconn") }
func (p *PacketConn) SetDeadline(t time.Time) error {
	return p.SetReadDeadline(t)
}
func (p *PacketConn) SetReadDeadline(t time.Time) error {
	if f := p.OnSetReadDeadline; f != nil {
		f(t)
	}
	p.mu.Lock()
	p.deadline = t
	if p.timer != nil {
		p.timer.Stop()
		p.timer = nil
	}
	if !t.IsZero() {
		if d := time.Until(t); d > 0 {
			p.timer = time.AfterFunc(d, p.cond.Broadcast)
		}
	}
	p.mu.Unlock()
	p.cond.Broadcast()
	return nil
}
func (p *PacketConn) SetWriteDeadline(time.Time) error { return nil }

// ScriptedDatagramConn is a client-side datagram connection (net.Conn + net.PacketConn) whose
// incoming datagrams are scripted: each Read returns the next scripted datagram, and blocks
// until the read deadline when the script is exhausted.
type ScriptedDatagramConn struct {
	// ReadGap is slept before each scripted datagram is handed out (time passes between replies).
	ReadGap time.Duration
	// ReadDeadlines records every non-zero read deadline that was set, in order.
	ReadDeadlines []time.Time
	mu            sync.Mutex
	cond          *sync.Cond
	script        [][]byte
	Written       [][]byte
	deadline      time.Time
	timer         *time.Timer
	closed        bool
}

// NewScripted returns a scripted datagram connection.
func NewScripted(replies [][]byte) *ScriptedDatagramConn {
	c := &ScriptedDatagramConn{script: replies}
	c.cond = sync.NewCond(&c.mu)
	return c
}

func (c *ScriptedDatagramConn) Read(b []byte) (int, error) {
	if c.ReadGap > 0 {
		time.Sleep(c.ReadGap)
	}
	c.mu.Lock()
	defer c.mu.Unlock()
	for {
		if c.closed {
			return 0, net.ErrClosed
		}
		if len(c.script) > 0 {
			d := c.script[0]
			c.script = c.script[1:]
			return copy(b, d), nil
		}
		if !c.deadline.IsZero() && !time.Now().Before(c.deadline) {
			return 0, timeoutErr{}
		}
		if c.deadline.IsZero() {
			return 0, timeoutErr{} // never block forever in a scripted test
		}
		c.cond.Wait()
	}
}
func (c *ScriptedDatagramConn) ReadFrom(b []byte) (int, net.Addr, error) {
	n, err := c.Read(b)
	return n, Addr("server"), err
}
func (c *ScriptedDatagramConn) Write(b []byte) (int, error) {
	c.mu.Lock()
	c.Written = append(c.Written, append([]byte(nil), b...))
	c.mu.Unlock()
	return len(b), nil
}
func (c *ScriptedDatagramConn) WriteTo(b []byte, _ net.Addr) (int, error) { return c.Write(b) }
func (c *ScriptedDatagramConn) Close() error {
	c.mu.Lock()
	c.closed = true
	c.mu.Unlock()
	c.cond.Broadcast()
	return nil
}
func (c *ScriptedDatagramConn) LocalAddr() net.Addr  { return Addr("client") }
func (c *ScriptedDatagramConn) RemoteAddr() net.Addr { return Addr("server") }
func (c *ScriptedDatagramConn) SetDeadline(t time.Time) error {
	return c.SetReadDeadline(t)
}
func (c *ScriptedDatagramConn) SetReadDeadline(t time.Time) error {
	c.mu.Lock()
	c.deadline = t
	if !t.IsZero() {
		c.ReadDeadlines = append(c.ReadDeadlines, t)
	}
	if c.timer != nil {
		c.timer.Stop()
	}
	if !t.IsZero() {
		if d := time.Until(t); d > 0 {
			c.timer = time.AfterFunc(d, c.cond.Broadcast)
		}
	}
	c.mu.Unlock()
	c.cond.Broadcast()
	return nil
}
func (c *ScriptedDatagramConn) SetWriteDeadline(time.Time) error { return nil }

// Remaining returns the number of scripted datagrams not consumed.
func (c *ScriptedDatagramConn) Remaining() int {
	c.mu.Lock()
	defer c.mu.Unlock()
	return len(c.script)
}
