// Package bridge converts model records/messages into miekg/dns structs (by Go field name,
// through reflection) and compares library structs with normalisation.
package bridge

import (
	"encoding/base32"
	"encoding/base64"
	"encoding/binary"
	"encoding/hex"
	"fmt"
	"net"
	"reflect"
	"strings"

	"github.com/miekg/dns"

	"verifharness/model"
)

// EscStr is the text the library documents for a decoded <character-string>: `"` and `\`
// backslash-escaped, octets < 0x20 or > 0x7E as \DDD, the rest literal.
func EscStr(b []byte) string {
	var sb strings.Builder
	for _, c := range b {
		switch {
		case c == '"' || c == '\\':
			sb.WriteByte('\\')
			sb.WriteByte(c)
		case c < ' ' || c > '~':
			fmt.Fprintf(&sb, "\\%03d", c)
		default:
			sb.WriteByte(c)
		}
	}
	return sb.String()
}

var b32 = base32.HexEncoding.WithPadding(base32.NoPadding)

func setField(v reflect.Value, name string, val any) error {
	fv := v.FieldByName(name)
	if !fv.IsValid() {
		return fmt.Errorf("struct %s has no field %q", v.Type(), name)
	}
	rv := reflect.ValueOf(val)
	if !rv.Type().AssignableTo(fv.Type()) {
		if rv.Type().ConvertibleTo(fv.Type()) {
			rv = rv.Convert(fv.Type())
		} else {
			return fmt.Errorf("field %s.%s: cannot assign %s to %s", v.Type(), name, rv.Type(), fv.Type())
		}
	}
	fv.Set(rv)
	return nil
}

// BuildOpt builds the library's typed EDNS0 option for a model option.
func BuildOpt(o model.Opt) (dns.EDNS0, error) {
	d := o.Data
	switch o.Code {
	case model.OptLLQ:
		if len(d) != 18 {
			return nil, fmt.Errorf("llq length")
		}
		return &dns.EDNS0_LLQ{Version: binary.BigEndian.Uint16(d), Opcode: binary.BigEndian.Uint16(d[2:]), Error: binary.BigEndian.Uint16(d[4:]),
			Id: binary.BigEndian.Uint64(d[6:]), LeaseLife: binary.BigEndian.Uint32(d[14:])}, nil
	case model.OptUL:
		u := &dns.EDNS0_UL{Lease: binary.BigEndian.Uint32(d)}
		if len(d) == 8 {
			u.KeyLease = binary.BigEndian.Uint32(d[4:])
		}
		return u, nil
	case model.OptNSID:
		return &dns.EDNS0_NSID{Nsid: hex.EncodeToString(d)}, nil
	case model.OptESU:
		return &dns.EDNS0_ESU{Uri: string(d)}, nil
	case model.OptDAU:
		return &dns.EDNS0_DAU{AlgCode: append([]byte{}, d...)}, nil
	case model.OptDHU:
		return &dns.EDNS0_DHU{AlgCode: append([]byte{}, d...)}, nil
	case model.OptN3U:
		return &dns.EDNS0_N3U{AlgCode: append([]byte{}, d...)}, nil
	case model.OptSubnet:
		e := &dns.EDNS0_SUBNET{Family: binary.BigEndian.Uint16(d), SourceNetmask: d[2], SourceScope: d[3]}
		if e.Family == 1 {
			a := make(net.IP, 4)
			copy(a, d[4:])
			e.Address = a.To16()
		} else {
			a := make(net.IP, 16)
			copy(a, d[4:])
			e.Address = a
		}
		return e, nil
	case model.OptExpire:
		if len(d) == 0 {
			return &dns.EDNS0_EXPIRE{Empty: true}, nil
		}
		return &dns.EDNS0_EXPIRE{Expire: binary.BigEndian.Uint32(d)}, nil
	case model.OptCookie:
		return &dns.EDNS0_COOKIE{Cookie: hex.EncodeToString(d)}, nil
	case model.OptKeepalive:
		if len(d) == 0 {
			return &dns.EDNS0_TCP_KEEPALIVE{}, nil
		}
		return &dns.EDNS0_TCP_KEEPALIVE{Timeout: binary.BigEndian.Uint16(d)}, nil
	case model.OptPadding:
		return &dns.EDNS0_PADDING{Padding: append([]byte{}, d...)}, nil
	case model.OptEDE:
		return &dns.EDNS0_EDE{InfoCode: binary.BigEndian.Uint16(d), ExtraText: string(d[2:])}, nil
	case model.OptReporting:
		n, _, _, err := model.DecodeName(d, 0)
		if err != nil {
			return nil, err
		}
		return &dns.EDNS0_REPORTING{AgentDomain: n.Pres()}, nil
	case model.OptZoneVersion:
		if len(d) < 2 {
			return &dns.EDNS0_ZONEVERSION{}, nil
		}
		return &dns.EDNS0_ZONEVERSION{LabelCount: d[0], Type: d[1], Version: string(d[2:])}, nil
	}
	return &dns.EDNS0_LOCAL{Code: o.Code, Data: append([]byte{}, d...)}, nil
}

// BuildSVCParam builds the library's typed SvcParam for a model param.
func BuildSVCParam(p model.SVCParam) (dns.SVCBKeyValue, error) {
	v := p.Value
	switch p.Key {
	case model.SvcMandatory:
		m := &dns.SVCBMandatory{Code: []dns.SVCBKey{}}
		for i := 0; i+1 < len(v); i += 2 {
			m.Code = append(m.Code, dns.SVCBKey(binary.BigEndian.Uint16(v[i:])))
		}
		return m, nil
	case model.SvcALPN:
		a := &dns.SVCBAlpn{Alpn: []string{}}
		for i := 0; i < len(v); {
			l := int(v[i])
			a.Alpn = append(a.Alpn, string(v[i+1:i+1+l]))
			i += 1 + l
		}
		return a, nil
	case model.SvcNoDefALPN:
		return &dns.SVCBNoDefaultAlpn{}, nil
	case model.SvcPort:
		return &dns.SVCBPort{Port: binary.BigEndian.Uint16(v)}, nil
	case model.SvcIPv4Hint:
		h := &dns.SVCBIPv4Hint{}
		for i := 0; i < len(v); i += 4 {
			h.Hint = append(h.Hint, net.IP(append([]byte{}, v[i:i+4]...)))
		}
		return h, nil
	case model.SvcECH:
		return &dns.SVCBECHConfig{ECH: append([]byte{}, v...)}, nil
	case model.SvcIPv6Hint:
		h := &dns.SVCBIPv6Hint{}
		for i := 0; i < len(v); i += 16 {
			h.Hint = append(h.Hint, net.IP(append([]byte{}, v[i:i+16]...)))
		}
		return h, nil
	case model.SvcDoHPath:
		return &dns.SVCBDoHPath{Template: string(v)}, nil
	case model.SvcOHTTP:
		return &dns.SVCBOhttp{}, nil
	}
	return &dns.SVCBLocal{KeyCode: dns.SVCBKey(p.Key), Data: append([]byte{}, v...)}, nil
}

// NewRR instantiates the library struct for a type code (RFC3597 for unknown codes).
func NewRR(t uint16) dns.RR {
	if fn, ok := dns.TypeToRR[t]; ok {
		return fn()
	}
	return new(dns.RFC3597)
}

// Build converts a model record into the library struct a decoder is documented to produce.
func Build(r *model.Rec) (dns.RR, error) {
	rr := NewRR(r.Type)
	rd, _ := r.Rdata()
	hdr := dns.RR_Header{Name: r.Owner.Pres(), Rrtype: r.Type, Class: r.Class, Ttl: r.TTL, Rdlength: uint16(len(rd))}
	if r.NoRdata {
		a := &dns.ANY{Hdr: hdr}
		return a, nil
	}
	*rr.Header() = hdr
	v := reflect.ValueOf(rr).Elem()
	for i, fd := range r.L.Fields {
		val := r.Vals[i]
		var err error
		switch fd.Kind {
		case model.KU8, model.KU16, model.KU32, model.KU48, model.KU64:
			err = setField(v, fd.Go, val.(uint64))
		case model.KA, model.KAAAA:
			err = setField(v, fd.Go, net.IP(append([]byte{}, val.([]byte)...)))
		case model.KName, model.KCName:
			err = setField(v, fd.Go, val.(model.Name).Pres())
		case model.KStr:
			err = setField(v, fd.Go, EscStr(val.([]byte)))
		case model.KStrs:
			var ss []string
			for _, s := range val.([][]byte) {
				ss = append(ss, EscStr(s))
			}
			err = setField(v, fd.Go, ss)
		case model.KStrOpt:
			o := val.(model.OptStr)
			if o.Present {
				err = setField(v, fd.Go, EscStr(o.S))
			}
		case model.KHex, model.KHexN:
			err = setField(v, fd.Go, hex.EncodeToString(val.([]byte)))
		case model.KB64, model.KB64N:
			err = setField(v, fd.Go, base64.StdEncoding.EncodeToString(val.([]byte)))
		case model.KB32N:
			err = setField(v, fd.Go, b32.EncodeToString(val.([]byte)))
		case model.KRaw:
			err = setField(v, fd.Go, string(val.([]byte)))
		case model.KOctet: // text in which a backslash starts an escape: a literal one is doubled
			err = setField(v, fd.Go, strings.ReplaceAll(string(val.([]byte)), `\`, `\\`))
		case model.KBitmap:
			err = setField(v, fd.Go, append([]uint16(nil), val.([]uint16)...))
		case model.KAPL:
			var ps []dns.APLPrefix
			for _, it := range val.([]model.APLItem) {
				n := 4
				if it.Family == 2 {
					n = 16
				}
				ip := make(net.IP, n)
				copy(ip, it.AFD)
				ps = append(ps, dns.APLPrefix{Negation: it.Neg, Network: net.IPNet{IP: ip, Mask: net.CIDRMask(int(it.Prefix), 8*n)}})
			}
			err = setField(v, fd.Go, ps)
		case model.KSVCB:
			var kv []dns.SVCBKeyValue
			for _, p := range val.([]model.SVCParam) {
				x, e := BuildSVCParam(p)
				if e != nil {
					return nil, e
				}
				kv = append(kv, x)
			}
			err = setField(v, fd.Go, kv)
		case model.KOPT:
			var os []dns.EDNS0
			for _, o := range val.([]model.Opt) {
				x, e := BuildOpt(o)
				if e != nil {
					return nil, e
				}
				os = append(os, x)
			}
			err = setField(v, fd.Go, os)
		case model.KGateway:
			g := val.(model.Gateway)
			switch g.Type {
			case 1, 2:
				err = setField(v, "GatewayAddr", net.IP(append([]byte{}, g.Addr...)))
			case 3:
				err = setField(v, "GatewayHost", g.Host.Pres())
			}
		case model.KNames:
			var ss []string
			for _, n := range val.([]model.Name) {
				ss = append(ss, n.Pres())
			}
			err = setField(v, fd.Go, ss)
		default:
			err = fmt.Errorf("kind %d not handled", fd.Kind)
		}
		if err != nil {
			return nil, err
		}
	}
	return rr, nil
}

// BuildMsg converts a model message (12-bit rcode = low 4 bits of Bits | OPT ext-rcode<<4).
func BuildMsg(m *model.Msg) (*dns.Msg, error) {
	d := new(dns.Msg)
	d.Id = m.ID
	b := m.Bits
	d.Response = b&0x8000 != 0
	d.Opcode = int(b>>11) & 0xF
	d.Authoritative = b&0x0400 != 0
	d.Truncated = b&0x0200 != 0
	d.RecursionDesired = b&0x0100 != 0
	d.RecursionAvailable = b&0x0080 != 0
	d.Zero = b&0x0040 != 0
	d.AuthenticatedData = b&0x0020 != 0
	d.CheckingDisabled = b&0x0010 != 0
	d.Rcode = int(b & 0xF)
	for _, q := range m.Q {
		d.Question = append(d.Question, dns.Question{Name: q.Name.Pres(), Qtype: q.Type, Qclass: q.Class})
	}
	secs := []*[]dns.RR{&d.Answer, &d.Ns, &d.Extra}
	for i, sec := range [][]*model.Rec{m.An, m.Ns, m.Ar} {
		for _, r := range sec {
			rr, err := Build(r)
			if err != nil {
				return nil, err
			}
			*secs[i] = append(*secs[i], rr)
			if r.Type == 41 && i == 2 {
				d.Rcode |= int(r.TTL>>24) << 4
			}
		}
	}
	return d, nil
}

// Diff compares two library values with the documented normalisations and returns "" when
// equal, else a description of the first difference. Normalisations: nil slice == empty slice;
// net.IP compared as 16-octet form; the Code field of typed EDNS0 options (not EDNS0_LOCAL)
// and EDNS0_TCP_KEEPALIVE.Length are ignored.
func Diff(a, b any) string {
	return diff(reflect.ValueOf(a), reflect.ValueOf(b), "")
}

// DiffNoRdlen is Diff ignoring RR_Header.Rdlength (which reflects the encoding a record was
// read from, e.g. compressed or not).
func DiffNoRdlen(a, b any) string {
	ignoreRdlen = true
	defer func() { ignoreRdlen = false }()
	return diff(reflect.ValueOf(a), reflect.ValueOf(b), "")
}

var ignoreRdlen bool // only toggled by single-goroutine monitors

var ipType = reflect.TypeOf(net.IP{})

func diff(a, b reflect.Value, path string) string {
	if a.IsValid() != b.IsValid() {
		return fmt.Sprintf("%s: one side invalid", path)
	}
	if !a.IsValid() {
		return ""
	}
	if a.Type() != b.Type() {
		return fmt.Sprintf("%s: type %s vs %s", path, a.Type(), b.Type())
	}
	if a.Type() == ipType {
		x, y := a.Interface().(net.IP), b.Interface().(net.IP)
		if len(x) == 0 && len(y) == 0 {
			return ""
		}
		if x.To16() != nil && y.To16() != nil {
			if x.Equal(y) {
				return ""
			}
			return fmt.Sprintf("%s: IP %v vs %v", path, x, y)
		}
		if string(x) != string(y) {
			return fmt.Sprintf("%s: IP %x vs %x", path, []byte(x), []byte(y))
		}
		return ""
	}
	switch a.Kind() {
	case reflect.Ptr, reflect.Interface:
		if a.IsNil() != b.IsNil() {
			return fmt.Sprintf("%s: nil vs non-nil", path)
		}
		if a.IsNil() {
			return ""
		}
		return diff(a.Elem(), b.Elem(), path)
	case reflect.Struct:
		tn := a.Type().Name()
		for i := 0; i < a.NumField(); i++ {
			fn := a.Type().Field(i).Name
			if strings.HasPrefix(tn, "EDNS0_") && tn != "EDNS0_LOCAL" && (fn == "Code" || fn == "Length") {
				continue
			}
			if a.Type().Field(i).PkgPath != "" { // unexported
				continue
			}
			if ignoreRdlen && fn == "Rdlength" && tn == "RR_Header" {
				continue
			}
			if d := diff(a.Field(i), b.Field(i), path+"."+fn); d != "" {
				return d
			}
		}
		return ""
	case reflect.Slice:
		if a.Len() != b.Len() {
			return fmt.Sprintf("%s: len %d vs %d (%v vs %v)", path, a.Len(), b.Len(), short(a), short(b))
		}
		for i := 0; i < a.Len(); i++ {
			if d := diff(a.Index(i), b.Index(i), fmt.Sprintf("%s[%d]", path, i)); d != "" {
				return d
			}
		}
		return ""
	case reflect.String:
		if a.String() != b.String() {
			return fmt.Sprintf("%s: %q vs %q", path, cut(a.String()), cut(b.String()))
		}
		return ""
	default:
		if !reflect.DeepEqual(a.Interface(), b.Interface()) {
			return fmt.Sprintf("%s: %v vs %v", path, a.Interface(), b.Interface())
		}
		return ""
	}
}

func short(v reflect.Value) string { return cut(fmt.Sprintf("%v", v.Interface())) }

func cut(s string) string {
	if len(s) > 120 {
		return s[:120] + "..."
	}
	return s
}
