// Package graph walks the object graph of a value (exported and unexported fields,
// interfaces, pointers, slices, maps) and reports the address ranges of its mutable memory.
package graph

import (
	"fmt"
	"reflect"
	"sort"
	"unsafe"
)

// Range is a half-open address range [Lo,Hi) of memory reachable from the walked value.
type Range struct {
	Lo, Hi uintptr
	Path   string
	Kind   string // "slice", "ptr", "map", "string"
}

type walker struct {
	out     []Range
	strings bool
	seen    map[uintptr]bool
}

// Mutable returns the ranges of all slice backing arrays, pointer targets and maps reachable
// from v. Strings are immutable and not included.
func Mutable(v any) []Range {
	w := &walker{seen: map[uintptr]bool{}}
	w.walk(reflect.ValueOf(v), "")
	return w.out
}

// All is Mutable plus the data of every non-empty string.
func All(v any) []Range {
	w := &walker{seen: map[uintptr]bool{}, strings: true}
	w.walk(reflect.ValueOf(v), "")
	return w.out
}

func (w *walker) walk(v reflect.Value, path string) {
	if !v.IsValid() {
		return
	}
	switch v.Kind() {
	case reflect.Ptr:
		if v.IsNil() {
			return
		}
		p := v.Pointer()
		sz := v.Type().Elem().Size()
		if sz > 0 {
			if w.seen[p] {
				return
			}
			w.seen[p] = true
			w.out = append(w.out, Range{Lo: p, Hi: p + sz, Path: path, Kind: "ptr"})
		}
		w.walk(v.Elem(), path)
	case reflect.Interface:
		if v.IsNil() {
			return
		}
		w.walk(v.Elem(), path)
	case reflect.Struct:
		for i := 0; i < v.NumField(); i++ {
			w.walk(v.Field(i), path+"."+v.Type().Field(i).Name)
		}
	case reflect.Slice:
		if v.IsNil() || v.Cap() == 0 {
			return
		}
		p := v.Pointer()
		es := v.Type().Elem().Size()
		if es > 0 {
			w.out = append(w.out, Range{Lo: p, Hi: p + uintptr(v.Cap())*es, Path: path, Kind: "slice"})
		}
		switch v.Type().Elem().Kind() {
		case reflect.Ptr, reflect.Interface, reflect.Struct, reflect.Slice, reflect.Map, reflect.String, reflect.Array:
			for i := 0; i < v.Len(); i++ {
				w.walk(v.Index(i), fmt.Sprintf("%s[%d]", path, i))
			}
		}
	case reflect.Array:
		switch v.Type().Elem().Kind() {
		case reflect.Ptr, reflect.Interface, reflect.Struct, reflect.Slice, reflect.Map, reflect.String, reflect.Array:
			for i := 0; i < v.Len(); i++ {
				w.walk(v.Index(i), fmt.Sprintf("%s[%d]", path, i))
			}
		}
	case reflect.Map:
		if v.IsNil() {
			return
		}
		p := v.Pointer()
		w.out = append(w.out, Range{Lo: p, Hi: p + 1, Path: path, Kind: "map"})
		it := v.MapRange()
		for it.Next() {
			w.walk(it.Value(), path+"[k]")
		}
	case reflect.String:
		if w.strings && v.Len() > 0 {
			s := v.String()
			p := uintptr(unsafe.Pointer(unsafe.StringData(s)))
			w.out = append(w.out, Range{Lo: p, Hi: p + uintptr(len(s)), Path: path, Kind: "string"})
		}
	}
}

// Overlap returns a pair of overlapping ranges from a and b, if any (sweep over start addresses).
func Overlap(a, b []Range) (Range, Range, bool) {
	type item struct {
		r    Range
		side int
	}
	items := make([]item, 0, len(a)+len(b))
	for _, r := range a {
		items = append(items, item{r, 0})
	}
	for _, r := range b {
		items = append(items, item{r, 1})
	}
	sort.Slice(items, func(i, j int) bool { return items[i].r.Lo < items[j].r.Lo })
	var best [2]Range // the range with the largest Hi seen so far, per side
	var have [2]bool
	for _, it := range items {
		o := 1 - it.side
		if have[o] && best[o].Hi > it.r.Lo {
			if it.side == 0 {
				return it.r, best[o], true
			}
			return best[o], it.r, true
		}
		if !have[it.side] || it.r.Hi > best[it.side].Hi {
			best[it.side], have[it.side] = it.r, true
		}
	}
	return Range{}, Range{}, false
}

// OverlapBuf reports a range of rs that intersects [lo,hi).
func OverlapBuf(rs []Range, lo, hi uintptr) (Range, bool) {
	for _, r := range rs {
		if r.Hi > lo && r.Lo < hi {
			return r, true
		}
	}
	return Range{}, false
}

// Clone deep-copies a value (exported fields; unexported fields are copied shallowly with
// their containing struct).
func Clone(v any) any {
	if v == nil {
		return nil
	}
	return clone(reflect.ValueOf(v)).Interface()
}

func clone(v reflect.Value) reflect.Value {
	switch v.Kind() {
	case reflect.Ptr:
		if v.IsNil() {
			return v
		}
		n := reflect.New(v.Type().Elem())
		n.Elem().Set(clone(v.Elem()))
		return n
	case reflect.Interface:
		if v.IsNil() {
			return v
		}
		n := reflect.New(v.Type()).Elem()
		n.Set(clone(v.Elem()))
		return n
	case reflect.Struct:
		n := reflect.New(v.Type()).Elem()
		n.Set(v) // brings unexported fields along
		for i := 0; i < v.NumField(); i++ {
			if v.Type().Field(i).PkgPath != "" {
				continue
			}
			n.Field(i).Set(clone(v.Field(i)))
		}
		return n
	case reflect.Slice:
		if v.IsNil() {
			return v
		}
		n := reflect.MakeSlice(v.Type(), v.Len(), v.Len())
		for i := 0; i < v.Len(); i++ {
			n.Index(i).Set(clone(v.Index(i)))
		}
		return n
	case reflect.Map:
		if v.IsNil() {
			return v
		}
		n := reflect.MakeMapWithSize(v.Type(), v.Len())
		it := v.MapRange()
		for it.Next() {
			n.SetMapIndex(it.Key(), clone(it.Value()))
		}
		return n
	default:
		return v
	}
}
