package mon

import (
	"bytes"
	"encoding/base64"
	"encoding/binary"
	"fmt"
	"strings"
	"time"

	"github.com/miekg/dns"

	"verifharness/core"
	"verifharness/model"
)

// sig0Parts locates the parts of a SIG(0)-signed message with a strict independent walk.
type sig0Parts struct {
	bodyEnd   int // offset of the SIG RR
	rdStart   int // start of the SIG RDATA
	signerEnd int // end of the signer name = start of the signature
	alg       uint8
	signer    model.Name
	expire    uint32
	incept    uint32
	keyTag    uint16
}

func sig0Split(msg []byte) (sig0Parts, bool) {
	var p sig0Parts
	if len(msg) < 12 {
		return p, false
	}
	qd := int(binary.BigEndian.Uint16(msg[4:]))
	n := int(binary.BigEndian.Uint16(msg[6:])) + int(binary.BigEndian.Uint16(msg[8:])) + int(binary.BigEndian.Uint16(msg[10:]))
	if binary.BigEndian.Uint16(msg[10:]) == 0 {
		return p, false
	}
	off := 12
	for i := 0; i < qd; i++ {
		_, next, _, err := model.DecodeName(msg, off)
		if err != nil || next+4 > len(msg) {
			return p, false
		}
		off = next + 4
	}
	last := 0
	for i := 0; i < n; i++ {
		last = off
		_, next, _, err := model.DecodeName(msg, off)
		if err != nil || next+10 > len(msg) {
			return p, false
		}
		off = next + 10 + int(binary.BigEndian.Uint16(msg[next+8:]))
		if off > len(msg) && i < n-1 {
			return p, false
		}
		// the RDLENGTH of the last record (the SIG RR's own header) is covered by nothing and
		// outside the statement: the record is taken to extend to the end of the octets
	}
	p.bodyEnd = last
	_, next, _, err := model.DecodeName(msg, last)
	if err != nil {
		return p, false
	}
	p.rdStart = next + 10
	q := p.rdStart
	if q+18 > len(msg) {
		return p, false
	}
	p.alg = msg[q+2]
	p.expire = binary.BigEndian.Uint32(msg[q+8:])
	p.incept = binary.BigEndian.Uint32(msg[q+12:])
	p.keyTag = binary.BigEndian.Uint16(msg[q+16:])
	sn, se, _, err := model.DecodeName(msg, q+18)
	if err != nil {
		return p, false
	}
	p.signer, p.signerEnd = sn, se
	return p, true
}

// sig0ModelVerify: RFC 2931 s.3.1: signature over SIG RDATA (less the signature) || message
// without the SIG RR (ARCOUNT as before signing).
func sig0ModelVerify(msg []byte, keyName model.Name, alg uint8, pub []byte, now uint32) (bool, string) {
	p, ok := sig0Split(msg)
	if !ok {
		return false, "does not parse / no SIG as last record"
	}
	if !p.signer.EqualFold(keyName) {
		return false, "signer name"
	}
	if now < p.incept || now > p.expire {
		return false, "time"
	}
	data := append([]byte(nil), msg[p.rdStart:p.signerEnd]...)
	body := append([]byte(nil), msg[:p.bodyEnd]...)
	binary.BigEndian.PutUint16(body[10:], binary.BigEndian.Uint16(body[10:])-1)
	data = append(data, body...)
	if !model.VerifySig(alg, pub, data, msg[p.signerEnd:]) {
		return false, "signature"
	}
	return true, ""
}

func c18Case(w *core.W, j int) {
	g := model.NewGen(w.Rng(j))
	g.NoHuge = true
	g.MaxOpaque = 40
	r := g.R
	alg := allAlgs[j%len(allAlgs)]
	bits := algBits[alg][0]
	if j%12 >= 6 {
		bits = algBits[alg][len(algBits[alg])-1] // incl. the largest RSA modulus the library accepts
	}
	keyName := model.Name{[]byte("Sig0"), []byte("example")}
	if j%5 == 1 {
		keyName = model.Name{[]byte("upd[1]^"), []byte("k`eys{2}"), []byte("example")} // octets whose 0x20-partner is not a letter either
	}
	k, err := getKey(alg, bits, keyName.Pres(), 512, 3)
	if err != nil {
		w.Inconclusive("keygen:" + err.Error())
		return
	}
	if j == 5 { // (one case per run) a key whose tag is 0
		if k0, e0 := tagZeroKey(keyName.Pres(), 512); e0 == nil {
			k = k0
			w.Count("tag_zero_keys", 1)
		}
	}
	an := algName(alg)
	key := &dns.KEY{DNSKEY: *dns.Copy(k.Key).(*dns.DNSKEY)}
	key.Hdr.Rrtype = dns.TypeKEY
	pub, _ := base64.StdEncoding.DecodeString(k.Key.PublicKey)
	// the message
	var mm *model.Msg
	kind := ""
	switch j % 6 {
	case 0:
		mm = &model.Msg{ID: uint16(r.IntN(65536)), Bits: 0x2800, Q: []model.Question{{Name: model.Name{[]byte("update"), []byte("example")}, Type: 6, Class: 1}}}
		kind = "update-header-only"
	case 1: // heavily compressible: many records under one long name
		mm = genCommonMsg(g, 5+r.IntN(30), false)
		long := g.NameOfWireLen(120 + r.IntN(100))
		for _, sec := range [][]*model.Rec{mm.An, mm.Ns, mm.Ar} {
			for _, x := range sec {
				x.Owner = long.Clone()
			}
		}
		kind = "compressible"
		if j%24 == 7 {
			// so many records under one long owner that the message does not fit 64 KiB until it is compressed
			// (this kind is always packed with compression): a few KiB on the wire
			mm = &model.Msg{ID: uint16(r.IntN(65536)), Bits: 0x8400, Q: []model.Question{{Name: long.Clone(), Type: 1, Class: 1}}}
			for i := 0; i < 330+r.IntN(150); i++ {
				mm.An = append(mm.An, &model.Rec{Owner: long.Clone(), Type: 1, Class: 1, TTL: 60, L: model.Layouts[1], Vals: []any{[]byte{10, byte(j), byte(i >> 8), byte(i)}}})
			}
			kind = "compressible-over-64k-uncompressed"
			w.Count("messages_over_64k_until_compressed", 1)
		}
	case 2: // 256 or more additional records
		mm = &model.Msg{ID: 7, Bits: 0x8000, Q: []model.Question{{Name: model.Name{[]byte("many")}, Type: 1, Class: 1}}}
		n := []int{254, 255, 256, 257, 300, 512}[r.IntN(6)]
		for i := 0; i < n; i++ {
			mm.Ar = append(mm.Ar, &model.Rec{Owner: model.Name{[]byte{byte('a' + i%26)}}, Type: 1, Class: 1, TTL: 1, L: model.Layouts[1], Vals: []any{[]byte{1, 2, byte(i >> 8), byte(i)}}})
		}
		kind = fmt.Sprintf("additional-%d", n)
	case 3:
		mm = genPoolMsg(g, g.Len(0, 25))
		kind = "pool"
	default:
		mm = genMsg(g, c01Layouts(), 1+r.IntN(6))
		kind = "alltypes"
	}
	if len(mm.Wire()) > 60000 && kind != "compressible-over-64k-uncompressed" {
		return
	}
	m, err := buildMsgAny(mm)
	if err != nil {
		return
	}
	m.Compress = j%2 == 1
	plain, perr := m.Copy().Pack()
	mc := m.Copy()
	mc.Compress = m.Compress
	plain, perr = mc.Pack()
	if perr != nil {
		w.Count("unpackable", 1)
		return
	}
	now := uint32(time.Now().Unix())
	sig := &dns.SIG{RRSIG: dns.RRSIG{KeyTag: key.KeyTag(), SignerName: keyName.Pres(), Algorithm: alg, Inception: now - 7200, Expiration: now + 7200}}
	wit := map[string]any{"alg": an, "kind": kind, "compress": m.Compress, "message": hx(plain)}
	if j%4 == 2 {
		// a SIG value that already has a header of its own - a template read from a zone file or filled in
		// with the signer as owner: what is appended is still a record the verifier can find and check
		sig.Hdr = dns.RR_Header{Name: []string{keyName.Pres(), "sig-template.example.", "x."}[j/4%3], Rrtype: dns.TypeSIG, Class: []uint16{dns.ClassANY, dns.ClassINET}[j/4%2], Ttl: 300}
		wit["sig_header_preset"] = sig.Hdr.Name
		w.Count("sig_templates_with_header", 1)
	}
	var out []byte
	w.Eval(1)
	if w.Guard("SIG.Sign", wit, func() { out, err = sig.Sign(k.Priv, m) }) {
		return
	}
	keyf := func(s string) string { return "C18/" + s + "/" + an }
	if err != nil {
		if key.KeyTag() == 0 {
			w.Violation("C18/sign-fails/key-tag-0", fmt.Sprintf("Sign with a key whose (correct) tag is 0 fails: %v", err), wit)
			return
		}
		w.Violation(keyf("sign-fails/"+kindClass(kind)), fmt.Sprintf("Sign failed on a packable %d-octet message (compress=%v, kind %s): %v", len(plain), m.Compress, kind, err), wit)
		return
	}
	w.Count("signed", 1)
	w.Cover("alg", an)
	w.Cover("kind", kindClass(kind))
	w.Nontrivial(out)
	wit["signed"] = hx(out)
	// (b) shape
	p, ok := sig0Split(out)
	if !ok {
		w.Violation(keyf("sign-shape/no-sig-record"), "the output of Sign does not end in a well-formed record after the message", wit)
		return
	}
	body := append([]byte(nil), out[:p.bodyEnd]...)
	binary.BigEndian.PutUint16(body[10:], binary.BigEndian.Uint16(body[10:])-1)
	if !bytes.Equal(body, plain) {
		w.Violation(keyf("sign-shape/message-octets"), "the signed octets before the SIG record are not the packed message (with ARCOUNT+1): "+diffWin(body, plain), wit)
	}
	if binary.BigEndian.Uint16(out[p.bodyEnd+1:]) != dns.TypeSIG || out[p.bodyEnd] != 0 {
		w.Violation(keyf("sign-shape/sig-header"), "the appended record is not a SIG record owned by the root", wit)
	}
	// (c) independent verification
	if ok, why := sig0ModelVerify(out, keyName, alg, pub, now); !ok {
		w.Violation(keyf("sign-output-invalid"), "the signed message does not verify under RFC 2931 with the matching KEY: "+why, wit)
		return
	}
	// (d) library verification
	verify := func(s *dns.SIG, kk *dns.KEY, b []byte) (error, bool) {
		cp := append([]byte(nil), b...)
		var verr error
		if w.Guard("SIG.Verify", map[string]any{"alg": an, "input": hx(b)}, func() { verr = s.Verify(kk, cp) }) {
			return nil, false
		}
		w.Eval(1)
		return verr, true
	}
	if verr, ok := verify(sig, key, out); ok && verr != nil {
		w.Violation(keyf("own-signature-rejected/"+kindClass(kind)), fmt.Sprintf("Verify rejects what Sign produced (%d octets, kind %s): %v", len(out), kind, verr), wit)
		return
	}
	// the same SIG value signs the next message (a signer keeps one SIG template per key)
	{
		m4 := m.Copy()
		m4.Compress = m.Compress
		m4.Id ^= 0x5555
		var o4 []byte
		var e4 error
		reused := dns.Copy(sig).(*dns.SIG) // carries the Signature of the first call, like the original
		if !w.Guard("SIG.Sign(reused)", wit, func() { o4, e4 = reused.Sign(k.Priv, m4) }) {
			w.Count("reused_sig_signings", 1)
			if e4 != nil {
				w.Violation(keyf("reused-sig/sign-error"), fmt.Sprintf("signing a second message with the same SIG value fails: %v", e4), wit)
			} else if ok, why := sig0ModelVerify(o4, keyName, alg, pub, now); !ok {
				w.Violation(keyf("reused-sig/sign-output-invalid"), "a second message signed with the same SIG value does not verify under RFC 2931: "+why, wit)
			} else if verr, ok := verify(reused, key, o4); ok && verr != nil {
				w.Violation(keyf("reused-sig/own-signature-rejected"), fmt.Sprintf("Verify rejects the second message signed with the same SIG value: %v", verr), wit)
			}
		}
	}
	// with the SIG as a receiver would have it: decoded from the signed octets
	var rsig *dns.SIG
	{
		m2 := new(dns.Msg)
		if m2.Unpack(out) == nil && len(m2.Extra) > 0 {
			if s, ok := m2.Extra[len(m2.Extra)-1].(*dns.SIG); ok {
				rsig = s
				if verr, ok := verify(rsig, key, out); ok && verr != nil {
					w.Violation(keyf("decoded-signature-rejected"), fmt.Sprintf("Verify with the SIG decoded from the signed message fails: %v", verr), wit)
				}
			}
		}
	}
	// (e) tampering: message part and SIG RDATA
	judge := func(name string, b []byte) {
		verr, ok := verify(sig, key, b)
		if !ok {
			return
		}
		w.Cover("alteration", name)
		if verr != nil {
			w.Count("alterations_rejected", 1)
			return
		}
		if ma, why := sig0ModelVerify(b, keyName, alg, pub, now); !ma {
			w.Violation(keyf("accepts-altered/"+name), fmt.Sprintf("Verify accepts after %q; the independent RFC 2931 check says: %s", name, why), map[string]any{"altered": hx(b), "original": hx(out), "alg": an})
		} else {
			w.Count("alterations_still_valid", 1)
		}
	}
	var bitsToFlip []int
	covered := func(bit int) bool { o := bit / 8; return o < p.bodyEnd || o >= p.rdStart }
	if len(out) <= 220 {
		for b := 0; b < len(out)*8; b++ {
			if covered(b) {
				bitsToFlip = append(bitsToFlip, b)
			}
		}
		w.Count("exhaustive_bitflip_messages", 1)
	} else {
		for len(bitsToFlip) < 160 {
			if b := r.IntN(len(out) * 8); covered(b) {
				bitsToFlip = append(bitsToFlip, b)
			}
		}
		for b := 0; b < 96; b++ { // the whole header always
			bitsToFlip = append(bitsToFlip, b)
		}
	}
	for _, bit := range bitsToFlip {
		b := append([]byte(nil), out...)
		b[bit/8] ^= 1 << (bit % 8)
		region := "message"
		switch o := bit / 8; {
		case o < 12:
			region = "header"
		case o >= p.signerEnd:
			region = "signature"
		case o >= p.rdStart:
			region = "sig-rdata"
		}
		judge("bit/"+region, b)
	}
	// (f) another key, another signer name
	if k2, err := getKey(alg, bits, keyName.Pres(), 512, 4); err == nil {
		key2 := &dns.KEY{DNSKEY: *dns.Copy(k2.Key).(*dns.DNSKEY)}
		key2.Hdr.Rrtype = dns.TypeKEY
		if verr, ok := verify(sig, key2, out); ok && verr == nil {
			w.Violation(keyf("accepts-other-key"), "the signed message verifies under a different key of the same algorithm", wit)
		}
		key3 := &dns.KEY{DNSKEY: *dns.Copy(k.Key).(*dns.DNSKEY)}
		key3.Hdr.Rrtype = dns.TypeKEY
		key3.Hdr.Name = "other.example."
		if verr, ok := verify(sig, key3, out); ok && verr == nil {
			w.Violation(keyf("accepts-other-signer-name"), "the signed message verifies although the key's owner differs from the signer name", wit)
		}
		w.Count("key_alterations", 2)
		// the same KEY value used again after its fields were replaced in place (an entry of a
		// long-lived key table rolled over): what counts is what the KEY holds when Verify is called
		if key2.KeyTag() != 0 {
			live := &dns.KEY{DNSKEY: *dns.Copy(k.Key).(*dns.DNSKEY)}
			live.Hdr.Rrtype = dns.TypeKEY
			if verr, ok := verify(sig, live, out); ok && verr == nil {
				live.PublicKey = key2.PublicKey
				sigTag := *sig
				sigTag.KeyTag = live.KeyTag() // the tag check is not what this is about
				if verr, ok := verify(&sigTag, live, out); ok && verr == nil {
					w.Violation(keyf("accepts-other-key/replaced-in-place"), "after the KEY's public key was replaced in place by another key's, a message signed with the old key still verifies against it", wit)
				}
				s6 := &dns.SIG{RRSIG: dns.RRSIG{KeyTag: live.KeyTag(), SignerName: keyName.Pres(), Algorithm: alg, Inception: now - 7200, Expiration: now + 7200}}
				m6 := m.Copy()
				m6.Compress = m.Compress
				if o6, err := s6.Sign(k2.Priv, m6); err == nil {
					if verr, ok := verify(s6, live, o6); ok && verr != nil {
						w.Violation(keyf("own-signature-rejected/key-replaced-in-place"), fmt.Sprintf("a message signed with the key the KEY now holds is rejected: %v", verr), wit)
					}
				}
				w.Count("keys_replaced_in_place", 1)
			}
		}
		// a KEY of every other algorithm family published under the signer's name: an error, not a panic
		for _, oa := range allAlgs {
			if oa == alg {
				continue
			}
			ok2, err := getKey(oa, algBits[oa][0], keyName.Pres(), 512, 3)
			if err != nil {
				continue
			}
			key5 := &dns.KEY{DNSKEY: *dns.Copy(ok2.Key).(*dns.DNSKEY)}
			key5.Hdr.Rrtype = dns.TypeKEY
			for _, tagged := range []bool{false, true} {
				s5 := sig
				if tagged { // and with the key tag made to match, so that whatever lies behind the tag check is reached
					s5 = dns.Copy(sig).(*dns.SIG)
					s5.KeyTag = key5.KeyTag()
				}
				if verr, ok := verify(s5, key5, out); ok && verr == nil {
					w.Violation(keyf("accepts-key-of-other-algorithm/"+algName(oa)), "the signed message verifies under a KEY of another algorithm", wit)
				}
				w.Count("key_alterations", 1)
			}
		}
		// a key owner in which a letter of the signer name is replaced by a Unicode character that
		// "folds" to it (U+017F long s, U+212A Kelvin sign): another name, whatever Unicode says
		{
			kn := keyName.Pres()
			for _, fp := range [][2]string{{"s", "\u017f"}, {"S", "\u017f"}, {"k", "\u212a"}, {"K", "\u212a"}} {
				if i := strings.Index(kn, fp[0]); i >= 0 {
					key7 := &dns.KEY{DNSKEY: *dns.Copy(k.Key).(*dns.DNSKEY)}
					key7.Hdr.Rrtype = dns.TypeKEY
					key7.Hdr.Name = kn[:i] + fp[1] + kn[i+1:]
					if verr, ok := verify(sig, key7, out); ok && verr == nil {
						w.Violation(keyf("accepts-other-signer-name/unicode-fold"), fmt.Sprintf("signer %q verifies under a key owned by %q", kn, key7.Hdr.Name), wit)
					}
					w.Count("key_alterations", 1)
				}
			}
		}
		// the right owner, algorithm and tag field, but a public key that cannot be a key of that
		// algorithm (too short, too long, empty, not base64): an error, for the genuine message too
		{
			raw, _ := base64.StdEncoding.DecodeString(k.Key.PublicKey)
			for di, dmg := range []string{base64.StdEncoding.EncodeToString(raw[:len(raw)-1]), base64.StdEncoding.EncodeToString(append(append([]byte{}, raw...), 0)), "", "!!!not-base64!!!", base64.StdEncoding.EncodeToString(raw[:1])} {
				key6 := &dns.KEY{DNSKEY: *dns.Copy(k.Key).(*dns.DNSKEY)}
				key6.Hdr.Rrtype = dns.TypeKEY
				key6.PublicKey = dmg
				s6 := dns.Copy(sig).(*dns.SIG)
				if verr, ok := verify(s6, key6, out); ok && verr == nil {
					w.Violation(keyf(fmt.Sprintf("accepts-damaged-key/%d", di)), fmt.Sprintf("the signed message verifies under a KEY whose public key is %q", cutS(dmg)), wit)
				}
				s6.KeyTag = key6.KeyTag()
				if verr, ok := verify(s6, key6, out); ok && verr == nil {
					w.Violation(keyf(fmt.Sprintf("accepts-damaged-key/%d+tag", di)), fmt.Sprintf("the signed message verifies under a KEY whose public key is %q (tag matched)", cutS(dmg)), wit)
				}
				w.Count("key_alterations", 2)
			}
		}
		// a key owner that differs from the signer name in one octet by 0x20 where neither is a letter
		kn := keyName.Pres()
		for i := 0; i < len(kn); i++ {
			switch kn[i] {
			case '[', ']', '^', '`', '{', '}', '~':
				key4 := &dns.KEY{DNSKEY: *dns.Copy(k.Key).(*dns.DNSKEY)}
				key4.Hdr.Rrtype = dns.TypeKEY
				key4.Hdr.Name = kn[:i] + string(kn[i]^0x20) + kn[i+1:]
				if verr, ok := verify(sig, key4, out); ok && verr == nil {
					w.Violation(keyf("accepts-other-signer-name/0x20-nonletter"), fmt.Sprintf("signer %q verifies under a key owned by %q", kn, key4.Hdr.Name), wit)
				}
				w.Count("key_alterations", 1)
			}
		}
	}
	// (g) outside the window (one hour margins to the real clock)
	// ... and windows that are empty because the expiration lies before the inception
	for _, win := range [][2]uint32{{now - 7200, now - 3600}, {now + 3600, now + 7200}, {now - 3600, now - 7200}, {now + 7200, now + 3600}, {now - 3600, 0}, {now - 3600, 1}, {0xFFFFFFFF, now + 3600}} {
		s2 := &dns.SIG{RRSIG: dns.RRSIG{KeyTag: key.KeyTag(), SignerName: keyName.Pres(), Algorithm: alg, Inception: win[0], Expiration: win[1]}}
		m3 := m.Copy()
		m3.Compress = m.Compress
		o2, err := s2.Sign(k.Priv, m3)
		if err != nil {
			continue
		}
		if verr, ok := verify(s2, key, o2); ok && verr == nil {
			w.Violation(keyf("accepts-outside-window"), fmt.Sprintf("a signature valid from %d to %d verifies at %d", win[0], win[1], now), wit)
		}
		// the window is the one in the signed octets, whatever the SIG value handed to Verify says: the
		// value that signed the timely message 'out' (or one reused for other messages since) verifies
		// nothing outside its window, and a value with other times does not hide that 'out' is timely
		if verr, ok := verify(sig, key, o2); ok && verr == nil {
			w.Violation(keyf("accepts-outside-window/other-sig-value"), fmt.Sprintf("a message signed for %d..%d verifies at %d when Verify is called on a SIG value whose fields say %d..%d", win[0], win[1], now, sig.Inception, sig.Expiration), wit)
		}
		if verr, ok := verify(s2, key, out); ok && verr != nil {
			w.Violation(keyf("own-signature-rejected/other-sig-value"), fmt.Sprintf("a timely, untampered message is rejected (%v) when Verify is called on a SIG value whose own fields say %d..%d", verr, s2.Inception, s2.Expiration), wit)
		}
		w.Count("window_checks", 3)
	}
	// (g2) messages whose signed form is exactly 65534, 65535 (the largest DNS message) and 65536 octets
	if j%7 == 0 {
		overhead := len(out) - len(plain)
		for _, total := range []int{65534, 65535, 65536} {
			base := &dns.Msg{}
			base.Id = uint16(total)
			base.Question = []dns.Question{{Name: "big.example.", Qtype: dns.TypeNULL, Qclass: 1}}
			bl, _ := base.Pack()
			n := total - overhead - len(bl) - 11
			if n < 0 || n > 65535 {
				continue
			}
			base.Answer = []dns.RR{&dns.NULL{Hdr: dns.RR_Header{Name: ".", Rrtype: dns.TypeNULL, Class: 1}, Data: strings.Repeat("x", n)}}
			s3 := &dns.SIG{RRSIG: dns.RRSIG{KeyTag: key.KeyTag(), SignerName: keyName.Pres(), Algorithm: alg, Inception: now - 7200, Expiration: now + 7200}}
			var o3 []byte
			var e3 error
			wit3 := map[string]any{"alg": an, "signed_size": total}
			if w.Guard("SIG.Sign(size boundary)", wit3, func() { o3, e3 = s3.Sign(k.Priv, base) }) {
				continue
			}
			w.Count("size_boundary_signings", 1)
			switch {
			case total <= 65535 && e3 != nil:
				w.Violation(keyf("sign-fails/signed-size-"+fmt.Sprint(total)), fmt.Sprintf("a message whose signed form is %d octets cannot be signed: %v", total, e3), wit3)
			case total <= 65535 && len(o3) != total:
				w.Inconclusive(fmt.Sprintf("c18-size-boundary-miss:%d!=%d", len(o3), total))
			case total <= 65535:
				if ok, why := sig0ModelVerify(o3, keyName, alg, pub, now); !ok {
					w.Violation(keyf("sign-output-invalid/signed-size-"+fmt.Sprint(total)), "the signed message of the maximum size does not verify: "+why, wit3)
				} else if verr, ok := verify(s3, key, o3); ok && verr != nil {
					w.Violation(keyf("own-signature-rejected/signed-size-"+fmt.Sprint(total)), fmt.Sprintf("Verify: %v", verr), wit3)
				}
			case e3 == nil:
				w.Violation(keyf("oversize-signed-message-emitted"), fmt.Sprintf("Sign returned %d octets for a message that cannot fit 65535", len(o3)), wit3)
			}
		}
	}
	// (h) truncation at every point >= 12 and mutations: an error, never a panic
	var cuts []int
	if len(out) <= 400 {
		for c := 12; c < len(out); c++ {
			cuts = append(cuts, c)
		}
		w.Count("exhaustive_truncation_messages", 1)
	} else {
		for c := 12; c < 80; c++ {
			cuts = append(cuts, c)
		}
		for i := 0; i < 120; i++ {
			cuts = append(cuts, 12+r.IntN(len(out)-12))
		}
		for c := len(out) - 100; c < len(out); c++ {
			cuts = append(cuts, c)
		}
	}
	for _, c := range cuts {
		for _, s := range []*dns.SIG{sig, rsig} {
			if s == nil {
				continue
			}
			verr, ok := verify(s, key, out[:c])
			if ok && verr == nil {
				w.Violation(keyf("accepts-truncated"), fmt.Sprintf("Verify accepts the signed message truncated to %d of %d octets", c, len(out)), wit)
			}
			w.Count("truncations", 1)
		}
	}
	// the same signed message as another signer may emit it: the SIG record owned by a name instead of
	// the root (RFC 2931 s.3: "SHOULD" be root; the owner is not covered by the signature). Whole, it is
	// judged by the oracle; cut at every point from the SIG record on it is an error, never a panic.
	if len(out) <= 1200 {
		for _, ow := range []model.Name{keyName, {[]byte("a")}, g.NameOfWireLen(54), g.NameOfWireLen(255)} {
			alt := append(append(append([]byte(nil), out[:p.bodyEnd]...), ow.Wire()...), out[p.bodyEnd+1:]...)
			if len(alt) > 65535 {
				continue
			}
			w.Count("foreign_owner_sig_messages", 1)
			judge("sig-owner-not-root", alt)
			for c := p.bodyEnd; c < len(alt); c++ {
				for _, s := range []*dns.SIG{sig, rsig} {
					if s == nil {
						continue
					}
					if verr, ok := verify(s, key, alt[:c]); ok && verr == nil {
						w.Violation(keyf("accepts-truncated/sig-owner-not-root"), fmt.Sprintf("Verify accepts the signed message truncated to %d of %d octets", c, len(alt)), wit)
					}
					w.Count("truncations", 1)
				}
			}
		}
	}
	// alterations of the SIG RDATA that change its length (RDLENGTH adjusted): octets behind the signature,
	// and - the signature being the last field - the two integers of an ECDSA signature each with a zero
	// octet in front (the same numbers, but not the r | s of RFC 6605)
	if rawSig, derr := base64.StdEncoding.DecodeString(sig.Signature); derr == nil && len(rawSig) > 0 && len(rawSig) < len(out) && bytes.HasSuffix(out, rawSig) && out[p.bodyEnd] == 0 {
		relen := func(b []byte, delta int) []byte {
			binary.BigEndian.PutUint16(b[p.bodyEnd+9:], uint16(int(binary.BigEndian.Uint16(b[p.bodyEnd+9:]))+delta))
			return b
		}
		for _, n := range []int{1, 2, len(rawSig)} {
			if len(out)+n <= 65535 {
				judge("sig-octets-appended", relen(append(append([]byte(nil), out...), make([]byte, n)...), n))
			}
		}
		if len(rawSig)%2 == 0 && len(out)+2 <= 65535 {
			h := len(rawSig) / 2
			head := append([]byte(nil), out[:len(out)-len(rawSig)]...)
			alt := append(append(append(append(head, 0), rawSig[:h]...), 0), rawSig[h:]...)
			judge("sig-halves-zero-padded", relen(alt, 2))
		}
		w.Count("signature_length_alterations", 1)
	}
	o := walkOffsets(out)
	r2 := w.Rng(j, 2)
	for i := 0; i < 60; i++ {
		b := c02Mutate(r2, out, o)
		if len(b) < 12 {
			continue
		}
		judge("mutation", b)
	}
	if w.WantSample() {
		w.Sample(map[string]any{"alg": an, "kind": kind, "compress": m.Compress, "message_octets": len(plain), "signed_octets": len(out), "bit_flips": len(bitsToFlip), "truncations": len(cuts)})
	}
}

func kindClass(k string) string {
	if len(k) > 10 && k[:10] == "additional" {
		return "additional-254..512"
	}
	return k
}

// c18ManySignatures: hundreds of SIG(0) signatures per ECDSA key over one small message, so that the
// one-in-256 short r and s of the fixed-width RFC 6605 encoding occur; each must verify both ways.
func c18ManySignatures(w *core.W, j int) {
	alg := []uint8{dns.ECDSAP256SHA256, dns.ECDSAP384SHA384, dns.ECDSAP256SHA256, dns.ED25519}[j%4]
	k, err := getKey(alg, algBits[alg][0], "many.example.", 512, 3)
	if err != nil {
		w.Inconclusive("keygen:" + err.Error())
		return
	}
	key := &dns.KEY{DNSKEY: *dns.Copy(k.Key).(*dns.DNSKEY)}
	key.Hdr.Rrtype = dns.TypeKEY
	pub, _ := base64.StdEncoding.DecodeString(key.PublicKey)
	keyName := mustName("many.example.")
	n := map[uint8]int{dns.ECDSAP256SHA256: 400, dns.ECDSAP384SHA384: 250, dns.ED25519: 50}[alg]
	m := new(dns.Msg)
	m.SetUpdate("example.")
	now := uint32(time.Now().Unix())
	for i := 0; i < n; i++ {
		m.Id = uint16(j*1000 + i)
		sig := &dns.SIG{RRSIG: dns.RRSIG{KeyTag: key.KeyTag(), SignerName: "many.example.", Algorithm: alg, Inception: now - 7200, Expiration: now + 7200}}
		out, err := sig.Sign(k.Priv, m.Copy())
		if err != nil {
			w.Violation("C18/sign-fails/many/"+algName(alg), fmt.Sprintf("signature %d of %d: %v", i, n, err), nil)
			return
		}
		w.Eval(1)
		ok, why := sig0ModelVerify(out, keyName, alg, pub, now)
		verr := sig.Verify(key, out)
		if !ok || verr != nil {
			w.Violation("C18/own-signature-rejected/many/"+algName(alg), fmt.Sprintf("signature %d of %d over one small message: independent verification %v (%s), Verify: %v", i, n, ok, why, verr), map[string]any{"signed": hx(out)})
			return
		}
	}
	w.Count("many_signatures", n)
}

// c18WindowBoundary: the validity window is inclusive at both ends. SIG.Verify reads the wall clock
// itself, so a verdict is taken only when the clock showed the same second before and after the call
// (then that second is the one Verify used); otherwise the attempt is repeated.
func c18WindowBoundary(w *core.W, j int) {
	alg := []uint8{dns.ED25519, dns.ECDSAP256SHA256}[j%2]
	k, err := getKey(alg, algBits[alg][0], "edge.example.", 512, 3)
	if err != nil {
		w.Inconclusive("keygen:" + err.Error())
		return
	}
	key := &dns.KEY{DNSKEY: *dns.Copy(k.Key).(*dns.DNSKEY)}
	key.Hdr.Rrtype = dns.TypeKEY
	m := new(dns.Msg)
	m.SetUpdate("example.")
	m.Id = uint16(j)
	type win struct {
		name   string
		di, de int64 // inception and expiration relative to the current second
		valid  bool
	}
	for _, c := range []win{{"expiration==now", -300, 0, true}, {"inception==now", 0, 300, true}, {"inception==expiration==now", 0, 0, true},
		{"expiration==now-1", -300, -1, false}, {"inception==now+1", 1, 300, false}} {
		decided := false
		for try := 0; try < 6 && !decided; try++ {
			t0 := time.Now().Unix()
			s := &dns.SIG{RRSIG: dns.RRSIG{KeyTag: key.KeyTag(), SignerName: "edge.example.", Algorithm: alg, Inception: uint32(t0 + c.di), Expiration: uint32(t0 + c.de)}}
			out, err := s.Sign(k.Priv, m.Copy())
			if err != nil {
				break
			}
			if time.Now().Unix() != t0 {
				continue // signing took us into the next second: place the window again
			}
			verr := s.Verify(key, out)
			if time.Now().Unix() != t0 {
				continue
			}
			decided = true
			w.Eval(1)
			w.Count("window_boundary_checks", 1)
			if (verr == nil) != c.valid {
				w.Violation("C18/window-boundary/"+c.name, fmt.Sprintf("window [%d, %d] checked during second %d: Verify returned %v, the window is inclusive (valid=%v)", t0+c.di, t0+c.de, t0, verr, c.valid), map[string]any{"alg": algName(alg)})
			}
		}
		if !decided {
			w.Count("window_boundary_undecided", 1)
		}
	}
}

func init() {
	plan, run := sections(section{"messages", tiered(180, 6000), c18Case}, section{"window-boundary", tiered(8, 100), c18WindowBoundary}, section{"many-signatures", tiered(12, 200), c18ManySignatures})
	core.Register(&core.Monitor{
		ID: "C18", Level: "fault_enumeration", Plan: plan, Run: run, Terminates: true, CaseTimeout: 300e9,
		Rule: "messages {header-only update, heavily compressible, 254..512 additional records, pool names, all registry types} x Compress on/off x RSASHA1/256/512, ECDSA P-256/P-384, Ed25519; oracle = independent RFC 2931 verification (model walk + Go crypto): Sign must succeed, output = packed message || SIG with ARCOUNT+1, verifies independently and with Verify (original and re-decoded SIG); " +
			"every single-bit flip of the message part and the SIG RDATA (signed messages <= 220 octets; 256 sampled bits incl. the whole header above), other key, a KEY of every other algorithm (with and without matching tag), KEYs with truncated / extended / empty / non-base64 public keys, other signer name (incl. one differing by 0x20 in a non-letter), signed sizes of exactly 65534/65535/65536 octets, windows entirely in the past/future and empty windows with expiration before inception (>= 1 h from the real clock), a second message signed with the same SIG value, every truncation point >= 12 (<= 400 octets; ~300 sampled above), 60 structure-aware mutations; Verify==nil implies the model accepts; no panic; " +
			"non-trivial = distinct signed message",
		Assumptions: []string{"SIG.Verify reads the wall clock: windows are placed at least one hour from it, except in the window-boundary section, where a verdict on now==inception / now==expiration is taken only if the clock showed the same second before and after the call", "bits of the SIG RR's own owner/type/class/TTL/RDLENGTH are outside the statement ('the message or the SIG RDATA')"},
		MinObserved: []string{"signed", "alterations_rejected", "exhaustive_bitflip_messages", "exhaustive_truncation_messages", "truncations", "window_checks", "key_alterations"},
	})
}
