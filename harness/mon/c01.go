package mon

import (
	"bytes"
	"encoding/binary"
	"encoding/hex"
	"fmt"
	"strings"
	"sync"

	"github.com/miekg/dns"

	"verifharness/bridge"
	"verifharness/core"
	"verifharness/model"
)

// ---- a user-registered private type (PrivateHandle) ----

const privType = 65281

type privRdata struct {
	N    uint16
	Blob []byte
}

func (p *privRdata) String() string { return fmt.Sprintf("%d %s", p.N, hex.EncodeToString(p.Blob)) }
func (p *privRdata) Parse(s []string) error {
	if len(s) < 1 {
		return fmt.Errorf("need fields")
	}
	var n int
	if _, err := fmt.Sscanf(s[0], "%d", &n); err != nil {
		return err
	}
	p.N = uint16(n)
	p.Blob = nil
	if len(s) > 1 {
		b, err := hex.DecodeString(strings.Join(s[1:], ""))
		if err != nil {
			return err
		}
		p.Blob = b
	}
	return nil
}
func (p *privRdata) Pack(b []byte) (int, error) {
	if len(b) < 2+len(p.Blob) {
		return 0, dns.ErrBuf
	}
	binary.BigEndian.PutUint16(b, p.N)
	copy(b[2:], p.Blob)
	return 2 + len(p.Blob), nil
}
func (p *privRdata) Unpack(b []byte) (int, error) {
	if len(b) < 2 {
		return 0, dns.ErrBuf
	}
	p.N = binary.BigEndian.Uint16(b)
	p.Blob = append([]byte(nil), b[2:]...)
	return len(b), nil
}
func (p *privRdata) Copy(dst dns.PrivateRdata) error {
	d := dst.(*privRdata)
	d.N = p.N
	d.Blob = append([]byte(nil), p.Blob...)
	return nil
}
func (p *privRdata) Len() int { return 2 + len(p.Blob) }

var privOnce sync.Once

func registerPrivate() {
	privOnce.Do(func() {
		dns.PrivateHandle("XPRIV", privType, func() dns.PrivateRdata { return new(privRdata) })
	})
}

var privLayout = &model.Layout{Type: privType, Name: "XPRIV", Fields: []model.Field{{Kind: model.KU16, Go: "N"}, {Kind: model.KRaw, Go: "Blob"}}}

// buildAny builds the library struct for a model record, including the private type.
func buildAny(r *model.Rec) (dns.RR, error) {
	if r.Type == privType && !r.NoRdata {
		registerPrivate()
		rr := dns.TypeToRR[privType]().(*dns.PrivateRR)
		rd, _ := r.Rdata()
		rr.Hdr = dns.RR_Header{Name: r.Owner.Pres(), Rrtype: r.Type, Class: r.Class, Ttl: r.TTL, Rdlength: uint16(len(rd))}
		rr.Data = &privRdata{N: uint16(r.Vals[0].(uint64)), Blob: append([]byte(nil), r.Vals[1].([]byte)...)}
		return rr, nil
	}
	return bridge.Build(r)
}

// c01Layouts: every registry type, a handful of unknown codes and the private type.
func c01Layouts() []*model.Layout {
	ls := append([]*model.Layout(nil), model.LayoutList...)
	for _, t := range []uint16{0, 11, 22, 34, 38, 40, 54, 103, 127, 248, 251, 252, 253, 254, 259, 262, 65280, 65534, 65535} {
		ls = append(ls, model.Unknown(t))
	}
	ls = append(ls, privLayout)
	return ls
}

func recNontrivial(r *model.Rec) bool {
	rd, _ := r.Rdata()
	return len(rd) > 0
}

// checkRecord runs the three C01 record obligations; it returns the keys of what failed.
func c01CheckRecord(w *core.W, r *model.Rec, tag string) {
	wire := r.Wire()
	tn := r.L.Name
	wit := map[string]any{"type": tn, "wire": hx(wire)}
	w.Eval(1)
	w.Cover("type", tn)
	if recNontrivial(r) {
		w.Nontrivial(wire)
	}
	built, err := buildAny(r)
	if err != nil {
		w.Inconclusive("bridge-build-failed:" + tn + ":" + err.Error())
		return
	}
	// (a) struct -> octets
	var packed []byte
	if w.Guard("PackRR", wit, func() { packed, err = packRR(built) }) {
		return
	}
	if err != nil {
		w.Violation("C01/pack-error/"+tn+c01Class(r, err), fmt.Sprintf("PackRR of a well-formed %s failed: %v; struct=%v", tn, err, cutS(built.String())), wit)
	} else if !bytes.Equal(packed, wire) {
		w.Violation("C01/pack-mismatch/"+tn+c01Class(r, nil), fmt.Sprintf("PackRR(%s)\n got  %s\n want %s (RFC layout)", tn, hx(packed), hx(wire)), wit)
	}
	// the same record packed into a caller buffer that still holds other data (a reused buffer)
	if err == nil && bytes.Equal(packed, wire) {
		dirty := bytes.Repeat([]byte{0xFF}, len(wire)+64)
		d2, _ := buildAny(r)
		var off int
		var derr error
		if !w.Guard("PackRR(dirty buffer)", wit, func() { off, derr = dns.PackRR(d2, dirty, 0, nil, false) }) {
			if derr != nil || !bytes.Equal(dirty[:off], wire) {
				w.Violation("C01/pack-into-used-buffer/"+tn+c01Class(r, derr), fmt.Sprintf("PackRR(%s) into a buffer holding 0xFF octets: err=%v\n got  %s\n want %s", tn, derr, hx(dirty[:min(off, len(dirty))]), hx(wire)), wit)
			}
		}
	}
	// SVCB/HTTPS parameters listed in another order than by key (as a program or a zone file may
	// list them) are emitted in ascending key order all the same (RFC 9460 s.2.2)
	if err == nil && bytes.Equal(packed, wire) && (r.Type == 64 || r.Type == 65) {
		sh, _ := buildAny(r)
		var vals *[]dns.SVCBKeyValue
		switch x := sh.(type) {
		case *dns.SVCB:
			vals = &x.Value
		case *dns.HTTPS:
			vals = &x.Value
		}
		if vals != nil && len(*vals) >= 2 {
			v := *vals
			for a, b := 0, len(v)-1; a < b; a, b = a+1, b-1 {
				v[a], v[b] = v[b], v[a]
			}
			if len(v) > 2 {
				v[0], v[1] = v[1], v[0]
			}
			var p2 []byte
			var e2 error
			if !w.Guard("PackRR(unordered SVCB parameters)", wit, func() { p2, e2 = packRR(sh) }) {
				w.Count("svcb_unordered_packs", 1)
				if e2 != nil || !bytes.Equal(p2, wire) {
					w.Violation("C01/svcb-parameter-order/"+tn, fmt.Sprintf("the same parameters listed in another order: err=%v\n got  %s\n want %s", e2, hx(p2), hx(wire)), wit)
				}
			}
		}
	}
	built, _ = buildAny(r) // fresh: PackRR rewrites Hdr.Rdlength
	// (b) octets -> struct
	var rr2 dns.RR
	var off int
	in := append([]byte(nil), wire...) // the receive buffer: reused by the caller after UnpackRR
	if w.Guard("UnpackRR", wit, func() { rr2, off, err = dns.UnpackRR(in, 0) }) {
		return
	}
	if err != nil {
		w.Violation("C01/unpack-error/"+tn+c01Class(r, err), fmt.Sprintf("UnpackRR of a well-formed %s failed: %v", tn, err), wit)
		return
	}
	if off != len(wire) {
		w.Violation("C01/unpack-offset/"+tn, fmt.Sprintf("UnpackRR consumed %d of %d octets", off, len(wire)), wit)
	}
	if d := bridge.Diff(built, rr2); d != "" {
		w.Violation("C01/unpack-diff/"+tn+"/"+diffField(d)+c01Class(r, nil), "decoded struct differs from the source (source vs decoded) at "+d, wit)
	} else {
		// the decoded value must not depend on the input buffer any more: the buffer is overwritten
		// (next packet in a pooled read buffer) before the record is packed again
		for i := range in {
			in[i] ^= 0xA5
		}
		if d := bridge.Diff(built, rr2); d != "" {
			w.Violation("C01/decoded-aliases-input/"+tn+"/"+diffField(d), "after the input buffer was overwritten the decoded record changed at "+d, wit)
		}
	}
	// (c) octets -> struct -> octets
	var again []byte
	if w.Guard("PackRR", wit, func() { again, err = packRR(rr2) }) {
		return
	}
	if err != nil {
		w.Violation("C01/repack-error/"+tn+c01Class(r, err), fmt.Sprintf("re-packing a decoded %s failed: %v", tn, err), wit)
	} else if !bytes.Equal(again, wire) {
		w.Violation("C01/repack-mismatch/"+tn+c01Class(r, nil), fmt.Sprintf("Unpack→Pack of %s does not reproduce the octets\n got  %s\n want %s", tn, hx(again), hx(wire)), wit)
	}
	if w.WantSample() {
		w.Sample(map[string]any{"kind": tag, "type": tn, "wire": hx(wire), "text": cutS(built.String())})
	}
}

func cutS(s string) string {
	if len(s) > 300 {
		return s[:300] + "..."
	}
	return s
}

// diffField extracts the top-level field name from a Diff path (".Hdr.Name: ..." -> "Hdr.Name").
func diffField(d string) string {
	p := d
	if i := strings.Index(p, ":"); i >= 0 {
		p = p[:i]
	}
	p = strings.TrimPrefix(p, ".")
	if i := strings.IndexAny(p, "["); i >= 0 {
		p = p[:i]
	}
	return p
}

// c01Class refines a violation key with the input class that is known to matter, so that a
// known finding suppresses only that class (see DESIGN.md s.4).
func c01Class(r *model.Rec, err error) string {
	switch r.Type {
	case 20: // ISDN
		if !r.Vals[1].(model.OptStr).Present {
			return "/no-subaddress"
		}
	case 41: // OPT: the empty ZONEVERSION dominates (it makes the whole record undecodable)
		ka := false
		for _, o := range r.Vals[0].([]model.Opt) {
			if o.Code == model.OptZoneVersion && len(o.Data) == 0 {
				return "/zoneversion-empty"
			}
			if o.Code == model.OptKeepalive && len(o.Data) == 2 && o.Data[0] == 0 && o.Data[1] == 0 {
				ka = true
			}
		}
		if ka {
			return "/keepalive-timeout-zero"
		}
	}
	return ""
}

func c01Records(w *core.W, j int) {
	ls := c01Layouts()
	l := ls[j%len(ls)]
	g := model.NewGen(w.Rng(j))
	per := 20
	for k := 0; k < per; k++ {
		if k%5 == 0 {
			g.Plain = k%10 == 0
			g.MakePool(3)
		}
		r := g.Rec(l)
		c01CheckRecord(w, r, "record")
	}
}

// c01Rdataless: RDATA-less (dynamic update) records of every type.
func c01Rdataless(w *core.W, j int) {
	ls := c01Layouts()
	g := model.NewGen(w.Rng(j))
	for _, l := range ls {
		r := &model.Rec{Owner: g.Name(), Type: l.Type, Class: []uint16{1, 254, 255}[g.R.IntN(3)], TTL: 0, L: l, NoRdata: true}
		wire := r.Wire()
		tn := l.Name
		wit := map[string]any{"type": tn, "wire": hx(wire)}
		w.Eval(1)
		w.Cover("rdataless_type", tn)
		w.Nontrivial(wire)
		built, _ := bridge.Build(r) // dns.ANY carrying the foreign Rrtype: the library's own way
		var packed []byte
		var err error
		if w.Guard("PackRR", wit, func() { packed, err = packRR(built) }) {
			continue
		}
		if err != nil || !bytes.Equal(packed, wire) {
			w.Violation("C01/rdataless-pack/"+tn, fmt.Sprintf("packing an RDATA-less %s: err=%v got %s want %s", tn, err, hx(packed), hx(wire)), wit)
		}
		var rr2 dns.RR
		var off int
		if w.Guard("UnpackRR", wit, func() { rr2, off, err = dns.UnpackRR(wire, 0) }) {
			continue
		}
		if err != nil || off != len(wire) {
			w.Violation("C01/rdataless-unpack/"+tn, fmt.Sprintf("unpacking an RDATA-less %s: err=%v off=%d", tn, err, off), wit)
			continue
		}
		h := rr2.Header()
		if h.Name != r.Owner.Pres() || h.Rrtype != r.Type || h.Class != r.Class || h.Ttl != 0 || h.Rdlength != 0 {
			w.Violation("C01/rdataless-header/"+tn, fmt.Sprintf("header of decoded RDATA-less %s differs: %+v", tn, *h), wit)
		}
		var again []byte
		if w.Guard("PackRR", wit, func() { again, err = packRR(rr2) }) {
			continue
		}
		if err != nil || !bytes.Equal(again, wire) {
			w.Violation("C01/rdataless-repack/"+tn, fmt.Sprintf("Unpack→Pack of an RDATA-less %s record does not reproduce the octets: err=%v\n got  %s\n want %s", tn, err, hx(again), hx(wire)), wit)
		}
	}
}

// genMsg draws a model message from the layouts.
func genMsg(g *model.Gen, ls []*model.Layout, maxPerSec int) *model.Msg {
	m := &model.Msg{ID: uint16(g.Uint(16)), Bits: uint16(g.Uint(16))}
	g.MakePool(1 + g.R.IntN(4))
	nq := []int{0, 1, 1, 1, 1, 2, 3}[g.R.IntN(7)]
	for i := 0; i < nq; i++ {
		m.Q = append(m.Q, model.Question{Name: g.Name(), Type: uint16(g.Uint(16)), Class: uint16(g.Uint(16))})
	}
	hasOpt := false
	for s := 0; s < 3; s++ {
		n := g.Len(0, maxPerSec)
		for i := 0; i < n; i++ {
			l := ls[g.R.IntN(len(ls))]
			if l.Type == 41 || l.Type == 250 {
				continue // OPT/TSIG are placed deliberately below
			}
			r := g.Rec(l)
			if c01Class(r, nil) != "" {
				continue // input classes with a recorded record-level finding are judged in the records section only
			}
			switch s {
			case 0:
				m.An = append(m.An, r)
			case 1:
				m.Ns = append(m.Ns, r)
			default:
				m.Ar = append(m.Ar, r)
			}
		}
	}
	if g.R.IntN(2) == 0 {
		opt := g.Rec(model.Layouts[41])
		for c01Class(opt, nil) != "" {
			opt = g.Rec(model.Layouts[41])
		}
		pos := g.R.IntN(len(m.Ar) + 1)
		m.Ar = append(m.Ar[:pos], append([]*model.Rec{opt}, m.Ar[pos:]...)...)
		hasOpt = true
	}
	_ = hasOpt
	return m
}

func msgWireLen(m *model.Msg) int { return len(m.Wire()) }

func c01Messages(w *core.W, j int) {
	ls := c01Layouts()
	g := model.NewGen(w.Rng(j))
	g.NoHuge = true
	for k := 0; k < 5; k++ {
		g.Plain = k == 0
		m := genMsg(g, ls, 6)
		if j%40 == 7 && k == 4 {
			// one record with (nearly) the largest RDATA a record can carry: the message is longer than
			// 65535 octets, which the packer and the decoder handle like any other
			big := model.Unknown([]uint16{10, 65280, 4711}[j/40%3])
			if big.Type == 10 {
				big = model.Layouts[10]
			}
			n := []int{65535, 65534, 65500, 65535 - 12}[j/120%4]
			m = &model.Msg{ID: uint16(j), Bits: 0x8000, Q: []model.Question{{Name: model.Name{[]byte("big")}, Type: big.Type, Class: 1}}}
			m.An = []*model.Rec{{Owner: model.Name{[]byte("big")}, Type: big.Type, Class: 1, TTL: 1, L: big, Vals: []any{bytes.Repeat([]byte{byte(j)}, n)}}}
			w.Count("messages_with_maximal_rdata", 1)
		}
		wire := m.Wire()
		if len(wire) > 65535 && !(j%40 == 7 && k == 4) {
			continue
		}
		w.Eval(1)
		w.Count("messages", 1)
		w.Nontrivial(wire)
		wit := map[string]any{"wire": hx(wire)}
		built, err := buildMsgAny(m)
		if err != nil {
			w.Inconclusive("bridge-build-failed:msg:" + err.Error())
			continue
		}
		var packed []byte
		if w.Guard("Msg.Pack", wit, func() { packed, err = built.Pack() }) {
			continue
		}
		cls := c01MsgClass(m)
		if err != nil {
			w.Violation("C01/msg-pack-error"+cls, fmt.Sprintf("Msg.Pack failed on a well-formed message: %v", err), wit)
		} else if !bytes.Equal(packed, wire) {
			w.Violation("C01/msg-pack-mismatch"+cls, "Msg.Pack differs from the RFC layout: "+diffWin(packed, wire), wit)
		}
		if err == nil && bytes.Equal(packed, wire) {
			dirty := bytes.Repeat([]byte{0xFF}, len(wire)+64)
			b2, _ := buildMsgAny(m)
			var pb []byte
			var perr error
			if !w.Guard("Msg.PackBuffer(dirty buffer)", wit, func() { pb, perr = b2.PackBuffer(dirty) }) {
				if perr != nil || !bytes.Equal(pb, wire) {
					w.Violation("C01/msg-pack-into-used-buffer"+cls, fmt.Sprintf("Msg.PackBuffer into a buffer holding 0xFF octets: err=%v: %s", perr, diffWin(pb, wire)), wit)
				}
			}
		}
		m2 := new(dns.Msg)
		in := append([]byte(nil), wire...)
		if w.Guard("Msg.Unpack", wit, func() { err = m2.Unpack(in) }) {
			continue
		}
		for i := range in { // the caller reuses its receive buffer
			in[i] ^= 0xA5
		}
		if err != nil {
			w.Violation("C01/msg-unpack-error"+cls, fmt.Sprintf("Msg.Unpack failed on a well-formed message: %v", err), wit)
			continue
		}
		// a Msg value that is reused for the next packet (a server loop, a pooled Msg): unpacking into a
		// Msg that held another message - every section filled, an OPT with extended-RCODE bits - yields
		// what unpacking into a new one yields
		{
			used := new(dns.Msg)
			if used.Unpack(append([]byte(nil), c01UsedWire...)) == nil {
				var uerr error
				if !w.Guard("Msg.Unpack(reused Msg)", wit, func() { uerr = used.Unpack(append([]byte(nil), wire...)) }) {
					w.Count("reused_msg_decodes", 1)
					if uerr != nil {
						w.Violation("C01/msg-unpack-into-used-msg/error", fmt.Sprintf("a fresh Msg decodes the message, a Msg that held another message does not: %v", uerr), wit)
					} else if d := bridge.Diff(m2, used); d != "" {
						w.Violation("C01/msg-unpack-into-used-msg/differs", "decoded into a Msg that held another message vs into a fresh one: differs at "+d, wit)
					}
				}
			}
		}
		// compare: header bits, counts, questions, records
		exp, _ := buildMsgAny(m)
		if d := bridge.Diff(exp.MsgHdr, m2.MsgHdr); d != "" {
			w.Violation("C01/msg-unpack-diff/MsgHdr", "decoded header differs (source vs decoded) at "+d, wit)
		}
		if d := bridge.Diff(exp.Question, m2.Question); d != "" {
			w.Violation("C01/msg-unpack-diff/Question", "decoded question section differs at "+d, wit)
		}
		for si, pair := range [][2][]dns.RR{{exp.Answer, m2.Answer}, {exp.Ns, m2.Ns}, {exp.Extra, m2.Extra}} {
			if len(pair[0]) != len(pair[1]) {
				w.Violation("C01/msg-unpack-diff/section-count"+cls, fmt.Sprintf("section %d has %d records, want %d", si, len(pair[1]), len(pair[0])), wit)
				continue
			}
			for ri := range pair[0] {
				if d := bridge.Diff(pair[0][ri], pair[1][ri]); d != "" {
					w.Violation("C01/msg-unpack-diff/"+typeName(pair[0][ri].Header().Rrtype)+"/"+diffField(d)+cls, "decoded record differs at "+d, wit)
				}
			}
		}
		var again []byte
		if w.Guard("Msg.Pack", wit, func() { again, err = m2.Pack() }) {
			continue
		}
		if err != nil {
			w.Violation("C01/msg-repack-error"+cls, fmt.Sprintf("re-packing a decoded message failed: %v", err), wit)
		} else if !bytes.Equal(again, wire) {
			w.Violation("C01/msg-repack-mismatch"+cls, "Unpack→Pack differs: "+diffWin(again, wire), wit)
		} else if cls == "" && len(wire) <= 65535 {
			// packing is lossless whichever way the caller asks for it: the compressed form decodes to
			// a message that packs (uncompressed) to the same canonical octets, letter case included
			b3, _ := buildMsgAny(m)
			b3.Compress = true
			if len(wire)%2 == 0 {
				// (every other message) a compressed Pack that fails part-way - the same message with an A record
				// of five address octets at its end - right before: what it leaves behind in pooled or cached
				// compression state must not reach the next Pack
				bad, _ := buildMsgAny(m)
				bad.Compress = true
				bad.Extra = append(bad.Extra, &dns.A{Hdr: dns.RR_Header{Name: "bad.name.invalid.", Rrtype: 1, Class: 1}, A: []byte{1, 2, 3, 4, 5}})
				w.Guard("Msg.Pack(failing)", wit, func() {
					if _, e := bad.Pack(); e != nil {
						w.Count("failed_packs_before_compressed_pack", 1)
					}
				})
			}
			var pc, p3 []byte
			var e3 error
			m3 := new(dns.Msg)
			if !w.Guard("Msg.Pack(compress)/Unpack/Pack", wit, func() {
				if pc, e3 = b3.Pack(); e3 == nil {
					if e3 = m3.Unpack(pc); e3 == nil {
						m3.Compress = false
						p3, e3 = m3.Pack()
					}
				}
			}) {
				w.Count("compressed_roundtrips", 1)
				if e3 != nil || !bytes.Equal(p3, wire) {
					w.Violation("C01/msg-compressed-roundtrip", fmt.Sprintf("Pack with compression -> Unpack -> Pack: err=%v: %s", e3, diffWin(p3, wire)), wit)
				} else if exp, ptrs, derr := model.Decompress(pc); derr != nil || !bytes.Equal(exp, wire) {
					// the octets themselves, read by the strict model decoder: the RFC layouts with names
					// replaced by pointers only where RFC 3597 s.4 lets a sender compress
					w.Violation("C01/msg-compressed-layout", fmt.Sprintf("the compressed packing is not the RFC layout with pointers expanded: err=%v %s", derr, diffWin(exp, wire)), wit)
				} else {
					for _, p := range ptrs {
						if p.Where == "rdata" && !p.Compressible {
							w.Violation("C01/msg-compressed-layout/pointer-in-rdata/"+typeName(p.RRType), fmt.Sprintf("compression pointer at %d inside the RDATA of %s, whose layout holds an uncompressed name there", p.At, typeName(p.RRType)), wit)
						}
					}
					w.Count("compressed_layout_checks", 1)
				}
			}
		}
		if w.WantSample() {
			w.Sample(map[string]any{"kind": "message", "wire": hx(wire), "records": len(m.An) + len(m.Ns) + len(m.Ar)})
		}
	}
}

// c01UsedWire is the message a reused Msg held before: all four sections populated, RCODE 16 + 7 (BADCOOKIE,
// extended bits in the OPT), every header flag set.
var c01UsedWire = func() []byte {
	m := new(dns.Msg)
	m.SetQuestion("earlier.example.", dns.TypeMX)
	m.Response, m.Authoritative, m.RecursionAvailable, m.AuthenticatedData, m.CheckingDisabled, m.Zero = true, true, true, true, true, true
	m.Answer = []dns.RR{&dns.MX{Hdr: dns.RR_Header{Name: "earlier.example.", Rrtype: dns.TypeMX, Class: 1, Ttl: 60}, Preference: 1, Mx: "mail.earlier.example."}}
	m.Ns = []dns.RR{&dns.NS{Hdr: dns.RR_Header{Name: "earlier.example.", Rrtype: dns.TypeNS, Class: 1, Ttl: 60}, Ns: "ns.earlier.example."}}
	m.Extra = []dns.RR{&dns.A{Hdr: dns.RR_Header{Name: "ns.earlier.example.", Rrtype: dns.TypeA, Class: 1, Ttl: 60}, A: []byte{192, 0, 2, 1}}}
	m.SetEdns0(4096, true)
	m.Rcode = dns.RcodeBadCookie
	b, err := m.Pack()
	if err != nil {
		panic(err)
	}
	return b
}()

// c01MsgClass: a message is classed by the known-finding input classes of its records, so a
// known record-level defect does not hide an unrelated message-level one.
func c01MsgClass(m *model.Msg) string {
	set := map[string]bool{}
	for _, sec := range [][]*model.Rec{m.An, m.Ns, m.Ar} {
		for _, r := range sec {
			if c := c01Class(r, nil); c != "" {
				set[r.L.Name+c] = true
			}
		}
	}
	if len(set) == 0 {
		return ""
	}
	var ks []string
	for k := range set {
		ks = append(ks, k)
	}
	sortStrings(ks)
	return "/with:" + strings.Join(ks, ",")
}

func buildMsgAny(m *model.Msg) (*dns.Msg, error) {
	registerPrivate()
	d, err := bridge.BuildMsg(&model.Msg{ID: m.ID, Bits: m.Bits, Q: m.Q})
	if err != nil {
		return nil, err
	}
	secs := []*[]dns.RR{&d.Answer, &d.Ns, &d.Extra}
	for i, sec := range [][]*model.Rec{m.An, m.Ns, m.Ar} {
		for _, r := range sec {
			rr, err := buildAny(r)
			if err != nil {
				return nil, err
			}
			*secs[i] = append(*secs[i], rr)
		}
	}
	// 12-bit rcode: the first OPT in the additional section carries the upper 8 bits
	for _, r := range m.Ar {
		if r.Type == 41 {
			d.Rcode |= int(r.TTL>>24) << 4
			break
		}
	}
	return d, nil
}

// diffWin describes the first difference between two octet strings with a window around it.
func diffWin(got, want []byte) string {
	i := firstDiff(got, want)
	lo := i - 24
	if lo < 0 {
		lo = 0
	}
	win := func(b []byte) string {
		hi := i + 24
		if hi > len(b) {
			hi = len(b)
		}
		if lo > len(b) {
			return ""
		}
		return hex.EncodeToString(b[lo:hi])
	}
	return fmt.Sprintf("first difference at octet %d (lengths got %d want %d)\n got  [%d:] %s\n want [%d:] %s", i, len(got), len(want), lo, win(got), lo, win(want))
}

func firstDiff(a, b []byte) int {
	n := len(a)
	if len(b) < n {
		n = len(b)
	}
	for i := 0; i < n; i++ {
		if a[i] != b[i] {
			return i
		}
	}
	return n
}

// c01Header: all 65536 flag/opcode words, 4096 words per case (exhaustive in both tiers).
func c01Header(w *core.W, j int) {
	for k := 0; k < 4096; k++ {
		bits := uint16(j*4096 + k)
		m := &model.Msg{ID: uint16(k*7 + j), Bits: bits}
		wire := m.Wire()
		w.Eval(1)
		w.Count("header_words", 1)
		built, _ := bridge.BuildMsg(m)
		packed, err := built.Pack()
		if err != nil || !bytes.Equal(packed, wire) {
			w.Violation("C01/header-pack", fmt.Sprintf("flags word %#04x: err=%v got %s want %s", bits, err, hx(packed), hx(wire)), map[string]any{"bits": bits})
			continue
		}
		m2 := new(dns.Msg)
		if err := m2.Unpack(wire); err != nil {
			w.Violation("C01/header-unpack", fmt.Sprintf("flags word %#04x: %v", bits, err), map[string]any{"bits": bits})
			continue
		}
		if d := bridge.Diff(built.MsgHdr, m2.MsgHdr); d != "" {
			w.Violation("C01/header-unpack-diff", fmt.Sprintf("flags word %#04x: %s", bits, d), map[string]any{"bits": bits})
		}
	}
	w.NontrivialStr("header-block", fmt.Sprint(j))
}

// c01Rcode: all RCODEs 0..4095, with and without OPT (exhaustive in both tiers).
func c01Rcode(w *core.W, j int) {
	for k := 0; k < 512; k++ {
		rc := j*512 + k
		for _, withOpt := range []bool{false, true} {
			w.Eval(1)
			w.Count("rcodes", 1)
			m := new(dns.Msg)
			m.Id = uint16(rc)
			m.Response = true
			m.Rcode = rc
			m.Question = []dns.Question{{Name: "example.", Qtype: 1, Qclass: 1}}
			if withOpt {
				m.Extra = append(m.Extra, &dns.A{Hdr: dns.RR_Header{Name: "x.example.", Rrtype: 1, Class: 1, Ttl: 5}, A: []byte{1, 2, 3, 4}})
				// the OPT may carry a stale extended RCODE from an earlier use (every 2nd code)
				o := &dns.OPT{Hdr: dns.RR_Header{Name: ".", Rrtype: 41, Class: 1232, Ttl: 0x00018000 | uint32(rc%2*(0x5A+rc%7))<<24}}
				m.Extra = append(m.Extra, o)
			}
			wit := map[string]any{"rcode": rc, "opt": withOpt}
			packed, err := m.Pack()
			if !withOpt && rc > 15 {
				if err == nil {
					w.Violation("C01/rcode-no-opt-accepted", fmt.Sprintf("RCODE %d packed without an OPT record (cannot be represented)", rc), wit)
				}
				continue
			}
			if err != nil {
				w.Violation("C01/rcode-pack-error", fmt.Sprintf("RCODE %d opt=%v: %v", rc, withOpt, err), wit)
				continue
			}
			if int(packed[3]&0xF) != rc&0xF {
				w.Violation("C01/rcode-header-bits", fmt.Sprintf("RCODE %d: header carries %d", rc, packed[3]&0xF), wit)
			}
			if withOpt {
				// independent decode: find the OPT TTL (last record; owner root)
				ttl := binary.BigEndian.Uint32(packed[len(packed)-6:])
				if int(ttl>>24) != rc>>4 {
					w.Violation("C01/rcode-opt-bits", fmt.Sprintf("RCODE %d: OPT carries %d in its upper TTL octet", rc, ttl>>24), wit)
				}
				if ttl&0x00FFFFFF != 0x00018000 {
					w.Violation("C01/rcode-opt-clobber", fmt.Sprintf("RCODE %d: OPT version/flags changed to %#x", rc, ttl&0x00FFFFFF), wit)
				}
			}
			m2 := new(dns.Msg)
			if err := m2.Unpack(packed); err != nil {
				w.Violation("C01/rcode-unpack-error", fmt.Sprintf("RCODE %d: %v", rc, err), wit)
				continue
			}
			if m2.Rcode != rc {
				w.Violation("C01/rcode-rejoin", fmt.Sprintf("RCODE %d opt=%v unpacks as %d", rc, withOpt, m2.Rcode), wit)
			}
		}
	}
	w.NontrivialStr("rcode-block", fmt.Sprint(j))
}

func sortStrings(s []string) {
	for i := 1; i < len(s); i++ {
		for k := i; k > 0 && s[k] < s[k-1]; k-- {
			s[k], s[k-1] = s[k-1], s[k]
		}
	}
}

func init() {
	nl := len(c01Layouts())
	plan, run := sections(
		section{"header", tiered(16, 16), c01Header},
		section{"rcode", tiered(8, 8), c01Rcode},
		section{"rdataless", tiered(8, 100), c01Rdataless},
		section{"records", tiered(nl*150, nl*3000), c01Records},
		section{"messages", tiered(8000, 150000), c01Messages},
		concurrentSection("C01"),
	)
	core.Register(&core.Monitor{
		ID: "C01", Level: "exploration", Plan: plan, Run: run,
		Rule: "records: per registry type (+19 unknown codes, 1 PrivateHandle type) x boundary-biased model field values; oracle = independent RFC-layout encoder; " +
			"checks PackRR(struct)==model octets, UnpackRR(model octets)==struct, Unpack->Pack==octets, decoded values unchanged after the input buffer is overwritten; messages likewise; all 65536 flag words and all RCODEs 0..4095 with/without OPT enumerated; " +
			"the same operations called from 8 goroutines at once give the results they give alone; non-trivial = record/message with non-empty RDATA/sections, distinct by wire octets",
		Assumptions: []string{"the model's RFC layout table (DESIGN.md Appendix A) is right", "only model-well-formed records are required to round-trip"},
		MinObserved: []string{"header_words", "rcodes", "messages"},
	})
}
