package mon

import (
	"bytes"
	"fmt"
	"strings"
	"sync"
	"sync/atomic"

	"github.com/miekg/dns"

	"verifharness/bridge"
	"verifharness/core"
	"verifharness/model"
)

// nameBearing lists the layouts that carry at least one domain name in RDATA.
func nameBearing() []*model.Layout {
	var ls []*model.Layout
	for _, l := range model.LayoutList {
		for _, fd := range l.Fields {
			if fd.Kind == model.KName || fd.Kind == model.KCName || fd.Kind == model.KGateway || fd.Kind == model.KNames {
				if l.Type != 250 && l.Type != 249 {
					ls = append(ls, l)
				}
				break
			}
		}
	}
	return ls
}

// genPoolMsg draws a message whose names come from a small pool (shared suffixes, case variants).
func genPoolMsg(g *model.Gen, nrec int) *model.Msg { return genPoolMsgFrom(g, nrec, nil) }

// specialUseSuffixes are the names resolvers, responders and servers treat specially (RFC 6761, 6762,
// 6763, 7686, 8375, 9462, reverse trees): code that makes an exception for a name makes it for one of these.
var specialUseSuffixes = []string{"local", "arpa", "in-addr.arpa", "ip6.arpa", "home.arpa", "resolver.arpa", "_tcp.local", "_udp.local", "_dns-sd._udp.local", "_services._dns-sd._udp.local",
	"localhost", "invalid", "test", "onion", "example", "example.com", "254.169.in-addr.arpa", "8.e.f.ip6.arpa", "10.in-addr.arpa", "ipv4only.arpa", "_dns.resolver.arpa", "alt", "internal"}

func specialUsePool(g *model.Gen) []model.Name {
	var pool []model.Name
	for k := 2 + g.R.IntN(3); k > 0; k-- {
		var n model.Name
		for _, l := range strings.Split(specialUseSuffixes[g.R.IntN(len(specialUseSuffixes))], ".") {
			b := []byte(l)
			if g.R.IntN(3) == 0 { // Office.LOCAL: any letter case
				for i, c := range b {
					if c >= 'a' && c <= 'z' && g.R.IntN(2) == 0 {
						b[i] = c - 32
					}
				}
			}
			n = append(n, b)
		}
		pool = append(pool, n)
	}
	return pool
}

func genPoolMsgFrom(g *model.Gen, nrec int, pool []model.Name) *model.Msg {
	nb := nameBearing()
	all := model.LayoutList
	m := &model.Msg{ID: uint16(g.Uint(16)), Bits: uint16(g.Uint(16)) &^ 0x0200}
	if pool != nil {
		g.Pool = pool
	} else {
		g.MakePool(2 + g.R.IntN(4))
	}
	nq := []int{1, 1, 1, 2, 3, 4, 0}[g.R.IntN(7)]
	for i := 0; i < nq; i++ {
		m.Q = append(m.Q, model.Question{Name: g.Name(), Type: uint16(1 + g.R.IntN(60)), Class: 1})
	}
	for i := 0; i < nrec; i++ {
		var l *model.Layout
		if g.R.IntN(5) == 0 {
			l = all[g.R.IntN(len(all))]
			if l.Type == 41 || l.Type == 250 {
				l = nb[g.R.IntN(len(nb))]
			}
		} else {
			l = nb[g.R.IntN(len(nb))]
		}
		r := g.Rec(l)
		switch g.R.IntN(3) {
		case 0:
			m.An = append(m.An, r)
		case 1:
			m.Ns = append(m.Ns, r)
		default:
			m.Ar = append(m.Ar, r)
		}
	}
	return m
}

func c04Check(w *core.W, m *model.Msg, kind string) {
	built, err := buildMsgAny(m)
	if err != nil {
		w.Inconclusive("bridge-build-failed:" + err.Error())
		return
	}
	w.Eval(1)
	built.Compress = false
	var packU, packC []byte
	wit := map[string]any{"model_wire": hx(m.Wire()), "kind": kind}
	if w.Guard("Msg.Pack", wit, func() { packU, err = built.Pack() }) {
		return
	}
	if err != nil {
		w.Count("unpackable", 1)
		return // not a packable message (e.g. over 65535 octets): outside the property
	}
	builtC, _ := buildMsgAny(m)
	builtC.Compress = true
	if w.Guard("Msg.Pack(compress)", wit, func() { packC, err = builtC.Pack() }) {
		return
	}
	if err != nil {
		w.Violation("C04/compressed-pack-error/"+kind, fmt.Sprintf("the message packs without compression (%d octets) but not with: %v", len(packU), err), wit)
		return
	}
	wit["compressed"] = hx(packC)
	w.Count("messages", 1)
	if len(packC) < len(packU) {
		w.Nontrivial(packC)
	}
	if len(packC) > len(packU) {
		w.Violation("C04/compressed-longer", fmt.Sprintf("compressed %d > uncompressed %d", len(packC), len(packU)), wit)
	}
	// PackBuffer into a caller's buffer of any size between "too small" and the uncompressed length (a
	// caller that sized it with Len()): the same octets, never "buffer too small"
	for _, sz := range []int{0, len(packC) - 1, len(packC), len(packC) + 1, (len(packC) + len(packU)) / 2, len(packU) - 1, len(packU), len(packU) + 1} {
		if sz < 0 || len(packC) == len(packU) && sz > 0 {
			continue
		}
		bb, _ := buildMsgAny(m)
		bb.Compress = true
		var pb []byte
		var pe error
		if w.Guard("Msg.PackBuffer(compress)", wit, func() { pb, pe = bb.PackBuffer(make([]byte, sz)) }) {
			return
		}
		w.Count("packbuffer_sizes", 1)
		if pe != nil || !bytes.Equal(pb, packC) {
			w.Violation("C04/packbuffer-differs-from-pack/"+kind, fmt.Sprintf("PackBuffer with a %d-octet buffer (compressed %d, uncompressed %d octets): err=%v, %s", sz, len(packC), len(packU), pe, diffWin(pb, packC)), wit)
			break
		}
	}
	exp, ptrs, derr := model.Decompress(packC)
	if derr != nil {
		w.Violation("C04/invalid-compressed-message/"+kind, fmt.Sprintf("the strict model decoder rejects the compressed form: %v", derr), wit)
		return
	}
	w.Count("pointers", len(ptrs))
	if !bytes.Equal(exp, packU) {
		w.Violation("C04/not-transparent/"+kind, "expanding the compressed form does not give the uncompressed form: "+diffWin(exp, packU), wit)
	}
	for _, p := range ptrs {
		if p.Target >= p.At || p.Target >= 0x4000 {
			w.Violation("C04/pointer-not-backwards", fmt.Sprintf("pointer at %d targets %d", p.At, p.Target), wit)
		}
		if !p.TargetIsLabelStart {
			w.Violation("C04/pointer-target-not-a-label-start", fmt.Sprintf("pointer at %d (%s) targets %d, which is not the start of a label of an earlier name", p.At, p.Where, p.Target), wit)
		}
		if p.Where == "rdata" {
			w.Cover("ptr_in_rdata_type", typeName(p.RRType))
			if !p.Compressible {
				w.Violation("C04/pointer-in-rdata/"+typeName(p.RRType), fmt.Sprintf("compression pointer at %d inside the RDATA of %s, a type outside the RFC 3597 s.4 set", p.At, typeName(p.RRType)), wit)
			}
		}
	}
	// the library reads both forms as the same message
	mu, mc := new(dns.Msg), new(dns.Msg)
	if err := mu.Unpack(packU); err != nil {
		w.Count("own-uncompressed-output-rejected", 1) // C01's business
		return
	}
	if err := mc.Unpack(packC); err != nil {
		w.Violation("C04/compressed-unpack-error/"+kind, fmt.Sprintf("library rejects its own compressed output: %v", err), wit)
		return
	}
	mc.Compress = false
	if d := bridge.DiffNoRdlen(mu, mc); d != "" {
		w.Violation("C04/compressed-decodes-differently/"+kind, "Unpack(compressed) differs from Unpack(uncompressed) at "+d, wit)
	}
	// input compressed by the model in the RDATA of every type must be accepted and mean the same;
	// also from a sender whose pointers target earlier pointers (1..5 hops)
	for mode, in := range [][]byte{m.WireCompressed(true), m.WireCompressedMemo(true, 1+len(packU)%5)} {
		exp2, ptrs2, e := model.Decompress(in)
		if e != nil || len(in) > 65535 {
			continue
		}
		kind := kind
		if mode == 1 {
			kind += "/pointer-to-pointer"
			w.Count("input_pointer_to_pointer_messages", 1)
		}
		nr := 0
		for _, p := range ptrs2 {
			if p.Where == "rdata" && !p.Compressible {
				nr++
				w.Cover("input_ptr_in_rdata_type", typeName(p.RRType))
			}
		}
		w.Count("input_pointers_in_other_rdata", nr)
		mi := new(dns.Msg)
		var uerr error
		if w.Guard("Msg.Unpack", map[string]any{"wire": hx(in)}, func() { uerr = mi.Unpack(in) }) {
			return
		}
		if uerr != nil {
			w.Violation("C04/compressed-input-rejected/"+kind, fmt.Sprintf("a message with (legally) compressed RDATA names was rejected: %v", uerr), map[string]any{"wire": hx(in)})
		} else {
			me := new(dns.Msg)
			if me.Unpack(exp2) == nil {
				if d := bridge.DiffNoRdlen(me, mi); d != "" {
					w.Violation("C04/compressed-input-decodes-differently/"+kind, "differs from the expanded form at "+d, map[string]any{"wire": hx(in)})
				}
			}
		}
	}
	// history independence: packing other messages in between - one that fails part-way after
	// writing names at other offsets, and one that succeeds - must not change what this one packs to
	if kind == "small" || len(packC)%4 == 0 {
		for _, failing := range []bool{true, false} {
			other, _ := buildMsgAny(m)
			other.Compress = true
			other.Question = append([]dns.Question{{Name: "shift-the-offsets.invalid.", Qtype: 1, Qclass: 1}}, other.Question...)
			if failing {
				other.Extra = append(other.Extra, &dns.A{Hdr: dns.RR_Header{Name: "bad.shift-the-offsets.invalid.", Rrtype: 1, Class: 1}, A: []byte{1, 2, 3}})
			}
			var oerr error
			if w.Guard("Msg.Pack(other)", wit, func() { _, oerr = other.Pack() }) {
				return
			}
			if failing != (oerr != nil) {
				w.Count("history_step_unexpected_verdict", 1)
			}
			again, _ := buildMsgAny(m)
			again.Compress = true
			var packA []byte
			if w.Guard("Msg.Pack(compress, again)", wit, func() { packA, err = again.Pack() }) {
				return
			}
			w.Count("history_checks", 1)
			if err != nil || !bytes.Equal(packA, packC) {
				what := "after-successful-pack"
				if failing {
					what = "after-failed-pack"
				}
				w.Violation("C04/pack-depends-on-history/"+what, fmt.Sprintf("packing the same message again after another Pack call (failing=%v, its error: %v) gives err=%v and %s", failing, oerr, err, diffWin(packA, packC)), wit)
				break
			}
		}
	}
	if w.WantSample() {
		w.Sample(map[string]any{"kind": kind, "uncompressed_len": len(packU), "compressed_len": len(packC), "pointers": len(ptrs), "compressed": hx(packC)})
	}
}

func c04Small(w *core.W, j int) {
	g := model.NewGen(w.Rng(j))
	g.NoHuge = true
	for k := 0; k < 6; k++ {
		g.Plain = k%3 == 0
		m := genPoolMsg(g, g.Len(0, 14))
		c04Check(w, m, "small")
	}
}

// c04SpecialUse: owners and targets below special-use names (mDNS/DNS-SD under local., the reverse
// trees, localhost, ...) in any letter case: the rules of the property know no exception by name.
func c04SpecialUse(w *core.W, j int) {
	g := model.NewGen(w.Rng(j))
	g.NoHuge = true
	for k := 0; k < 6; k++ {
		g.Plain = k%2 == 0
		m := genPoolMsgFrom(g, g.Len(1, 12), specialUsePool(g))
		w.Count("special_use_messages", 1)
		c04Check(w, m, "special-use")
	}
}

// c04Dense: tens of records of the compressible types under one long zone name - almost every name octet
// of the message is replaced by a pointer (the compressed form is a twentieth of the uncompressed one)
func c04Dense(w *core.W, j int) {
	g := model.NewGen(w.Rng(j))
	g.NoHuge = true
	g.Plain = j%2 == 0
	zone := g.NameOfWireLen(100 + g.R.IntN(150))
	m := &model.Msg{ID: uint16(j), Bits: 0x8400, Q: []model.Question{{Name: zone.Clone(), Type: 2, Class: 1}}}
	host := func() model.Name {
		if g.R.IntN(4) == 0 || zone.WireLen() > 250 {
			return zone.Clone()
		}
		return append(model.Name{[]byte{byte('a' + g.R.IntN(26))}}, zone...)
	}
	n := 20 + g.R.IntN(120)
	for i := 0; i < n; i++ {
		t := []uint16{2, 5, 12, 15, 2, 2}[g.R.IntN(6)]
		l := model.Layouts[t]
		var vals []any
		if t == 15 {
			vals = []any{uint64(g.R.IntN(100)), host()}
		} else {
			vals = []any{host()}
		}
		r := &model.Rec{Owner: host(), Type: t, Class: 1, TTL: 300, L: l, Vals: vals}
		switch g.R.IntN(3) {
		case 0:
			m.An = append(m.An, r)
		case 1:
			m.Ns = append(m.Ns, r)
		default:
			m.Ar = append(m.Ar, r)
		}
	}
	if len(m.Wire()) > 65000 {
		return
	}
	w.Count("dense_messages", 1)
	w.Max("uncompressed_over_compressed", float64(len(m.Wire()))/float64(len(m.WireCompressed(true))+1))
	c04Check(w, m, "dense")
}

// c04Large: messages of 300..3000 records that cross offset 16384.
func c04Large(w *core.W, j int) {
	g := model.NewGen(w.Rng(j))
	g.NoHuge = true
	g.MaxOpaque = 40
	g.Plain = j%2 == 0
	n := 300 + g.R.IntN(900)
	m := genPoolMsg(g, n)
	for len(m.Wire()) > 65000 {
		if len(m.Ar) > 0 {
			m.Ar = m.Ar[:len(m.Ar)/2]
		} else if len(m.Ns) > 0 {
			m.Ns = m.Ns[:len(m.Ns)/2]
		} else {
			m.An = m.An[:len(m.An)/2]
		}
	}
	if len(m.Wire()) > 16384 {
		w.Count("messages_over_16384", 1)
	}
	c04Check(w, m, "large")
}

// c04SharedRecords: two messages that hold the same record values (the way a server answers two clients
// from one cache) are packed with compression from 8 goroutines at once. What a record's RDATA is
// compressed against differs between the two messages - so do its RDLENGTH and the pointers inside -
// and each message must come out as it does when it is packed alone.
func c04SharedRecords(w *core.W, j int) {
	g := model.NewGen(w.Rng(j))
	zone := g.NameOfWireLen(20 + g.R.IntN(80)).Pres()
	targetZone := g.NameOfWireLen(20 + g.R.IntN(120)).Pres()
	if _, ok := dns.IsDomainName(zone); !ok {
		return
	}
	if _, ok := dns.IsDomainName(targetZone); !ok {
		return
	}
	n := 4 + g.R.IntN(40)
	var shared []dns.RR
	for i := 0; i < n; i++ {
		h := dns.RR_Header{Name: zone, Class: 1, Ttl: 60}
		switch i % 4 {
		case 0:
			h.Rrtype = dns.TypeNS
			shared = append(shared, &dns.NS{Hdr: h, Ns: fmt.Sprintf("ns%d.%s", i, targetZone)})
		case 1:
			h.Rrtype = dns.TypeMX
			shared = append(shared, &dns.MX{Hdr: h, Preference: uint16(i), Mx: fmt.Sprintf("mx%d.%s", i, targetZone)})
		case 2:
			h.Rrtype = dns.TypeSOA
			shared = append(shared, &dns.SOA{Hdr: h, Ns: "ns." + targetZone, Mbox: "hostmaster." + zone, Serial: uint32(i)})
		case 3:
			h.Rrtype = dns.TypeCNAME
			h.Name = fmt.Sprintf("c%d.%s", i, zone)
			shared = append(shared, &dns.CNAME{Hdr: h, Target: targetZone})
		}
	}
	// message a offers the target zone as a compression target from its question on, message b does not
	a, b := new(dns.Msg), new(dns.Msg)
	a.SetQuestion(targetZone, dns.TypeNS)
	b.SetQuestion("unrelated.invalid.", dns.TypeNS)
	a.Compress, b.Compress = true, true
	a.Answer, b.Answer = shared, shared
	a.Ns = shared[:len(shared)/2]
	b.Extra = shared[len(shared)/2:]
	wa, ea := a.Pack()
	wb, eb := b.Pack()
	if ea != nil || eb != nil {
		return
	}
	w.Eval(1)
	w.Nontrivial(wa, wb)
	var bad atomic.Int32
	var first atomic.Value
	var wg sync.WaitGroup
	for t := 0; t < 8; t++ {
		wg.Add(1)
		go func(t int) {
			defer wg.Done()
			for k := 0; k < 60; k++ {
				m, want := a, wa
				if (t+k)%2 == 1 {
					m, want = b, wb
				}
				got, err := m.Pack()
				if err != nil || !bytes.Equal(got, want) {
					bad.Add(1)
					first.CompareAndSwap(nil, fmt.Sprintf("err=%v, %s", err, diffWin(got, want)))
				}
			}
		}(t)
	}
	wg.Wait()
	w.Count("shared_record_packs", 480)
	if nb := bad.Load(); nb > 0 {
		w.Violation("C04/concurrent-use-differs/shared-records", fmt.Sprintf("%d of 480 compressed packings of two messages that share %d record values, made from 8 goroutines at once, differ from the packing made alone (%v)", nb, n, first.Load()),
			map[string]any{"zone": zone, "target_zone": targetZone, "records": n})
	}
}

// c04RootPointers: the root name written as a compression pointer - to the zero octet that ends an
// earlier name, or to a pointer to it. No packer gains anything by it, but "compressed names are still
// accepted on input", and a name made of pointers alone is the shortest of them: it decodes to the root.
func c04RootPointers(w *core.W, j int) {
	g := model.NewGen(w.Rng(j))
	qn := g.NameOfWireLen(3 + g.R.IntN(60))
	if !qn.Valid() {
		return
	}
	head := func(an, ar int) []byte {
		return []byte{byte(j >> 8), byte(j), 0x84, 0, 0, 1, 0, byte(an), 0, 0, 0, byte(ar)}
	}
	q := append(qn.Wire(), 0, 2, 0, 1)
	zero := 12 + len(qn.Wire()) - 1 // the octet that ends the question name
	type rec struct {
		owner, rdata []byte // as written (pointers allowed) ...
		ownerU, rdU  []byte // ... and spelled out
		typ          uint16
	}
	ptr := func(o int) []byte { return []byte{0xC0 | byte(o>>8), byte(o)} }
	wire := func(rs []rec, plain bool, an, ar int) []byte {
		b := append(head(an, ar), q...)
		for _, r := range rs {
			o, rd := r.owner, r.rdata
			if plain {
				o, rd = r.ownerU, r.rdU
			}
			b = append(b, o...)
			b = append(b, byte(r.typ>>8), byte(r.typ), 0, 1, 0, 0, 0, 60, byte(len(rd)>>8), byte(len(rd)))
			b = append(b, rd...)
		}
		return b
	}
	// record 1: NS owned by the root (a pointer to the zero octet), target the root (another pointer to it)
	// record 2: its owner is a pointer to record 1's owner pointer; MX with the root as exchange
	r1 := rec{owner: ptr(zero), rdata: ptr(zero), ownerU: []byte{0}, rdU: []byte{0}, typ: 2}
	off1 := 12 + len(q)
	r2 := rec{owner: ptr(off1), rdata: append([]byte{0, 10}, ptr(off1)...), ownerU: []byte{0}, rdU: []byte{0, 10, 0}, typ: 15}
	// record 3 (additional): an OPT-like position - a TXT owned by the root through a two-hop pointer
	off2 := off1 + 2 + 10 + 2
	r3 := rec{owner: ptr(off2), rdata: []byte{1, 'x'}, ownerU: []byte{0}, rdU: []byte{1, 'x'}, typ: 16}
	rs := []rec{r1, r2, r3}
	comp, plain := wire(rs, false, 2, 1), wire(rs, true, 2, 1)
	wit := map[string]any{"compressed_input": hx(comp), "uncompressed_input": hx(plain)}
	w.Eval(1)
	mc, mu := new(dns.Msg), new(dns.Msg)
	var ec, eu error
	if w.Guard("Msg.Unpack(root pointers)", wit, func() { ec, eu = mc.Unpack(comp), mu.Unpack(plain) }) {
		return
	}
	w.Count("root_pointer_messages", 1)
	if eu != nil {
		return
	}
	if ec != nil {
		w.Violation("C04/compressed-input-rejected/root-pointers", fmt.Sprintf("a message whose root names are written as pointers to a zero octet: %v", ec), wit)
		return
	}
	if d := bridge.DiffNoRdlen(mu, mc); d != "" {
		w.Violation("C04/compressed-decodes-differently/root-pointers", "root names written as pointers decode differently from the root written out: "+d, wit)
		return
	}
	// and what was decoded packs again into the plain form
	if out, err := mc.Pack(); err != nil || !bytes.Equal(out, plain) {
		w.Violation("C04/compressed-decodes-differently/root-pointers", fmt.Sprintf("the message decoded from root pointers does not pack into the uncompressed form (err %v): %s", err, diffWin(out, plain)), wit)
	}
	w.Nontrivial(comp)
}

func init() {
	plan, run := sections(
		section{"small", tiered(3000, 60000), c04Small},
		section{"large", tiered(60, 1500), c04Large},
		section{"special-use-names", tiered(600, 12000), c04SpecialUse},
		section{"dense", tiered(120, 3000), c04Dense},
		concurrentSection("C04"),
		section{"shared-records", tiered(40, 800), c04SharedRecords},
		section{"root-pointers", tiered(40, 800), c04RootPointers},
	)
	core.Register(&core.Monitor{
		ID: "C04", Level: "exploration", Plan: plan, Run: run,
		Rule: "messages drawn from small pools of suffix-sharing / case-variant / escaped names, 0..4 questions, every name-bearing type in every section, plus 300..1200-record messages crossing offset 16384; " +
			"oracle = strict model decoder (expands names, logs every pointer with position/target/field) compared byte-exact with the uncompressed packing; model-compressed input with pointers in every type's RDATA; the same message packed again after a failing and after a succeeding Pack of a related message with shifted offsets must give identical octets; " +
			"root names written as pointers (one and two hops) to the zero octet of an earlier name; the same operations called from 8 goroutines at once give the results they give alone; two messages sharing their record values (different compression contexts) packed from 8 goroutines at once; non-trivial = distinct message whose compressed form is shorter",
		Assumptions: []string{"RFC 3597 s.4 set = NS MD MF CNAME SOA MB MG MR PTR MINFO MX"},
		MinObserved: []string{"messages", "pointers", "messages_over_16384", "input_pointers_in_other_rdata", "history_checks", "special_use_messages"},
	})
}
