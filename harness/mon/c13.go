package mon

import (
	"reflect"
	"context"
	"crypto/ecdsa"
	"crypto/elliptic"
	"crypto/rand"
	"crypto/tls"
	"crypto/x509"
	"crypto/x509/pkix"
	"encoding/binary"
	"errors"
	"fmt"
	"io"
	"math/big"
	"net"
	"runtime"
	"strings"
	"sync"
	"sync/atomic"
	"time"

	"github.com/miekg/dns"

	"verifharness/core"
	"verifharness/netsim"
	"verifharness/sched"
)

const c13Watch = 15 * time.Second // generous bound on operations that should take microseconds

var c13Transports = []string{"tcp-sim", "pc-sim", "tls-sim", "tcp-real", "udp-real"}

var (
	tlsOnce sync.Once
	tlsSrv  *tls.Config
	tlsCli  *tls.Config
)

func c13TLS() (*tls.Config, *tls.Config) {
	tlsOnce.Do(func() {
		key, _ := ecdsa.GenerateKey(elliptic.P256(), rand.Reader)
		tmpl := &x509.Certificate{SerialNumber: big.NewInt(1), Subject: pkix.Name{CommonName: "verif"}, NotBefore: time.Unix(0, 0), NotAfter: time.Unix(1<<33, 0),
			DNSNames: []string{"verif"}, KeyUsage: x509.KeyUsageDigitalSignature, ExtKeyUsage: []x509.ExtKeyUsage{x509.ExtKeyUsageServerAuth}}
		der, _ := x509.CreateCertificate(rand.Reader, tmpl, tmpl, &key.PublicKey, key)
		tlsSrv = &tls.Config{Certificates: []tls.Certificate{{Certificate: [][]byte{der}, PrivateKey: key}}}
		tlsCli = &tls.Config{InsecureSkipVerify: true}
	})
	return tlsSrv, tlsCli
}

type c13Env struct {
	w          *core.W
	kind       string
	ctl        *sched.Controller
	srv        *dns.Server
	ln         *netsim.Listener
	pc         *netsim.PacketConn
	addr       string
	started    chan struct{}
	serveErr   chan error
	hold       chan struct{} // handlers wait on it when non-nil
	holdOn     atomic.Bool
	entered    atomic.Int32
	exited     atomic.Int32
	nextAddr   atomic.Int32
	scenario   string
	conclusive bool
	// serveErrWant, if set, is the error the serve call is expected to return (a listener that failed
	// for good) instead of nil
	serveErrWant error
}

func newC13Env(w *core.W, kind, scenario string, seed uint64) *c13Env {
	e := &c13Env{w: w, kind: kind, ctl: sched.New(seed), started: make(chan struct{}), serveErr: make(chan error, 1), hold: make(chan struct{}), scenario: scenario, conclusive: true}
	sched.Use(e.ctl)
	e.srv = &dns.Server{ReadTimeout: time.Hour, IdleTimeout: func() time.Duration { return time.Hour }, Handler: dns.HandlerFunc(e.handle)}
	var once sync.Once
	e.srv.NotifyStartedFunc = func() { e.ctl.Note("started", ""); once.Do(func() { close(e.started) }) }
	switch kind {
	case "tcp-sim":
		e.ln = netsim.NewListener()
		if seed%2 == 1 {
			e.ln.ClosedErr = errors.New("netsim: listener closed") // a listener with a closed-sentinel of its own
		}
		e.srv.Listener = e.ln
		// closing a connection may take a while (a lingering socket, a wrapper that flushes first)
		e.ln.Prepare = func(sv *netsim.Stream) { sv.CloseDelay = time.Duration(seed%3) * 6 * time.Millisecond }
	case "tls-sim":
		e.ln = netsim.NewListener()
		e.ln.Prepare = func(sv *netsim.Stream) { sv.CloseDelay = time.Duration(seed%3) * 6 * time.Millisecond }
		sc, _ := c13TLS()
		e.srv.Listener = tls.NewListener(e.ln, sc)
	case "pc-sim":
		e.pc = netsim.NewPacketConn()
		e.pc.CloseDelay = time.Duration(seed%3) * 4 * time.Millisecond
		e.srv.PacketConn = e.pc
	case "tcp-real":
		e.srv.Net, e.srv.Addr = "tcp", "127.0.0.1:0"
	case "udp-real":
		e.srv.Net, e.srv.Addr = "udp", "127.0.0.1:0"
	}
	return e
}

func (e *c13Env) handle(rw dns.ResponseWriter, req *dns.Msg) {
	e.entered.Add(1)
	e.ctl.Note("handler.enter", fmt.Sprint(req.Id))
	if e.holdOn.Load() {
		select {
		case <-e.hold:
		case <-time.After(c13Watch * 2):
		}
	}
	r := new(dns.Msg)
	r.SetReply(req)
	err := rw.WriteMsg(r)
	e.ctl.Note("reply.written", fmt.Sprintf("%d %v", req.Id, err == nil))
	e.ctl.Note("handler.exit", fmt.Sprint(req.Id))
	e.exited.Add(1)
}

func (e *c13Env) real() bool { return strings.HasSuffix(e.kind, "-real") }

// start launches the serve call and waits for NotifyStartedFunc.
func (e *c13Env) start() bool {
	e.ctl.Note("start.call", "")
	go func() {
		var err error
		if e.real() {
			err = e.srv.ListenAndServe()
		} else {
			err = e.srv.ActivateAndServe()
		}
		e.ctl.Note("serve.return", fmt.Sprint(err))
		e.serveErr <- err
	}()
	select {
	case <-e.started:
	case err := <-e.serveErr:
		e.w.Inconclusive("c13-start-failed:" + e.kind + ":" + fmt.Sprint(err))
		e.conclusive = false
		return false
	case <-time.After(c13Watch):
		e.w.Inconclusive("c13-start-timeout:" + e.kind)
		e.conclusive = false
		return false
	}
	switch e.kind {
	case "tcp-real":
		e.addr = e.srv.Listener.Addr().String()
	case "udp-real":
		e.addr = e.srv.PacketConn.LocalAddr().String()
	}
	return true
}

// c13Req is one in-flight client request.
type c13Req struct {
	id    uint16
	reply chan bool // true: matching reply received
	close func()
}

// send issues one request from a fresh client endpoint; the reply is awaited in the background.
func (e *c13Env) send(id uint16) *c13Req {
	q := new(dns.Msg)
	q.SetQuestion(fmt.Sprintf("r%d.example.", id), dns.TypeA)
	q.Id = id
	b, _ := q.Pack()
	rq := &c13Req{id: id, reply: make(chan bool, 1), close: func() {}}
	e.ctl.Note("request.sent", fmt.Sprint(id))
	check := func(rb []byte, err error) {
		ok := false
		if err == nil && len(rb) >= 2 && binary.BigEndian.Uint16(rb) == id {
			ok = true
			e.ctl.Note("reply.received", fmt.Sprint(id))
		}
		rq.reply <- ok
	}
	readFrame := func(c net.Conn) ([]byte, error) {
		c.SetReadDeadline(time.Now().Add(c13Watch * 3))
		var l [2]byte
		if _, err := io.ReadFull(c, l[:]); err != nil {
			return nil, err
		}
		rb := make([]byte, binary.BigEndian.Uint16(l[:]))
		_, err := io.ReadFull(c, rb)
		return rb, err
	}
	switch e.kind {
	case "tcp-sim", "tls-sim":
		cl, err := e.ln.Dial()
		if err != nil {
			rq.reply <- false
			return rq
		}
		var c net.Conn = cl
		if e.kind == "tls-sim" {
			_, cc := c13TLS()
			c = tls.Client(cl, cc)
		}
		rq.close = func() { c.Close() }
		go func() {
			if _, err := c.Write(frame(b)); err != nil {
				rq.reply <- false
				return
			}
			check(readFrame(c))
		}()
	case "tcp-real":
		c, err := net.DialTimeout("tcp", e.addr, c13Watch)
		if err != nil {
			rq.reply <- false
			return rq
		}
		rq.close = func() { c.Close() }
		go func() {
			c.Write(frame(b))
			check(readFrame(c))
		}()
	case "udp-real":
		c, err := net.Dial("udp", e.addr)
		if err != nil {
			rq.reply <- false
			return rq
		}
		rq.close = func() { c.Close() }
		go func() {
			c.Write(b)
			c.SetReadDeadline(time.Now().Add(c13Watch * 3))
			rb := make([]byte, 4096)
			n, err := c.Read(rb)
			check(rb[:n], err)
		}()
	case "pc-sim":
		a := netsim.Addr(fmt.Sprintf("client-%d", e.nextAddr.Add(1)))
		pc := e.pc // (a scenario may give the Server another transport while this request is in flight)
		pc.Inject(b, a)
		go func() {
			rb, ok := pc.Sent(a, c13Watch*3)
			if !ok {
				rq.reply <- false
				return
			}
			check(rb, nil)
		}()
	}
	return rq
}

// shutdown calls Shutdown (or ShutdownContext) in the background.
type c13Shutdown struct {
	done chan error
}

func (e *c13Env) shutdown(tag string, ctx context.Context) *c13Shutdown {
	s := &c13Shutdown{done: make(chan error, 1)}
	e.ctl.Note("shutdown.call", tag)
	ln, pc := e.ln, e.pc // the listener / socket of the run that is being shut down
	go func() {
		var err error
		if ctx != nil {
			err = e.srv.ShutdownContext(ctx)
		} else {
			err = e.srv.Shutdown()
		}
		e.ctl.Note("shutdown.return", tag+" "+fmt.Sprint(err))
		if err == nil && pc != nil && pc.ClosesDone() == 0 {
			// "once shutdown completes no connection of the server remains": the datagram socket has been
			// released by the time a graceful Shutdown returns, not some time later
			e.viol("packetconn-open-when-shutdown-returns", fmt.Sprintf("Shutdown returned nil while no Close of the PacketConn had completed (Close calls begun: %d)", pc.Closes()))
		}
		if err == nil && ln != nil && e.scenario != "hijack" {
			// ... and so have the connections it accepted: closed, not about to be
			for i, c := range ln.Accepted() {
				if c.Closes() == 0 {
					e.viol("connection-open-when-shutdown-returns", fmt.Sprintf("Shutdown returned nil while connection %d accepted by the server had not been closed yet", i))
					break
				}
			}
		}
		s.done <- err
	}()
	return s
}

func (s *c13Shutdown) wait(d time.Duration) (error, bool) {
	select {
	case err := <-s.done:
		return err, true
	case <-time.After(d):
		return nil, false
	}
}

func serverGoroutines() int {
	buf := make([]byte, 1<<20)
	n := runtime.Stack(buf, true)
	c := 0
	for _, g := range strings.Split(string(buf[:n]), "\n\n") {
		if strings.Contains(g, "github.com/miekg/dns.(*Server)") {
			c++
		}
	}
	return c
}

func (e *c13Env) viol(what, detail string) {
	e.w.Violation("C13/"+what+"/"+e.kind+"/"+e.scenario, detail+"\nevent order: "+strings.Join(compactOrder(e.ctl.Log()), " > "), map[string]any{"transport": e.kind, "scenario": e.scenario})
}

func compactOrder(log []sched.Event) []string {
	var out []string
	for _, ev := range log {
		s := ev.Point
		if ev.Note != "" && (strings.HasPrefix(s, "shutdown.") || s == "serve.return" || s == "reply.written") {
			s += "(" + ev.Note + ")"
		}
		out = append(out, s)
	}
	if len(out) > 60 {
		out = append(out[:30], append([]string{"..."}, out[len(out)-29:]...)...)
	}
	return out
}

// finish waits for the serve call, then judges the whole log and the leak conditions.
// sd is the Shutdown expected to have succeeded (may be nil when the scenario checked it itself).
func (e *c13Env) finish(reqs []*c13Req, expectDelivered bool) {
	defer sched.Use(nil)
	e.ctl.ReleaseAll()
	var serveErr error
	served := false
	select {
	case serveErr = <-e.serveErr:
		served = true
	case <-time.After(c13Watch):
	}
	if !served {
		e.viol("serve-call-does-not-return", "the blocked serve call did not return after Shutdown completed")
		// try to unwedge for the next scenario
		if e.ln != nil {
			e.ln.Close()
		}
		if e.pc != nil {
			e.pc.Close()
		}
		return
	}
	if serveErr != nil && e.serveErrWant == nil {
		e.viol("serve-call-returns-error", fmt.Sprintf("serve call returned %v after a successful Shutdown", serveErr))
	}
	if e.serveErrWant != nil && !errors.Is(serveErr, e.serveErrWant) {
		e.viol("serve-call-hides-listener-failure", fmt.Sprintf("the listener failed with %q, the serve call returned %v", e.serveErrWant, serveErr))
	}
	// replies written by handlers are delivered
	written := map[string]bool{}
	received := map[string]bool{}
	log := e.ctl.Log()
	for _, ev := range log {
		if ev.Point == "reply.written" && strings.HasSuffix(ev.Note, " true") {
			written[strings.Fields(ev.Note)[0]] = true
		}
	}
	for _, r := range reqs {
		if written[fmt.Sprint(r.id)] {
			// the reply was written without error: it has to arrive
			select {
			case ok := <-r.reply:
				if ok {
					received[fmt.Sprint(r.id)] = true
				}
			case <-time.After(c13Watch):
			}
		}
		r.close() // requests that were never answered are abandoned (their readers fail at once)
	}
	if expectDelivered {
		for id := range written {
			if !received[id] {
				e.viol("reply-not-delivered", fmt.Sprintf("the handler for request %s wrote its reply without error but the client never received it", id))
			}
		}
	}
	// ordering rules over the log
	var shutdownOK int64 = -1
	for _, ev := range log {
		if ev.Point == "shutdown.return" && strings.HasSuffix(ev.Note, " <nil>") && shutdownOK < 0 {
			shutdownOK = ev.Seq
		}
	}
	if shutdownOK >= 0 {
		enter := map[string]int64{}
		exit := map[string]int64{}
		for _, ev := range log {
			switch ev.Point {
			case "handler.enter":
				enter[ev.Note] = ev.Seq
				if ev.Seq > shutdownOK {
					e.viol("handler-started-after-shutdown-returned", fmt.Sprintf("handler for request %s entered (seq %d) after Shutdown had returned (seq %d)", ev.Note, ev.Seq, shutdownOK))
				}
			case "handler.exit":
				exit[ev.Note] = ev.Seq
			}
		}
		for id, s := range enter {
			if s < shutdownOK {
				if x, ok := exit[id]; !ok || x > shutdownOK {
					e.viol("shutdown-returned-before-handler", fmt.Sprintf("Shutdown returned (seq %d) while the handler for request %s (entered at seq %d) had not returned", shutdownOK, id, s))
				}
			}
		}
	}
	// leaks: goroutines, tracked connections, simulated connections
	deadline := time.Now().Add(3 * time.Second)
	for serverGoroutines() > 0 && time.Now().Before(deadline) {
		time.Sleep(5 * time.Millisecond)
	}
	if n := serverGoroutines(); n > 0 {
		e.viol("goroutine-leak", fmt.Sprintf("%d goroutine(s) with a dns.(*Server) frame remain after shutdown completed", n))
	}
	if st, conns := e.srv.VerifState(); st || conns != 0 {
		e.viol("server-state-leak", fmt.Sprintf("after shutdown: started=%v tracked connections=%d", st, conns))
	}
	if e.ln != nil {
		for i, s := range e.ln.Accepted() {
			if s.Closes() == 0 {
				e.viol("connection-leak", fmt.Sprintf("connection %d accepted by the server was never closed", i))
			}
		}
	}
	if e.pc != nil && e.pc.Closes() == 0 {
		e.viol("packetconn-not-closed", "the PacketConn was not closed by the serve loop / Shutdown")
	}
	if n := e.ctl.GateTimeouts(); n > 0 {
		e.w.Inconclusive("c13-gate-safety-timeout")
	}
	e.w.Cover("event_order", fmt.Sprintf("%s/%s/%x", e.kind, e.scenario, hashStrings(e.ctl.Order())))
	for p, n := range e.ctl.Hits() {
		e.w.Count("hook:"+p, n)
	}
	e.w.Count("scenarios", 1)
	e.w.Count("scenarios_"+e.kind, 1)
	e.w.NontrivialStr(e.kind, e.scenario, fmt.Sprint(hashStrings(e.ctl.Order())))
	if e.w.WantSample() {
		e.w.Sample(map[string]any{"transport": e.kind, "scenario": e.scenario, "event_order": compactOrder(log)})
	}
}

func hashStrings(ss []string) uint64 {
	var h uint64 = 1469598103934665603
	for _, s := range ss {
		for i := 0; i < len(s); i++ {
			h ^= uint64(s[i])
			h *= 1099511628211
		}
		h ^= 0xFF
		h *= 1099511628211
	}
	return h
}

func hookPointsFor(kind string) []string {
	switch kind {
	case "tcp-sim", "tcp-real", "tls-sim":
		return []string{"start.unlocked", "tcp.accepted", "tcp.registered", "tcpconn.beforeRead", "readTCP.deadlineSet", "serveDNS.exit"}
	case "pc-sim":
		return []string{"start.unlocked", "readPC.deadlineSet", "udp.read", "serveDNS.exit"}
	default:
		return []string{"start.unlocked", "readUDP.deadlineSet", "udp.read", "serveDNS.exit"}
	}
}

// scenario: Shutdown raced against one hook point, in both release orders, with k requests.
func c13GateScenario(w *core.W, kind, point string, order, k int, seed uint64) {
	e := newC13Env(w, kind, fmt.Sprintf("gate:%s/order%d/k%d", point, order, k), seed)
	var g *sched.Gate
	if point == "start.unlocked" {
		g = e.ctl.Gate(point, false)
		// the server is held between "started" and its serve loop: NotifyStartedFunc has not run yet
		e.ctl.Note("start.call", "")
		go func() {
			var err error
			if e.real() {
				err = e.srv.ListenAndServe()
			} else {
				err = e.srv.ActivateAndServe()
			}
			e.ctl.Note("serve.return", fmt.Sprint(err))
			e.serveErr <- err
		}()
		if !g.WaitArrived(c13Watch) {
			w.Inconclusive("c13-hook-not-reached:" + point)
			e.ctl.ReleaseAll()
			e.finish(nil, false)
			return
		}
	} else {
		if !e.start() {
			return
		}
		g = e.ctl.Gate(point, false)
	}
	var reqs []*c13Req
	if point != "start.unlocked" {
		for i := 0; i < k; i++ {
			reqs = append(reqs, e.send(uint16(100+i)))
		}
		if k > 0 && !g.WaitArrived(c13Watch) {
			// with k>0 every listed point is reached; otherwise the scenario degenerates to plain shutdown
			w.Count("gate_not_reached", 1)
		}
	}
	sg := e.ctl.Gate("shutdown.unlocked", false)
	sd := e.shutdown("s1", nil)
	sg.WaitArrived(2 * time.Second) // Shutdown has left its locked section (or is blocked on the lock)
	if order == 0 {
		g.Release()
		time.Sleep(2 * time.Millisecond)
		sg.Release()
	} else {
		sg.Release()
		time.Sleep(5 * time.Millisecond) // Shutdown now waits for the serve loop; the gated goroutine is released afterwards
		g.Release()
	}
	err, ok := sd.wait(c13Watch)
	if !ok {
		e.viol("shutdown-does-not-return", fmt.Sprintf("Shutdown did not return within %v (gate %s, order %d, %d requests)", c13Watch, point, order, k))
		e.ctl.ReleaseAll()
		if e.ln != nil {
			for _, s := range e.ln.ServerConns() {
				s.Close()
			}
		}
		if e.pc != nil {
			e.pc.Close()
		}
	} else if err != nil {
		e.viol("shutdown-error", fmt.Sprintf("Shutdown of a started server returned %v", err))
	}
	e.finish(reqs, true)
}

// scenario: k handlers are in flight (held) when Shutdown is called.
func c13InFlightScenario(w *core.W, kind string, k int, ctxMode int, seed uint64) {
	ctxExpiry := ctxMode > 0
	e := newC13Env(w, kind, fmt.Sprintf("inflight/k%d/ctx%v", k, []string{"false", "true", "precancelled"}[ctxMode]), seed)
	if !e.start() {
		return
	}
	e.holdOn.Store(true)
	var reqs []*c13Req
	for i := 0; i < k; i++ {
		reqs = append(reqs, e.send(uint16(200+i)))
	}
	deadline := time.Now().Add(c13Watch)
	for int(e.entered.Load()) < k && time.Now().Before(deadline) {
		time.Sleep(time.Millisecond)
	}
	if int(e.entered.Load()) < k {
		w.Inconclusive("c13-handlers-not-entered:" + kind)
	}
	if ctxExpiry {
		ctx, cancel := context.WithTimeout(context.Background(), 30*time.Millisecond)
		defer cancel()
		if ctxMode == 2 {
			cancel() // the context is already done when ShutdownContext is called: the server must still stop
			e.ctl.Note("context.cancelled-before-call", "")
		}
		sd := e.shutdown("ctx", ctx)
		err, ok := sd.wait(c13Watch)
		if !ok {
			e.viol("shutdowncontext-does-not-return", "ShutdownContext did not return after its context expired")
		} else if k > 0 && err == nil {
			e.viol("shutdowncontext-returned-nil-with-handlers-running", "ShutdownContext returned nil although handlers were still running and the context expired")
		}
		close(e.hold)
		e.finish(reqs, kind != "udp-real" && kind != "pc-sim") // after an expired shutdown the datagram socket is closed: later replies may be lost
		return
	}
	sg := e.ctl.Gate("shutdown.unlocked", false)
	sd := e.shutdown("s1", nil)
	sg.WaitArrived(2 * time.Second)
	sg.Release()
	time.Sleep(10 * time.Millisecond) // room for a premature return to show up in the log
	e.ctl.Note("handlers.released", "")
	close(e.hold)
	err, ok := sd.wait(c13Watch)
	if !ok {
		e.viol("shutdown-does-not-return", fmt.Sprintf("Shutdown did not return within %v after %d held handlers were released", c13Watch, k))
	} else if err != nil {
		e.viol("shutdown-error", fmt.Sprintf("Shutdown returned %v", err))
	}
	e.finish(reqs, true)
}

// scenario: misuse and restart.
func c13MisuseScenario(w *core.W, kind string, seed uint64) {
	e := newC13Env(w, kind, "misuse", seed)
	// shutdown of a server that was never started
	errc := make(chan error, 1)
	go func() { errc <- e.srv.Shutdown() }()
	select {
	case err := <-errc:
		if err == nil {
			e.viol("shutdown-of-unstarted-server-succeeds", "Shutdown on a server that was not started returned nil")
		}
	case <-time.After(c13Watch):
		e.viol("shutdown-of-unstarted-server-blocks", "Shutdown on a server that was not started did not return")
		return
	}
	if !e.start() {
		return
	}
	// second start
	go func() {
		if e.real() {
			errc <- e.srv.ListenAndServe()
		} else {
			errc <- e.srv.ActivateAndServe()
		}
	}()
	select {
	case err := <-errc:
		if err == nil {
			e.viol("second-start-succeeds", "starting an already started server returned nil")
		}
	case <-time.After(c13Watch):
		e.viol("second-start-blocks", "starting an already started server blocks instead of returning an error")
	}
	r := e.send(7)
	// N concurrent shutdowns: exactly one succeeds
	n := 4
	var sds []*c13Shutdown
	for i := 0; i < n; i++ {
		sds = append(sds, e.shutdown(fmt.Sprintf("c%d", i), nil))
	}
	okCount := 0
	for _, sd := range sds {
		err, ok := sd.wait(c13Watch)
		if !ok {
			e.viol("concurrent-shutdown-blocks", "one of several concurrent Shutdown calls did not return")
			continue
		}
		if err == nil {
			okCount++
		}
	}
	if okCount != 1 {
		e.viol("concurrent-shutdown-count", fmt.Sprintf("%d of %d concurrent Shutdown calls returned nil, want exactly 1", okCount, n))
	}
	e.finish([]*c13Req{r}, true)
	// restart after a completed shutdown (fresh transport for the simulated kinds)
	e2 := newC13Env(w, kind, "restart", seed+1)
	e2.srv = e.srv
	var once sync.Once
	e2.srv.NotifyStartedFunc = func() { e2.ctl.Note("started", ""); once.Do(func() { close(e2.started) }) }
	e2.srv.Handler = dns.HandlerFunc(e2.handle)
	switch kind {
	case "tcp-sim":
		e2.ln = netsim.NewListener()
		e2.srv.Listener = e2.ln
	case "tls-sim":
		e2.ln = netsim.NewListener()
		sc, _ := c13TLS()
		e2.srv.Listener = tls.NewListener(e2.ln, sc)
	case "pc-sim":
		e2.pc = netsim.NewPacketConn()
		e2.srv.PacketConn = e2.pc
	default:
		e2.srv.Listener, e2.srv.PacketConn = nil, nil
	}
	if !e2.start() {
		return
	}
	r2 := e2.send(9)
	select {
	case ok := <-r2.reply:
		r2.reply <- ok
		if !ok {
			e2.viol("restarted-server-does-not-answer", "after Shutdown and a new start the server did not answer a request")
		}
	case <-time.After(c13Watch):
		e2.viol("restarted-server-does-not-answer", "after Shutdown and a new start the server did not answer a request")
	}
	sd := e2.shutdown("s2", nil)
	if err, ok := sd.wait(c13Watch); !ok || err != nil {
		e2.viol("shutdown-after-restart", fmt.Sprintf("returned=%v err=%v", ok, err))
	}
	e2.finish([]*c13Req{r2}, true)
}

// scenario: the application's NotifyStartedFunc takes its time (it logs, signals a supervisor, ...).
// While it runs the server counts as started: a second start and a Shutdown bound by a context
// return - they do not wait for the callback.
func c13SlowNotifyScenario(w *core.W, kind string, seed uint64) {
	e := newC13Env(w, kind, "slow-notify", seed)
	defer sched.Use(nil)
	release := make(chan struct{})
	entered := make(chan struct{})
	var once sync.Once
	e.srv.NotifyStartedFunc = func() {
		e.ctl.Note("started", "")
		once.Do(func() { close(entered) })
		<-release
	}
	go func() { e.serveErr <- e.srv.ActivateAndServe() }()
	select {
	case <-entered:
	case err := <-e.serveErr:
		close(release)
		e.w.Inconclusive("c13-start-failed:" + kind + ":" + fmt.Sprint(err))
		return
	case <-time.After(c13Watch):
		close(release)
		e.w.Inconclusive("c13-start-timeout:" + kind)
		return
	}
	w.Count("scenarios", 1)
	w.Count("scenarios_"+kind, 1)
	errc := make(chan error, 1)
	go func() { errc <- e.srv.ActivateAndServe() }()
	select {
	case err := <-errc:
		if err == nil {
			e.viol("second-start-succeeds", "starting an already started server returned nil")
		}
	case <-time.After(c13Watch):
		e.viol("second-start-blocks", "starting an already started server blocks while NotifyStartedFunc of the first start is still running")
		close(release)
		return
	}
	ctx, cancel := context.WithTimeout(context.Background(), 30*time.Millisecond)
	defer cancel()
	sdc := make(chan error, 1)
	go func() { sdc <- e.srv.ShutdownContext(ctx) }()
	select {
	case <-sdc:
	case <-time.After(c13Watch):
		e.viol("shutdowncontext-does-not-return", "ShutdownContext did not return after its context expired (NotifyStartedFunc still running)")
		close(release)
		return
	}
	close(release)
	select {
	case err := <-e.serveErr:
		if err != nil {
			e.viol("serve-returns-error", fmt.Sprintf("the serve call returned %v after shutdown", err))
		}
	case <-time.After(c13Watch):
		e.viol("serve-does-not-return", "the serve call did not return after shutdown and the end of NotifyStartedFunc")
	}
}

// scenario: a start that fails must not leave the server marked as started.
func c13FailedStartScenario(w *core.W, variant int, seed uint64) {
	e := newC13Env(w, "none", fmt.Sprintf("failed-start/%d", variant), seed)
	defer sched.Use(nil)
	e.kind = "failed-start"
	var err error
	// a free port, so that what is left behind by a start that failed can be looked for afterwards
	probeAddr := "127.0.0.1:0"
	if variant == 3 {
		if l, lerr := net.Listen("tcp", "127.0.0.1:0"); lerr == nil {
			probeAddr = l.Addr().String()
			l.Close()
		}
	}
	done := make(chan struct{})
	go func() {
		defer close(done)
		switch variant {
		case 0: // nothing configured
			err = e.srv.ActivateAndServe()
		case 1: // bad network
			e.srv.Net, e.srv.Addr = "bogus", "127.0.0.1:0"
			err = e.srv.ListenAndServe()
		case 2: // unparsable address
			e.srv.Net, e.srv.Addr = "udp", "256.256.256.256:99999"
			err = e.srv.ListenAndServe()
		case 3: // TLS without certificates (nil config or an empty one), on an address that can be bound
			e.srv.Net, e.srv.Addr, e.srv.TLSConfig = []string{"tcp-tls", "tcp4-tls"}[seed%2], probeAddr, &tls.Config{}
			if seed%3 == 0 {
				e.srv.TLSConfig = nil
			}
			err = e.srv.ListenAndServe()
		}
	}()
	select {
	case <-done:
	case <-time.After(c13Watch):
		e.viol("failing-start-blocks", "a start that cannot succeed did not return")
		return
	}
	w.Eval(1)
	if err == nil {
		e.viol("failing-start-returns-nil", "a start that cannot succeed returned nil")
		return
	}
	errc := make(chan error, 1)
	go func() { errc <- e.srv.Shutdown() }()
	select {
	case serr := <-errc:
		if serr == nil {
			e.viol("shutdown-after-failed-start-succeeds", "Shutdown after a failed start returned nil (the server is not started)")
		}
	case <-time.After(c13Watch):
		e.viol("shutdown-after-failed-start-blocks", "Shutdown after a failed start blocks instead of returning 'server not started'")
		return
	}
	if st, _ := e.srv.VerifState(); st {
		e.viol("started-flag-after-failed-start", "the server is marked started after a failed start")
	}
	if variant == 3 && !strings.HasSuffix(probeAddr, ":0") {
		// nothing of a server that never started listens on the address: a connection attempt is refused
		// (a listener that was bound and forgotten would accept it into its backlog)
		w.Count("failed_start_address_probes", 1)
		if c, derr := net.DialTimeout("tcp", probeAddr, 2*time.Second); derr == nil {
			c.Close()
			e.viol("socket-left-behind-by-failed-start", fmt.Sprintf("ListenAndServe(%s) failed with %q, yet %s still accepts connections", e.srv.Net, err, probeAddr))
		}
	}
	// a retry with a usable transport must work
	e.kind = "tcp-sim"
	e.ln = netsim.NewListener()
	e.srv.Listener, e.srv.Net, e.srv.Addr, e.srv.TLSConfig = e.ln, "", "", nil
	if !e.start() {
		e.viol("retry-after-failed-start-fails", "a second start with a valid listener failed")
		return
	}
	r := e.send(3)
	sd := e.shutdown("s1", nil)
	if err, ok := sd.wait(c13Watch); !ok || err != nil {
		e.viol("shutdown-after-retry", fmt.Sprintf("returned=%v err=%v", ok, err))
	}
	e.finish([]*c13Req{r}, false)
}

// scenario: the transport pauses the server inside SetReadDeadline(future) while Shutdown runs.
func c13PauseScenario(w *core.W, kind string, seed uint64) {
	e := newC13Env(w, kind, "pause-in-SetReadDeadline", seed)
	pauseArrived := make(chan struct{})
	release := make(chan struct{})
	var once sync.Once
	var armed atomic.Bool
	pause := func(t time.Time) {
		if armed.Load() && t.After(time.Now()) { // only the arming of a future deadline is paused, never Shutdown's own unblocking call
			first := false
			once.Do(func() { first = true; close(pauseArrived) })
			if first {
				select {
				case <-release:
				case <-time.After(c13Watch * 2):
				}
			}
		}
	}
	switch kind {
	case "tcp-sim":
		e.ln.Prepare = func(s *netsim.Stream) { s.OnSetReadDeadline = pause }
	case "pc-sim":
		e.pc.OnSetReadDeadline = pause
	}
	// armed before start: the transport is idle (no request is ever sent), so a read whose
	// deadline ends up in the future blocks for the whole 1 h timeout
	armed.Store(true)
	if !e.start() {
		return
	}
	var reqs []*c13Req
	var idle *netsim.Stream
	if kind == "tcp-sim" {
		idle, _ = e.ln.Dial() // an idle connection: accepted, read armed, nothing ever arrives
		defer idle.Close()
	}
	select {
	case <-pauseArrived:
	case <-time.After(c13Watch):
		w.Inconclusive("c13-pause-point-not-reached:" + kind)
		close(release)
		sd := e.shutdown("s1", nil)
		sd.wait(c13Watch)
		e.finish(reqs, false)
		return
	}
	sd := e.shutdown("s1", nil)
	time.Sleep(30 * time.Millisecond) // Shutdown either waits for the server's read lock or (defect) runs to its wait
	close(release)
	err, ok := sd.wait(c13Watch)
	if !ok {
		e.viol("shutdown-does-not-return", "Shutdown did not return: a read deadline armed concurrently with Shutdown overrode the unblocking deadline")
		if e.ln != nil {
			for _, s := range e.ln.ServerConns() {
				s.Close()
			}
		}
		if e.pc != nil {
			e.pc.Close()
		}
	} else if err != nil {
		e.viol("shutdown-error", fmt.Sprintf("Shutdown returned %v", err))
	}
	e.finish(reqs, false)
}

// scenario: seeded random delays at every hook, concurrent clients, Shutdown at a random moment.
func c13RandomScenario(w *core.W, kind string, j int, seed uint64) {
	e := newC13Env(w, kind, "random-delays", seed)
	e.ctl.Delay = time.Duration(100+j%7*150) * time.Microsecond
	if !e.start() {
		return
	}
	r := w.Rng(j, 99)
	var reqs []*c13Req
	n := 1 + r.IntN(6)
	for i := 0; i < n; i++ {
		reqs = append(reqs, e.send(uint16(300+i)))
		if r.IntN(2) == 0 {
			time.Sleep(time.Duration(r.IntN(400)) * time.Microsecond)
		}
	}
	time.Sleep(time.Duration(r.IntN(1500)) * time.Microsecond)
	sd := e.shutdown("s1", nil)
	err, ok := sd.wait(c13Watch)
	if !ok {
		e.viol("shutdown-does-not-return", "Shutdown did not return under random hook delays")
	} else if err != nil {
		e.viol("shutdown-error", fmt.Sprintf("Shutdown returned %v", err))
	}
	e.finish(reqs, true)
}

// scenario: the server is started again while a Shutdown is still waiting for a held handler.
func c13RestartDuringDrain(w *core.W, kind string, seed uint64) {
	c13RestartWhile(w, kind, false, seed)
}

// the same with the second start made through ListenAndServe on a real loopback address
func c13RestartDuringDrainListen(w *core.W, kind string, seed uint64) {
	c13RestartVia(w, kind, false, true, seed)
}

// c13RestartWhile: a second start while a Shutdown of the same Server is still waiting - for a held
// handler (beforeLoop=false), or for a serve goroutine that has marked the server started but has not
// yet reached its loop (beforeLoop=true: held at the start.unlocked hook, before NotifyStartedFunc).
func c13RestartWhile(w *core.W, kind string, beforeLoop bool, seed uint64) {
	c13RestartVia(w, kind, beforeLoop, false, seed)
}

func c13RestartVia(w *core.W, kind string, beforeLoop, viaListen bool, seed uint64) {
	c13RestartFull(w, kind, beforeLoop, viaListen, false, seed)
}

// c13RestartAfterExpiredShutdown: the first shutdown is a ShutdownContext whose context expires while the
// handler is still held (it returns the context's error, the drain goes on); the second start comes after that.
func c13RestartAfterExpiredShutdown(w *core.W, kind string, seed uint64) {
	c13RestartFull(w, kind, false, false, true, seed)
}

func c13RestartFull(w *core.W, kind string, beforeLoop, viaListen, ctxExpires bool, seed uint64) {
	name := "restart-during-drain"
	if beforeLoop {
		name = "restart-before-serve-loop"
	}
	e := newC13Env(w, kind, name, seed)
	var r1 *c13Req
	var g0 *sched.Gate
	if beforeLoop {
		g0 = e.ctl.Gate("start.unlocked", false)
		e.ctl.Note("start.call", "")
		go func() {
			err := e.srv.ActivateAndServe()
			e.ctl.Note("serve.return", fmt.Sprint(err))
			e.serveErr <- err
		}()
		if !g0.WaitArrived(c13Watch) {
			w.Inconclusive("c13-hook-not-reached:start.unlocked")
			e.ctl.ReleaseAll()
			e.finish(nil, false)
			return
		}
		w.Count("restarts_before_serve_loop", 1)
	} else {
		if !e.start() {
			return
		}
		e.holdOn.Store(true)
		r1 = e.send(60)
		deadline := time.Now().Add(c13Watch)
		for e.entered.Load() < 1 && time.Now().Before(deadline) {
			time.Sleep(time.Millisecond)
		}
	}
	sg := e.ctl.Gate("shutdown.unlocked", false)
	var sdCtx context.Context
	if ctxExpires {
		var cancel context.CancelFunc
		sdCtx, cancel = context.WithTimeout(context.Background(), 40*time.Millisecond)
		defer cancel()
		w.Count("restarts_after_an_expired_shutdown_context", 1)
	}
	sd := e.shutdown("s1", sdCtx)
	sg.WaitArrived(2 * time.Second)
	sg.Release()
	time.Sleep(5 * time.Millisecond) // Shutdown is now waiting for the held handler
	expired := false
	if ctxExpires {
		// the caller gives up waiting: ShutdownContext returns the context's error while the handler is
		// still held and the serve loop still draining
		err, ok := sd.wait(c13Watch)
		switch {
		case !ok:
			e.viol("restart-during-drain/shutdown-context-expiry-ignored", "ShutdownContext did not return although its context had expired")
		case err == nil:
			e.viol("restart-during-drain/shutdown-returned-nil-with-a-handler-running", "ShutdownContext returned nil while a handler was still held")
		}
		expired = true
	}
	// second start on a fresh transport
	oldLn, oldPc := e.ln, e.pc
	started2 := make(chan struct{})
	var once sync.Once
	e.srv.NotifyStartedFunc = func() { once.Do(func() { close(started2) }) }
	switch {
	case viaListen:
		e.srv.Addr = "127.0.0.1:0"
		e.srv.Net = map[string]string{"tcp-sim": "tcp", "pc-sim": "udp"}[kind]
		w.Count("restarts_via_ListenAndServe", 1)
	case kind == "tcp-sim":
		e.ln = netsim.NewListener()
		e.srv.Listener = e.ln
	case kind == "pc-sim":
		e.pc = netsim.NewPacketConn()
		e.srv.PacketConn = e.pc
	}
	serve2 := make(chan error, 1)
	e.ctl.Note("start.call", "second")
	go func() {
		if viaListen {
			serve2 <- e.srv.ListenAndServe()
		} else {
			serve2 <- e.srv.ActivateAndServe()
		}
	}()
	second := "started"
	select {
	case <-started2:
	case err := <-serve2:
		second = fmt.Sprintf("returned %v", err)
		serve2 <- err
	case <-time.After(c13Watch):
		second = "blocked"
		e.viol("restart-during-drain/second-start-blocks", "a start issued while Shutdown is draining neither started nor returned an error")
	}
	e.ctl.Note("second.start", second)
	if beforeLoop {
		g0.Release() // the first serve goroutine goes on: it finds the server shut down and winds up
	} else {
		e.holdOn.Store(false)
		close(e.hold)
	}
	err, ok := error(nil), true
	if !expired {
		err, ok = sd.wait(c13Watch)
	}
	if !ok {
		e.viol("restart-during-drain/first-shutdown-does-not-return", fmt.Sprintf("the Shutdown that was draining never returned after the server was started again (second start: %s)", second))
	} else if err != nil {
		e.viol("restart-during-drain/first-shutdown-error", fmt.Sprintf("Shutdown returned %v", err))
	}
	// the first serve call
	select {
	case serr := <-e.serveErr:
		if serr != nil {
			e.viol("restart-during-drain/first-serve-error", fmt.Sprintf("first serve call returned %v", serr))
		}
	case <-time.After(c13Watch):
		e.viol("restart-during-drain/first-serve-does-not-return", "the first serve call did not return")
	}
	// if the second start succeeded the server must work and shut down cleanly
	if second == "started" && viaListen {
		// (the restarted server listens on a real socket of its own choosing: only its shutdown is looked at)
		done := make(chan error, 1)
		go func() { done <- e.srv.Shutdown() }()
		select {
		case <-done:
		case <-time.After(c13Watch):
			e.viol("restart-during-drain/second-shutdown-does-not-return", "Shutdown of the restarted server does not return")
		}
		select {
		case <-serve2:
		case <-time.After(c13Watch):
			e.viol("restart-during-drain/second-serve-does-not-return", "the second serve call did not return")
		}
	} else if second == "started" {
		r2 := e.send(61)
		select {
		case okr := <-r2.reply:
			if !okr {
				e.viol("restart-during-drain/second-server-does-not-answer", "the server started during the drain does not answer")
			}
		case <-time.After(c13Watch):
			e.viol("restart-during-drain/second-server-does-not-answer", "the server started during the drain does not answer")
		}
		r2.close()
		done := make(chan error, 1)
		go func() { done <- e.srv.Shutdown() }()
		select {
		case err := <-done:
			if err != nil {
				e.viol("restart-during-drain/second-shutdown-error", fmt.Sprintf("%v", err))
			}
		case <-time.After(c13Watch):
			e.viol("restart-during-drain/second-shutdown-does-not-return", "Shutdown of the restarted server does not return")
		}
		select {
		case <-serve2:
		case <-time.After(c13Watch):
			e.viol("restart-during-drain/second-serve-does-not-return", "the second serve call did not return")
		}
	}
	if r1 != nil {
		r1.close()
	}
	if oldLn != nil {
		oldLn.Close()
	}
	if oldPc != nil {
		oldPc.Close()
	}
	if e.ln != nil {
		e.ln.Close()
	}
	if e.pc != nil {
		e.pc.Close()
	}
	deadline := time.Now().Add(3 * time.Second)
	for serverGoroutines() > 0 && time.Now().Before(deadline) {
		time.Sleep(5 * time.Millisecond)
	}
	if n := serverGoroutines(); n > 0 {
		e.viol("restart-during-drain/goroutine-leak", fmt.Sprintf("%d server goroutine(s) remain", n))
	}
	e.w.Count("scenarios", 1)
	e.w.Count("restart_during_drain", 1)
	e.w.NontrivialStr(kind, "restart-during-drain", second)
	sched.Use(nil)
}

// scenario: one Server value is used for two runs over different transports (its fields keep
// whatever the first run stored in them): every run must answer, shut down and leave nothing behind.
func c13ReuseScenario(w *core.W, order int, seed uint64) {
	e := newC13Env(w, "none", fmt.Sprintf("reuse-other-transport/%d", order), seed)
	defer sched.Use(nil)
	e.kind = "real-loopback"
	nets := [][]string{{"udp", "tcp"}, {"tcp", "udp"}, {"udp", "tcp", "udp"}, {"tcp", "tcp"}}[order%4]
	var handled atomic.Int32
	e.srv.Handler = dns.HandlerFunc(func(rw dns.ResponseWriter, req *dns.Msg) {
		handled.Add(1)
		r := new(dns.Msg)
		r.SetReply(req)
		rw.WriteMsg(r)
	})
	e.srv.Addr = "127.0.0.1:0"
	w.Eval(1)
	for run, network := range nets {
		started := make(chan struct{})
		var once sync.Once
		e.srv.NotifyStartedFunc = func() { once.Do(func() { close(started) }) }
		e.srv.Net = network
		serveErr := make(chan error, 1)
		go func() { serveErr <- e.srv.ListenAndServe() }()
		select {
		case <-started:
		case err := <-serveErr:
			e.viol("reuse/start-fails", fmt.Sprintf("run %d (%s): ListenAndServe returned %v", run, network, err))
			return
		case <-time.After(c13Watch):
			e.viol("reuse/start-blocks", fmt.Sprintf("run %d (%s): the server did not start", run, network))
			return
		}
		var addr string
		if network == "udp" {
			addr = e.srv.PacketConn.LocalAddr().String()
		} else {
			addr = e.srv.Listener.Addr().String()
		}
		cl := &dns.Client{Net: network, Timeout: 3 * time.Second}
		q := new(dns.Msg)
		q.SetQuestion(fmt.Sprintf("run%d.example.", run), dns.TypeA)
		if _, _, err := cl.Exchange(q, addr); err != nil {
			e.viol("reuse/no-answer", fmt.Sprintf("run %d (%s) of a reused Server does not answer: %v", run, network, err))
		}
		sdErr := make(chan error, 1)
		go func() { sdErr <- e.srv.Shutdown() }()
		select {
		case err := <-sdErr:
			if err != nil {
				e.viol("reuse/shutdown-error", fmt.Sprintf("run %d (%s): Shutdown returned %v", run, network, err))
			}
		case <-time.After(c13Watch):
			e.viol("reuse/shutdown-does-not-return", fmt.Sprintf("run %d (%s) of a reused Server: Shutdown does not return (networks %v)", run, network, nets))
			return
		}
		select {
		case err := <-serveErr:
			if err != nil {
				e.viol("reuse/serve-error", fmt.Sprintf("run %d (%s): the serve call returned %v", run, network, err))
			}
		case <-time.After(c13Watch):
			e.viol("reuse/serve-call-does-not-return", fmt.Sprintf("run %d (%s): the serve call did not return after Shutdown", run, network))
			return
		}
	}
	deadline := time.Now().Add(3 * time.Second)
	for serverGoroutines() > 0 && time.Now().Before(deadline) {
		time.Sleep(5 * time.Millisecond)
	}
	if n := serverGoroutines(); n > 0 {
		e.viol("reuse/goroutine-leak", fmt.Sprintf("%d server goroutine(s) remain after the last run", n))
	}
	w.Count("scenarios", 1)
	w.Count("reuse_runs", len(nets))
	w.NontrivialStr("reuse", fmt.Sprint(nets))
}

// scenario: a handler takes the connection over (Hijack, as zone transfers out do) and returns. The
// server has handed it away for good: it no longer tracks it, Shutdown neither waits for it nor
// touches it, and its new owner can keep reading from and writing to it afterwards.
func c13HijackScenario(w *core.W, seed uint64) {
	e := newC13Env(w, "tcp-sim", "hijack", seed)
	defer sched.Use(nil)
	release := make(chan struct{})
	written := make(chan error, 1)
	e.srv.Handler = dns.HandlerFunc(func(rw dns.ResponseWriter, req *dns.Msg) {
		e.ctl.Note("handler.enter", fmt.Sprint(req.Id))
		rw.Hijack()
		go func() {
			<-release
			r := new(dns.Msg)
			r.SetReply(req)
			written <- rw.WriteMsg(r)
		}()
		e.ctl.Note("handler.exit", fmt.Sprint(req.Id))
		e.exited.Add(1)
	})
	if !e.start() {
		return
	}
	w.Eval(1)
	rq := e.send(77)
	deadline := time.Now().Add(c13Watch)
	for e.exited.Load() < 1 && time.Now().Before(deadline) {
		time.Sleep(time.Millisecond)
	}
	svs := e.ln.ServerConns()
	if e.exited.Load() < 1 || len(svs) == 0 {
		w.Inconclusive("c13-hijack-handler-not-run")
		return
	}
	sv := svs[len(svs)-1]
	// (1) the server forgets the connection once the handler has returned
	tracked := -1
	for deadline = time.Now().Add(2 * time.Second); time.Now().Before(deadline); time.Sleep(time.Millisecond) {
		if _, tracked = e.srv.VerifState(); tracked == 0 {
			break
		}
	}
	if tracked != 0 {
		e.viol("hijacked-connection-still-tracked", fmt.Sprintf("%d connection(s) still tracked by the server after the handler that hijacked it returned", tracked))
	}
	// the new owner waits for more input on its connection
	type rd struct {
		n   int
		err error
	}
	got := make(chan rd, 1)
	go func() {
		buf := make([]byte, 8)
		n, err := sv.Read(buf)
		got <- rd{n, err}
	}()
	time.Sleep(2 * time.Millisecond)
	// (2) Shutdown returns without the hijacked connection
	sd := e.shutdown("s1", nil)
	if err, ok := sd.wait(c13Watch); !ok {
		e.viol("shutdown-does-not-return", "Shutdown waits although the only connection was hijacked and its handler has returned")
	} else if err != nil {
		e.viol("shutdown-error", fmt.Sprintf("Shutdown returned %v", err))
	}
	select {
	case <-e.serveErr:
	case <-time.After(c13Watch):
		e.viol("serve-call-does-not-return", "the serve call did not return")
	}
	// (3) the owner's pending read was not disturbed, and its write still reaches the client
	select {
	case r := <-got:
		e.viol("hijacked-connection-disturbed-by-shutdown", fmt.Sprintf("the pending read of the connection's new owner returned (n=%d, err=%v) when the server shut down", r.n, r.err))
	case <-time.After(20 * time.Millisecond):
	}
	close(release)
	select {
	case err := <-written:
		if err != nil {
			e.viol("hijacked-connection-unusable", fmt.Sprintf("writing on the hijacked connection after Shutdown: %v", err))
		}
	case <-time.After(c13Watch):
		e.viol("hijacked-connection-unusable", "writing on the hijacked connection blocks")
	}
	select {
	case ok := <-rq.reply:
		if !ok {
			e.viol("hijacked-connection-unusable", "the reply written by the connection's new owner did not reach the client")
		}
	case <-time.After(c13Watch):
		e.viol("hijacked-connection-unusable", "the reply written by the connection's new owner did not reach the client")
	}
	rq.close()
	sv.Close()
	w.Count("scenarios", 1)
	w.Count("scenarios_tcp-sim", 1)
	w.Count("hijack_scenarios", 1)
	w.NontrivialStr("hijack", fmt.Sprint(seed%4))
}

// scenario: the client goes away while its handler is still running; the handler's reply cannot be
// written. The server still closes its end of that connection and shuts down cleanly.
func c13ClientGoneScenario(w *core.W, kind string, seed uint64) {
	e := newC13Env(w, kind, "client-gone-before-reply", seed)
	if !e.start() {
		return
	}
	e.holdOn.Store(true)
	rq := e.send(88)
	deadline := time.Now().Add(c13Watch)
	for e.entered.Load() < 1 && time.Now().Before(deadline) {
		time.Sleep(time.Millisecond)
	}
	if e.entered.Load() < 1 {
		w.Inconclusive("c13-handler-not-entered:" + kind)
	}
	rq.close() // the client hangs up
	e.ctl.Note("client.closed", "88")
	time.Sleep(2 * time.Millisecond)
	close(e.hold) // the handler now tries to reply
	for deadline = time.Now().Add(c13Watch); e.exited.Load() < 1 && time.Now().Before(deadline); {
		time.Sleep(time.Millisecond)
	}
	wrote := false
	for _, ev := range e.ctl.Log() {
		if ev.Point == "reply.written" && strings.HasSuffix(ev.Note, " false") {
			wrote = true
		}
	}
	if wrote {
		w.Count("failed_reply_writes", 1)
	}
	sd := e.shutdown("s1", nil)
	if err, ok := sd.wait(c13Watch); !ok {
		e.viol("shutdown-does-not-return", "Shutdown did not return after the only client had gone away")
	} else if err != nil {
		e.viol("shutdown-error", fmt.Sprintf("Shutdown returned %v", err))
	}
	e.finish(nil, false)
}

// scenario: the read of a message's two-octet length completes at the very moment Shutdown moves the
// connection's read deadline into the past (the read is held inside the simulated stream until then). What
// the server does with the rest of that message is its business; Shutdown returns, the connection is closed.
func c13StreamReadCompletesAsShutdownBegins(w *core.W, bodyThere bool, seed uint64) {
	e := newC13Env(w, "tcp-sim", fmt.Sprintf("length-read-completes-as-shutdown-begins/body-there=%v", bodyThere), seed)
	if !e.start() {
		return
	}
	cl, err := e.ln.Dial()
	if err != nil {
		e.finish(nil, false)
		return
	}
	defer cl.Close()
	var sv *netsim.Stream
	for deadline := time.Now().Add(c13Watch); time.Now().Before(deadline); time.Sleep(200 * time.Microsecond) {
		if a := e.ln.Accepted(); len(a) > 0 {
			sv = a[0]
			break
		}
	}
	if sv == nil {
		w.Inconclusive("c13-connection-not-accepted")
		e.finish(nil, false)
		return
	}
	q := new(dns.Msg)
	q.SetQuestion("held.example.", dns.TypeA)
	q.Id = 4242
	b, _ := q.Pack()
	fr := frame(b)
	sv.HoldNextRead()
	if bodyThere {
		cl.Write(fr)
	} else {
		cl.Write(fr[:2]) // the body never comes
	}
	for deadline := time.Now().Add(c13Watch); !sv.HoldingRead() && time.Now().Before(deadline); {
		time.Sleep(200 * time.Microsecond)
	}
	if !sv.HoldingRead() {
		w.Inconclusive("c13-held-read-not-reached")
		e.finish(nil, false)
		return
	}
	w.Count("length_reads_completing_as_shutdown_begins", 1)
	sd := e.shutdown("s1", nil)
	if err, ok := sd.wait(c13Watch); !ok {
		e.viol("shutdown-does-not-return", "Shutdown did not return: the length of a message had been read when the deadline was moved into the past, the read of the rest was given a deadline of its own")
	} else if err != nil {
		e.viol("shutdown-error", fmt.Sprintf("Shutdown returned %v", err))
	}
	e.finish(nil, false)
}

// scenario: Shutdown is held right after it has released the lock (hook shutdown.unlocked); with nothing
// in flight the serve loop finishes and the serve call returns; the same Server is started again at
// once; then Shutdown goes on. It was the first run it shut down: it returns, and the second run is
// none of its business (it answers, and a Shutdown of its own ends it).
func c13RestartWhileShutdownReturns(w *core.W, kind string, seed uint64) {
	e := newC13Env(w, kind, "restart-while-shutdown-is-returning", seed)
	if !e.start() {
		return
	}
	sg := e.ctl.Gate("shutdown.unlocked", false)
	sd := e.shutdown("s1", nil)
	if !sg.WaitArrived(c13Watch) {
		w.Inconclusive("c13-hook-not-reached:shutdown.unlocked")
		e.ctl.ReleaseAll()
		e.finish(nil, false)
		return
	}
	// the first serve call returns while Shutdown is still on its way out
	select {
	case serr := <-e.serveErr:
		if serr != nil {
			e.viol("restart-while-shutdown-returns/first-serve-error", fmt.Sprintf("first serve call returned %v", serr))
		}
	case <-time.After(c13Watch):
		e.viol("restart-while-shutdown-returns/first-serve-does-not-return", "with nothing in flight the serve call did not return after Shutdown had stopped the server")
		sg.Release()
		sched.Use(nil)
		return
	}
	oldLn, oldPc := e.ln, e.pc
	started2 := make(chan struct{})
	var once sync.Once
	e.srv.NotifyStartedFunc = func() { once.Do(func() { close(started2) }) }
	switch kind {
	case "tcp-sim":
		e.ln = netsim.NewListener()
		e.srv.Listener = e.ln
	case "pc-sim":
		e.pc = netsim.NewPacketConn()
		e.srv.PacketConn = e.pc
	}
	serve2 := make(chan error, 1)
	e.ctl.Note("start.call", "second")
	go func() { serve2 <- e.srv.ActivateAndServe() }()
	second := "started"
	select {
	case <-started2:
	case err := <-serve2:
		second = fmt.Sprintf("returned %v", err)
		serve2 <- err
	case <-time.After(c13Watch):
		second = "blocked"
		e.viol("restart-while-shutdown-returns/second-start-blocks", "a start after the serve call had returned neither started nor returned an error")
	}
	e.ctl.Note("second.start", second)
	w.Count("restarts_while_shutdown_is_returning", 1)
	sg.Release()
	if err, ok := sd.wait(c13Watch); !ok {
		e.viol("restart-while-shutdown-returns/first-shutdown-does-not-return", fmt.Sprintf("the Shutdown of the first run never returned once the server had been started again (second start: %s)", second))
	} else if err != nil {
		e.viol("restart-while-shutdown-returns/first-shutdown-error", fmt.Sprintf("Shutdown returned %v", err))
	}
	if second == "started" {
		r2 := e.send(62)
		select {
		case okr := <-r2.reply:
			if !okr {
				e.viol("restart-while-shutdown-returns/second-server-does-not-answer", "the restarted server does not answer")
			}
		case <-time.After(c13Watch):
			e.viol("restart-while-shutdown-returns/second-server-does-not-answer", "the restarted server does not answer")
		}
		r2.close()
		done := make(chan error, 1)
		go func() { done <- e.srv.Shutdown() }()
		select {
		case err := <-done:
			if err != nil {
				e.viol("restart-while-shutdown-returns/second-shutdown-error", fmt.Sprintf("%v", err))
			}
		case <-time.After(c13Watch):
			e.viol("restart-while-shutdown-returns/second-shutdown-does-not-return", "Shutdown of the restarted server does not return")
		}
		select {
		case <-serve2:
		case <-time.After(c13Watch):
			e.viol("restart-while-shutdown-returns/second-serve-does-not-return", "the second serve call did not return")
		}
	}
	for _, c := range []interface{ Close() error }{oldLn, oldPc, e.ln, e.pc} {
		if c != nil && !reflect.ValueOf(c).IsNil() {
			c.Close()
		}
	}
	deadline := time.Now().Add(3 * time.Second)
	for serverGoroutines() > 0 && time.Now().Before(deadline) {
		time.Sleep(5 * time.Millisecond)
	}
	if n := serverGoroutines(); n > 0 {
		e.viol("restart-while-shutdown-returns/goroutine-leak", fmt.Sprintf("%d server goroutine(s) remain", n))
	}
	e.w.Count("scenarios", 1)
	e.w.NontrivialStr(kind, "restart-while-shutdown-returns", second)
	sched.Use(nil)
}

// scenario: the listener fails for good (Accept returns a non-temporary error) while connections are
// open - one idle after an answered request, optionally one with a handler still running. The serve
// loop is over, but the server has been started and not shut down: Shutdown still has to release the
// connections, wait for the handler, and leave nothing behind; the serve call reports the failure.
func c13AcceptFailsScenario(w *core.W, kind string, inflight bool, seed uint64) {
	e := newC13Env(w, kind, "listener-fails", seed)
	if !e.start() {
		return
	}
	idle := e.send(91)
	deadline := time.Now().Add(c13Watch)
	for e.exited.Load() < 1 && time.Now().Before(deadline) {
		time.Sleep(time.Millisecond)
	}
	reqs := []*c13Req{idle}
	if inflight {
		e.holdOn.Store(true)
		reqs = append(reqs, e.send(92))
		for deadline = time.Now().Add(c13Watch); e.entered.Load() < 2 && time.Now().Before(deadline); {
			time.Sleep(time.Millisecond)
		}
	}
	if e.exited.Load() < 1 || (inflight && e.entered.Load() < 2) {
		w.Inconclusive("c13-listener-fails-setup:" + kind)
	}
	fatal := errors.New("accept: too many open files in system")
	e.serveErrWant = fatal
	e.ln.FailAccept(fatal)
	e.ctl.Note("listener.failed", "")
	time.Sleep(3 * time.Millisecond)
	w.Count("listener_failures", 1)
	sd := e.shutdown("s1", nil)
	if inflight {
		time.Sleep(2 * time.Millisecond)
		if err, ok := sd.wait(0); ok {
			e.viol("shutdown-returned-before-handler", fmt.Sprintf("Shutdown returned (%v) although a handler that had started was still running (after the listener had failed)", err))
			close(e.hold)
			e.finish(reqs, true)
			return
		}
		close(e.hold)
	}
	if err, ok := sd.wait(c13Watch); !ok {
		e.viol("shutdown-does-not-return", "Shutdown did not return after the listener had failed")
	} else if err != nil {
		e.viol("shutdown-error", fmt.Sprintf("Shutdown of a started server whose listener had failed returned %v", err))
	}
	e.finish(reqs, true)
}

// scenario: every network name ListenAndServe knows (tcp4, tcp6, udp4, udp6, tcp-tls, tcp4-tls, tcp6-tls
// beside tcp and udp), each on a real loopback socket: start, an exchange, a Shutdown that has to wait
// for a held handler whose reply still arrives, clean end.
func c13NetVariantScenario(w *core.W, network string, seed uint64) {
	v6 := strings.Contains(network, "6")
	host := "127.0.0.1"
	if v6 {
		host = "[::1]"
		if l, err := net.Listen("tcp6", "[::1]:0"); err != nil {
			w.Count("ipv6_loopback_unavailable", 1)
			return
		} else {
			l.Close()
		}
	}
	e := newC13Env(w, "none", "net:"+network, seed)
	e.kind = network + "-real"
	e.srv.Net, e.srv.Addr = network, host+":0"
	cnet := "udp"
	var cliTLS *tls.Config
	if strings.HasPrefix(network, "tcp") {
		cnet = "tcp"
	}
	if strings.HasSuffix(network, "-tls") {
		cnet = "tcp-tls"
		e.srv.TLSConfig, cliTLS = c13TLS()
	}
	if !e.start() {
		return
	}
	w.Count("net_variant_servers", 1)
	addr := ""
	if e.srv.Listener != nil {
		addr = e.srv.Listener.Addr().String()
	} else if e.srv.PacketConn != nil {
		addr = e.srv.PacketConn.LocalAddr().String()
	}
	exchange := func(id uint16) error {
		q := new(dns.Msg)
		q.SetQuestion(fmt.Sprintf("r%d.example.", id), dns.TypeA)
		q.Id = id
		c := &dns.Client{Net: cnet, TLSConfig: cliTLS, Timeout: c13Watch}
		r, _, err := c.Exchange(q, addr)
		if err == nil && (r == nil || r.Id != id) {
			err = fmt.Errorf("reply does not match")
		}
		return err
	}
	if err := exchange(71); err != nil {
		e.viol("no-answer", fmt.Sprintf("a server started with Net=%q on %s does not answer: %v", network, addr, err))
	}
	// a held handler, Shutdown in the meantime
	e.holdOn.Store(true)
	got := make(chan error, 1)
	go func() { got <- exchange(72) }()
	deadline := time.Now().Add(c13Watch)
	for e.entered.Load() < 2 && time.Now().Before(deadline) {
		time.Sleep(time.Millisecond)
	}
	sd := e.shutdown("s1", nil)
	time.Sleep(3 * time.Millisecond)
	if e.entered.Load() >= 2 {
		if err, ok := sd.wait(0); ok {
			e.viol("shutdown-returned-before-handler", fmt.Sprintf("Shutdown returned (%v) while a handler was still running", err))
			close(e.hold)
			e.finish(nil, false)
			return
		}
	}
	close(e.hold)
	if err, ok := sd.wait(c13Watch); !ok {
		e.viol("shutdown-does-not-return", "Shutdown did not return")
	} else if err != nil {
		e.viol("shutdown-error", fmt.Sprintf("Shutdown returned %v", err))
	}
	select {
	case err := <-got:
		if err != nil {
			e.viol("reply-not-delivered", fmt.Sprintf("the reply of the handler that was running during Shutdown did not reach its client: %v", err))
		}
	case <-time.After(c13Watch):
		e.viol("reply-not-delivered", "the client of the handler that was running during Shutdown is still waiting")
	}
	e.finish(nil, false)
}

type c13Case struct {
	name string
	run  func(w *core.W, seed uint64)
}

func c13Cases() []c13Case {
	var cs []c13Case
	for _, kind := range c13Transports {
		kind := kind
		for _, p := range hookPointsFor(kind) {
			p := p
			for order := 0; order < 2; order++ {
				order := order
				for _, k := range []int{0, 1, 3} {
					k := k
					if p == "start.unlocked" && k > 0 {
						continue
					}
					if p != "start.unlocked" && k == 0 && p != "tcp.accepted" && !strings.HasPrefix(p, "read") {
						continue // without a request those points are never reached
					}
					cs = append(cs, c13Case{fmt.Sprintf("%s gate %s order%d k%d", kind, p, order, k), func(w *core.W, s uint64) { c13GateScenario(w, kind, p, order, k, s) }})
				}
			}
		}
		for _, k := range []int{0, 1, 2, 3} {
			k := k
			cs = append(cs, c13Case{fmt.Sprintf("%s inflight k%d", kind, k), func(w *core.W, s uint64) { c13InFlightScenario(w, kind, k, 0, s) }})
			if k <= 1 {
				cs = append(cs, c13Case{fmt.Sprintf("%s inflight ctx-precancelled k%d", kind, k), func(w *core.W, s uint64) { c13InFlightScenario(w, kind, k, 2, s) }})
			}
			if k > 0 {
				cs = append(cs, c13Case{fmt.Sprintf("%s inflight ctx k%d", kind, k), func(w *core.W, s uint64) { c13InFlightScenario(w, kind, k, 1, s) }})
			}
		}
		cs = append(cs, c13Case{kind + " misuse", func(w *core.W, s uint64) { c13MisuseScenario(w, kind, s) }})
		if kind == "tcp-sim" || kind == "tls-sim" {
			cs = append(cs, c13Case{kind + " client gone before reply", func(w *core.W, s uint64) { c13ClientGoneScenario(w, kind, s) }})
		}
		if kind == "tcp-sim" || kind == "tls-sim" {
			cs = append(cs, c13Case{kind + " listener fails", func(w *core.W, s uint64) { c13AcceptFailsScenario(w, kind, false, s) }})
			cs = append(cs, c13Case{kind + " listener fails, handler running", func(w *core.W, s uint64) { c13AcceptFailsScenario(w, kind, true, s) }})
		}
		if kind == "tcp-sim" || kind == "pc-sim" {
			cs = append(cs, c13Case{kind + " restart during drain", func(w *core.W, s uint64) { c13RestartDuringDrain(w, kind, s) }})
			cs = append(cs, c13Case{kind + " restart before the serve loop", func(w *core.W, s uint64) { c13RestartWhile(w, kind, true, s) }})
			cs = append(cs, c13Case{kind + " restart during drain through ListenAndServe", func(w *core.W, s uint64) { c13RestartDuringDrainListen(w, kind, s) }})
			cs = append(cs, c13Case{kind + " restart after an expired shutdown context", func(w *core.W, s uint64) { c13RestartAfterExpiredShutdown(w, kind, s) }})
			cs = append(cs, c13Case{kind + " restart while shutdown is returning", func(w *core.W, s uint64) { c13RestartWhileShutdownReturns(w, kind, s) }})
		}
		if kind == "tcp-sim" || kind == "pc-sim" {
			cs = append(cs, c13Case{kind + " pause", func(w *core.W, s uint64) { c13PauseScenario(w, kind, s) }})
		}
		if kind == "tcp-sim" || kind == "pc-sim" {
			cs = append(cs, c13Case{kind + " slow notify", func(w *core.W, s uint64) { c13SlowNotifyScenario(w, kind, s) }})
		}
	}
	for _, network := range []string{"tcp4", "tcp6", "udp4", "udp6", "tcp-tls", "tcp4-tls", "tcp6-tls"} {
		network := network
		cs = append(cs, c13Case{"net " + network, func(w *core.W, s uint64) { c13NetVariantScenario(w, network, s) }})
	}
	for v := 0; v < 4; v++ {
		v := v
		if v < 2 {
			cs = append(cs, c13Case{fmt.Sprintf("length read completes as shutdown begins %d", v), func(w *core.W, s uint64) { c13StreamReadCompletesAsShutdownBegins(w, v == 0, s) }})
		}
		cs = append(cs, c13Case{fmt.Sprintf("failed start %d", v), func(w *core.W, s uint64) { c13FailedStartScenario(w, v, s) }})
		cs = append(cs, c13Case{fmt.Sprintf("reuse over other transport %d", v), func(w *core.W, s uint64) { c13ReuseScenario(w, v, s) }})
		if v == 0 {
			cs = append(cs, c13Case{"hijack", c13HijackScenario})
		}
	}
	return cs
}

// c13Storm: start / Shutdown cycles on a datagram server whose socket always has a query ready, Shutdown
// called at a seeded instant a few microseconds after the start - from several goroutines with a server
// each. No hook steers these runs: what they reach is the windows no hook point lies in (between two
// lock operations of the read loop, say), by sheer repetition. Every Shutdown returns, every serve call
// returns nil.
func c13Storm(w *core.W, j int) {
	real := j%2 == 1
	kind := "pc-sim"
	if real {
		kind = "udp-real"
	}
	cycles := 300
	if w.Tier == "thorough" {
		cycles = 2500
	}
	q := new(dns.Msg)
	q.SetQuestion("storm.example.", dns.TypeA)
	query, _ := q.Pack()
	var failed atomic.Bool
	var done atomic.Int64
	var wg sync.WaitGroup
	for t := 0; t < 4; t++ {
		wg.Add(1)
		go func(t int) {
			defer wg.Done()
			r := w.Rng(j, t)
			for c := 0; c < cycles && !failed.Load(); c++ {
				var pc net.PacketConn
				stopFlood := func() {}
				if real {
					u, err := net.ListenPacket("udp", "127.0.0.1:0")
					if err != nil {
						return
					}
					pc = u
					var stop atomic.Bool
					var fwg sync.WaitGroup
					if cl, err := net.Dial("udp", u.LocalAddr().String()); err == nil {
						fwg.Add(1)
						go func() {
							defer fwg.Done()
							defer cl.Close()
							for !stop.Load() {
								cl.Write(query)
							}
						}()
					}
					stopFlood = func() { stop.Store(true); fwg.Wait() }
				} else {
					sp := netsim.NewPacketConn()
					sp.Flood, sp.DropWrites = query, true
					pc = sp
				}
				started := make(chan struct{})
				srv := &dns.Server{PacketConn: pc, ReadTimeout: time.Hour, NotifyStartedFunc: func() { close(started) },
					Handler: dns.HandlerFunc(func(rw dns.ResponseWriter, req *dns.Msg) {})}
				serveErr := make(chan error, 1)
				go func() { serveErr <- srv.ActivateAndServe() }()
				select {
				case <-started:
				case <-time.After(c13Watch):
					stopFlood()
					w.Inconclusive("c13-storm-server-did-not-start")
					return
				}
				for spin := r.IntN(400); spin > 0; spin-- {
					runtime.Gosched()
				}
				shut := make(chan error, 1)
				go func() { shut <- srv.Shutdown() }()
				wit := map[string]any{"transport": kind, "cycle": c, "goroutine": t}
				select {
				case err := <-shut:
					if err != nil {
						failed.Store(true)
						w.Violation("C13/shutdown-error/storm/"+kind, fmt.Sprintf("Shutdown of a started, busy datagram server: %v", err), wit)
					}
				case <-time.After(c13Watch):
					failed.Store(true)
					stopFlood()
					w.Violation("C13/shutdown-does-not-return/storm/"+kind, fmt.Sprintf("cycle %d: Shutdown of a datagram server that was reading a steady stream of queries did not return within %v", c, c13Watch), wit)
					return
				}
				select {
				case err := <-serveErr:
					if err != nil {
						failed.Store(true)
						w.Violation("C13/serve-returns-error/storm/"+kind, fmt.Sprintf("the serve call returned %v after a graceful Shutdown", err), wit)
					}
				case <-time.After(c13Watch):
					failed.Store(true)
					w.Violation("C13/serve-does-not-return/storm/"+kind, "the serve call did not return after Shutdown had", wit)
				}
				stopFlood()
				done.Add(1)
			}
		}(t)
	}
	wg.Wait()
	w.Eval(1)
	w.Count("storm_cycles_"+kind, int(done.Load()))
	w.NontrivialStr("storm", kind, fmt.Sprint(j))
}

func c13Scripted(w *core.W, j int) {
	cs := c13Cases()
	c := cs[j%len(cs)]
	w.Eval(1)
	c.run(w, uint64(w.Seed)*1000003+uint64(j))
}

func c13Random(w *core.W, j int) {
	w.Eval(1)
	c13RandomScenario(w, c13Transports[j%len(c13Transports)], j, uint64(w.Seed)*7+uint64(j))
}

func init() {
	n := len(c13Cases())
	plan, run := sections(
		section{"scripted", func(t string) int {
			if t == "thorough" {
				return n * 12
			}
			return n * 2
		}, c13Scripted},
		section{"random", tiered(150, 5000), c13Random},
		section{"storm", tiered(4, 24), c13Storm},
	)
	core.Register(&core.Monitor{
		ID: "C13", Level: "exploration", Plan: plan, Run: run, Race: true, Terminates: true, MaxParallel: 8, CaseTimeout: 240e9,
		Rule: fmt.Sprintf("%d scripted scenarios (each run 2x quick / 12x thorough): transports {tcp-sim, pc-sim, tls-sim over netsim; tcp/udp real loopback} x Shutdown steered against every hook point in both release orders with 0/1/3 requests, "+
			"0..3 held handlers with plain and context-expiring shutdown, misuse (shutdown unstarted, second start, 4 concurrent shutdowns, restart), failed starts, pauses inside SetReadDeadline, a NotifyStartedFunc that does not return while a second start and a context-bound Shutdown are made; plus seeded random hook delays with 1..6 concurrent clients; unsteered start/Shutdown storms (4 goroutines x 300 cycles quick / 2500 thorough per case) on a simulated and a real datagram socket that always has a query ready; "+
			"offline checker over the logical-clock event log (handler enter/exit vs shutdown return, replies delivered, serve return nil, goroutine/connection leaks); race detector on; non-trivial = distinct (transport, scenario, observed event order)", n),
		Assumptions: []string{"liveness restated as bounded progress: an operation that normally takes microseconds not finishing within 15 s is 'does not return'",
			"read/idle timeouts are set to 1 h so that a re-armed read deadline cannot be masked by the defaults"},
		MinObserved: []string{"scenarios", "scenarios_tcp-sim", "scenarios_pc-sim", "scenarios_tls-sim", "scenarios_tcp-real", "scenarios_udp-real", "hook:shutdown.unlocked", "hook:tcp.accepted", "hook:udp.read", "storm_cycles_pc-sim", "storm_cycles_udp-real"},
	})
}
