package mon

import (
	"encoding/binary"
	"fmt"
	"runtime"
	"syscall"
	"time"

	"github.com/miekg/dns"

	"verifharness/core"
)

// c02Scaling: "work bounded by a fixed multiple of the input length" for the decoders whose loops do
// consume input on every step (so the step counter of the name walk does not see them): families of
// inputs that differ only in how many list elements they hold. Doubling the input may double the work;
// when it grows by more than 2.6 (a quadratic loop: 4), and the larger input costs more than 12 ms of CPU (linear decoders take 1-4 ms for 64 KiB), the work is not linear.
// The measure is the CPU time of the calling thread (getrusage(RUSAGE_THREAD)), not the wall clock;
// a verdict needs three repetitions that all show the same picture.

type c02Family struct {
	name string
	// rdata builds the RDATA (or, for "questions"/"records", the message body) holding k elements
	build func(k int) []byte
	maxK  int
}

func rrMsg(typ uint16, rdata []byte) []byte {
	b := []byte{0x12, 0x34, 0x84, 0, 0, 0, 0, 1, 0, 0, 0, 0, 0}
	b = binary.BigEndian.AppendUint16(b, typ)
	b = append(b, 0, 1, 0, 0, 0, 60)
	b = binary.BigEndian.AppendUint16(b, uint16(len(rdata)))
	return append(b, rdata...)
}

func svcbParam(key uint16, val []byte) []byte {
	b := []byte{0, 1, 0} // priority 1, target "."
	b = binary.BigEndian.AppendUint16(b, key)
	b = binary.BigEndian.AppendUint16(b, uint16(len(val)))
	return append(b, val...)
}

var c02Families = []c02Family{
	{"svcb-mandatory-keys", func(k int) []byte {
		v := make([]byte, 0, 2*k)
		for i := 0; i < k; i++ {
			v = binary.BigEndian.AppendUint16(v, uint16(1+i))
		}
		return rrMsg(64, svcbParam(0, v))
	}, 32000},
	{"svcb-alpn-ids", func(k int) []byte {
		var v []byte
		for i := 0; i < k; i++ {
			v = append(v, 2, 'h', byte('0'+i%10))
		}
		return rrMsg(65, svcbParam(1, v))
	}, 21000},
	{"svcb-ipv4hints", func(k int) []byte {
		v := make([]byte, 4*k)
		for i := range v {
			v[i] = byte(i)
		}
		return rrMsg(64, svcbParam(4, v))
	}, 16000},
	{"svcb-ipv6hints", func(k int) []byte {
		v := make([]byte, 16*k)
		for i := range v {
			v[i] = byte(i)
		}
		return rrMsg(64, svcbParam(6, v))
	}, 4000},
	{"svcb-many-params", func(k int) []byte {
		b := []byte{0, 1, 0}
		for i := 0; i < k; i++ {
			b = binary.BigEndian.AppendUint16(b, uint16(100+i))
			b = append(b, 0, 1, byte(i))
		}
		return rrMsg(64, b)
	}, 13000},
	{"opt-many-options", func(k int) []byte {
		var b []byte
		for i := 0; i < k; i++ {
			b = binary.BigEndian.AppendUint16(b, uint16(65001+i%500))
			b = append(b, 0, 1, byte(i))
		}
		return rrMsg(41, b)
	}, 13000},
	{"opt-dau-codes", func(k int) []byte {
		b := []byte{0, 5}
		b = binary.BigEndian.AppendUint16(b, uint16(k))
		for i := 0; i < k; i++ {
			b = append(b, byte(i))
		}
		return rrMsg(41, b)
	}, 65000},
	{"txt-strings", func(k int) []byte {
		var b []byte
		for i := 0; i < k; i++ {
			b = append(b, 1, byte('a'+i%26))
		}
		return rrMsg(16, b)
	}, 32000},
	{"apl-items", func(k int) []byte {
		var b []byte
		for i := 0; i < k; i++ {
			b = append(b, 0, 1, 24, 3, 10, byte(i>>8), byte(i)|1) // no trailing zero octet (RFC 3123)
		}
		return rrMsg(42, b)
	}, 9000},
	{"nsec-bitmap-windows", func(k int) []byte {
		b := []byte{0}
		for i := 0; i < k && i < 256; i++ {
			b = append(b, byte(i), 32)
			for x := 0; x < 32; x++ {
				b = append(b, 0xFF)
			}
		}
		return rrMsg(47, b)
	}, 256},
	{"hip-rendezvous-servers", func(k int) []byte {
		b := []byte{4, 2, 0, 4, 1, 2, 3, 4, 5, 6, 7, 8}
		for i := 0; i < k; i++ {
			b = append(b, 1, byte('a'+i%26), 0)
		}
		return rrMsg(55, b)
	}, 21000},
	{"questions", func(k int) []byte {
		b := []byte{0x12, 0x34, 0x01, 0}
		b = binary.BigEndian.AppendUint16(b, uint16(k))
		b = append(b, 0, 0, 0, 0, 0, 0)
		for i := 0; i < k; i++ {
			b = append(b, 1, byte('a'+i%26), 0, 0, 1, 0, 1)
		}
		return b
	}, 9000},
	{"records", func(k int) []byte {
		b := []byte{0x12, 0x34, 0x84, 0, 0, 0}
		b = binary.BigEndian.AppendUint16(b, uint16(k))
		b = append(b, 0, 0, 0, 0)
		for i := 0; i < k; i++ {
			b = append(b, 1, byte('a'+i%26), 0, 0, 1, 0, 1, 0, 0, 0, 60, 0, 4, 10, 0, byte(i>>8), byte(i))
		}
		return b
	}, 3800},
	{"records-compressed-owners", func(k int) []byte {
		b := []byte{0x12, 0x34, 0x84, 0, 0, 1}
		b = binary.BigEndian.AppendUint16(b, uint16(k))
		b = append(b, 0, 0, 0, 0, 7, 'e', 'x', 'a', 'm', 'p', 'l', 'e', 0, 0, 1, 0, 1)
		for i := 0; i < k; i++ {
			b = append(b, 0xC0, 12, 0, 1, 0, 1, 0, 0, 0, 60, 0, 4, 10, 0, byte(i>>8), byte(i))
		}
		return b
	}, 4000},
}

// Mixed lists: k/2 elements of one kind followed by k/2 of another. A decoder that looks back over what it
// has decoded so far whenever it meets the second kind ("have I seen one of these already?") is linear on
// every homogeneous list and quadratic here.
func init() {
	type optKind struct {
		name string
		code uint16
		data []byte
	}
	kinds := []optKind{
		{"llq", 1, make([]byte, 18)}, {"ul", 2, []byte{0, 0, 0, 60}}, {"nsid", 3, []byte{0xAB}}, {"dau", 5, []byte{8}}, {"dhu", 6, []byte{2}}, {"n3u", 7, []byte{1}},
		{"subnet", 8, []byte{0, 1, 0, 0}}, {"expire", 9, []byte{0, 0, 0, 1}}, {"cookie", 10, []byte{1, 2, 3, 4, 5, 6, 7, 8}}, {"keepalive", 11, []byte{0, 9}}, {"padding", 12, nil},
		{"ede", 15, []byte{0, 1}}, {"esu", 4, []byte("a")}, {"zoneversion", 19, []byte{1, 0, 0, 0, 0, 1}}, {"local", 65001, nil},
	}
	opt := func(code uint16, data []byte) []byte {
		b := binary.BigEndian.AppendUint16(nil, code)
		b = binary.BigEndian.AppendUint16(b, uint16(len(data)))
		return append(b, data...)
	}
	for _, kd := range kinds {
		kd := kd
		if kd.code == 65001 {
			continue
		}
		per := 4 + 4 + len(kd.data) // one local option without data and one of this kind
		maxK := 2 * (64000 / per)
		for _, order := range []string{"local-then-", "then-local-"} {
			order := order
			c02Families = append(c02Families, c02Family{"opt-mixed-" + order + kd.name, func(k int) []byte {
				var first, second []byte
				for i := 0; i < k/2; i++ {
					first = append(first, opt(uint16(65001+i%400), nil)...)
					second = append(second, opt(kd.code, kd.data)...)
				}
				if order == "then-local-" {
					first, second = second, first
				}
				return rrMsg(41, append(first, second...))
			}, maxK})
		}
	}
	// records of one type followed by records of another (OPT and TSIG are looked for by several helpers)
	for _, tail := range []struct {
		name string
		rr   []byte
	}{
		{"opt", []byte{0, 0, 41, 4, 0, 0, 0, 0, 0, 0, 0}},
		{"tsig-shaped", append([]byte{1, 'k', 0, 0, 250, 0, 255, 0, 0, 0, 0, 0, 23, 1, 'a', 0, 0, 0, 0, 0, 0, 1, 1, 44, 0, 4, 1, 2, 3, 4}, 0x12, 0x34, 0, 0, 0, 0)},
		{"sig0-shaped", append([]byte{0, 0, 24, 0, 255, 0, 0, 0, 0, 0, 21, 0, 0, 15, 0, 0, 0, 0, 0}, 0, 0, 0, 9, 0, 0, 0, 1, 0, 7, 0, 1, 2)},
	} {
		tail := tail
		per := 17 + len(tail.rr)
		c02Families = append(c02Families, c02Family{"records-then-" + tail.name + "-records", func(k int) []byte {
			b := []byte{0x12, 0x34, 0x84, 0, 0, 0}
			b = binary.BigEndian.AppendUint16(b, uint16(k/2))
			b = append(b, 0, 0)
			b = binary.BigEndian.AppendUint16(b, uint16(k/2))
			for i := 0; i < k/2; i++ {
				b = append(b, 1, byte('a'+i%26), 0, 0, 1, 0, 1, 0, 0, 0, 60, 0, 4, 10, 0, byte(i>>8), byte(i))
			}
			for i := 0; i < k/2; i++ {
				b = append(b, tail.rr...)
			}
			return b
		}, 2 * (64000 / per)})
	}
}

func threadCPU() time.Duration {
	var ru syscall.Rusage
	if err := syscall.Getrusage(1 /* RUSAGE_THREAD */, &ru); err != nil {
		return -1
	}
	return time.Duration(ru.Utime.Nano() + ru.Stime.Nano())
}

func c02Scaling(w *core.W, j int) {
	f := c02Families[j%len(c02Families)]
	small, large := f.build(f.maxK/2), f.build(f.maxK)
	if len(large) > 65535 {
		w.Inconclusive("scaling-family-too-large:" + f.name)
		return
	}
	wit := map[string]any{"family": f.name, "elements": f.maxK, "octets": len(large)}
	cost := func(in []byte) (time.Duration, error) {
		buf := append([]byte(nil), in...)
		m := new(dns.Msg)
		runtime.LockOSThread()
		defer runtime.UnlockOSThread()
		t0 := threadCPU()
		err := m.Unpack(buf)
		return threadCPU() - t0, err
	}
	w.Eval(1)
	w.Count("scaling_families_measured", 1)
	w.Cover("scaling_family", f.name)
	superlinear := 0
	var worst string
	for rep := 0; rep < 3; rep++ {
		var ts, tl time.Duration
		var el error
		if w.Guard("Msg.Unpack(scaling)", wit, func() {
			ts, _ = cost(small)
			tl, el = cost(large)
		}) {
			return
		}
		w.Progress()
		if el == nil {
			w.Count("scaling_inputs_accepted", 1)
			w.Cover("scaling_family_accepted", f.name)
		}
		w.Max("cpu_ms_for_a_64k_list_"+f.name, float64(tl)/1e6)
		if ts < 0 || tl < 0 {
			w.Inconclusive("thread-cpu-time-unavailable")
			return
		}
		if tl >= 12*time.Millisecond && float64(tl) >= 2.6*float64(ts) {
			superlinear++
			worst = fmt.Sprintf("%d elements (%d octets): %v of CPU; %d elements (%d octets): %v", f.maxK/2, len(small), ts, f.maxK, len(large), tl)
		}
	}
	if superlinear == 3 {
		w.Violation("C02/work-not-linear/"+f.name, "decoding twice as many list elements costs more than 2.6 times the CPU time (and more than 12 ms for at most 64 KiB of input), in each of three repetitions: "+worst, wit)
	}
	w.NontrivialStr("scaling", f.name)
}
