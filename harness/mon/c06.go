package mon

import (
	"bytes"
	"encoding/base64"
	"encoding/hex"
	"fmt"
	"net/netip"
	"regexp"
	"strconv"
	"strings"
	"testing/fstest"

	"github.com/miekg/dns"

	"verifharness/core"
	"verifharness/model"
)

// zexp is one record a zone text denotes, with tags describing how it was written.
type zexp struct {
	owner model.Name
	class uint16
	ttl   uint32
	rec   *model.Rec
	tags  map[string]string
	line  string
}

// zwriter renders record lists as RFC 1035 s.5 zone text, choosing among equivalent spellings.
type zwriter struct {
	g         *model.Gen
	sb        strings.Builder
	origin    model.Name // current origin (nil: none)
	hasOrigin bool
	ttlDir    *uint32 // $TTL in force
	last      *uint32 // most recently stated TTL (initially the configured default)
	prevOwner model.Name
	prevOK    bool // an omitted owner is allowed on the next line
	expected  []zexp
	files     fstest.MapFS
	depth     int
	nfile     *int
	inInclude bool
	plainOnly bool
}

var c06Types = []uint16{1, 28, 2, 5, 12, 15, 16, 33, 6, 43, 48, 13, 17, 35}

func (z *zwriter) rnd(n int) int { return z.g.R.IntN(n) }

// keywordLike: a token that the grammar could also read as a class, a type or a TTL. The
// general writer spells such names/blobs so that they cannot be confused (the dedicated
// keyword section writes them deliberately).
func keywordLike(tok string) bool {
	u := strings.ToUpper(tok)
	if _, ok := dns.StringToType[u]; ok {
		return true
	}
	if _, ok := dns.StringToClass[u]; ok {
		return true
	}
	if strings.HasPrefix(u, "TYPE") || strings.HasPrefix(u, "CLASS") || strings.HasPrefix(u, "$") {
		return true
	}
	ttl := len(tok) > 0
	for _, c := range u {
		if !(c >= '0' && c <= '9' || strings.ContainsRune("SMHDW", c)) {
			ttl = false
		}
	}
	return ttl
}

// nameText spells a name: absolute, relative to the origin, or @.
func (z *zwriter) nameText(n model.Name) (string, string) {
	if z.hasOrigin && len(z.origin) <= len(n) {
		k := len(n) - len(z.origin)
		if model.Name(n[k:]).Equal(z.origin) {
			if k == 0 && z.rnd(2) == 0 {
				return "@", "at"
			}
			if k > 0 && z.rnd(3) > 0 {
				rel := model.Name(n[:k]).Pres()
				if !keywordLike(rel[:len(rel)-1]) {
					return rel[:len(rel)-1], "relative"
				}
			}
		}
	}
	return n.Pres(), "absolute"
}

func ttlText(g *model.Gen, v uint32) string {
	if g.R.IntN(2) == 0 || v == 0 {
		return strconv.FormatUint(uint64(v), 10)
	}
	rem := uint64(v)
	var sb strings.Builder
	for _, u := range []struct {
		n uint64
		c string
	}{{604800, "w"}, {86400, "d"}, {3600, "h"}, {60, "m"}} {
		if rem >= u.n && g.R.IntN(4) > 0 {
			q := rem / u.n
			rem -= q * u.n
			c := u.c
			if g.R.IntN(2) == 0 {
				c = strings.ToUpper(c)
			}
			fmt.Fprintf(&sb, "%d%s", q, c)
		}
	}
	if rem > 0 || sb.Len() == 0 {
		fmt.Fprintf(&sb, "%d", rem)
		if g.R.IntN(2) == 0 {
			sb.WriteString([]string{"s", "S"}[g.R.IntN(2)])
		}
	}
	return sb.String()
}

func caseMix(g *model.Gen, s string) string {
	switch g.R.IntN(3) {
	case 0:
		return strings.ToLower(s)
	case 1:
		b := []byte(s)
		for i := range b {
			if g.R.IntN(2) == 0 {
				b[i] = byte(strings.ToLower(string(b[i]))[0])
			}
		}
		return string(b)
	}
	return s
}

func quoteStr(g *model.Gen, b []byte) string {
	simple := len(b) > 0
	for _, c := range b {
		if !(c >= 'a' && c <= 'z' || c >= 'A' && c <= 'Z' || c >= '0' && c <= '9' || c == '-' || c == '_') {
			simple = false
		}
	}
	if simple && g.R.IntN(3) == 0 && !keywordLike(string(b)) && !noBareStrings {
		return string(b)
	}
	var sb strings.Builder
	sb.WriteByte('"')
	for _, c := range b {
		switch {
		case c == '"' || c == '\\':
			sb.WriteByte('\\')
			sb.WriteByte(c)
		case c < ' ' || c > '~':
			fmt.Fprintf(&sb, "\\%03d", c)
		default:
			sb.WriteByte(c)
		}
	}
	sb.WriteByte('"')
	return sb.String()
}

// rdataTokens renders RDATA as a list of tokens (regular types only).
func (z *zwriter) rdataTokens(r *model.Rec) []string {
	var toks []string
	for i, fd := range r.L.Fields {
		v := r.Vals[i]
		switch fd.Kind {
		case model.KU8, model.KU16, model.KU32:
			toks = append(toks, strconv.FormatUint(v.(uint64), 10))
		case model.KA:
			a, _ := netip.AddrFromSlice(v.([]byte))
			toks = append(toks, a.String())
		case model.KAAAA:
			a, _ := netip.AddrFromSlice(v.([]byte))
			toks = append(toks, a.String())
		case model.KName, model.KCName:
			t, _ := z.nameText(v.(model.Name))
			toks = append(toks, t)
		case model.KStr:
			noBareStrings = r.Type == 35 // judged separately in the quoting section
			toks = append(toks, quoteStr(z.g, v.([]byte)))
			noBareStrings = false
		case model.KStrs:
			for _, s := range v.([][]byte) {
				toks = append(toks, quoteStr(z.g, s))
			}
		case model.KHex:
			h := hex.EncodeToString(v.([]byte))
			if z.rnd(2) == 0 {
				h = strings.ToUpper(h)
			}
			toks = append(toks, splitBlob(z.g, h)...)
		case model.KB64:
			toks = append(toks, splitBlob(z.g, base64.StdEncoding.EncodeToString(v.([]byte)))...)
		}
	}
	return toks
}

func splitBlob(g *model.Gen, s string) []string {
	if len(s) < 8 || g.R.IntN(2) == 0 {
		return []string{s}
	}
	var out []string
	rest := s
	for len(rest) > 0 {
		n := 4 * (1 + g.R.IntN(6))
		if n > len(rest) {
			n = len(rest)
		}
		out = append(out, rest[:n])
		rest = rest[n:]
	}
	for _, c := range out {
		if keywordLike(c) {
			return []string{s}
		}
	}
	return out
}

// noBareStrings: character-strings are always quoted by the general writer when set (NAPTR).
var noBareStrings = false

// joinRdata joins tokens with blanks, optionally inside parentheses with line breaks and comments.
func (z *zwriter) joinRdata(toks []string) (string, string) {
	if len(toks) < 2 || z.rnd(3) > 0 {
		return strings.Join(toks, []string{" ", "\t", "  "}[z.rnd(3)]), "one-line"
	}
	open := z.rnd(len(toks))
	var sb strings.Builder
	for i, t := range toks {
		if i == open {
			sb.WriteString("( ")
		}
		sb.WriteString(t)
		if i < len(toks)-1 {
			if i >= open && z.rnd(2) == 0 {
				if z.rnd(2) == 0 {
					sb.WriteString(" ; a comment ( with \" noise")
				}
				sb.WriteString("\n\t")
			} else {
				sb.WriteString(" ")
			}
		}
	}
	if z.rnd(2) == 0 {
		sb.WriteString("\n")
	}
	sb.WriteString(" )")
	return sb.String(), "parenthesised"
}

func (z *zwriter) noise() {
	switch z.rnd(8) {
	case 0:
		z.sb.WriteString("\n")
	case 1:
		z.sb.WriteString("; comment line $TTL 5 $ORIGIN nowhere. ( \"\n")
	case 2:
		z.sb.WriteString("   \t \n")
	case 3:
		z.sb.WriteString("\t; indented comment\n")
	}
}

// currentTTL is what an omitted TTL denotes now (ok=false: it may not be omitted).
func (z *zwriter) currentTTL() (uint32, string, bool) {
	if z.ttlDir != nil {
		return *z.ttlDir, "omitted-uses-$TTL", true
	}
	if z.last != nil {
		return *z.last, "omitted-uses-last-stated", true
	}
	return 0, "", false
}

// record writes one record and registers what it denotes.
func (z *zwriter) record(r *model.Rec) {
	z.noise()
	tags := map[string]string{}
	start := z.sb.Len()
	// owner
	if z.prevOK && z.prevOwner != nil && z.prevOwner.Equal(r.Owner) && z.rnd(2) == 0 {
		z.sb.WriteString([]string{" ", "\t", "    "}[z.rnd(3)])
		tags["owner"] = "omitted"
	} else {
		t, how := z.nameText(r.Owner)
		z.sb.WriteString(t)
		z.sb.WriteString([]string{" ", "\t"}[z.rnd(2)])
		tags["owner"] = how
	}
	// ttl and class
	var ttlTok, classTok string
	cur, why, canOmit := z.currentTTL()
	// inside an included file a TTL may be omitted only while a $TTL is in force (the file is spliced
	// in: the includer's $TTL applies); what "most recently stated" means across files is left open
	forceExplicit := z.inInclude && z.ttlDir == nil
	if canOmit && cur == r.TTL && !forceExplicit && z.rnd(3) > 0 {
		tags["ttl"] = why
	} else {
		ttlTok = ttlText(z.g, r.TTL)
		tags["ttl"] = "explicit"
	}
	if r.Class == 1 && z.rnd(2) == 0 {
		tags["class"] = "omitted"
	} else {
		tags["class"] = "explicit"
		switch r.Class {
		case 1:
			classTok = caseMix(z.g, "IN")
		case 3:
			classTok = caseMix(z.g, "CH")
		case 4:
			classTok = caseMix(z.g, "HS")
		default:
			classTok = fmt.Sprintf("CLASS%d", r.Class)
		}
		if z.rnd(6) == 0 {
			classTok = fmt.Sprintf("CLASS%d", r.Class)
		}
	}
	tags["order"] = "ttl-class"
	if ttlTok != "" && classTok != "" && z.rnd(2) == 0 {
		tags["order"] = "class-ttl"
		z.sb.WriteString(classTok + " " + ttlTok + " ")
	} else {
		if ttlTok != "" {
			z.sb.WriteString(ttlTok + " ")
		}
		if classTok != "" {
			z.sb.WriteString(classTok + "\t")
		}
	}
	tn := r.L.Name
	if z.rnd(5) == 0 {
		tn = fmt.Sprintf("TYPE%d", r.Type)
	}
	z.sb.WriteString(caseMix(z.g, tn) + " ")
	rd, shape := z.joinRdata(z.rdataTokens(r))
	tags["rdata"] = shape
	z.sb.WriteString(rd)
	if z.rnd(4) == 0 {
		z.sb.WriteString(" ; trailing comment")
	}
	z.sb.WriteString("\n")
	if ttlTok != "" && z.ttlDir == nil {
		v := r.TTL
		z.last = &v
	}
	z.prevOwner, z.prevOK = r.Owner.Clone(), true
	if z.inInclude {
		tags["in"] = "include"
	}
	z.expected = append(z.expected, zexp{owner: r.Owner, class: r.Class, ttl: r.TTL, rec: r, tags: tags, line: z.sb.String()[start:]})
}

func (z *zwriter) setOrigin(n model.Name) {
	z.noise()
	t := n.Pres()
	if z.hasOrigin && len(z.origin) < len(n) && model.Name(n[len(n)-len(z.origin):]).Equal(z.origin) && z.rnd(2) == 0 {
		rel := model.Name(n[:len(n)-len(z.origin)]).Pres()
		if !keywordLike(rel[:len(rel)-1]) {
			t = rel[:len(rel)-1]
		}
	}
	fmt.Fprintf(&z.sb, "%s %s%s\n", caseMix(z.g, "$ORIGIN"), t, []string{"", " ; new origin", "  "}[z.rnd(3)])
	z.origin, z.hasOrigin = n.Clone(), true
}

func (z *zwriter) setTTL(v uint32) {
	z.noise()
	fmt.Fprintf(&z.sb, "%s %s%s\n", caseMix(z.g, "$TTL"), ttlText(z.g, v), []string{"", " ; default ttl"}[z.rnd(2)])
	z.ttlDir = &v
}

func genFormat(v int64, width int, base string) string {
	switch base {
	case "o":
		return fmt.Sprintf("%0*o", width, v)
	case "x":
		return fmt.Sprintf("%0*x", width, v)
	case "X":
		return fmt.Sprintf("%0*X", width, v)
	}
	return fmt.Sprintf("%0*d", width, v)
}

// generate writes a $GENERATE directive and registers its expansion.
func (z *zwriter) generate() {
	if !z.hasOrigin {
		return
	}
	z.noise()
	start := int64(z.rnd(40))
	count := int64(1 + z.rnd(6))
	step := int64(1 + z.rnd(3))
	if z.rnd(3) == 0 {
		step = 1
	}
	wide := z.rnd(5) == 0
	if wide { // a wide range walked in few, large steps (stop-start far above 65535)
		start = int64(z.rnd(1 << 30))
		step = int64(10000 + z.rnd(200000))
		if z.rnd(3) == 0 {
			step = 65536
		}
	}
	stop := start + (count-1)*step + int64(z.rnd(int(step)))
	rng := fmt.Sprintf("%d-%d", start, stop)
	if step != 1 || z.rnd(3) == 0 {
		rng += fmt.Sprintf("/%d", step)
	}
	// the iterator spelling used on the left and on the right
	type piece struct {
		text   string
		offset int64
		width  int
		base   string
	}
	mk := func() piece {
		switch z.rnd(4) {
		case 0:
			return piece{"$", 0, 0, "d"}
		case 1:
			off := int64(z.rnd(20))
			return piece{fmt.Sprintf("${%d}", off), off, 0, "d"}
		case 2:
			off, wd := int64(z.rnd(20)), 1+z.rnd(5)
			return piece{fmt.Sprintf("${%d,%d}", off, wd), off, wd, "d"}
		}
		off, wd := int64(z.rnd(30)-10), z.rnd(5)
		if start+off < 0 {
			off = 0
		}
		b := []string{"d", "o", "x", "X"}[z.rnd(4)]
		return piece{fmt.Sprintf("${%d,%d,%s}", off, wd, b), off, wd, b}
	}
	lp, rp := mk(), mk()
	tmplType := []uint16{1, 12, 5, 15}[z.rnd(4)]
	if wide && tmplType == 1 {
		tmplType = 12 // the iterator value does not fit an address octet
	}
	var ttlTok, classTok string
	cur, why, canOmit := z.currentTTL()
	ttl := uint32(60 + z.rnd(5000))
	tags := map[string]string{"in": "generate", "owner": "relative", "class": "omitted", "rdata": "one-line"}
	if canOmit && !z.inInclude && z.rnd(2) == 0 {
		ttl = cur
		tags["ttl"] = why
	} else {
		ttlTok = ttlText(z.g, ttl) + " "
		tags["ttl"] = "explicit"
	}
	if z.rnd(2) == 0 {
		classTok = "IN "
		tags["class"] = "explicit"
	}
	pre, post := "host", ""
	if z.rnd(4) == 0 {
		pre, post = "", "-h" // the template begins with the iterator (reverse zones: "$GENERATE 1-254 ${0,3,d} PTR ...")
	}
	lhs := pre + lp.text + post
	var rhs string
	switch tmplType {
	case 1:
		if rp.base != "d" || rp.width > 0 {
			rp = piece{"$", 0, 0, "d"} // no zero padding or other bases inside an address
		}
		rhs = "192.0.2." + rp.text
	case 12, 5:
		rhs = "t" + rp.text + ".target.example."
	case 15:
		rhs = "10 mx" + rp.text
	}
	fmt.Fprintf(&z.sb, "%s %s %s %s%s%s %s\n", caseMix(z.g, "$GENERATE"), rng, lhs, ttlTok, classTok, model.Layouts[tmplType].Name, rhs)
	line := z.sb.String()[strings.LastIndex(strings.TrimSuffix(z.sb.String(), "\n"), "\n")+1:]
	for i := start; i <= stop; i += step {
		lv := genFormat(i+lp.offset, lp.width, lp.base)
		rv := genFormat(i+rp.offset, rp.width, rp.base)
		owner := append(model.Name{[]byte(pre + lv + post)}, z.origin...)
		var rec *model.Rec
		switch tmplType {
		case 1:
			v, _ := strconv.Atoi(rv)
			if v > 255 {
				// would not be an address: make the directive harmless by not registering anything is
				// wrong; instead keep values small by construction
			}
			rec = &model.Rec{Type: 1, L: model.Layouts[1], Vals: []any{[]byte{192, 0, 2, byte(v)}}}
		case 12, 5:
			rec = &model.Rec{Type: tmplType, L: model.Layouts[tmplType], Vals: []any{model.Name{[]byte("t" + rv), []byte("target"), []byte("example")}}}
		case 15:
			rec = &model.Rec{Type: 15, L: model.Layouts[15], Vals: []any{uint64(10), append(model.Name{[]byte("mx" + rv)}, z.origin...)}}
		}
		rec.Owner, rec.Class, rec.TTL = owner, 1, ttl
		z.expected = append(z.expected, zexp{owner: owner, class: 1, ttl: ttl, rec: rec, tags: tags, line: line})
	}
	z.prevOK = false // what an omitted owner means after $GENERATE is not defined by the statement
	if ttlTok != "" && z.ttlDir == nil {
		z.last = nil // nor whether a TTL stated inside the template counts as "most recently stated"
	}
}

// c06Rec draws a record of one of the regular types under zone.
func c06Rec(g *model.Gen, zone model.Name, owner model.Name) *model.Rec {
	t := c06Types[g.R.IntN(len(c06Types))]
	l := model.Layouts[t]
	g.Pool = []model.Name{zone, owner}
	r := g.Rec(l)
	r.Owner = owner
	r.Class = 1
	if g.R.IntN(12) == 0 {
		r.Class = []uint16{3, 4}[g.R.IntN(2)]
	}
	r.TTL = []uint32{0, 1, 60, 300, 3600, 86400, 604800, 1<<31 - 1, uint32(g.R.IntN(1 << 20))}[g.R.IntN(9)]
	// keep the rendering simple and well inside every reading of the syntax
	for i, fd := range l.Fields {
		switch fd.Kind {
		case model.KAAAA:
			b := r.Vals[i].([]byte)
			b[0] = 0x20 // not an IPv4-mapped/compatible address
		case model.KHex, model.KB64:
			if len(r.Vals[i].([]byte)) == 0 {
				r.Vals[i] = []byte{1, 2, 3}
			}
		case model.KName, model.KCName:
			n := r.Vals[i].(model.Name)
			if len(n) == 0 {
				r.Vals[i] = zone.Clone()
			}
		}
	}
	if t == 48 {
		r.Vals[1], r.Vals[2] = uint64(3), uint64(8)
	}
	if t == 35 { // NAPTR text is quoted without escaping by the library's printer, but parsing is what is judged here
	}
	r.Fixup()
	return r
}

func c06Name(g *model.Gen, under model.Name) model.Name {
	k := g.R.IntN(3)
	n := under.Clone()
	for i := 0; i < k; i++ {
		lab := g.TextBytes(1 + g.R.IntN(8))
		if g.R.IntN(6) == 0 {
			lab = append(lab, []byte{'.', ' ', 200, '\\'}[g.R.IntN(4)])
		}
		if len(lab) == 1 && lab[0] == '@' {
			lab = []byte("at")
		}
		n = append(model.Name{lab}, n...)
	}
	if !n.Valid() {
		return under.Clone()
	}
	return n
}

// body writes a sequence of records and directives.
func (z *zwriter) body(zone model.Name, n int) {
	owners := []model.Name{zone.Clone(), c06Name(z.g, zone), c06Name(z.g, zone), c06Name(z.g, zone)}
	cur := owners[0]
	for i := 0; i < n; i++ {
		switch z.rnd(14) {
		case 0:
			if !z.inInclude {
				z.setTTL([]uint32{0, 300, 3600, 86400, uint32(z.rnd(100000))}[z.rnd(5)])
			}
		case 1:
			o := c06Name(z.g, zone)
			if z.rnd(3) == 0 {
				o = c06Name(z.g, model.Name{[]byte("elsewhere")})
			}
			z.setOrigin(o)
		case 2:
			z.generate()
			continue
		case 3:
			if z.depth < 7 && z.files != nil {
				z.include(zone)
				continue
			}
		}
		if z.rnd(3) > 0 {
			cur = owners[z.rnd(len(owners))]
		}
		z.record(c06Rec(z.g, zone, cur))
	}
}

// include writes a $INCLUDE directive whose file holds further records.
func (z *zwriter) include(zone model.Name) {
	*z.nfile++
	name := fmt.Sprintf("inc%d.db", *z.nfile)
	child := &zwriter{g: z.g, files: z.files, depth: z.depth + 1, nfile: z.nfile, inInclude: true, ttlDir: z.ttlDir, last: z.last}
	withOrigin := z.rnd(2) == 0
	var newOrigin model.Name
	switch {
	case withOrigin:
		newOrigin = c06Name(z.g, zone)
		child.origin, child.hasOrigin = newOrigin.Clone(), true
	case z.hasOrigin:
		child.origin, child.hasOrigin = z.origin.Clone(), true
	}
	child.body(zone, 1+z.rnd(4))
	z.files["zones/"+name] = &fstest.MapFile{Data: []byte(child.sb.String())}
	z.noise()
	arg := ""
	if withOrigin {
		t, _ := z.nameText(newOrigin)
		if t == "@" {
			t = newOrigin.Pres()
		}
		arg = " " + t
	}
	fmt.Fprintf(&z.sb, "%s %s%s%s\n", caseMix(z.g, "$INCLUDE"), name, arg, []string{"", " ; included"}[z.rnd(2)])
	for _, e := range child.expected {
		e.tags["in"] = "include"
		z.expected = append(z.expected, e)
	}
	z.prevOK = false
	if z.ttlDir == nil {
		z.last = nil // whether TTLs stated in the included file count afterwards is not defined by the statement
	}
}

type c06Config struct {
	origin   string
	defTTL   *uint32
	includes bool
}

func c06Zone(w *core.W, j int) {
	g := model.NewGen(w.Rng(j))
	g.NoHuge = true
	g.MaxOpaque = 40
	g.Plain = j%3 != 0
	zone := model.Name{g.TextBytes(1 + g.R.IntN(6)), []byte("example")}
	nfile := 0
	z := &zwriter{g: g, nfile: &nfile}
	cfg := c06Config{}
	if j%4 != 0 {
		z.files = fstest.MapFS{}
		cfg.includes = true
	}
	switch j % 3 {
	case 0:
		cfg.origin = zone.Pres()
		z.origin, z.hasOrigin = zone.Clone(), true
	case 1:
		cfg.origin = strings.TrimSuffix(zone.Pres(), ".") // the parser completes it
		z.origin, z.hasOrigin = zone.Clone(), true
	default:
		// no configured origin: the file has to set one before it uses relative names
		if g.R.IntN(2) == 0 {
			z.setOrigin(zone)
		}
	}
	if j%2 == 0 {
		v := []uint32{1111, 3600, 0, 86400}[g.R.IntN(4)]
		cfg.defTTL = &v
		z.last = &v
	}
	z.body(zone, 2+g.R.IntN(10))
	text := z.sb.String()
	// parse
	// the zone's own file name is relative or absolute (os.DirFS("/") style); relative $INCLUDE names
	// are looked up next to it either way
	zp := dns.NewZoneParser(strings.NewReader(text), cfg.origin, []string{"zones/main.db", "/zones/main.db", "zones/./main.db"}[j/2%3])
	if cfg.defTTL != nil {
		zp.SetDefaultTTL(*cfg.defTTL)
	}
	if cfg.includes {
		zp.SetIncludeAllowed(true)
		zp.SetIncludeFS(z.files)
	}
	wit := map[string]any{"zone_text": text, "origin": cfg.origin, "default_ttl": cfg.defTTL, "includes": cfg.includes}
	if len(z.files) > 0 {
		fs := map[string]string{}
		for k, v := range z.files {
			fs[k] = string(v.Data)
		}
		wit["files"] = fs
	}
	var got []dns.RR
	w.Eval(1)
	w.Count("zones", 1)
	if w.Guard("ZoneParser", wit, func() {
		for rr, ok := zp.Next(); ok; rr, ok = zp.Next() {
			got = append(got, rr)
			if len(got) > len(z.expected)+50 {
				break
			}
		}
	}) {
		return
	}
	w.NontrivialStr(text)
	w.Count("records_expected", len(z.expected))
	for _, e := range z.expected {
		for k, v := range e.tags {
			w.Cover(k, v)
		}
	}
	tagKey := func(e zexp, field string) string {
		in := e.tags["in"]
		if in == "" {
			in = "plain"
		}
		switch field {
		case "ttl":
			return "ttl/" + e.tags["ttl"] + "/" + e.tags["order"] + "/" + in
		case "owner":
			return "owner/" + e.tags["owner"] + "/" + in
		case "class":
			return "class/" + e.tags["class"] + "/" + in
		case "rdata":
			return "rdata/" + e.rec.L.Name + "/" + e.tags["rdata"] + "/" + in
		}
		return field + "/" + in
	}
	if err := zp.Err(); err != nil {
		idx := len(got)
		k := "after-last-record"
		if idx < len(z.expected) {
			e := z.expected[idx]
			k = tagKey(e, "ttl") + "+" + tagKey(e, "owner") + "+" + e.rec.L.Name + "/" + e.tags["rdata"]
			wit["failing_line"] = e.line
		}
		w.Violation("C06/parse-error/"+k, fmt.Sprintf("a well-formed zone is rejected after %d of %d records: %v", len(got), len(z.expected), err), wit)
		return
	}
	for i := 0; i < len(got) && i < len(z.expected); i++ {
		e, rr := z.expected[i], got[i]
		h := rr.Header()
		wit["record_index"] = i
		wit["line"] = e.line
		switch {
		case h.Name != e.owner.Pres():
			w.Violation("C06/"+tagKey(e, "owner"), fmt.Sprintf("record %d: owner %q, the text denotes %q\n line: %s", i, h.Name, e.owner.Pres(), e.line), wit)
			return
		case h.Rrtype != e.rec.Type:
			w.Violation("C06/type/"+e.rec.L.Name, fmt.Sprintf("record %d: type %d, want %d\n line: %s", i, h.Rrtype, e.rec.Type, e.line), wit)
			return
		case h.Class != e.class:
			w.Violation("C06/"+tagKey(e, "class"), fmt.Sprintf("record %d: class %d, want %d\n line: %s", i, h.Class, e.class, e.line), wit)
			return
		case h.Ttl != e.ttl:
			w.Violation("C06/"+tagKey(e, "ttl"), fmt.Sprintf("record %d (%s): TTL %d, the text denotes %d (%s)\n line: %s", i, h.Name, h.Ttl, e.ttl, e.tags["ttl"], e.line), wit)
			return
		}
		want := e.rec.Wire()
		gotw, err := packRR(rr)
		if err != nil || !bytes.Equal(gotw, want) {
			w.Violation("C06/"+tagKey(e, "rdata"), fmt.Sprintf("record %d: RDATA differs (pack err %v): %s\n line: %s", i, err, diffWin(gotw, want), e.line), wit)
			return
		}
	}
	if len(got) != len(z.expected) {
		w.Violation("C06/record-count", fmt.Sprintf("the parser returned %d records, the text denotes %d", len(got), len(z.expected)), wit)
		return
	}
	if w.WantSample() {
		w.Sample(map[string]any{"zone_text": cutS(text), "records": len(got), "files": len(z.files)})
	}
}

// c06Matrix: every line shape x every TTL state, enumerated.
func c06Matrix(w *core.W, j int) {
	g := model.NewGen(w.Rng(j))
	states := []string{"none", "default", "$TTL", "explicit-seen", "default+explicit-seen", "$TTL+explicit-seen", "explicit-class-first-seen"}
	shapes := []string{"owner type", "owner ttl type", "owner ttl class type", "owner class type", "owner class ttl type", "blank type", "blank ttl type", "blank class ttl type"}
	for _, st := range states {
		for _, sh := range shapes {
			var sb strings.Builder
			var def *uint32
			var want uint32
			have := false
			if strings.HasPrefix(st, "default") {
				v := uint32(1111)
				def = &v
				want, have = v, true
			}
			if strings.HasPrefix(st, "$TTL") {
				sb.WriteString("$TTL 222\n")
				want, have = 222, true
			}
			switch {
			case strings.Contains(st, "explicit-class-first-seen"):
				sb.WriteString("first.example. IN 333 A 192.0.2.1\n")
				want, have = 333, true
			case strings.Contains(st, "explicit-seen"):
				sb.WriteString("first.example. 333 IN A 192.0.2.1\n")
				if !strings.HasPrefix(st, "$TTL") {
					want = 333
				}
				have = true
			}
			owner := "second.example."
			line := sh
			if strings.HasPrefix(sh, "blank") {
				if !strings.Contains(st, "seen") {
					continue // no previous owner
				}
				owner = "first.example."
				line = strings.Replace(line, "blank", " ", 1)
			} else {
				line = strings.Replace(line, "owner", owner, 1)
			}
			explicit := strings.Contains(sh, "ttl")
			line = strings.Replace(line, "ttl", "444", 1)
			line = strings.Replace(line, "class", "IN", 1)
			line = strings.Replace(line, "type", "A 192.0.2.2", 1)
			sb.WriteString(line + "\n")
			if explicit {
				want, have = 444, true
			}
			zp := dns.NewZoneParser(strings.NewReader(sb.String()), "", "matrix")
			if def != nil {
				zp.SetDefaultTTL(*def)
			}
			var last dns.RR
			n := 0
			for rr, ok := zp.Next(); ok; rr, ok = zp.Next() {
				last = rr
				n++
			}
			w.Eval(1)
			w.Count("matrix_cells", 1)
			w.NontrivialStr(st, sh)
			wit := map[string]any{"zone_text": sb.String(), "state": st, "shape": sh}
			key := "C06/matrix/" + strings.ReplaceAll(st, " ", "-") + "/" + strings.ReplaceAll(sh, " ", "-")
			if !have {
				continue // no $TTL, no stated TTL, no default: the statement does not say what happens
			}
			if err := zp.Err(); err != nil {
				w.Violation(key, fmt.Sprintf("rejected: %v", err), wit)
				continue
			}
			if last == nil || last.Header().Ttl != want || last.Header().Name != owner || last.Header().Class != 1 {
				w.Violation(key, fmt.Sprintf("last record %v, want owner %s TTL %d class IN", last, owner, want), wit)
			}
		}
	}
	_ = g
}

// c06Quoting: a character-string may be written bare or quoted (RFC 1035 s.5.1) with the same result.
func c06Quoting(w *core.W, j int) {
	g := model.NewGen(w.Rng(j))
	g.Plain = true
	g.NoHuge = true
	for _, t := range []uint16{13, 16, 35, 19, 20, 99, 100, 256} { // CAA is left out: RFC 8659 gives its tag a bespoke (unquoted) syntax
		l := model.Layouts[t]
		r := c05Base(g, l)
		for _, style := range []string{"quoted", "bare"} {
			var toks []string
			ok := true
			for i, fd := range l.Fields {
				v := r.Vals[i]
				q := func(b []byte) string {
					if style == "bare" {
						return string(b)
					}
					return "\"" + string(b) + "\""
				}
				switch fd.Kind {
				case model.KU8, model.KU16, model.KU32:
					toks = append(toks, strconv.FormatUint(v.(uint64), 10))
				case model.KName, model.KCName:
					toks = append(toks, v.(model.Name).Pres())
				case model.KStr, model.KOctet:
					toks = append(toks, q(v.([]byte)))
				case model.KStrOpt:
					toks = append(toks, q(v.(model.OptStr).S))
				case model.KStrs:
					for _, x := range v.([][]byte) {
						toks = append(toks, q(x))
					}
				default:
					ok = false
				}
			}
			if !ok {
				continue
			}
			text := fmt.Sprintf("%s 300 IN %s %s\n", r.Owner.Pres(), l.Name, strings.Join(toks, " "))
			r2 := *r
			r2.TTL = 300
			w.Eval(1)
			w.Count("quoting_cases", 1)
			w.NontrivialStr(text)
			rr, err := dns.NewRR(text)
			wit := map[string]any{"zone_text": text}
			if err != nil || rr == nil {
				w.Violation("C06/quoting/"+l.Name+"/"+style, fmt.Sprintf("%s character-strings are not accepted: %v\n line: %s", style, err, text), wit)
				continue
			}
			if got, err := packRR(rr); err != nil || !bytes.Equal(got, r2.Wire()) {
				w.Violation("C06/quoting/"+l.Name+"/"+style, fmt.Sprintf("%s character-strings give a different record: %s\n line: %s", style, diffWin(got, r2.Wire()), text), wit)
			}
		}
	}
}

// c06Keywords: names and blobs that look like a class, a type or a TTL, in positions where the
// grammar allows only a name / only RDATA.
func c06Keywords(w *core.W, j int) {
	words := []string{"in", "IN", "ch", "a", "A", "mx", "ns", "any", "soa", "txt", "aaaa", "AAAA", "3600", "1h", "2w", "type1", "class1", "none",
		"type", "typex", "tYPE7x", "type65536", "class", "classic", "class70000", "ttl", "origin", "include", "generate"}
	for _, word := range words {
		lab := model.Name{[]byte(word)}
		zone := model.Name{[]byte("example")}
		full := append(lab.Clone(), zone...)
		cases := []struct {
			pos, text string
			want      *model.Rec
		}{
			{"owner-relative", fmt.Sprintf("$ORIGIN example.\n%s 300 IN A 192.0.2.1\n", word),
				&model.Rec{Owner: full, Type: 1, Class: 1, TTL: 300, L: model.Layouts[1], Vals: []any{[]byte{192, 0, 2, 1}}}},
			{"owner-relative-no-ttl-class", fmt.Sprintf("$ORIGIN example.\n$TTL 300\n%s A 192.0.2.1\n", word),
				&model.Rec{Owner: full, Type: 1, Class: 1, TTL: 300, L: model.Layouts[1], Vals: []any{[]byte{192, 0, 2, 1}}}},
			{"rdata-name-relative", fmt.Sprintf("$ORIGIN example.\nhost 300 IN NS %s\n", word),
				&model.Rec{Owner: model.Name{[]byte("host"), []byte("example")}, Type: 2, Class: 1, TTL: 300, L: model.Layouts[2], Vals: []any{full}}},
			{"rdata-name-relative-in-parentheses", fmt.Sprintf("$ORIGIN example.\nhost 300 IN MX ( 10\n\t%s )\n", word),
				&model.Rec{Owner: model.Name{[]byte("host"), []byte("example")}, Type: 15, Class: 1, TTL: 300, L: model.Layouts[15], Vals: []any{uint64(10), full}}},
			{"origin-relative", fmt.Sprintf("$ORIGIN example.\n$ORIGIN %s\n@ 300 IN A 192.0.2.1\n", word),
				&model.Rec{Owner: full, Type: 1, Class: 1, TTL: 300, L: model.Layouts[1], Vals: []any{[]byte{192, 0, 2, 1}}}},
			{"include-origin-relative", fmt.Sprintf("$ORIGIN example.\n$INCLUDE kw.db %s\n", word),
				&model.Rec{Owner: full, Type: 1, Class: 1, TTL: 300, L: model.Layouts[1], Vals: []any{[]byte{192, 0, 2, 1}}}},
			{"origin-relative-trailing-blank", fmt.Sprintf("$ORIGIN example.\n$ORIGIN %s  \n@ 300 IN A 192.0.2.1\n", word),
				&model.Rec{Owner: full, Type: 1, Class: 1, TTL: 300, L: model.Layouts[1], Vals: []any{[]byte{192, 0, 2, 1}}}},
			{"origin-absolute-trailing-comment", fmt.Sprintf("$ORIGIN %s.example. ; the zone\n@ 300 IN A 192.0.2.1\n", word),
				&model.Rec{Owner: full, Type: 1, Class: 1, TTL: 300, L: model.Layouts[1], Vals: []any{[]byte{192, 0, 2, 1}}}},
			{"include-origin-relative-trailing-blank", fmt.Sprintf("$ORIGIN example.\n$INCLUDE kw.db %s \t\n", word),
				&model.Rec{Owner: full, Type: 1, Class: 1, TTL: 300, L: model.Layouts[1], Vals: []any{[]byte{192, 0, 2, 1}}}},
			{"rdata-name-relative-trailing-blank", fmt.Sprintf("$ORIGIN example.\nhost 300 IN NS %s \n", word),
				&model.Rec{Owner: model.Name{[]byte("host"), []byte("example")}, Type: 2, Class: 1, TTL: 300, L: model.Layouts[2], Vals: []any{full}}},
			{"owner-absolute-type-prefix-label", fmt.Sprintf("%s.example. 300 IN A 192.0.2.1\n", word),
				&model.Rec{Owner: full, Type: 1, Class: 1, TTL: 300, L: model.Layouts[1], Vals: []any{[]byte{192, 0, 2, 1}}}},
			{"txt-bare-string", fmt.Sprintf("host.example. 300 IN TXT %s\n", word),
				&model.Rec{Owner: model.Name{[]byte("host"), []byte("example")}, Type: 16, Class: 1, TTL: 300, L: model.Layouts[16], Vals: []any{[][]byte{[]byte(word)}}}},
		}
		if word == "AAAA" {
			cases = append(cases, struct {
				pos, text string
				want      *model.Rec
			}{"base64-chunk-on-its-own-line", "host.example. 300 IN DNSKEY 256 3 8 ( AQPS\nAAAA\n )\n",
				&model.Rec{Owner: model.Name{[]byte("host"), []byte("example")}, Type: 48, Class: 1, TTL: 300, L: model.Layouts[48], Vals: []any{uint64(256), uint64(3), uint64(8), []byte{0x01, 0x03, 0xd2, 0, 0, 0}}}})
		}
		for _, c := range cases {
			w.Eval(1)
			w.Count("keyword_cases", 1)
			w.NontrivialStr(c.text)
			wit := map[string]any{"zone_text": c.text}
			var rr dns.RR
			var err error
			if w.Guard("NewRR", wit, func() {
				zp := dns.NewZoneParser(strings.NewReader(c.text), "", "zones/kw-main.db")
				zp.SetIncludeAllowed(true)
				zp.SetIncludeFS(fstest.MapFS{"zones/kw.db": &fstest.MapFile{Data: []byte("@ 300 IN A 192.0.2.1\n")}})
				rr, _ = zp.Next()
				err = zp.Err()
			}) {
				continue
			}
			key := "C06/keyword-like-token/" + c.pos + "/" + strings.ToLower(word)
			if err != nil || rr == nil {
				w.Violation(key, fmt.Sprintf("%q where only a %s can stand is not read as one: %v\n text: %s", word, c.pos, err, c.text), wit)
				continue
			}
			if got, err := packRR(rr); err != nil || !bytes.Equal(got, c.want.Wire()) || rr.Header().Ttl != 300 {
				w.Violation(key, fmt.Sprintf("%q in position %s yields a different record: %s\n text: %s", word, c.pos, cutS(rr.String()), c.text), wit)
			}
		}
	}
}

// c06KeywordCase: "keyword case does not change the result" for every keyword there is - the mnemonic of
// every type with a presentation format (and of every class), written in lower, upper and alternating
// case, in a one-line entry and in a parenthesised one with the class left out.
func c06KeywordCase(w *core.W, j int) {
	g := model.NewGen(w.Rng(j))
	g.NoHuge, g.Plain, g.MaxOpaque = true, true, 24
	respell := func(s string, mode int) string {
		b := []byte(s)
		for i, c := range b {
			lower := mode == 0 || mode == 2 && i%2 == 0 || mode == 3 && i%2 == 1
			switch {
			case lower && c >= 'A' && c <= 'Z':
				b[i] = c + 32
			case !lower && c >= 'a' && c <= 'z':
				b[i] = c - 32
			}
		}
		return string(b)
	}
	for _, l := range textLayouts() {
		r := c05Base(g, l)
		rr, _, err := dns.UnpackRR(r.Wire(), 0)
		if err != nil {
			continue
		}
		rr.Header().Class = []uint16{1, 3, 4}[int(l.Type)%3]
		line := rr.String()
		f := strings.SplitN(line, "	", 5) // owner ttl class type rdata
		if len(f) < 4 || f[3] != l.Name {
			continue
		}
		rd := ""
		if len(f) == 5 {
			rd = f[4]
		}
		want, _ := packRR(rr)
		for mode := 0; mode < 4; mode++ {
			for shape := 0; shape < 2; shape++ {
				text := fmt.Sprintf("%s %s %s %s %s\n", f[0], f[1], respell(f[2], mode), respell(f[3], mode), rd)
				if shape == 1 {
					if rr.Header().Class != 1 || rd == "" {
						continue
					}
					text = fmt.Sprintf("%s %s %s ( %s )\n", f[0], f[1], respell(f[3], mode), rd)
				}
				w.Eval(1)
				w.Count("keyword_case_entries", 1)
				w.NontrivialStr(text)
				wit := map[string]any{"zone_text": text, "type": l.Name}
				zp := dns.NewZoneParser(strings.NewReader(text), "", "")
				var got dns.RR
				var ok bool
				if w.Guard("ZoneParser", wit, func() { got, ok = zp.Next() }) {
					continue
				}
				key := fmt.Sprintf("C06/keyword-case/%s/%s", l.Name, []string{"lower", "upper", "alternating", "alternating"}[mode])
				if !ok || got == nil {
					w.Violation(key, fmt.Sprintf("the entry %q is not read: %v", text, zp.Err()), wit)
					continue
				}
				if b, _ := packRR(got); !bytes.Equal(b, want) {
					w.Violation(key, fmt.Sprintf("the entry %q reads as another record than the same entry with the keywords in upper case", text), wit)
				}
			}
		}
	}
}

// c06Sequences: short hand-written entry sequences in which something that an entry depends on
// changes between two entries that are spelled alike (origin, $TTL, class, owner).
func c06Sequences(w *core.W, j int) {
	type exp struct {
		owner string
		ttl   uint32
	}
	type seq struct {
		name string
		text string
		want []exp
	}
	var seqs []seq
	for _, spelled := range []string{"www", "@", "a.b", "*", "WWW"} {
		abs := func(origin string) string {
			if spelled == "@" {
				return origin
			}
			return spelled + "." + origin
		}
		for si, sep := range []string{
			"$ORIGIN b.example.\n",
			"$ORIGIN b.example. ; now b\n\n; comment\n",
			"\t300 IN A 192.0.2.9\n$ORIGIN b.example.\n",
			"$ORIGIN x.example.\n$ORIGIN b.example.\n",
			"$TTL 300\n$ORIGIN b.example.\n",
		} {
			want := []exp{{abs("a.example."), 300}}
			if si == 2 {
				want = append(want, exp{abs("a.example."), 300})
			}
			want = append(want, exp{abs("b.example."), 300})
			seqs = append(seqs, seq{fmt.Sprintf("same-relative-owner-across-origin-change/%s/%d", strings.ToLower(spelled), si),
				"$ORIGIN a.example.\n" + spelled + " 300 IN A 192.0.2.1\n" + sep + spelled + " 300 IN A 192.0.2.2\n", want})
		}
		// relative $ORIGIN and an $INCLUDE with an origin argument in between
		seqs = append(seqs, seq{"same-relative-owner-across-relative-origin/" + strings.ToLower(spelled),
			"$ORIGIN a.example.\n" + spelled + " 300 IN A 192.0.2.1\n$ORIGIN sub\n" + spelled + " 300 IN A 192.0.2.2\n",
			[]exp{{abs("a.example."), 300}, {abs("sub.a.example."), 300}}})
		seqs = append(seqs, seq{"same-relative-owner-around-include/" + strings.ToLower(spelled),
			"$ORIGIN a.example.\n" + spelled + " 300 IN A 192.0.2.1\n$INCLUDE seq.db c.example.\n" + spelled + " 300 IN A 192.0.2.2\n",
			[]exp{{abs("a.example."), 300}, {abs("c.example."), 77}, {abs("a.example."), 300}}})
	}
	// the same TTL-less line under changing $TTL values, and after explicit TTLs
	seqs = append(seqs,
		seq{"same-line-under-changing-$TTL", "$ORIGIN a.example.\n$TTL 100\nh A 192.0.2.1\n$TTL 200\nh A 192.0.2.1\n$TTL 1h\nh A 192.0.2.1\n",
			[]exp{{"h.a.example.", 100}, {"h.a.example.", 200}, {"h.a.example.", 3600}}},
		seq{"$TTL-wins-over-explicit-inside-include", "$ORIGIN a.example.\n$TTL 300\n$INCLUDE ttl.db\nafter A 192.0.2.3\n",
			[]exp{{"one.a.example.", 600}, {"two.a.example.", 300}, {"after.a.example.", 300}}},
		seq{"include-line-produced-by-generate-uses-the-include-FS", "$ORIGIN a.example.\n$GENERATE 0-1 $$INCLUDE gen$.db\n",
			[]exp{{"g0.a.example.", 60}, {"g1.a.example.", 61}}},
		seq{"ttl-boundary-values", "$ORIGIN a.example.\na 4294967295 IN A 192.0.2.1\nb IN 4294967295 A 192.0.2.1\nc 4294967295 A 192.0.2.1\nd 2147483648 A 192.0.2.1\ne 0 A 192.0.2.1\n$TTL 4294967295\nf A 192.0.2.1\n$TTL 4294967294\ng A 192.0.2.1\nh 1193046h28m15s A 192.0.2.1\n",
			[]exp{{"a.a.example.", 4294967295}, {"b.a.example.", 4294967295}, {"c.a.example.", 4294967295}, {"d.a.example.", 2147483648}, {"e.a.example.", 0}, {"f.a.example.", 4294967295}, {"g.a.example.", 4294967294}, {"h.a.example.", 4294967295}}},
		// one file spliced in more than once: under two origins, directly after itself, and again after a
		// file that includes it too (the second inclusion starts when the first has long finished)
		seq{"same-file-included-twice", "$ORIGIN a.example.\n$INCLUDE ttl.db x.example.\n$INCLUDE ttl.db y.example.\n$INCLUDE ttl.db\n",
			[]exp{{"one.x.example.", 600}, {"two.x.example.", 600}, {"one.y.example.", 600}, {"two.y.example.", 600}, {"one.a.example.", 600}, {"two.a.example.", 600}}},
		seq{"same-file-included-again-after-a-file-that-includes-it", "$ORIGIN a.example.\n$TTL 50\n$INCLUDE outer.db\n$INCLUDE ttl.db z.example.\n$INCLUDE outer.db w.example.\n",
			[]exp{{"one.a.example.", 600}, {"two.a.example.", 50}, {"o.a.example.", 50}, {"one.z.example.", 600}, {"two.z.example.", 50}, {"one.w.example.", 600}, {"two.w.example.", 50}, {"o.w.example.", 50}}},
		// unit-suffixed TTLs with components that are zero
		seq{"ttl-zero-components", "$ORIGIN a.example.\na 0s A 192.0.2.1\nb 0h IN A 192.0.2.1\nc IN 1h0m A 192.0.2.1\nd 1H0S A 192.0.2.1\n$TTL 0w1d\ne A 192.0.2.1\n$TTL 0d0h0m5s\nf A 192.0.2.1\ng 0w0d0h0m0s A 192.0.2.1\nh 1w0s A 192.0.2.1\n",
			[]exp{{"a.a.example.", 0}, {"b.a.example.", 0}, {"c.a.example.", 3600}, {"d.a.example.", 3600}, {"e.a.example.", 86400}, {"f.a.example.", 5}, {"g.a.example.", 0}, {"h.a.example.", 604800}}},
		seq{"$TTL-wins-over-explicit", "$ORIGIN a.example.\n$TTL 300\none 600 A 192.0.2.1\ntwo A 192.0.2.2\n",
			[]exp{{"one.a.example.", 600}, {"two.a.example.", 300}}},
	)
	// every type with domain names in its RDATA: the names written relative to the origin (and the
	// origin itself as @) denote the same record
	{
		g := model.NewGen(w.Rng(j, 9))
		g.NoHuge = true
		g.Plain = true
		g.MaxOpaque = 24
		relRe := regexp.MustCompile(`([A-Za-z0-9_-]+)\.example\.(\s|$)`)
		for _, l := range textLayouts() {
			hasName := false
			for _, fd := range l.Fields {
				switch fd.Kind {
				case model.KName, model.KCName, model.KNames, model.KGateway:
					hasName = true
				}
			}
			if !hasName {
				continue
			}
			r := c05Base(g, l)
			for i, fd := range l.Fields {
				if fd.Kind == model.KGateway { // the gateway is a host name
					r.Vals[i] = model.Gateway{Type: 3, Host: model.Name{[]byte("gw"), []byte("example")}}
				}
			}
			r.Fixup()
			rr, _, err := dns.UnpackRR(r.Wire(), 0)
			if err != nil {
				continue
			}
			want, err := packRR(rr)
			if err != nil {
				continue
			}
			text := rr.String()
			if one, err := dns.NewRR(text); err != nil || one == nil {
				continue // the absolute form itself is not readable: C05 reports that
			}
			rel := relRe.ReplaceAllString(text, "$1$2")
			if rel == text {
				continue
			}
			zone := "$ORIGIN example.\n" + rel + "\n"
			w.Eval(1)
			w.Count("relative_rdata_name_cases", 1)
			w.Cover("relative_rdata_type", l.Name)
			wit := map[string]any{"zone_text": zone, "absolute": text}
			var got dns.RR
			var perr error
			if w.Guard("ZoneParser", wit, func() {
				zp := dns.NewZoneParser(strings.NewReader(zone), "", "rel.db")
				got, _ = zp.Next()
				perr = zp.Err()
			}) {
				continue
			}
			if perr != nil || got == nil {
				w.Violation("C06/relative-rdata-name/parse-error/"+l.Name, fmt.Sprintf("%v\n%s", perr, zone), wit)
				continue
			}
			if gb, err := packRR(got); err != nil || !bytes.Equal(gb, want) {
				w.Violation("C06/relative-rdata-name/not-completed-with-origin/"+l.Name, fmt.Sprintf("read %s\nfrom %s", cutS(got.String()), zone), wit)
			}
		}
	}
	files := fstest.MapFS{
		"zones/seq.db":  &fstest.MapFile{Data: []byte("www 77 IN A 192.0.2.7\n@ 77 IN A 192.0.2.7\na.b 77 IN A 192.0.2.7\n* 77 IN A 192.0.2.7\nWWW 77 IN A 192.0.2.7\n")},
		"zones/ttl.db":  &fstest.MapFile{Data: []byte("one 600 A 192.0.2.1\ntwo A 192.0.2.2\n")},
		"zones/outer.db": &fstest.MapFile{Data: []byte("$INCLUDE ttl.db\no A 192.0.2.9\n")},
		"zones/gen0.db": &fstest.MapFile{Data: []byte("g0 60 A 192.0.2.1\n")},
		"zones/gen1.db": &fstest.MapFile{Data: []byte("g1 61 A 192.0.2.1\n")},
	}
	// pairs of texts that denote the same entries: the plain one-line form, and the same entry spread over
	// lines inside parentheses with comments glued to tokens (no blank before the semicolon), comments after
	// a blank, unit-suffixed timers with zero components
	for _, eq := range []struct{ name, plain, decorated string }{
		{"soa-comments-glued-to-tokens", "@ 300 IN SOA ns mbox 2024010101 7200 3600 1209600 300\n",
			"@ 300 IN SOA ns mbox ( 2024010101;serial\n\t7200;refresh\n 3600 ;retry\n\t\t1209600;expire\n 300;minimum\n)\n"},
		{"soa-timers-with-zero-components", "@ 300 IN SOA ns mbox 1 3600 900 604800 0\n", "@ 300 IN SOA ns mbox ( 1 1h0m 0h15m 1w0d 0s )\n"},
		{"mx-comment-glued", "m 300 IN MX 10 mail\n", "m 300 IN MX ( 10;preference\n\tmail;the host\n)\n"},
		{"srv-comments-glued", "s 300 IN SRV 1 2 53 target\n", "s 300 IN SRV ( 1;priority\n 2;weight\n\t53;port\n target )\n"},
		{"ns-comment-glued", "n 300 IN NS ns1\n", "n 300 IN NS ( ns1;the server\n )\n"},
		{"ds-comment-glued", "d 300 IN DS 12345 8 2 AABBCCDD\n", "d 300 IN DS ( 12345;tag\n 8;alg\n 2;digest type\n AABB;first half\n CCDD )\n"},
		{"txt-comment-glued", "t 300 IN TXT one two\n", "t 300 IN TXT ( one;first\n two;second\n)\n"},
		{"naptr-comments-glued", "p 300 IN NAPTR 100 10 \"u\" \"sip\" \"\" target\n", "p 300 IN NAPTR ( 100;order\n 10;pref\n \"u\";flags\n \"sip\" \"\" target )\n"},
		{"owner-ttl-class-comment-glued", "c 300 IN A 192.0.2.1\n", "c 300 IN A ( 192.0.2.1;the address\n )\n"},
	} {
		parse := func(text string) ([][]byte, error) {
			var out [][]byte
			zp := dns.NewZoneParser(strings.NewReader("$ORIGIN a.example.\n"+text), "", "")
			for rr, ok := zp.Next(); ok; rr, ok = zp.Next() {
				b, _ := packRR(rr)
				out = append(out, b)
			}
			return out, zp.Err()
		}
		w.Eval(1)
		w.Count("equivalent_rendering_pairs", 1)
		wit := map[string]any{"plain": eq.plain, "decorated": eq.decorated}
		var a, b [][]byte
		var ea, eb error
		if w.Guard("ZoneParser", wit, func() { a, ea = parse(eq.plain); b, eb = parse(eq.decorated) }) {
			continue
		}
		if ea != nil || len(a) != 1 {
			w.Violation("C06/equivalent/"+eq.name+"/plain-form-rejected", fmt.Sprintf("%q: %v", eq.plain, ea), wit)
			continue
		}
		if eb != nil || len(b) != 1 || !bytes.Equal(a[0], b[0]) {
			w.Violation("C06/equivalent/"+eq.name, fmt.Sprintf("the entry spread over lines with comments reads as err=%v / another record than its one-line form\n%s", eb, eq.decorated), wit)
		}
	}
	for _, sq := range seqs {
		w.Eval(1)
		w.Count("sequence_cases", 1)
		w.NontrivialStr(sq.text)
		wit := map[string]any{"zone_text": sq.text}
		var got []exp
		var err error
		if w.Guard("ZoneParser", wit, func() {
			zp := dns.NewZoneParser(strings.NewReader(sq.text), "", "zones/seq-main.db")
			zp.SetIncludeAllowed(true)
			zp.SetIncludeFS(files)
			for rr, ok := zp.Next(); ok; rr, ok = zp.Next() {
				got = append(got, exp{rr.Header().Name, rr.Header().Ttl})
			}
			err = zp.Err()
		}) {
			continue
		}
		want := sq.want
		if strings.HasPrefix(sq.name, "same-relative-owner-around-include/") {
			// the included file holds one line per spelling; only the one spelled like the test owner is compared
			var f []exp
			for _, g := range got {
				if g.ttl != 77 || g.owner == want[1].owner {
					f = append(f, g)
				}
			}
			got = f
		}
		key := "C06/sequence/" + sq.name
		if err != nil {
			w.Violation(key, fmt.Sprintf("rejected: %v\n%s", err, sq.text), wit)
			continue
		}
		ok := len(got) == len(want)
		for i := 0; ok && i < len(want); i++ {
			ok = strings.EqualFold(got[i].owner, want[i].owner) && got[i].ttl == want[i].ttl
		}
		if !ok {
			w.Violation(key, fmt.Sprintf("got %v, the text denotes %v\n%s", got, want, sq.text), wit)
		}
	}
}

// c06GenerateLargest: the largest ranges $GENERATE takes - 65536 steps, whatever the start and the step -
// expand to one record per step, first and last iterator value included.
func c06GenerateLargest(w *core.W, j int) {
	cases := []struct {
		rng         string
		first, last int
	}{{"0-65535", 0, 65535}, {"1-65536", 1, 65536}, {"0-131071/2", 0, 131070}, {"5-196612/3", 5, 196610}, {"100000-165535", 100000, 165535}, {"7-458758/7", 7, 458752}}
	c := cases[j%len(cases)]
	text := "$ORIGIN big.example.\n$GENERATE " + c.rng + " h$ 300 IN A 192.0.2.1\nafter 300 IN A 192.0.2.2\n"
	wit := map[string]any{"zone_text": text}
	var owners []string
	var err error
	w.Eval(1)
	if w.Guard("ZoneParser($GENERATE largest range)", wit, func() {
		zp := dns.NewZoneParser(strings.NewReader(text), "", "zone.db")
		for rr, ok := zp.Next(); ok; rr, ok = zp.Next() {
			if len(owners) < 70000 {
				owners = append(owners, rr.Header().Name)
			}
		}
		err = zp.Err()
	}) {
		return
	}
	w.Count("generate_largest_ranges", 1)
	want := 65537 // the generated records and the one after them
	switch {
	case err != nil:
		w.Violation("C06/generate-largest-range", fmt.Sprintf("$GENERATE %s (65536 steps): %v", c.rng, err), wit)
	case len(owners) != want:
		w.Violation("C06/generate-largest-range", fmt.Sprintf("$GENERATE %s (65536 steps) gave %d records, want 65536 and the one that follows", c.rng, len(owners)-1), wit)
	case owners[0] != fmt.Sprintf("h%d.big.example.", c.first) || owners[65535] != fmt.Sprintf("h%d.big.example.", c.last) || owners[65536] != "after.big.example.":
		w.Violation("C06/generate-largest-range", fmt.Sprintf("$GENERATE %s: first owner %s, 65536th %s, then %s", c.rng, owners[0], owners[65535], owners[65536]), wit)
	}
	w.NontrivialStr("generate-largest", c.rng)
}

func init() {
	plan, run := sections(
		section{"matrix", tiered(1, 1), c06Matrix},
		section{"sequences", tiered(1, 1), c06Sequences},
		section{"quoting", tiered(1, 4), c06Quoting},
		section{"keywords", tiered(1, 1), c06Keywords},
		section{"keyword-case", tiered(1, 3), c06KeywordCase},
		section{"zones", tiered(40000, 1500000), c06Zone},
		section{"generate-largest-ranges", tiered(6, 6), c06GenerateLargest},
		concurrentSection("C06"),
	)
	core.Register(&core.Monitor{
		ID: "C06", Level: "exploration", Plan: plan, Run: run, Terminates: true,
		Rule: "model record lists (14 regular types) rendered by an independent zone writer that picks per record among equivalent spellings: absolute/relative/@/omitted owner, TTL explicit (decimal or unit suffixes) or omitted exactly where $TTL / last stated TTL / configured default yields the value, class omitted/IN/CLASS1 in either order, keyword case, TYPEnnn, " +
			"parentheses with line breaks and comments, blank and comment lines, $ORIGIN (absolute and relative) and $TTL placement, $GENERATE (ranges, steps, $, ${offset[,width[,base]]}) expanded independently, $INCLUDE trees up to depth 7 from an in-memory FS with and without an origin argument; " +
			"parser options: origin given/given without dot/absent, default TTL set or not, include FS; the 7x8 TTL-state x line-shape matrix enumerated; oracle: parser output == the list the text was rendered from; the same operations called from 8 goroutines at once give the results they give alone; non-trivial = distinct zone text",
		Assumptions: []string{"after $GENERATE or $INCLUDE the next record is written with an explicit owner, and with an explicit TTL unless a $TTL is in force (the statement leaves those cases open)", "records inside included files carry explicit TTLs unless a $TTL is in force (the file is spliced in)"},
		MinObserved: []string{"zones", "records_expected", "matrix_cells", "quoting_cases", "keyword_cases"},
	})
}
