package mon

import (
	"encoding/binary"
	"fmt"
	"net"
	"sort"
	"strings"
	"sync"
	"sync/atomic"
	"time"

	"github.com/anishathalye/porcupine"
	"github.com/miekg/dns"

	"verifharness/bridge"
	"verifharness/core"
	"verifharness/model"
	"verifharness/netsim"
	"verifharness/sched"
)

// c14Policy is the reference for the documented default accept policy.
// 0 accept, 1 FORMERR, 2 ignore, 3 NOTIMP.
func c14Policy(b []byte) int {
	bits := binary.BigEndian.Uint16(b[2:])
	if bits&0x8000 != 0 {
		return 2
	}
	op := int(bits>>11) & 0xF
	if op != 0 && op != 4 {
		return 3
	}
	if binary.BigEndian.Uint16(b[4:]) != 1 || binary.BigEndian.Uint16(b[6:]) > 1 || binary.BigEndian.Uint16(b[8:]) > 1 || binary.BigEndian.Uint16(b[10:]) > 2 {
		return 1
	}
	return 0
}

type c14Srv struct {
	w        *core.W
	kind     string // "udp" | "tcp"
	ctl      *sched.Controller
	srv      *dns.Server
	pc       *netsim.PacketConn
	ln       *netsim.Listener
	serveErr chan error
	handled  atomic.Int32
	invalid  atomic.Int32
	mu       sync.Mutex
	lastReq  *dns.Msg
	nclient  int
	stuck    int // packets the server never finished with (each costs a watchdog period)
	policy   func(pkt []byte) int // reference accept policy of this server (default: c14Policy)
	// invalidVia, if set, is where invalid-message reports of this server arrive (the package-level
	// default callback, replaced by the harness) instead of the server's own field
	invalidVia *atomic.Int32
}

// the package-level defaults as a program may replace them before it starts its servers: the invalid-message
// callback counts into whatever c14GlobalInvalid points at, the accept policy goes through a wrapper
var (
	c14GlobalInvalid    atomic.Pointer[atomic.Int32]
	c14DefaultAcceptHit atomic.Int64
)

func init() {
	dns.DefaultMsgInvalidFunc = func(m []byte, err error) {
		if p := c14GlobalInvalid.Load(); p != nil {
			p.Add(1)
		}
	}
	orig := dns.DefaultMsgAcceptFunc
	dns.DefaultMsgAcceptFunc = func(dh dns.Header) dns.MsgAcceptAction {
		c14DefaultAcceptHit.Add(1)
		return orig(dh)
	}
}

func newC14Srv(w *core.W, kind string, seed uint64, conf ...func(*dns.Server)) *c14Srv {
	s := &c14Srv{w: w, kind: kind, ctl: sched.New(seed), serveErr: make(chan error, 1)}
	s.ctl.Scribble = true // a recycled receive buffer is overwritten at once: the request the handler keeps must not live in it
	sched.Use(s.ctl)
	started := make(chan struct{})
	s.srv = &dns.Server{ReadTimeout: time.Hour, IdleTimeout: func() time.Duration { return time.Hour }, UDPSize: 65535,
		NotifyStartedFunc: func() { close(started) },
		Handler: dns.HandlerFunc(func(rw dns.ResponseWriter, req *dns.Msg) {
			s.mu.Lock()
			s.lastReq = req
			s.mu.Unlock()
			s.handled.Add(1)
			r := new(dns.Msg)
			r.SetReply(req)
			r.Extra = []dns.RR{&dns.TXT{Hdr: dns.RR_Header{Name: "handler.", Rrtype: dns.TypeTXT, Class: 1}, Txt: []string{"handled"}}}
			rw.WriteMsg(r)
		}),
		MsgInvalidFunc: func(m []byte, err error) { s.invalid.Add(1) },
	}
	for _, f := range conf {
		f(s.srv)
	}
	if kind == "udp" {
		s.pc = netsim.NewPacketConn()
		s.srv.PacketConn = s.pc
	} else {
		s.ln = netsim.NewListener()
		s.srv.Listener = s.ln
	}
	go func() { s.serveErr <- s.srv.ActivateAndServe() }()
	select {
	case <-started:
	case <-time.After(c13Watch):
		w.Inconclusive("c14-server-did-not-start")
		return nil
	}
	return s
}

func (s *c14Srv) stop() {
	s.srv.Shutdown()
	select {
	case <-s.serveErr:
	case <-time.After(c13Watch):
	}
	sched.Use(nil)
}

// deliver hands one packet to the server and waits until it has been dealt with; it returns
// what was observed: handler calls, invalid-callback calls, replies.
func (s *c14Srv) deliver(pkt []byte) (handled, invalid int, replies [][]byte, ok bool) {
	inv := &s.invalid
	if s.invalidVia != nil {
		inv = s.invalidVia
	}
	h0, i0 := s.handled.Load(), inv.Load()
	x0 := s.ctl.Hits()["serveDNS.exit"]
	var cl *netsim.Stream
	addr := netsim.Addr(fmt.Sprintf("c%d", s.nclient))
	s.nclient++
	if s.kind == "udp" {
		s.pc.Inject(pkt, addr)
	} else {
		var err error
		cl, err = s.ln.Dial()
		if err != nil {
			return 0, 0, nil, false
		}
		defer cl.Close()
		// the frame reaches the server in segments: whole, length prefix split, octet by octet, ...
		if svs := s.ln.ServerConns(); len(svs) > 0 {
			n := 2 + len(pkt)
			var plan []int
			switch s.nclient % 6 {
			case 1:
				plan = []int{1, n - 1}
			case 2:
				plan = []int{2, n - 2}
			case 3:
				plan = []int{3, n - 3}
			case 4:
				plan = make([]int, n)
				for i := range plan {
					plan[i] = 1
				}
			case 5:
				plan = []int{1, 1, n/2 + 1, n}
			}
			var pos []int
			for _, x := range plan {
				if x > 0 {
					pos = append(pos, x)
				}
			}
			plan = pos
			if plan != nil {
				svs[len(svs)-1].SetReadPlan(plan)
				s.w.Count("segmented_stream_deliveries", 1)
			}
		}
		cl.Write(frame(pkt))
	}
	deadline := time.Now().Add(c13Watch)
	for {
		done := s.ctl.Hits()["serveDNS.exit"] > x0
		if s.kind == "udp" && len(pkt) < 12 {
			done = inv.Load() > i0 // short datagrams never reach serveDNS
		}
		if done {
			break
		}
		if time.Now().After(deadline) {
			return 0, 0, nil, false
		}
		time.Sleep(50 * time.Microsecond)
	}
	if s.kind == "udp" {
		replies = s.pc.TakeSent(addr)
	} else {
		raw := cl.Drain()
		for len(raw) >= 2 {
			l := int(binary.BigEndian.Uint16(raw))
			if 2+l > len(raw) {
				replies = append(replies, raw) // malformed framing shows up as a bad reply
				break
			}
			replies = append(replies, raw[2:2+l])
			raw = raw[2+l:]
		}
	}
	return int(s.handled.Load() - h0), int(inv.Load() - i0), replies, true
}

// c14Judge applies the admission rules to one observed packet.
func c14Judge(w *core.W, s *c14Srv, pkt []byte, wellFormed *dns.Msg, kind string) {
	if s.stuck >= 3 {
		return // the remaining packets would only repeat the finding, at watchdog cost each
	}
	handled, invalid, replies, ok := s.deliver(pkt)
	w.Eval(1)
	wit := map[string]any{"packet": hx(pkt), "transport": s.kind, "kind": kind}
	key := func(k string) string { return "C14/" + k + "/" + s.kind }
	if !ok {
		s.stuck++
		w.Violation(key("packet-not-dealt-with"), "the server did not finish processing the packet within the watchdog (no serveDNS exit, no invalid callback)", wit)
		return
	}
	w.Nontrivial(pkt, []byte(s.kind))
	if len(pkt) < 12 {
		w.Count("short_packets", 1)
		if handled != 0 || len(replies) != 0 || invalid != 1 {
			w.Violation(key("short-packet"), fmt.Sprintf("packet of %d octets: handler calls %d, replies %d, invalid-callback calls %d (want 0,0,1)", len(pkt), handled, len(replies), invalid), wit)
		}
		return
	}
	pol := c14Policy(pkt)
	if s.policy != nil {
		pol = s.policy(pkt)
	}
	w.Cover("policy", []string{"accept", "formerr", "ignore", "notimp"}[pol])
	checkReply := func(rcode int, keepOpcode bool) {
		if len(replies) != 1 {
			w.Violation(key("reply-count"), fmt.Sprintf("policy class %d: %d replies, want exactly 1", pol, len(replies)), wit)
			return
		}
		r := replies[0]
		if len(r) < 12 {
			w.Violation(key("reply-malformed"), fmt.Sprintf("reply of %d octets", len(r)), wit)
			return
		}
		bits := binary.BigEndian.Uint16(r[2:])
		if r[0] != pkt[0] || r[1] != pkt[1] {
			w.Violation(key("reply-id"), fmt.Sprintf("reply id %x, request id %x", r[:2], pkt[:2]), wit)
		}
		if bits&0x8000 == 0 {
			w.Violation(key("reply-qr"), "library-built reply without QR", wit)
		}
		if int(bits&0xF) != rcode {
			w.Violation(key("reply-rcode"), fmt.Sprintf("rcode %d, want %d", bits&0xF, rcode), wit)
		}
		if an, ns, ar := binary.BigEndian.Uint16(r[6:]), binary.BigEndian.Uint16(r[8:]), binary.BigEndian.Uint16(r[10:]); an+ns+ar != 0 {
			w.Violation(key("reply-not-empty"), fmt.Sprintf("reply carries %d/%d/%d answer/authority/additional records", an, ns, ar), wit)
		}
		if keepOpcode && (bits>>11)&0xF != (binary.BigEndian.Uint16(pkt[2:])>>11)&0xF {
			w.Violation(key("notimp-opcode"), "NOTIMP reply does not echo the opcode", wit)
		}
		if m := new(dns.Msg); m.Unpack(r) != nil {
			w.Violation(key("reply-undecodable"), "the library's own reply does not decode", wit)
		}
	}
	switch pol {
	case 2: // QR set: never answered, never handled
		if handled != 0 || len(replies) != 0 {
			w.Violation(key("response-answered"), fmt.Sprintf("a message with QR set got %d handler calls and %d replies", handled, len(replies)), wit)
		}
	case 3:
		if handled != 0 {
			w.Violation(key("handler-called-for-rejected"), "handler invoked for an unsupported opcode", wit)
		}
		checkReply(dns.RcodeNotImplemented, true)
	case 1:
		if handled != 0 {
			w.Violation(key("handler-called-for-rejected"), "handler invoked for a message the policy rejects", wit)
		}
		checkReply(dns.RcodeFormatError, false)
	case 0:
		switch {
		case handled == 1 && invalid == 0:
			w.Count("accepted_and_handled", 1)
			if len(replies) != 1 {
				w.Violation(key("handler-reply-lost"), fmt.Sprintf("handler ran once but %d replies were sent", len(replies)), wit)
			}
			if wellFormed != nil {
				s.mu.Lock()
				got := s.lastReq
				s.mu.Unlock()
				if d := bridge.DiffNoRdlen(wellFormed, got); d != "" {
					w.Violation(key("handler-saw-different-request"), "the request handed to the handler differs from the one sent at "+d, wit)
				}
			}
		case handled == 0 && invalid == 1:
			w.Count("accepted_but_undecodable", 1)
			if wellFormed != nil {
				w.Violation(key("well-formed-query-not-handled"), "a well-formed query that passes the accept policy was reported invalid instead of reaching the handler", wit)
			}
			checkReply(dns.RcodeFormatError, false)
		default:
			w.Violation(key("not-exactly-one-outcome"), fmt.Sprintf("accepted packet: handler calls %d, invalid-callback calls %d, replies %d", handled, invalid, len(replies)), wit)
		}
	}
	if w.WantSample() {
		w.Sample(map[string]any{"transport": s.kind, "packet": hx(pkt), "policy": pol, "handled": handled, "invalid": invalid, "replies": len(replies)})
	}
}

var c14Counts = []uint16{0, 1, 2, 3, 65535}

func c14Admission(w *core.W, j int) {
	kind := []string{"udp", "tcp"}[j%2]
	var conf []func(*dns.Server)
	custom := j%5 == 4
	if custom {
		// a policy of the user's own: the four actions chosen by the low bits of the ID, whatever the
		// flags and counts say ("passes the accept policy" is about the configured policy)
		conf = append(conf, func(srv *dns.Server) {
			srv.MsgAcceptFunc = func(dh dns.Header) dns.MsgAcceptAction {
				return []dns.MsgAcceptAction{dns.MsgAccept, dns.MsgReject, dns.MsgIgnore, dns.MsgRejectNotImplemented}[dh.Id%4]
			}
		})
		w.Count("custom_policy_servers", 1)
	}
	// every third server leaves its callbacks unset: the package-level defaults apply, and the program has
	// replaced them (DefaultMsgInvalidFunc by a counter, DefaultMsgAcceptFunc by a wrapper of the original)
	viaDefaults := j%3 == 2 && !custom
	var globalInvalid atomic.Int32
	if viaDefaults {
		c14GlobalInvalid.Store(&globalInvalid)
		defer c14GlobalInvalid.Store(nil)
		conf = append(conf, func(srv *dns.Server) { srv.MsgInvalidFunc, srv.MsgAcceptFunc = nil, nil })
		w.Count("servers_on_package_level_default_callbacks", 1)
	}
	s := newC14Srv(w, kind, uint64(w.Seed)+uint64(j), conf...)
	if s == nil {
		return
	}
	if viaDefaults {
		s.invalidVia = &globalInvalid
	}
	if custom {
		s.policy = func(pkt []byte) int { return int(binary.BigEndian.Uint16(pkt) % 4) } // same numbering as c14Policy: 0 accept, 1 FORMERR, 2 ignore, 3 NOTIMP
	}
	defer s.stop()
	r := w.Rng(j)
	g := model.NewGen(w.Rng(j, 1))
	g.NoHuge = true
	g.MaxOpaque = 40
	ls := c01Layouts()
	// (1) header-only and header+question packets over flag words and count combinations
	for k := 0; k < 60; k++ {
		bits := uint16(r.IntN(65536))
		if k < 32 { // all opcode x QR combinations first
			bits = uint16(k)<<11 | uint16(r.IntN(0x800))
		}
		b := make([]byte, 12)
		binary.BigEndian.PutUint16(b, uint16(r.IntN(65536)))
		binary.BigEndian.PutUint16(b[2:], bits)
		for f := 0; f < 4; f++ {
			binary.BigEndian.PutUint16(b[4+2*f:], c14Counts[r.IntN(len(c14Counts))])
		}
		if k%3 == 0 {
			binary.BigEndian.PutUint16(b[4:], 1)
		}
		if r.IntN(2) == 0 {
			b = append(b, 3, 'w', 'w', 'w', 0, 0, 1, 0, 1)
		}
		c14Judge(w, s, b, nil, "header")
	}
	// (2) model-well-formed queries that pass the policy must reach the handler unchanged
	for k := 0; k < 25; k++ {
		mm := &model.Msg{ID: uint16(r.IntN(65536)), Bits: uint16(r.IntN(65536)) &^ 0xF800 &^ 0x000F}
		if r.IntN(6) == 0 {
			mm.Bits |= 4 << 11 // NOTIFY
		}
		g.MakePool(2)
		mm.Q = []model.Question{{Name: g.Name(), Type: uint16(g.Uint(16)), Class: uint16(g.Uint(16))}}
		pick := func() *model.Rec {
			for {
				l := ls[r.IntN(len(ls))]
				if l.Type == 41 || l.Type == 250 {
					continue
				}
				rec := g.Rec(l)
				if c01Class(rec, nil) == "" {
					return rec
				}
			}
		}
		if r.IntN(4) == 0 {
			mm.An = []*model.Rec{pick()}
		}
		if r.IntN(4) == 0 {
			mm.Ns = []*model.Rec{pick()}
		}
		for i := r.IntN(3); i > 0; i-- {
			mm.Ar = append(mm.Ar, pick())
		}
		if r.IntN(2) == 0 {
			// what most real queries carry: an OPT record (any options, known and unknown codes), last of
			// at most two additional records
			for try := 0; try < 8; try++ {
				if o := g.Rec(model.Layouts[41]); c01Class(o, nil) == "" {
					if len(mm.Ar) == 2 {
						mm.Ar = mm.Ar[:1]
					}
					mm.Ar = append(mm.Ar, o)
					w.Count("wellformed_queries_with_opt", 1)
					break
				}
			}
		}
		wire := mm.Wire()
		if len(wire) > 60000 {
			continue
		}
		exp, err := buildMsgAny(mm)
		if err != nil {
			continue
		}
		w.Count("wellformed_queries", 1)
		c14Judge(w, s, wire, exp, "well-formed")
	}
	// (3) hostile packets
	for k := 0; k < 40; k++ {
		m := genMsg(g, ls, 2)
		m.Bits &^= 0x8000
		if r.IntN(3) > 0 {
			m.Bits &^= 0x7800
			m.Q = m.Q[:min(len(m.Q), 1)]
			if len(m.Q) == 0 {
				m.Q = []model.Question{{Name: g.Name(), Type: 1, Class: 1}}
			}
			m.An, m.Ns = m.An[:min(len(m.An), 1)], m.Ns[:min(len(m.Ns), 1)]
			m.Ar = m.Ar[:min(len(m.Ar), 2)]
		}
		valid := m.Wire()
		if len(valid) > 20000 {
			continue
		}
		pkt := c02Mutate(r, valid, walkOffsets(valid))
		if r.IntN(8) == 0 {
			pkt = pkt[:r.IntN(min(len(pkt), 13)+1)]
		}
		c14Judge(w, s, pkt, nil, "hostile")
	}
	// (4) several messages pipelined on one stream connection, delivered in arbitrary segments:
	// every accepted query is handled exactly once and answered, every other one gets its policy outcome
	if kind == "tcp" && !custom { // (c14Pipeline builds its expectations from the default policy)
		for round := 0; round < 6; round++ {
			c14Pipeline(w, s, r, 2+r.IntN(7))
		}
	}
}

// c14Pipeline writes k framed messages (queries that pass the policy, interleaved with ones the policy
// answers itself or ignores) onto one connection in a single write and compares the outcome per ID.
func c14Pipeline(w *core.W, s *c14Srv, r interface{ IntN(int) int }, k int) {
	type exp struct {
		id      uint16
		handled bool // reaches the handler (reply rcode 0 with the handler's TXT)
		rcode   int  // otherwise: -1 = no reply
	}
	var exps []exp
	var stream []byte
	for i := 0; i < k; i++ {
		id := uint16(0x4000 + s.nclient*64 + i)
		b := make([]byte, 12)
		binary.BigEndian.PutUint16(b, id)
		e := exp{id: id, handled: true}
		switch r.IntN(5) {
		case 0: // a response: ignored
			b[2] = 0x80
			e = exp{id: id, rcode: -1}
		case 1: // unsupported opcode 3: NOTIMP
			b[2] = 3 << 3
			e = exp{id: id, rcode: dns.RcodeNotImplemented}
		case 2: // two questions: FORMERR
			binary.BigEndian.PutUint16(b[4:], 2)
			b = append(b, 1, 'a', 0, 0, 1, 0, 1, 1, 'b', 0, 0, 1, 0, 1)
			e = exp{id: id, rcode: dns.RcodeFormatError}
		}
		if e.handled {
			binary.BigEndian.PutUint16(b[4:], 1)
			b = append(b, byte(1+i), 'q', 'q', 'q', 'q', 'q', 'q', 'q', 'q', 'q')
			b = b[:12+1+(1+i)]
			b = append(b, 0, 0, 1, 0, 1)
		}
		exps = append(exps, e)
		stream = append(stream, frame(b)...)
	}
	h0 := s.handled.Load()
	x0 := s.ctl.Hits()["serveDNS.exit"]
	cl, err := s.ln.Dial()
	if err != nil {
		return
	}
	defer cl.Close()
	s.nclient++
	if svs := s.ln.ServerConns(); len(svs) > 0 && r.IntN(3) > 0 {
		var plan []int
		left := len(stream)
		for left > 0 {
			c := 1 + r.IntN(left)
			if r.IntN(2) == 0 && left > 4 {
				c = 1 + r.IntN(4)
			}
			plan = append(plan, c)
			left -= c
		}
		svs[len(svs)-1].SetReadPlan(plan)
	}
	cl.Write(stream)
	w.Eval(1)
	w.Count("pipelines", 1)
	w.Count("pipelined_messages", k)
	deadline := time.Now().Add(c13Watch)
	for s.ctl.Hits()["serveDNS.exit"]-x0 < k && time.Now().Before(deadline) {
		time.Sleep(50 * time.Microsecond)
	}
	wit := map[string]any{"stream": hx(stream), "messages": k}
	if got := s.ctl.Hits()["serveDNS.exit"] - x0; got != k {
		w.Violation("C14/pipeline/messages-not-all-dealt-with/tcp", fmt.Sprintf("%d messages pipelined on one connection, %d processed", k, got), wit)
		return
	}
	wantHandled := 0
	for _, e := range exps {
		if e.handled {
			wantHandled++
		}
	}
	if got := int(s.handled.Load() - h0); got != wantHandled {
		w.Violation("C14/pipeline/handler-calls/tcp", fmt.Sprintf("%d of %d pipelined messages pass the policy but the handler ran %d times", wantHandled, k, got), wit)
	}
	raw := cl.Drain()
	got := map[uint16][]int{}
	for len(raw) >= 2 {
		l := int(binary.BigEndian.Uint16(raw))
		if 2+l > len(raw) || l < 12 {
			w.Violation("C14/pipeline/reply-framing/tcp", "replies on the pipelined connection are not framed correctly", wit)
			return
		}
		rp := raw[2 : 2+l]
		got[binary.BigEndian.Uint16(rp)] = append(got[binary.BigEndian.Uint16(rp)], int(rp[3]&0xF))
		raw = raw[2+l:]
	}
	for _, e := range exps {
		rs := got[e.id]
		switch {
		case e.rcode == -1:
			if len(rs) != 0 {
				w.Violation("C14/pipeline/ignored-message-answered/tcp", fmt.Sprintf("message id %d (QR set) got %d replies", e.id, len(rs)), wit)
			}
		case len(rs) != 1:
			w.Violation("C14/pipeline/reply-count/tcp", fmt.Sprintf("message id %d got %d replies, want 1", e.id, len(rs)), wit)
		case e.handled && rs[0] != 0 || !e.handled && rs[0] != e.rcode:
			w.Violation("C14/pipeline/reply-rcode/tcp", fmt.Sprintf("message id %d: rcode %d (handled expected: %v, policy rcode %d)", e.id, rs[0], e.handled, e.rcode), wit)
		}
		delete(got, e.id)
	}
	if len(got) != 0 {
		w.Violation("C14/pipeline/unexpected-replies/tcp", fmt.Sprintf("replies with IDs that were never sent: %v", got), wit)
	}
}

// c14LongPipelines: one connection carrying as many queries as the per-connection limit allows (the
// documented default of 128, an explicit limit, or none at all): every message up to the limit is a
// message the server receives, so each is handled exactly once and answered, in order.
func c14LongPipelines(w *core.W, j int) {
	limit := []int{0, -1, 1, 5, 0, -1, 2, 127}[j%8]
	eff := limit
	if limit == 0 {
		eff = 128
	}
	k := eff
	if limit == -1 {
		k = 130 + 90*(j%3)
		eff = k
	} else if j%2 == 1 || j%8 == 4 {
		k = eff + 3 // three more than the server will read: the first `limit` are still its business
	}
	s := newC14Srv(w, "tcp", uint64(w.Seed)+uint64(j), func(srv *dns.Server) { srv.MaxTCPQueries = limit })
	if s == nil {
		return
	}
	defer s.stop()
	var stream []byte
	for i := 0; i < k; i++ {
		q := new(dns.Msg)
		q.SetQuestion(fmt.Sprintf("q%d.long-pipeline.example.", i), dns.TypeA)
		q.Id = uint16(0x1000 + i)
		b, _ := q.Pack()
		stream = append(stream, frame(b)...)
	}
	cl, err := s.ln.Dial()
	if err != nil {
		w.Inconclusive("long-pipeline-dial")
		return
	}
	defer cl.Close()
	cl.Write(stream)
	w.Eval(1)
	w.Count("long_pipelines", 1)
	w.Cover("long_pipeline_limit", fmt.Sprintf("MaxTCPQueries=%d sent=%d", limit, k))
	deadline := time.Now().Add(c13Watch)
	for int(s.handled.Load()) < eff && time.Now().Before(deadline) {
		time.Sleep(100 * time.Microsecond)
	}
	time.Sleep(2 * time.Millisecond)
	wit := map[string]any{"MaxTCPQueries": limit, "sent": k}
	got := int(s.handled.Load())
	if got < eff {
		w.Violation("C14/long-pipeline/not-all-handled", fmt.Sprintf("MaxTCPQueries=%d (effective %d), %d queries sent on one connection: the handler ran %d times", limit, eff, k, got), wit)
		return
	}
	w.Count("long_pipeline_messages_handled", got)
	raw := cl.Drain()
	n := 0
	for len(raw) >= 2 {
		l := int(binary.BigEndian.Uint16(raw))
		if 2+l > len(raw) || l < 12 {
			w.Violation("C14/long-pipeline/reply-framing", "replies on the connection are not framed correctly", wit)
			return
		}
		if id := binary.BigEndian.Uint16(raw[2:]); n < eff && id != uint16(0x1000+n) {
			w.Violation("C14/long-pipeline/reply-order", fmt.Sprintf("reply %d carries id %#x, want %#x", n, id, 0x1000+n), wit)
			return
		}
		n++
		raw = raw[2+l:]
	}
	if n < eff {
		w.Violation("C14/long-pipeline/replies-missing", fmt.Sprintf("MaxTCPQueries=%d, %d queries sent, %d handled, %d replies on the wire", limit, k, got, n), wit)
	}
	w.NontrivialStr("long-pipeline", fmt.Sprint(limit), fmt.Sprint(k))
}

// ---- routing (pure) ----

type muxRW struct{ msg *dns.Msg }

func (m *muxRW) LocalAddr() net.Addr         { return netsim.Addr("l") }
func (m *muxRW) RemoteAddr() net.Addr        { return netsim.Addr("r") }
func (m *muxRW) WriteMsg(r *dns.Msg) error   { m.msg = r; return nil }
func (m *muxRW) Write(b []byte) (int, error) { return len(b), nil }
func (m *muxRW) Close() error                { return nil }
func (m *muxRW) TsigStatus() error           { return nil }
func (m *muxRW) TsigTimersOnly(bool)         {}
func (m *muxRW) Hijack()                     {}

// c14Route is the reference: the set of acceptable handler ids (patterns) for a query, or nil for REFUSED.
func c14Route(pats []model.Name, q model.Name, qtype uint16) (allowed []int, refused bool) {
	best := -1
	var ancestors []int
	exact := -1
	for i, p := range pats {
		if len(p) <= len(q) && q.CommonSuffix(p) == len(p) {
			if best < 0 || len(p) > len(pats[best]) {
				best = i
			}
			if len(p) < len(q) {
				ancestors = append(ancestors, i)
			} else {
				exact = i
			}
		}
	}
	if qtype == dns.TypeDS {
		if len(ancestors) > 0 {
			return ancestors, false
		}
		if exact >= 0 {
			return []int{exact}, false
		}
		return nil, true
	}
	if best < 0 {
		return nil, true
	}
	return []int{best}, false
}

func c14Routing(w *core.W, j int) {
	g := model.NewGen(w.Rng(j))
	r := g.R
	var registered []string
	cleanDefaultMux := func() {
		for _, p := range registered {
			dns.HandleRemove(p)
		}
		registered = nil
	}
	defer cleanDefaultMux()
	for round := 0; round < 6; round++ {
		g.Plain = round%2 == 0
		// a tree of related names
		base := model.Name{g.Label(), g.Label()}
		if round%3 == 2 {
			base = model.Name{[]byte("a.b"), []byte("c")} // a label containing a dot octet
		}
		universe := []model.Name{{}, base, base[1:], append(model.Name{g.Label()}, base...)}
		universe = append(universe, append(model.Name{g.Label()}, universe[3]...), model.Name{[]byte("b"), []byte("c")}, g.FreshName(), model.Name{g.Label()})
		var pats []model.Name
		// a mux of its own, or (every third round) the package's default mux through dns.HandleFunc /
		// dns.HandleRemove, which is what a Server without a Handler routes through
		handleFunc, handleRemove, serveDNS := dns.HandleFunc, dns.HandleRemove, dns.DefaultServeMux.ServeDNS
		if round%3 != 1 {
			mux := dns.NewServeMux()
			handleFunc, handleRemove, serveDNS = mux.HandleFunc, mux.HandleRemove, mux.ServeDNS
		} else {
			w.Count("routing_rounds_default_mux", 1)
		}
		cleanDefaultMux() // what an earlier round left in the default mux
		hit := -1
		for i, n := range universe {
			if r.IntN(2) == 0 {
				continue
			}
			dup := false
			for _, o := range pats {
				if o.EqualFold(n) {
					dup = true
				}
			}
			if dup {
				continue
			}
			id := len(pats)
			pats = append(pats, n)
			pat := n.Pres()
			if r.IntN(3) == 0 { // registration is case-insensitive and accepts a relative spelling
				v, _ := flipCase(g, n)
				pat = v.Pres()
			}
			if len(n) > 0 && r.IntN(4) == 0 {
				pat = strings.TrimSuffix(pat, ".")
				if strings.HasSuffix(pat, "\\") { // would change the meaning; keep it qualified
					pat += "."
				}
			}
			handleFunc(pat, func(dns.ResponseWriter, *dns.Msg) { hit = id })
			if round%3 == 1 {
				registered = append(registered, pat)
			}
			_ = i
		}
		// three phases over the same mux: as registered; after HandleRemove of a random subset (the
		// root included); after registering some of the removed ones again and removing others
		allPats := pats
		active := make([]bool, len(allPats))
		for i := range active {
			active[i] = true
		}
		for phase := 0; phase < 3; phase++ {
			if phase > 0 {
				for i, n := range allPats {
					if r.IntN(2) == 0 {
						continue
					}
					i := i
					spelled := n.Pres()
					if r.IntN(3) == 0 {
						v, _ := flipCase(g, n)
						spelled = v.Pres()
					}
					if active[i] {
						handleRemove(spelled)
						active[i] = false
					} else {
						handleFunc(spelled, func(dns.ResponseWriter, *dns.Msg) { hit = i })
						if round%3 == 1 {
							registered = append(registered, spelled)
						}
						active[i] = true
					}
				}
				w.Count("routing_reconfigurations", 1)
			}
			pats = nil
			var patIDs []int
			for i, n := range allPats {
				if active[i] {
					pats = append(pats, n)
					patIDs = append(patIDs, i)
				}
			}
			for k := 0; k < 40/(1+phase); k++ {
				q := universe[r.IntN(len(universe))].Clone()
				switch r.IntN(4) {
				case 0:
					q = append(model.Name{g.Label()}, q...)
				case 1:
					q, _ = flipCase(g, q)
				case 2:
					q = append(model.Name{g.Label(), g.Label()}, q...)
				}
				if !q.Valid() {
					continue
				}
				qtype := []uint16{dns.TypeA, dns.TypeDS, dns.TypeNS, dns.TypeDS, uint16(g.Uint(16))}[r.IntN(5)]
				req := new(dns.Msg)
				req.Id = uint16(r.IntN(65536))
				req.Opcode = []int{0, 0, 0, 4, 2}[r.IntN(5)]
				req.RecursionDesired = r.IntN(2) == 0
				req.CheckingDisabled = r.IntN(2) == 0
				req.AuthenticatedData = r.IntN(2) == 0
				req.Question = []dns.Question{{Name: q.Pres(), Qtype: qtype, Qclass: 1}}
				if r.IntN(6) == 0 {
					req.Question = append(req.Question, dns.Question{Name: "second.example.", Qtype: 1, Qclass: 1})
				}
				hit = -1
				rw := &muxRW{}
				w.Eval(1)
				wit := map[string]any{"patterns": presAll(pats), "qname": q.Pres(), "qtype": qtype}
				sent := req.Copy() // the request as it was decoded: what the handler is to be given, what REFUSED echoes
				if w.Guard("ServeMux.ServeDNS", wit, func() { serveDNS(rw, req) }) {
					continue
				}
				if d := bridge.Diff(sent, req); d != "" {
					w.Violation("C14/routing/request-altered-by-mux", "the request handed on by the multiplexer is not the decoded request any more: it differs at "+d, wit)
					req = sent.Copy()
				}
				w.NontrivialStr(q.Pres(), fmt.Sprint(qtype), strings.Join(presAll(pats), "|"))
				allowed, refused := c14Route(pats, q, qtype)
				w.Count("routing_cases", 1)
				if qtype == dns.TypeDS {
					w.Count("routing_ds_cases", 1)
				}
				if refused {
					w.Count("routing_refused", 1)
					if hit >= 0 {
						w.Violation("C14/routing/handler-called-without-match", fmt.Sprintf("handler for %q ran although no registered pattern is a label-boundary suffix of %q (phase %d: patterns may have been removed)", allPats[hit].Pres(), q.Pres(), phase), wit)
						continue
					}
					m := rw.msg
					if m == nil {
						w.Violation("C14/routing/no-refused-reply", "nothing matched and no reply was written", wit)
						continue
					}
					bad := ""
					switch {
					case m.Rcode != dns.RcodeRefused:
						bad = fmt.Sprintf("rcode %d", m.Rcode)
					case m.Id != req.Id:
						bad = "id differs"
					case !m.Response:
						bad = "QR not set"
					case m.Opcode != req.Opcode:
						bad = "opcode not echoed"
					case req.Opcode == dns.OpcodeQuery && (m.RecursionDesired != req.RecursionDesired || m.CheckingDisabled != req.CheckingDisabled):
						bad = "RD/CD of a query not echoed"
					case len(m.Question) != 1 || m.Question[0] != sent.Question[0]:
						bad = "first question not echoed"
					case len(m.Answer)+len(m.Ns)+len(m.Extra) != 0:
						bad = "records in the reply"
					}
					if bad != "" {
						w.Violation("C14/routing/refused-reply/"+strings.ReplaceAll(bad, " ", "-"), "REFUSED reply: "+bad, wit)
					}
					continue
				}
				okHit := false
				for _, a := range allowed {
					if patIDs[a] == hit {
						okHit = true
					}
				}
				if !okHit {
					got := "REFUSED/none"
					if hit >= 0 {
						got = allPats[hit].Pres()
					}
					var al []string
					for _, a := range allowed {
						al = append(al, pats[a].Pres())
					}
					kind := "longest-suffix"
					if qtype == dns.TypeDS {
						kind = "ds-parent"
					}
					w.Violation("C14/routing/"+kind, fmt.Sprintf("query %q type %d went to %s, expected one of %q", q.Pres(), qtype, got, al), wit)
				}
			}
		}
	}
}

func presAll(ns []model.Name) []string {
	var out []string
	for _, n := range ns {
		out = append(out, n.Pres())
	}
	return out
}

// ---- concurrent mux: linearizability (porcupine) ----

type muxOp struct {
	Kind    int // 0 Handle, 1 HandleRemove, 2 ServeDNS
	Pattern int // index into the family's patterns (Handle/Remove) or query names (Serve)
	ID      int // handler id registered by Handle
}

// state: comma-joined "pattern=id" for the 3 patterns of a family, e.g. "1,-,7".
func muxStep(st, in, out any) (bool, any) {
	s := strings.Split(st.(string), ",")
	op := in.(muxOp)
	switch op.Kind {
	case 0:
		n := append([]string(nil), s...)
		n[op.Pattern] = fmt.Sprint(op.ID)
		return true, strings.Join(n, ",")
	case 1:
		n := append([]string(nil), s...)
		n[op.Pattern] = "-"
		return true, strings.Join(n, ",")
	}
	// query names: 0 = "f.", 1 = "a.f.", 2 = "b.a.f.", 3 = "x.b.a.f."; patterns 0..2 are the first three
	want := "refused"
	for p := min(op.Pattern, 2); p >= 0; p-- {
		if s[p] != "-" {
			want = s[p]
			break
		}
	}
	return out.(string) == want, st
}

func c14Linearizable(w *core.W, j int) {
	mux := dns.NewServeMux()
	fam := fmt.Sprintf("f%d", j)
	pats := []string{fam + ".", "a." + fam + ".", "B.A." + fam + "."}
	qs := []string{fam + ".", "A." + fam + ".", "b.a." + fam + ".", "x.b.a." + fam + "."}
	var clock atomic.Int64
	var mu sync.Mutex
	var hist []porcupine.Operation
	var nextID atomic.Int32
	var wg sync.WaitGroup
	nthreads := 4
	for t := 0; t < nthreads; t++ {
		wg.Add(1)
		go func(t int) {
			defer wg.Done()
			r := w.Rng(j, t)
			for i := 0; i < 8; i++ {
				op := muxOp{Kind: r.IntN(4), Pattern: r.IntN(3)}
				if op.Kind == 3 {
					op.Kind = 2
				}
				var out any = ""
				call := clock.Add(1)
				switch op.Kind {
				case 0:
					id := int(nextID.Add(1))
					op.ID = id
					mux.Handle(pats[op.Pattern], dns.HandlerFunc(func(rw dns.ResponseWriter, _ *dns.Msg) {
						rw.(*muxRW).msg = &dns.Msg{MsgHdr: dns.MsgHdr{Id: uint16(id)}}
					}))
				case 1:
					mux.HandleRemove(pats[op.Pattern])
				case 2:
					op.Pattern = r.IntN(4)
					rw := &muxRW{}
					req := new(dns.Msg)
					req.SetQuestion(qs[op.Pattern], dns.TypeA)
					mux.ServeDNS(rw, req)
					if rw.msg != nil && rw.msg.Rcode == dns.RcodeRefused && rw.msg.Response {
						out = "refused"
					} else if rw.msg != nil {
						out = fmt.Sprint(rw.msg.Id)
					}
				}
				ret := clock.Add(1)
				mu.Lock()
				hist = append(hist, porcupine.Operation{ClientId: t, Input: op, Call: call, Output: out, Return: ret})
				mu.Unlock()
				if r.IntN(3) == 0 {
					time.Sleep(time.Duration(r.IntN(20)) * time.Microsecond)
				}
			}
		}(t)
	}
	if !within(c13Watch, wg.Wait) {
		// an operation on the multiplexer that does not return is a request that is neither handled nor refused
		w.Violation("C14/mux-operations-do-not-return", fmt.Sprintf("4 goroutines x 8 Handle / HandleRemove / ServeDNS calls on one ServeMux did not finish within %v", c13Watch), nil)
		return
	}
	m := porcupine.Model{Init: func() any { return "-,-,-" }, Step: muxStep}
	res := porcupine.CheckOperationsTimeout(m, hist, 20*time.Second)
	w.Eval(1)
	w.Count("histories", 1)
	w.Count("history_ops", len(hist))
	var desc []string
	sort.Slice(hist, func(a, b int) bool { return hist[a].Call < hist[b].Call })
	for _, h := range hist {
		desc = append(desc, fmt.Sprintf("c%d[%d,%d] %v -> %v", h.ClientId, h.Call, h.Return, h.Input, h.Output))
	}
	w.NontrivialStr(desc...)
	switch res {
	case porcupine.Illegal:
		w.Violation("C14/mux-not-linearizable", "history of concurrent Handle/HandleRemove/ServeDNS is not linearizable against the map+longest-suffix model:\n"+strings.Join(desc, "\n"), nil)
	case porcupine.Unknown:
		w.Inconclusive("porcupine-timeout")
	}
	if w.WantSample() {
		w.Sample(map[string]any{"history": desc, "result": fmt.Sprint(res)})
	}
}

// c14ReadCompletesAsShutdownBegins: a datagram whose read completes at the moment Shutdown begins has
// been received: it is dealt with like any other (handler once and its reply, before Shutdown returns).
// c14MuxStorm: many lookups against a multiplexer whose table is being changed all the time - six
// goroutines route queries (hits and misses), two register and remove patterns. Every call returns, and
// every query is routed to a handler registered at some time for a suffix of its name, or refused.
func c14MuxStorm(w *core.W, j int) {
	mux := dns.NewServeMux()
	pats := []string{"a.storm.example.", "storm.example.", "b.a.storm.example.", "example."}
	mkh := func(p string) dns.Handler {
		return dns.HandlerFunc(func(rw dns.ResponseWriter, _ *dns.Msg) { rw.(*muxRW).msg = &dns.Msg{MsgHdr: dns.MsgHdr{Id: uint16(len(p))}} })
	}
	mux.Handle(pats[1], mkh(pats[1]))
	lookups, changes := 6000, 1500
	if w.Tier == "thorough" {
		lookups, changes = 40000, 10000
	}
	var wrong atomic.Int32
	var first atomic.Value
	var wg sync.WaitGroup
	for t := 0; t < 6; t++ {
		wg.Add(1)
		go func(t int) {
			defer wg.Done()
			r := w.Rng(j, t)
			qn := []string{"x.b.a.storm.example.", "a.storm.example.", "y.storm.example.", "other.test.", "storm.example."}
			for i := 0; i < lookups; i++ {
				name := qn[r.IntN(len(qn))]
				rw := &muxRW{}
				req := new(dns.Msg)
				req.SetQuestion(name, dns.TypeA)
				mux.ServeDNS(rw, req)
				if rw.msg == nil {
					wrong.Add(1)
					first.CompareAndSwap(nil, "no handler ran and nothing was written for "+name)
					continue
				}
				if rw.msg.Response && rw.msg.Rcode == dns.RcodeRefused {
					continue // nothing matched at that moment
				}
				// the handler that ran belongs to a pattern that is a suffix of the name
				ok := false
				for _, p := range pats {
					if int(rw.msg.Id) == len(p) && dns.IsSubDomain(p, name) {
						ok = true
					}
				}
				if !ok {
					wrong.Add(1)
					first.CompareAndSwap(nil, fmt.Sprintf("%s was routed to the handler of a pattern of %d octets", name, rw.msg.Id))
				}
			}
		}(t)
	}
	for t := 0; t < 2; t++ {
		wg.Add(1)
		go func(t int) {
			defer wg.Done()
			r := w.Rng(j, 10+t)
			for i := 0; i < changes; i++ {
				p := pats[r.IntN(len(pats))]
				if r.IntN(2) == 0 {
					mux.Handle(p, mkh(p))
				} else {
					mux.HandleRemove(p)
				}
			}
		}(t)
	}
	w.Eval(1)
	if !within(2*c13Watch, wg.Wait) {
		w.Violation("C14/mux-operations-do-not-return", fmt.Sprintf("6 goroutines routing queries and 2 changing the table of one ServeMux did not finish within %v", 2*c13Watch), nil)
		return
	}
	w.Count("mux_storm_lookups", 6*lookups)
	if n := wrong.Load(); n > 0 {
		w.Violation("C14/routing/under-concurrent-changes", fmt.Sprintf("%d of %d lookups made while the table was changing went wrong (%v)", n, 6*lookups, first.Load()), nil)
	}
	w.NontrivialStr("mux-storm", fmt.Sprint(j))
}

func c14ReadCompletesAsShutdownBegins(w *core.W, j int) {
	s := newC14Srv(w, "udp", uint64(w.Seed)+uint64(j))
	if s == nil {
		return
	}
	stopped := false
	defer func() {
		if !stopped {
			s.stop()
		} else {
			sched.Use(nil)
		}
	}()
	// some ordinary traffic first
	for k := 0; k < j%3; k++ {
		q := new(dns.Msg)
		q.SetQuestion(fmt.Sprintf("before%d.example.", k), dns.TypeA)
		b, _ := q.Pack()
		s.deliver(b)
	}
	q := new(dns.Msg)
	q.SetQuestion(fmt.Sprintf("last-%d.example.", j), dns.TypeA)
	q.Id = uint16(0x4000 + j)
	pkt, _ := q.Pack()
	h0 := s.handled.Load()
	addr := netsim.Addr("late-client")
	s.pc.SetHoldNextDelivery()
	s.pc.Inject(pkt, addr)
	deadline := time.Now().Add(c13Watch)
	for !s.pc.Holding() && time.Now().Before(deadline) {
		time.Sleep(time.Millisecond)
	}
	if !s.pc.Holding() {
		w.Inconclusive("c14-held-read-not-reached")
		return
	}
	done := make(chan error, 1)
	go func() { done <- s.srv.Shutdown() }()
	stopped = true
	w.Eval(1)
	select {
	case <-done:
	case <-time.After(c13Watch):
		w.Violation("C14/shutdown-hangs/read-completes-as-shutdown-begins", "Shutdown did not return", nil)
		return
	}
	select {
	case <-s.serveErr:
	case <-time.After(c13Watch):
	}
	w.Count("reads_completing_as_shutdown_begins", 1)
	handled := int(s.handled.Load() - h0)
	replies := s.pc.TakeSent(addr)
	wit := map[string]any{"packet": hx(pkt)}
	if handled != 1 || len(replies) != 1 {
		w.Violation("C14/packet-not-dealt-with/udp/read-completes-as-shutdown-begins", fmt.Sprintf("a query whose read completed while Shutdown was setting the deadline: handler calls=%d, invalid reports=%d, replies=%d (want the handler once and its reply)", handled, s.invalid.Load(), len(replies)), wit)
	}
}

// c14TransientErrors: the socket reports a transient failure that is not a timeout (what a real listener
// says when the process is out of descriptors or the peer aborted in the backlog, a datagram socket on
// ENOBUFS or an ICMP error) between two messages. The messages that arrive afterwards are messages the
// server receives like any other: handler once, reply delivered.
func c14TransientErrors(w *core.W, j int) {
	kind := []string{"udp", "tcp"}[j%2]
	s := newC14Srv(w, kind, uint64(w.Seed)+uint64(j))
	if s == nil {
		return
	}
	defer s.stop()
	fail := func(k int) bool {
		what := []string{"ECONNABORTED", "EMFILE", "ENOBUFS", "EPROTO"}[(j+k)%4]
		if kind == "udp" {
			n0 := s.pc.ReadErrors()
			s.pc.FailRead(netsim.TemporaryErr{What: what})
			for d := time.Now().Add(c13Watch); s.pc.ReadErrors() == n0; {
				if time.Now().After(d) {
					return false
				}
				time.Sleep(50 * time.Microsecond)
			}
		} else {
			n0 := s.ln.AcceptErrors()
			s.ln.FailAccept(netsim.TemporaryErr{What: what})
			for d := time.Now().Add(c13Watch); s.ln.AcceptErrors() == n0; {
				if time.Now().After(d) {
					return false
				}
				time.Sleep(50 * time.Microsecond)
			}
		}
		return true
	}
	rounds := 2 + j%4
	for k := 0; k < rounds; k++ {
		// the failure is reported while the server waits for the next message (k even) or two of them in a row (k odd)
		for f := 0; f <= k%2; f++ {
			if !fail(k + f) {
				select {
				case err := <-s.serveErr:
					s.serveErr <- err
					w.Violation("C14/packet-not-dealt-with/"+kind+"/after-transient-error", fmt.Sprintf("the serve call returned (%v) when the socket reported a transient, non-timeout failure; messages arriving afterwards are never read", err), map[string]any{"round": k})
				default:
					w.Inconclusive("c14-injected-error-not-consumed")
				}
				return
			}
			w.Count("transient_errors_injected", 1)
		}
		q := new(dns.Msg)
		q.SetQuestion(fmt.Sprintf("after-error-%d-%d.example.", j, k), dns.TypeA)
		q.Id = uint16(0x2000 + j*8 + k)
		pkt, _ := q.Pack()
		w.Eval(1)
		handled, invalid, replies, ok := s.deliver(pkt)
		wit := map[string]any{"packet": hx(pkt), "round": k, "transport": kind}
		if !ok {
			s.stuck++
			w.Violation("C14/packet-not-dealt-with/"+kind+"/after-transient-error", "a query delivered after the socket had reported a transient, non-timeout failure was never dealt with", wit)
			return
		}
		if handled != 1 || invalid != 0 || len(replies) != 1 {
			w.Violation("C14/not-exactly-one-outcome/"+kind+"/after-transient-error", fmt.Sprintf("query after a transient failure: handler calls=%d, invalid reports=%d, replies=%d (want the handler once and its reply)", handled, invalid, len(replies)), wit)
			return
		}
		if r := new(dns.Msg); r.Unpack(replies[0]) != nil || r.Id != q.Id || !r.Response {
			w.Violation("C14/reply-shape/"+kind+"/after-transient-error", "the reply after a transient failure is not the handler's reply to this query", wit)
		}
		w.Count("handled_after_transient_error", 1)
	}
	w.NontrivialStr("transient", kind, fmt.Sprint(j))
}

func init() {
	plan, run := sections(
		section{"admission", tiered(120, 4000), c14Admission},
		section{"shutdown-race", tiered(12, 200), c14ReadCompletesAsShutdownBegins},
		section{"long-pipelines", tiered(8, 160), c14LongPipelines},
		section{"transient-errors", tiered(16, 320), c14TransientErrors},
		section{"routing", tiered(300, 10000), c14Routing},
		section{"mux-linearizability", tiered(300, 10000), c14Linearizable},
		section{"mux-storm", tiered(6, 40), c14MuxStorm},
	)
	core.Register(&core.Monitor{
		ID: "C14", Level: "exploration", Plan: plan, Run: run, Race: true, Terminates: true, MaxParallel: 16, CaseTimeout: 75e9,
		Rule: "admission: real Server over simulated datagram and stream transports, one packet at a time with hook-signalled quiescence: all opcode x QR combinations, counts from {0,1,2,3,65535}^4, model-well-formed queries of every type, mutated/truncated hostile packets; stream frames delivered whole, with the length prefix split, octet by octet; 2..8 messages pipelined on one connection in arbitrary segments; a datagram whose read completes while Shutdown sets the deadline; transient non-timeout failures (net.Error, Temporary) reported by Accept / ReadFrom between messages, singly and twice in a row; " +
			"oracle = reference accept policy + exactly-one-of {handler once, reject reply, ignore, invalid callback(+FORMERR)} + reply shape; routing: random pattern sets over related names (escaped dots, case variants, relative spellings, root) x query names/types against a wire-label longest-suffix reference (DS: any registered strict ancestor); " +
			"concurrent Handle/HandleRemove/ServeDNS histories (4 threads x 8 ops) checked for linearizability with porcupine; race detector on; non-trivial = distinct packet/transport, routing case or history",
		Assumptions: []string{"for DS queries the statement does not say which of several registered ancestors is meant: any registered strict ancestor is accepted"},
		MinObserved: []string{"accepted_and_handled", "accepted_but_undecodable", "short_packets", "wellformed_queries", "routing_ds_cases", "routing_refused", "histories", "segmented_stream_deliveries", "pipelines", "routing_reconfigurations", "long_pipelines", "handled_after_transient_error"},
	})
}
