package mon

import (
	"bytes"
	"crypto"
	"crypto/ecdsa"
	"crypto/ed25519"
	crand "crypto/rand"
	"encoding/base32"
	"encoding/base64"
	"encoding/hex"
	"fmt"
	"strings"
	"time"

	"github.com/miekg/dns"

	"verifharness/core"
	"verifharness/model"
)

var b32hex = base32.HexEncoding.WithPadding(base32.NoPadding)

// ---- key tags and DS ----

func c17KeyTagDS(w *core.W, j int) {
	g := model.NewGen(w.Rng(j))
	r := g.R
	for k := 0; k < 60; k++ {
		flags := uint16(g.Uint(16))
		proto := uint8(g.Uint(8))
		alg := uint8(g.Uint(8))
		if alg == 1 {
			alg = 8 // RSA/MD5 has its own (obsolete) tag rule
		}
		var pub []byte
		switch r.IntN(6) {
		case 0:
			pub = g.Bytes(r.IntN(4))
		case 1: // sums that carry twice: many 0xFF octets
			pub = bytes.Repeat([]byte{0xFF}, 2+r.IntN(600))
			for i := 0; i < 3 && len(pub) > 0; i++ {
				pub[r.IntN(len(pub))] = byte(r.IntN(256))
			}
		case 2: // constructed: the folded sum lands in [0x10000, 0x1000F]
			pub = c17CarryKey(r.IntN(2) == 0, flags, proto, alg, g)
		case 3:
			// the largest RDATA the library's 4096-octet scratch buffers hold (4 + 4092 octets), and the 300
			// sizes below it: owner name and RDATA are both hashed, neither may crowd out the other
			pub = g.Bytes(4092 - []int{0, 0, 1, 2, r.IntN(16), r.IntN(300)}[r.IntN(6)])
			w.Count("keys_near_4096_octets", 1)
		default:
			pub = g.Bytes(1 + r.IntN(520))
		}
		key := &dns.DNSKEY{Hdr: dns.RR_Header{Name: g.Name().Pres(), Rrtype: dns.TypeDNSKEY, Class: 1, Ttl: 3600}, Flags: flags, Protocol: proto, Algorithm: alg,
			PublicKey: base64.StdEncoding.EncodeToString(pub)}
		if k%5 == 4 {
			// an owner with raw (unescaped) octets above 0x7F that happen to spell upper-case non-ASCII
			// letters in UTF-8: RFC 4034 s.6.2 folds A-Z only
			key.Hdr.Name = []string{"B\xc3\x9cCHER.example.", "\xe2\x84\xaa.Example.", "caf\xc3\x89.\xc3\x80b.ORG.", "\xce\xa9mega.example."}[(k/5)%4]
			w.Count("ds_raw_8bit_owners", 1)
		}
		owner := mustName(key.Hdr.Name)
		rd := model.KeyRdata(flags, proto, alg, pub)
		wit := map[string]any{"owner": key.Hdr.Name, "rdata": hx(rd)}
		w.Eval(1)
		w.Nontrivial(rd)
		var tag uint16
		if w.Guard("KeyTag", wit, func() { tag = key.KeyTag() }) {
			continue
		}
		want := model.KeyTag(rd)
		w.Count("keytags", 1)
		// does this key exercise the second-carry case?
		var ac uint32
		for i, b := range rd {
			if i&1 == 1 {
				ac += uint32(b)
			} else {
				ac += uint32(b) << 8
			}
		}
		if (ac&0xFFFF)+(ac>>16) >= 0x10000 {
			w.Count("keytags_with_second_carry", 1)
		}
		if tag != want {
			w.Violation("C17/keytag", fmt.Sprintf("KeyTag()=%d, RFC 4034 Appendix B gives %d (rdata %d octets)", tag, want, len(rd)), wit)
		}
		for _, dt := range []uint8{1, 2, 4, 0, 3, 6, 7, 255} {
			var ds *dns.DS
			if w.Guard("ToDS", wit, func() { ds = key.ToDS(dt) }) {
				continue
			}
			wantD := model.DSDigest(owner, rd, dt)
			w.Count("ds_digests", 1)
			if wantD == nil {
				if ds != nil {
					w.Violation(fmt.Sprintf("C17/ds-unsupported-digest-type/%d", dt), fmt.Sprintf("ToDS(%d) returned a DS for an unsupported digest type", dt), wit)
				}
				continue
			}
			if ds == nil {
				w.Violation(fmt.Sprintf("C17/ds-nil/%d", dt), fmt.Sprintf("ToDS(%d) returned nil", dt), wit)
				continue
			}
			got, _ := hex.DecodeString(ds.Digest)
			if !bytes.Equal(got, wantD) {
				w.Violation(fmt.Sprintf("C17/ds-digest/%d", dt), fmt.Sprintf("ToDS(%d) digest %s, RFC value %x", dt, ds.Digest, wantD), wit)
			}
			if ds.KeyTag != want || ds.Algorithm != alg || ds.DigestType != dt || !mustName(ds.Hdr.Name).EqualFold(owner) || ds.Hdr.Class != 1 || ds.Hdr.Rrtype != dns.TypeDS {
				w.Violation("C17/ds-fields", fmt.Sprintf("DS fields: tag %d alg %d type %d owner %s", ds.KeyTag, ds.Algorithm, ds.DigestType, ds.Hdr.Name), wit)
			}
			// an owner written without the closing dot is the same owner
			if on := key.Hdr.Name; len(on) > 1 && strings.HasSuffix(on, ".") && !strings.HasSuffix(on, "\\.") {
				k3 := dns.Copy(key).(*dns.DNSKEY)
				k3.Hdr.Name = on[:len(on)-1]
				if ds3 := k3.ToDS(dt); ds3 == nil || !strings.EqualFold(ds3.Digest, ds.Digest) {
					w.Violation("C17/ds-owner-without-closing-dot", fmt.Sprintf("ToDS(%d) for the owner %q: %v, for %q: %s", dt, k3.Hdr.Name, ds3, on, ds.Digest), wit)
				}
				w.Count("ds_owners_without_closing_dot", 1)
			}
			// independent of the letter case of the owner
			k2 := dns.Copy(key).(*dns.DNSKEY)
			fl, _ := flipCase(g, owner)
			k2.Hdr.Name = fl.Pres()
			if ds2 := k2.ToDS(dt); ds2 == nil || !strings.EqualFold(ds2.Digest, ds.Digest) {
				w.Violation("C17/ds-case-dependent", fmt.Sprintf("digest differs for owner %q vs %q", key.Hdr.Name, k2.Hdr.Name), wit)
			}
		}
		if w.WantSample() {
			w.Sample(map[string]any{"check": "keytag+ds", "rdata": hx(rd), "tag": want})
		}
	}
}

// c17CarryKey builds key octets whose 16-bit word sum S satisfies (S&0xFFFF)+(S>>16) >= 0x10000.
func c17CarryKey(short bool, flags uint16, proto, alg uint8, g *model.Gen) []byte {
	n := 64 + g.R.IntN(400)
	if short {
		n = 4 + g.R.IntN(8)
	}
	n &^= 1
	pub := g.Bytes(n)
	for tries := 0; tries < 200000; tries++ {
		rd := model.KeyRdata(flags, proto, alg, pub)
		var ac uint32
		for i, b := range rd {
			if i&1 == 1 {
				ac += uint32(b)
			} else {
				ac += uint32(b) << 8
			}
		}
		if (ac&0xFFFF)+(ac>>16) >= 0x10000 {
			return pub
		}
		// steer the low word towards 0xFFFF - (ac>>16) + small
		need := (0x10000 - (ac >> 16)) & 0xFFFF
		low := ac & 0xFFFF
		delta := (need - low) & 0xFFFF
		// add delta to the last word (mod 2^16, keeping octets in range)
		i := len(pub) - 2
		wv := uint32(pub[i])<<8 | uint32(pub[i+1])
		nv := wv + delta
		if nv > 0xFFFF {
			pub[g.R.IntN(len(pub))] = 0xFF
			pub[g.R.IntN(len(pub))] = 0xFF
			continue
		}
		pub[i], pub[i+1] = byte(nv>>8), byte(nv)
	}
	return pub
}

// ---- NSEC3 ----

func c17Hash(w *core.W, j int) {
	g := model.NewGen(w.Rng(j))
	r := g.R
	for k := 0; k < 25; k++ {
		g.Plain = k%2 == 0
		n := g.FreshName()
		salt := g.Bytes(g.Len(0, 255))
		var iter uint16
		switch r.IntN(6) {
		case 0:
			iter = 0
		case 1:
			iter = 1
		case 2:
			iter = uint16(r.IntN(150))
		case 3:
			if k < 2 {
				iter = uint16(1000 + r.IntN(64536)) // sampled high
			} else {
				iter = uint16(r.IntN(1000))
			}
		default:
			iter = uint16(r.IntN(20))
		}
		if k == 24 && j%4 == 0 {
			// the largest iteration counts the field holds (one such hash per four cases: each costs 65536 rounds)
			iter = []uint16{65535, 65534, 32768, 65535}[(j/4)%4]
			w.Count("hashes_at_the_largest_iteration_counts", 1)
		}
		want := b32hex.EncodeToString(model.NSEC3Hash(n, salt, iter))
		wit := map[string]any{"name": n.Pres(), "salt": hex.EncodeToString(salt), "iterations": iter}
		w.Eval(1)
		w.Count("hashes", 1)
		w.NontrivialStr(n.Pres(), hex.EncodeToString(salt), fmt.Sprint(iter))
		var got string
		if w.Guard("HashName", wit, func() { got = dns.HashName(n.Pres(), 1, iter, hex.EncodeToString(salt)) }) {
			continue
		}
		if !strings.EqualFold(got, want) {
			w.Violation("C17/nsec3-hash", fmt.Sprintf("HashName=%s, RFC 5155 s.5 gives %s", got, want), wit)
		}
		fl, ch := flipCase(g, n)
		if ch {
			if got2 := dns.HashName(fl.Pres(), 1, iter, strings.ToUpper(hex.EncodeToString(salt))); !strings.EqualFold(got2, want) {
				w.Violation("C17/nsec3-hash-case-dependent", fmt.Sprintf("hash of %q differs from hash of %q", fl.Pres(), n.Pres()), wit)
			}
		}
		if dns.HashName(n.Pres(), 2, iter, "") != "" {
			w.Violation("C17/nsec3-hash-unknown-algorithm", "a hash algorithm other than 1 produced a hash", wit)
		}
		// names written with raw 8-bit octets: only ASCII letters fold
		if k%5 == 0 {
			raw := "caf\xc3\x89." + n.Pres() // É as raw UTF-8
			if raw != "caf\xc3\x89.." {
				rn := append(model.Name{[]byte("caf\xc3\x89")}, n...)
				if rn.Valid() {
					wantRaw := b32hex.EncodeToString(model.NSEC3Hash(rn, salt, iter))
					if gotRaw := dns.HashName(strings.TrimSuffix(raw, ".")+".", 1, iter, hex.EncodeToString(salt)); n.Pres() != "." && !strings.EqualFold(gotRaw, wantRaw) {
						w.Violation("C17/nsec3-hash-non-ascii-folded", fmt.Sprintf("hash of a name with the raw octets C3 89 is %s, want %s (only US-ASCII letters are case folded)", gotRaw, wantRaw), wit)
					}
				}
			}
		}
	}
}

func c17Cover(w *core.W, j int) {
	g := model.NewGen(w.Rng(j))
	r := g.R
	g.Plain = j%2 == 0
	zone := model.Name{g.Label(), g.Label()}
	if !zone.Valid() {
		return
	}
	salt := g.Bytes(r.IntN(9))
	iter := uint16(r.IntN(6))
	hash := func(n model.Name) []byte { return model.NSEC3Hash(n, salt, iter) }
	inZone := func() model.Name {
		n := append(model.Name{g.Label()}, zone...)
		if r.IntN(3) == 0 {
			n = append(model.Name{g.Label()}, n...)
		}
		if r.IntN(8) == 0 {
			return zone.Clone()
		}
		return n
	}
	// a handful of in-zone names sorted by hash define the chain
	var names []model.Name
	for len(names) < 5 {
		n := inZone()
		if n.Valid() {
			names = append(names, n)
		}
	}
	// out-of-zone names: unrelated, sibling, look-alike (zone text as a suffix off a label boundary)
	look := zone.Clone()
	look[0] = append([]byte("not"), look[0]...)
	outs := []model.Name{g.FreshName(), append(model.Name{g.Label()}, zone[1:]...), look, append(model.Name{[]byte("www")}, look...), zone[1:].Clone()}
	for a := 0; a < len(names); a++ {
		for b := 0; b < len(names); b++ {
			ha, hb := hash(names[a]), hash(names[b])
			for _, lowerNext := range []bool{false, true} {
				next := b32hex.EncodeToString(hb)
				if lowerNext {
					if a != 0 || b > 1 {
						continue
					}
					next = strings.ToLower(next)
				}
				ownerLabel := b32hex.EncodeToString(ha)
				if r.IntN(3) == 0 {
					ownerLabel = strings.ToLower(ownerLabel)
				}
				rr := &dns.NSEC3{Hdr: dns.RR_Header{Name: ownerLabel + "." + zone.Pres(), Rrtype: dns.TypeNSEC3, Class: 1, Ttl: 300}, Hash: 1, Iterations: iter,
					SaltLength: uint8(len(salt)), Salt: hex.EncodeToString(salt), HashLength: 20, NextDomain: next}
				shape := "normal"
				switch c := bytes.Compare(ha, hb); {
				case c == 0:
					shape = "empty"
				case c > 0:
					shape = "wrapping"
				}
				tests := append(append([]model.Name{}, names...), inZone(), inZone())
				if !append(model.Name{make([]byte, 32)}, zone...).Valid() {
					continue // the NSEC3 owner (32-octet hash label + zone) would exceed 255 octets
				}
				for _, x := range tests {
					if !x.Valid() {
						continue // not a domain name (over 255 octets): outside the property
					}
					hx := hash(x)
					wantMatch := bytes.Equal(hx, ha)
					var wantCover bool
					switch shape {
					case "empty":
						wantCover = !bytes.Equal(hx, ha)
					case "normal":
						wantCover = bytes.Compare(hx, ha) > 0 && bytes.Compare(hx, hb) < 0
					case "wrapping":
						wantCover = bytes.Compare(hx, ha) > 0 || bytes.Compare(hx, hb) < 0
					}
					pos := "inside-or-outside"
					switch {
					case bytes.Equal(hx, ha):
						pos = "equals-owner"
					case bytes.Equal(hx, hb):
						pos = "equals-next"
					}
					xs := x.Pres()
					if r.IntN(3) == 0 {
						fl, _ := flipCase(g, x)
						xs = fl.Pres()
					}
					wit := map[string]any{"record": rr.String(), "name": xs, "shape": shape, "position": pos}
					w.Eval(1)
					w.Count("cover_checks", 1)
					w.Cover("interval_shape", shape)
					w.Cover("hash_position", pos)
					cls := ""
					if lowerNext {
						cls = "/lower-case-next-hash"
					}
					w.Guard("NSEC3.Match/Cover", wit, func() {
						if got := rr.Match(xs); got != wantMatch {
							w.Violation("C17/nsec3-match/"+pos+cls, fmt.Sprintf("Match(%q)=%v, want %v", xs, got, wantMatch), wit)
						}
						if got := rr.Cover(xs); got != wantCover {
							w.Violation("C17/nsec3-cover/"+shape+"/"+pos+cls, fmt.Sprintf("Cover(%q)=%v, want %v (owner hash %x, next %x, name hash %x)", xs, got, wantCover, ha[:4], hb[:4], hx[:4]), wit)
						}
					})
				}
			}
		}
	}
	// names outside the record's zone are neither matched nor covered, whatever their hash
	for _, x := range outs {
		if !x.Valid() || x.CommonSuffix(zone) == len(zone) {
			continue
		}
		hx := hash(x)
		for _, rr := range []*dns.NSEC3{
			{Hdr: dns.RR_Header{Name: b32hex.EncodeToString(hx) + "." + zone.Pres(), Rrtype: dns.TypeNSEC3, Class: 1}, Hash: 1, Iterations: iter, SaltLength: uint8(len(salt)), Salt: hex.EncodeToString(salt), HashLength: 20, NextDomain: b32hex.EncodeToString(hash(names[0]))},
			{Hdr: dns.RR_Header{Name: b32hex.EncodeToString(hash(names[1])) + "." + zone.Pres(), Rrtype: dns.TypeNSEC3, Class: 1}, Hash: 1, Iterations: iter, SaltLength: uint8(len(salt)), Salt: hex.EncodeToString(salt), HashLength: 20, NextDomain: b32hex.EncodeToString(hash(names[1]))},
		} {
			wit := map[string]any{"record": rr.String(), "name": x.Pres(), "zone": zone.Pres()}
			w.Eval(1)
			w.Count("out_of_zone_checks", 1)
			if rr.Match(x.Pres()) {
				w.Violation("C17/nsec3-match/out-of-zone", fmt.Sprintf("Match(%q) is true although the name is outside the record's zone %q", x.Pres(), zone.Pres()), wit)
			}
			if rr.Cover(x.Pres()) {
				w.Violation("C17/nsec3-cover/out-of-zone", fmt.Sprintf("Cover(%q) is true although the name is outside the record's zone %q", x.Pres(), zone.Pres()), wit)
			}
		}
	}
	w.NontrivialStr("cover", fmt.Sprint(j))
}

// ---- key export / import ----

// key sizes incl. the largest RSA modulus Generate accepts (4096 bits = 512 octets) and one that is
// not a multiple of 64 bits
var c17KeyBits = map[uint8][]int{
	dns.RSASHA1: {1024, 3072, 1026}, dns.RSASHA1NSEC3SHA1: {2048, 1024}, dns.RSASHA256: {1024, 2048, 4096, 1032, 1031}, dns.RSASHA512: {1024, 4096, 2044},
	dns.ECDSAP256SHA256: {256}, dns.ECDSAP384SHA384: {384}, dns.ED25519: {256},
}

// c17GeneratedMany: the public key a generated DNSKEY carries is the private key's public key in the
// RFC 6605 / RFC 8080 layout - also for the one key in 256 (each coordinate) whose X or Y has a leading
// zero octet. Structural comparison, no signing, so that hundreds of keys per case are affordable.
func c17GeneratedMany(w *core.W, j int) {
	short := 0
	for k := 0; k < 160; k++ {
		alg := []uint8{dns.ECDSAP256SHA256, dns.ECDSAP384SHA384, dns.ECDSAP256SHA256, dns.ED25519}[k%4]
		key := &dns.DNSKEY{Hdr: dns.RR_Header{Name: "many.example.", Rrtype: dns.TypeDNSKEY, Class: 1, Ttl: 60}, Flags: 256, Protocol: 3, Algorithm: alg}
		priv, err := key.Generate(algBits[alg][0])
		if err != nil {
			w.Violation("C17/key-generation-fails/"+algName(alg), fmt.Sprintf("Generate: %v", err), nil)
			return
		}
		w.Eval(1)
		pub, derr := base64.StdEncoding.DecodeString(key.PublicKey)
		var want []byte
		switch p := priv.(type) {
		case *ecdsa.PrivateKey:
			n := (p.Curve.Params().BitSize + 7) / 8
			want = make([]byte, 2*n)
			p.X.FillBytes(want[:n])
			p.Y.FillBytes(want[n:])
			if want[0] == 0 || want[n] == 0 {
				short++
			}
		case ed25519.PrivateKey:
			want = []byte(p.Public().(ed25519.PublicKey))
		default:
			continue
		}
		if derr != nil || !bytes.Equal(pub, want) {
			w.Violation("C17/generated-public-key-wrong/"+algName(alg), fmt.Sprintf("the DNSKEY produced by Generate carries %x, the private key's public key is %x", pub, want), map[string]any{"alg": algName(alg)})
			return
		}
	}
	w.Count("generated_keys_compared", 160)
	w.Count("generated_keys_with_short_coordinate", short)
	w.NontrivialStr("many", fmt.Sprint(j))
}

func c17Keys(w *core.W, j int) {
	alg := allAlgs[j%len(allAlgs)]
	if alg == dns.RSASHA1 && (j/len(allAlgs))%2 == 1 {
		alg = dns.RSASHA1NSEC3SHA1 // the same RSA/SHA-1 under its NSEC3-aware number (RFC 5155 s.2)
	}
	bl := c17KeyBits[alg]
	bits := bl[(j/len(allAlgs))%len(bl)]
	k, err := freshKey(alg, bits, "keys.example.", 256+uint16(j%2))
	if (alg == dns.ECDSAP256SHA256 || alg == dns.ECDSAP384SHA384) && (j/len(allAlgs))%2 == 1 {
		k, err = shortScalarKey(alg, "keys.example.", 256+uint16(j%2), uint64(w.Seed)*131+uint64(j))
		w.Count("short_scalar_ecdsa_keys", 1)
	}
	if err != nil {
		w.Violation("C17/key-generation-fails/"+algName(alg), fmt.Sprintf("Generate(%d) for a supported algorithm and size failed: %v", bits, err), map[string]any{"alg": algName(alg), "bits": bits})
		return
	}
	an := algName(alg)
	w.Eval(1)
	w.Count("keys", 1)
	w.Cover("key_alg", fmt.Sprintf("%s/%d", an, bits))
	wit := map[string]any{"alg": an, "bits": bits, "key": k.Key.String()}
	text := k.Key.PrivateKeyString(k.Priv)
	var p2 crypto.PrivateKey
	if w.Guard("NewPrivateKey", wit, func() { p2, err = k.Key.NewPrivateKey(text) }) {
		return
	}
	if err != nil {
		w.Violation("C17/private-key-reimport/"+an, fmt.Sprintf("NewPrivateKey(PrivateKeyString(k)) failed: %v", err), wit)
		return
	}
	p3, err := k.Key.ReadPrivateKey(strings.NewReader(text+"\n"), "K.private")
	if err != nil {
		w.Violation("C17/private-key-reimport/"+an, fmt.Sprintf("ReadPrivateKey failed: %v", err), wit)
		return
	}
	signers := map[string]crypto.Signer{"original": k.Priv}
	for name, p := range map[string]crypto.PrivateKey{"NewPrivateKey": p2, "ReadPrivateKey": p3} {
		s, ok := p.(crypto.Signer)
		if !ok {
			w.Violation("C17/private-key-reimport/"+an, "re-read key is not a crypto.Signer", wit)
			return
		}
		signers[name] = s
	}
	// every signer's RRSIG must verify under the original DNSKEY (library and independent verifier)
	g := model.NewGen(w.Rng(j))
	zone := mustName("keys.example.")
	rec := g.Rec(model.Layouts[16])
	rec.Owner, rec.Class, rec.TTL = append(model.Name{[]byte("txt")}, zone...), 1, 60
	set := c10Set{recs: []*model.Rec{rec}}
	pub, _ := base64.StdEncoding.DecodeString(k.Key.PublicKey)
	if model.ParsePublicKey(alg, pub) == nil {
		w.Violation("C17/generated-public-key-malformed/"+an, "the generated DNSKEY public key does not decode per RFC 3110/6605/8080", wit)
		return
	}
	for name, s := range signers {
		sig := &dns.RRSIG{Algorithm: alg, KeyTag: k.Key.KeyTag(), SignerName: "keys.example.", Inception: 1_700_000_000, Expiration: 1_800_000_000}
		if err := sig.Sign(s, set.build()); err != nil {
			w.Violation("C17/reimported-key-cannot-sign/"+an, fmt.Sprintf("%s: %v", name, err), wit)
			continue
		}
		if ok, why := c10ModelAccepts(sig, k.Key, set); !ok {
			w.Violation("C17/reimported-key-signature-invalid/"+an, fmt.Sprintf("signature made with the %s key does not verify independently under the original DNSKEY: %s", name, why), wit)
		}
		if err := sig.Verify(k.Key, set.build()); err != nil {
			w.Violation("C17/reimported-key-signature-rejected/"+an, fmt.Sprintf("%s: Verify: %v", name, err), wit)
		}
		// and a raw signature over fixed data made by the re-read key verifies with the public key
		raw, err := model.SignData(alg, s, []byte("verif"), crand.Reader)
		if err == nil && !model.VerifySig(alg, pub, []byte("verif"), raw) {
			w.Violation("C17/reimported-key-differs/"+an, fmt.Sprintf("a signature by the %s key does not verify under the original public key", name), wit)
		}
		w.Count("key_roundtrip_signatures", 1)
	}
	w.NontrivialStr(an, k.Key.PublicKey)
	if w.WantSample() {
		w.Sample(map[string]any{"check": "key export/import", "alg": an, "bits": bits, "private_key_text_lines": strings.Count(text, "\n")})
	}
}

// ---- validity period ----

func c17Validity(w *core.W, j int) {
	r := w.Rng(j)
	const p32 = int64(1) << 32
	const y68 = int64(1) << 31
	for k := 0; k < 400; k++ {
		// true (unbounded) times: t, inception I <= expiration E, all within 68 years of each other
		var t int64
		switch r.IntN(7) {
		case 6:
			t = int64(r.IntN(3)) // the epoch itself and its neighbours
		case 0:
			t = 1_700_000_000 + r.Int64N(400_000_000)
		case 1:
			t = p32 - 5000 + r.Int64N(10000) // around the 2106 wrap
		case 2:
			t = p32 + r.Int64N(p32) // beyond 2106
		case 3:
			t = r.Int64N(3 * p32)
		case 4:
			t = y68 - 3000 + r.Int64N(6000)
		default:
			t = 1 + r.Int64N(p32)
		}
		span := []int64{1, 10, 3600, 86400 * 30, y68/2 - 1, y68 - 2}[r.IntN(6)]
		I := t - r.Int64N(span+1)
		E := t + r.Int64N(span+1)
		// boundary placements
		switch r.IntN(8) {
		case 0:
			I = t
		case 1:
			E = t
		case 2:
			I = t + 1 // not yet valid
		case 3:
			E = t - 1 // expired
		case 4:
			I, E = t+1+r.Int64N(span), t+1+span+r.Int64N(span) // whole window in the future
		case 5:
			I, E = t-1-span-r.Int64N(span), t-1-r.Int64N(span) // whole window in the past
		}
		if I > E {
			I, E = E, I
		}
		if I < 0 || t-I >= y68 || E-t >= y68 || I-t >= y68 || t-E >= y68 || E-I >= y68 {
			continue
		}
		want := I <= t && t <= E
		rr := &dns.RRSIG{Inception: uint32(I % p32), Expiration: uint32(E % p32)}
		got := rr.ValidityPeriod(time.Unix(t, 0))
		w.Eval(1)
		w.Count("validity_checks", 1)
		cls := "plain"
		if t >= p32 || E >= p32 || I >= p32 {
			cls = "beyond-2^32"
		}
		w.Cover("validity_class", cls)
		if got != want {
			pos := "inside"
			switch {
			case t == I || t == E:
				pos = "boundary"
			case t < I:
				pos = "before"
			case t > E:
				pos = "after"
			}
			w.Violation("C17/validity-period/"+cls+"/"+pos, fmt.Sprintf("ValidityPeriod(t=%d)=%v with inception %d (field %d) and expiration %d (field %d), want %v", t, got, I, uint32(I%p32), E, uint32(E%p32), want),
				map[string]any{"t": t, "inception": I, "expiration": E})
		}
	}
	// the zero time stands for "now": windows placed around the clock, the verdict taken only when the
	// clock readings before and after the call call for the same answer
	for k := 0; k < 40; k++ {
		t0 := time.Now().Unix()
		d := []int64{0, -1, 1, -30, 30, -86400, 86400}[k%7]
		span := []int64{0, 1, 3600}[(k/7)%3]
		I, E := t0+d-span, t0+d+span
		if I < 0 {
			continue
		}
		rr := &dns.RRSIG{Inception: uint32(I % p32), Expiration: uint32(E % p32)}
		got := rr.ValidityPeriod(time.Time{})
		t1 := time.Now().Unix()
		w0, w1 := I <= t0 && t0 <= E, I <= t1 && t1 <= E
		if w0 != w1 {
			w.Count("validity_now_undecided", 1)
			continue
		}
		w.Eval(1)
		w.Count("validity_now_checks", 1)
		if got != w0 {
			w.Violation("C17/validity-period/zero-time-is-now", fmt.Sprintf("ValidityPeriod(zero time)=%v with inception now%+d and expiration now%+d (clock %d..%d), want %v", got, I-t0, E-t0, t0, t1, w0),
				map[string]any{"inception": I, "expiration": E, "clock_before": t0, "clock_after": t1})
		}
	}
	w.NontrivialStr("validity", fmt.Sprint(j))
}

func init() {
	plan, run := sections(
		section{"keytag-ds", tiered(200, 8000), c17KeyTagDS},
		section{"nsec3-hash", tiered(200, 6000), c17Hash},
		section{"nsec3-cover", tiered(150, 5000), c17Cover},
		section{"keys", tiered(28, 700), c17Keys},
		section{"same-tag-keys", tiered(10, 150), func(w *core.W, j int) { sameTagKeys(w, j, "C17") }}, // generated keys that share owner, algorithm and tag: each verifies only its own signatures
		section{"generated-many", tiered(20, 300), c17GeneratedMany},
		section{"validity", tiered(100, 4000), c17Validity},
		concurrentSection("C17"),
	)
	core.Register(&core.Monitor{
		ID: "C17", Level: "exploration", Plan: plan, Run: run, CaseTimeout: 300e9,
		Rule: "key tags and DS: DNSKEY RDATA of any flags/protocol/algorithm (not 1) and key length 0..600 incl. constructed double-carry sums, digest types {1,2,4} and unsupported {0,3,6,7,255}, owner case variants; NSEC3: names x salts 0..255 octets x iterations (boundary-first, <=2 above 1000 per case), case variants, raw 8-bit names; " +
			"Match/Cover over all pairs of 5 in-zone hashes (normal, wrapping, empty intervals; positions below/equal-owner/inside/equal-next/above), lower-case hashes, out-of-zone names incl. look-alikes; key export/import for every algorithm/size (RSA 1024..4096 incl. the 512-octet modulus limit and a size that is no multiple of 64) with library and independent verification; " +
			"ValidityPeriod over (inception, expiration, t) triples within 68 years of each other incl. boundaries, the epoch itself and times beyond 2^32; oracle = closed forms from RFC 4034 App. B / s.5.1.4, RFC 5155 s.5, RFC 1982; the same operations called from 8 goroutines at once give the results they give alone; non-trivial = distinct input",
		Assumptions: []string{"digest type 5 (the library's non-standard SHA-512 extension) is not exercised", "RSA/MD5 (algorithm 1) excluded as in the statement"},
		MinObserved: []string{"keytags", "keytags_with_second_carry", "ds_digests", "hashes", "cover_checks", "out_of_zone_checks", "key_roundtrip_signatures", "validity_checks"},
	})
}
