package mon

import (
	"bytes"
	"fmt"
	"net"
	"strings"

	"github.com/miekg/dns"

	"verifharness/core"
	"verifharness/model"
)

// commonTypes: the types of the exactness clause.
var commonTypes = []uint16{1, 28, 2, 5, 6, 12, 15, 33, 16, 39, 14, 17, 18, 36, 35, 13}

func commonLayouts() []*model.Layout {
	var ls []*model.Layout
	for _, t := range commonTypes {
		ls = append(ls, model.Layouts[t])
	}
	return ls
}

// genCommonMsg draws an escape-free message of the common types from a pool of names.
func genCommonMsg(g *model.Gen, nrec int, withOpt bool) *model.Msg {
	g.Plain = true
	ls := commonLayouts()
	m := &model.Msg{ID: uint16(g.Uint(16)), Bits: 0x8000 | uint16(g.Uint(16))&0x0580}
	g.MakePool(2 + g.R.IntN(4))
	nq := []int{1, 1, 1, 1, 2, 0}[g.R.IntN(6)]
	for i := 0; i < nq; i++ {
		m.Q = append(m.Q, model.Question{Name: g.Name(), Type: commonTypes[g.R.IntN(len(commonTypes))], Class: 1})
	}
	secs := []*[]*model.Rec{&m.An, &m.Ns, &m.Ar}
	for i := 0; i < nrec; i++ {
		r := g.Rec(ls[g.R.IntN(len(ls))])
		s := secs[g.R.IntN(3)]
		*s = append(*s, r)
	}
	if withOpt {
		opt := &model.Rec{Owner: model.Name{}, Type: 41, Class: uint16(512 + g.R.IntN(4000)), TTL: uint32(g.R.IntN(2)) << 15, L: model.Layouts[41]}
		opt.Vals = []any{g.Opts()}
		for c01Class(opt, nil) != "" {
			opt.Vals = []any{g.Opts()}
		}
		pos := g.R.IntN(len(m.Ar) + 1)
		m.Ar = append(m.Ar[:pos], append([]*model.Rec{opt}, m.Ar[pos:]...)...)
	}
	return m
}

func isBufErr(err error) bool {
	if err == nil {
		return false
	}
	s := err.Error()
	return err == dns.ErrBuf || strings.Contains(s, "overflow") || strings.Contains(s, "buffer size too small")
}

func c08CheckMsg(w *core.W, m *model.Msg, kind string, exact bool) {
	for _, compress := range []bool{false, true} {
		built, err := buildMsgAny(m)
		if err != nil {
			w.Inconclusive("bridge-build-failed:" + err.Error())
			return
		}
		built.Compress = compress
		w.Eval(1)
		wit := map[string]any{"model_wire": hx(m.Wire()), "compress": compress, "kind": kind}
		var l int
		var packed []byte
		if compress && len(m.Wire())%3 == 0 {
			// (every third message) right after a compressed Pack of the same message that failed at its
			// last record: nothing that call registered may take part in this one
			bad, _ := buildMsgAny(m)
			bad.Compress = true
			bad.Extra = append(bad.Extra, &dns.A{Hdr: dns.RR_Header{Name: "no-closing-dot.invalid", Rrtype: 1, Class: 1}, A: []byte{192, 0, 2, 1}})
			w.Guard("Msg.Pack(failing)", wit, func() {
				if _, e := bad.Pack(); e != nil {
					w.Count("failed_packs_before_measuring", 1)
				}
			})
		}
		if w.Guard("Msg.Len", wit, func() { l = built.Len() }) {
			return
		}
		if w.Guard("Msg.Pack", wit, func() { packed, err = built.Pack() }) {
			return
		}
		ck := fmt.Sprintf("compress=%v", compress)
		if err != nil {
			if isBufErr(err) && l <= 65535 {
				w.Violation("C08/pack-no-room/"+kind+"/"+ck, fmt.Sprintf("Pack failed for lack of room on a valid message (Len=%d): %v", l, err), wit)
			} else {
				w.Count("unpackable", 1)
			}
			continue
		}
		w.Count("messages", 1)
		w.Nontrivial(packed)
		if l < len(packed) {
			w.Violation("C08/len-underestimates/"+kind+"/"+ck, fmt.Sprintf("Len()=%d < len(Pack())=%d", l, len(packed)), wit)
		}
		if exact {
			w.Count("exactness_checked", 1)
			if l != len(packed) {
				w.Violation("C08/len-not-exact/"+kind+"/"+ck, fmt.Sprintf("escape-free common-type message: Len()=%d, len(Pack())=%d", l, len(packed)), wit)
			}
		} else if l > len(packed) {
			w.Count("overestimates", 1)
		}
		// PackBuffer: a buffer larger than the uncompressed length must be used in place
		bu, _ := buildMsgAny(m)
		bu.Compress = false
		ul := bu.Len()
		for _, extra := range []int{-ul, -1, 0, 1, 2, 700} {
			if ul+extra < 0 {
				continue
			}
			b2, _ := buildMsgAny(m)
			b2.Compress = compress
			buf := make([]byte, ul+extra)
			for i := range buf {
				buf[i] = 0xEE
			}
			var out []byte
			if w.Guard("Msg.PackBuffer", wit, func() { out, err = b2.PackBuffer(buf) }) {
				return
			}
			if err != nil {
				if isBufErr(err) {
					w.Violation("C08/packbuffer-no-room/"+kind+"/"+ck, fmt.Sprintf("PackBuffer with %d octets (uncompressed Len %d) failed: %v", len(buf), ul, err), wit)
				}
				continue
			}
			w.Count("packbuffer_calls", 1)
			if extra <= 0 {
				// a buffer that is not larger than the uncompressed length may be replaced, never refused
				if string(out) != string(packed) {
					w.Violation("C08/packbuffer-differs/"+kind+"/"+ck, fmt.Sprintf("PackBuffer with a %d-octet buffer (uncompressed Len %d) differs from Pack output", len(buf), ul), wit)
				}
				continue
			}
			if len(out) == 0 || &out[0] != &buf[0] {
				w.Violation("C08/packbuffer-not-in-place/"+kind+"/"+ck, fmt.Sprintf("PackBuffer was given %d octets (> uncompressed Len %d) but returned a different slice", len(buf), ul), wit)
			} else if string(out) != string(packed) {
				w.Violation("C08/packbuffer-differs/"+kind+"/"+ck, "PackBuffer output differs from Pack output", wit)
			}
		}
		if w.WantSample() {
			w.Sample(map[string]any{"kind": kind, "compress": compress, "Len": l, "packed_len": len(packed), "records": len(m.An) + len(m.Ns) + len(m.Ar)})
		}
	}
}

func c08CheckRR(w *core.W, r *model.Rec, exact bool) {
	built, err := buildAny(r)
	if err != nil {
		return
	}
	w.Eval(1)
	wit := map[string]any{"type": r.L.Name, "wire": hx(r.Wire())}
	var l int
	var packed []byte
	if w.Guard("Len(rr)", wit, func() { l = dns.Len(built) }) {
		return
	}
	if w.Guard("PackRR", wit, func() { packed, err = packRR(built) }) {
		return
	}
	if err != nil {
		return
	}
	w.Count("records", 1)
	w.Cover("type", r.L.Name)
	if l < len(packed) {
		w.Violation("C08/rr-len-underestimates/"+r.L.Name, fmt.Sprintf("Len(rr)=%d < packed %d for %s", l, len(packed), cutS(built.String())), wit)
	}
	// the same record with its IPv4 addresses held in 16-octet form (what net.ParseIP and net.IPv4
	// return): a valid value that packs to the same octets
	if nc, _ := buildAny(r); nc != nil && c08SixteenOctetIPv4(nc) {
		var l2 int
		var p2 []byte
		var e2 error
		if !w.Guard("Len/PackRR(16-octet IPv4)", wit, func() { l2 = dns.Len(nc); p2, e2 = packRR(nc) }) {
			w.Count("records_with_16_octet_ipv4", 1)
			if e2 != nil {
				if isBufErr(e2) {
					w.Violation("C08/rr-pack-no-room/16-octet-ipv4/"+r.L.Name, fmt.Sprintf("%v", e2), wit)
				}
			} else {
				if l2 < len(p2) {
					w.Violation("C08/rr-len-underestimates/16-octet-ipv4/"+r.L.Name, fmt.Sprintf("Len(rr)=%d < packed %d with IPv4 addresses in 16-octet form", l2, len(p2)), wit)
				}
				if !bytes.Equal(p2, packed) {
					w.Violation("C08/rr-pack-differs/16-octet-ipv4/"+r.L.Name, fmt.Sprintf("packed %d octets, %d with the 4-octet form", len(p2), len(packed)), wit)
				}
			}
		}
	}
	if exact && l != len(packed) {
		w.Violation("C08/rr-len-not-exact/"+r.L.Name, fmt.Sprintf("escape-free %s: Len(rr)=%d, packed %d", r.L.Name, l, len(packed)), wit)
	}
}

// c08SixteenOctetIPv4 rewrites every IPv4 address of rr that is held in 4 octets into its 16-octet
// form; it reports whether there was one.
func c08SixteenOctetIPv4(rr dns.RR) bool {
	ch := false
	conv := func(ip *net.IP) {
		if len(*ip) == 4 {
			*ip = ip.To16()
			ch = true
		}
	}
	switch x := rr.(type) {
	case *dns.A:
		conv(&x.A)
	case *dns.L32:
		conv(&x.Locator32)
	case *dns.SVCB:
		for _, kv := range x.Value {
			if h, ok := kv.(*dns.SVCBIPv4Hint); ok {
				for i := range h.Hint {
					conv(&h.Hint[i])
				}
			}
		}
	case *dns.HTTPS:
		for _, kv := range x.Value {
			if h, ok := kv.(*dns.SVCBIPv4Hint); ok {
				for i := range h.Hint {
					conv(&h.Hint[i])
				}
			}
		}
	case *dns.IPSECKEY:
		if x.GatewayType == 1 {
			conv(&x.GatewayAddr)
		}
	case *dns.AMTRELAY:
		if x.GatewayType&0x7f == 1 {
			conv(&x.GatewayAddr)
		}
	case *dns.OPT:
		for _, o := range x.Option {
			if sn, ok := o.(*dns.EDNS0_SUBNET); ok && sn.Family == 1 {
				conv(&sn.Address)
			}
		}
	}
	return ch
}

func c08General(w *core.W, j int) {
	g := model.NewGen(w.Rng(j))
	g.NoHuge = true
	for k := 0; k < 4; k++ {
		g.Plain = false
		m := genPoolMsg(g, g.Len(0, 16))
		if g.R.IntN(2) == 0 {
			opt := g.Rec(model.Layouts[41])
			m.Ar = append(m.Ar, opt)
		}
		c08CheckMsg(w, m, "general", false)
	}
	// question names written without the closing dot: if the packer takes them (the pinned one refuses
	// them with ErrFqdn), Len has to count what it writes
	for nq := 1; nq <= 2; nq++ {
		q := new(dns.Msg)
		for i := 0; i < nq; i++ {
			q.Question = append(q.Question, dns.Question{Name: fmt.Sprintf("q%d.no-closing-dot.example", i), Qtype: dns.TypeA, Qclass: 1})
		}
		for _, compress := range []bool{false, true} {
			q.Compress = compress
			var b []byte
			var e error
			wit := map[string]any{"questions": nq, "compress": compress}
			if w.Guard("Msg.Pack(relative question name)", wit, func() { b, e = q.Pack() }) {
				continue
			}
			w.Eval(1)
			w.Count("relative_question_messages", 1)
			if e != nil {
				if isBufErr(e) {
					w.Violation("C08/pack-no-room/relative-question-name", fmt.Sprintf("%d question(s) named without the closing dot: Pack fails for lack of room: %v", nq, e), wit)
				}
				continue
			}
			if l := q.Len(); l < len(b) {
				w.Violation("C08/len-underestimates/relative-question-name", fmt.Sprintf("%d question(s) named without the closing dot: Len()=%d < len(Pack())=%d", nq, l, len(b)), wit)
			}
		}
	}
	// a message that is packed with its TSIG record in place (relayed or re-packed as received): the key
	// name shares a suffix with the other names, the TSIG is the last additional record
	{
		g.Plain = true
		m := genPoolMsg(g, g.Len(1, 8))
		ts := g.Rec(model.Layouts[250])
		key := g.Name()
		if len(g.Pool) > 0 {
			key = append(model.Name{[]byte("xfr-key")}, g.Pool[0]...)
		}
		if key.Valid() {
			ts.Owner, ts.Class, ts.TTL = key, 255, 0
			m.Ar = append(m.Ar, ts)
			w.Count("messages_with_tsig_record", 1)
			c08CheckMsg(w, m, "with-tsig-record", false)
		}
	}
	// messages whose last record ends in a field of zero octets (nothing left to write at the very end)
	for _, t := range []uint16{257, 256, 16, 99, 10, 261} {
		l := model.Layouts[t]
		if l == nil {
			continue
		}
		m := genPoolMsg(g, g.Len(0, 4))
		r := g.Rec(l)
		for i, fd := range l.Fields {
			if i != len(l.Fields)-1 {
				continue
			}
			switch fd.Kind {
			case model.KOctet, model.KHex, model.KB64:
				r.Vals[i] = []byte{}
			case model.KStrs:
				r.Vals[i] = [][]byte{}
			}
		}
		r.Fixup()
		m.Ar = append(m.Ar, r)
		w.Count("trailing_empty_field_messages", 1)
		c08CheckMsg(w, m, "trailing-empty", false)
	}
}

func c08AllTypes(w *core.W, j int) {
	ls := c01Layouts()
	g := model.NewGen(w.Rng(j))
	g.NoHuge = true
	for k := 0; k < 30; k++ {
		l := ls[(j*30+k)%len(ls)]
		g.Plain = k%4 == 0
		if k%6 == 0 {
			g.MakePool(3)
		}
		c08CheckRR(w, g.Rec(l), false)
	}
	m := genMsg(g, ls, 5)
	if len(m.Wire()) < 60000 {
		c08CheckMsg(w, m, "alltypes", false)
	}
}

func c08Common(w *core.W, j int) {
	g := model.NewGen(w.Rng(j))
	g.NoHuge = true
	for k := 0; k < 4; k++ {
		m := genCommonMsg(g, g.Len(0, 20), false)
		c08CheckMsg(w, m, "common", true)
		for _, r := range m.An {
			c08CheckRR(w, r, true)
		}
	}
}

func c08Large(w *core.W, j int) {
	g := model.NewGen(w.Rng(j))
	g.NoHuge = true
	g.MaxOpaque = 40
	if j%8 == 7 {
		c08Beyond64K(w, g, j)
		return
	}
	var m *model.Msg
	exact := j%2 == 0
	if exact {
		m = genCommonMsg(g, 400+g.R.IntN(700), false)
	} else {
		m = genPoolMsg(g, 300+g.R.IntN(800))
	}
	for len(m.Wire()) > 64000 {
		m.An, m.Ns, m.Ar = m.An[:len(m.An)*2/3], m.Ns[:len(m.Ns)*2/3], m.Ar[:len(m.Ar)*2/3]
	}
	if len(m.Wire()) > 16384 {
		w.Count("messages_over_16384", 1)
	}
	c08CheckMsg(w, m, "large", exact)
}

// c08Boundary: a name-bearing record is placed so that it straddles offset 16384 (start at
// 16384-delta for every delta in 0..79); the names inside its RDATA are new to the message and
// are re-used by the owners of the following records. Pack may only point at offsets < 16384,
// and Len's simulation has to agree.
// c08Beyond64K: nothing in the packer stops at 65535 octets (zone transfers and tests build such
// messages); for one that packs, PackBuffer must not fail for lack of room either, whatever the
// size of the caller's buffer - in particular a "maximum size" buffer of 65535 or 65536 octets.
func c08Beyond64K(w *core.W, g *model.Gen, j int) {
	m := new(dns.Msg)
	m.SetQuestion("big.example.", dns.TypeA)
	m.Response = true
	n := 2300 + g.R.IntN(2200)
	for i := 0; i < n; i++ {
		m.Answer = append(m.Answer, &dns.A{Hdr: dns.RR_Header{Name: fmt.Sprintf("host-%d-%d.big.example.", i, j), Rrtype: dns.TypeA, Class: 1, Ttl: 60}, A: []byte{10, byte(j), byte(i >> 8), byte(i)}})
	}
	for _, compress := range []bool{false, true} {
		m.Compress = compress
		wit := map[string]any{"records": n, "compress": compress}
		var packed []byte
		var err error
		if w.Guard("Msg.Pack", wit, func() { packed, err = m.Pack() }) {
			return
		}
		w.Eval(1)
		w.Count("messages_beyond_64k", 1)
		if err != nil {
			if isBufErr(err) {
				w.Violation(fmt.Sprintf("C08/pack-no-room/beyond-64k/compress=%v", compress), fmt.Sprintf("Pack of %d records: %v", n, err), wit)
			}
			continue
		}
		if l := m.Len(); l < len(packed) {
			w.Violation(fmt.Sprintf("C08/len-underestimates/beyond-64k/compress=%v", compress), fmt.Sprintf("Len()=%d < packed %d", l, len(packed)), wit)
		}
		ul := func() int { c := m.Copy(); c.Compress = false; return c.Len() }()
		for _, bl := range []int{65535, 65536, 65537, len(packed) - 1, ul, ul + 1} {
			buf := make([]byte, bl)
			var out []byte
			if w.Guard("Msg.PackBuffer", wit, func() { out, err = m.PackBuffer(buf) }) {
				return
			}
			w.Count("packbuffer_calls", 1)
			if err != nil {
				w.Violation(fmt.Sprintf("C08/packbuffer-no-room/beyond-64k/compress=%v", compress), fmt.Sprintf("PackBuffer with a %d-octet buffer for a message of %d packed / %d uncompressed octets: %v", bl, len(packed), ul, err), wit)
				continue
			}
			if string(out) != string(packed) {
				w.Violation(fmt.Sprintf("C08/packbuffer-differs/beyond-64k/compress=%v", compress), fmt.Sprintf("PackBuffer(%d) output differs from Pack output", bl), wit)
			}
			if bl > ul && (len(out) == 0 || &out[0] != &buf[0]) {
				w.Violation(fmt.Sprintf("C08/packbuffer-not-in-place/beyond-64k/compress=%v", compress), fmt.Sprintf("buffer of %d > uncompressed %d not used", bl, ul), wit)
			}
		}
	}
	w.NontrivialStr("beyond-64k", fmt.Sprint(n))
}

func c08Boundary(w *core.W, j int) {
	nb := nameBearing()
	l := nb[j%len(nb)]
	g := model.NewGen(w.Rng(j))
	g.NoHuge = true
	g.Plain = j%3 != 0
	for delta := 0; delta < 80; delta++ {
		m := &model.Msg{ID: uint16(j), Bits: 0x8400}
		m.Q = []model.Question{{Name: model.Name{[]byte("q")}, Type: 1, Class: 1}}
		base := 12 + 3 + 4
		target := 16384 - delta
		escOwner := j%2 == 1
		if escOwner {
			target += 40 // owners that start up to 40 octets beyond the limit as well
		}
		need := target - base - 11 // RDATA octets of the filler TXT (owner is the root)
		var strs [][]byte
		for need > 256 {
			strs = append(strs, g.TextBytes(255))
			need -= 256
		}
		strs = append(strs, g.TextBytes(need-1))
		m.An = append(m.An, &model.Rec{Owner: model.Name{}, Type: 16, Class: 1, TTL: 1, L: model.Layouts[16], Vals: []any{strs}})
		g.Pool = nil
		x := g.Rec(l)
		x.Owner = model.Name{[]byte("x")}
		if escOwner {
			// an owner full of escapes (its text is much longer than its wire form), first used right here
			// and used again by the records that follow
			x.Owner = model.Name{[]byte("ho.st"), []byte{0, 1, 2, 3, 4, 5, byte(delta)}, []byte("zo ne\\b"), []byte("invalid")}
			for k := 0; k < 3; k++ {
				m.Ns = append(m.Ns, &model.Rec{Owner: x.Owner.Clone(), Type: 1, Class: 1, TTL: 1, L: model.Layouts[1], Vals: []any{[]byte{9, 9, 9, byte(k)}}})
			}
			m.Ns = append(m.Ns, &model.Rec{Owner: append(model.Name{[]byte("sub")}, x.Owner...), Type: 1, Class: 1, TTL: 1, L: model.Layouts[1], Vals: []any{[]byte{9, 9, 9, 9}}})
		}
		m.An = append(m.An, x)
		_, refs := x.Rdata()
		for _, ref := range refs {
			if len(ref.N) == 0 || ref.N.WireLen() > 240 {
				continue
			}
			m.Ns = append(m.Ns, &model.Rec{Owner: append(model.Name{[]byte("sub")}, ref.N...), Type: 1, Class: 1, TTL: 1, L: model.Layouts[1], Vals: []any{[]byte{1, 2, 3, 4}}})
			m.Ns = append(m.Ns, &model.Rec{Owner: ref.N.Clone(), Type: 1, Class: 1, TTL: 1, L: model.Layouts[1], Vals: []any{[]byte{1, 2, 3, 5}}})
		}
		w.Count("boundary_alignments", 1)
		w.Cover("boundary_type", l.Name)
		c08CheckMsg(w, m, "boundary-"+l.Name, false)
	}
}

func init() {
	nbn := len(nameBearing())
	plan, run := sections(
		section{"boundary", tiered(nbn*3, nbn*16), c08Boundary},
		section{"general", tiered(1500, 40000), c08General},
		section{"alltypes", tiered(1500, 40000), c08AllTypes},
		section{"common", tiered(1500, 40000), c08Common},
		section{"large", tiered(60, 1500), c08Large},
		section{"hand-built", tiered(1500, 40000), c08Struct},
		concurrentSection("C08"),
	)
	core.Register(&core.Monitor{
		ID: "C08", Level: "exploration", Plan: plan, Run: run,
		Rule: "messages (pool names with shared suffixes/escapes; every name-bearing type straddling offset 16384 at each of 80 alignments; all registry types incl. bitmaps, OPT options, SVCB, APL; 300..1100-record messages beyond 16384 octets) x Compress in {false,true}; " +
			"checks Len()>=len(Pack()), Len(rr)>=len(PackRR), equality for escape-free messages of the 16 common types, no ErrBuf/overflow from Pack/PackBuffer, PackBuffer with buffers of 0, Len-1, Len, Len+1, Len+2, Len+700 octets never refused and in place when buffer > uncompressed Len; messages ending in a zero-octet field (CAA value, URI target, TXT/SPF without strings, NULL); messages beyond 65535 octets with buffers of 65535/65536 octets; " +
			"records of every type with 1-2 fields set by hand (integers incl. length companions to 0/1/2/max/random, hex upper/lower case, base64 padded/unpadded, base32 either case, text with escapes, addresses of 0/4/16 octets and IPv4 in 16-octet form, string lists): whenever PackRR accepts the value, Len(rr) and Msg.Len() cover it and Msg.Pack succeeds; " +
			"the same operations called from 8 goroutines at once give the results they give alone; non-trivial = distinct packed message",
		MinObserved: []string{"messages", "exactness_checked", "records", "packbuffer_calls", "messages_over_16384", "boundary_alignments"},
	})
}
