package mon

import (
	"encoding/binary"
	"bytes"
	"fmt"
	"net"
	"regexp"
	"strings"
	"sync"
	"sync/atomic"
	"time"
	"unsafe"

	"github.com/miekg/dns"

	"verifharness/bridge"
	"verifharness/core"
	"verifharness/graph"
	"verifharness/model"
)

var idxRe = regexp.MustCompile(`\[\d+\]`)

func normPath(p string) string { return idxRe.ReplaceAllString(p, "[]") }

// optKinds names the EDNS0 option / SVCB parameter types present in a record (for keys).
func c16Detail(rr dns.RR, path string) string {
	p := normPath(path)
	switch x := rr.(type) {
	case *dns.OPT:
		if m := regexp.MustCompile(`^\.Option\[(\d+)\]`).FindStringSubmatch(path); m != nil {
			var i int
			fmt.Sscan(m[1], &i)
			if i < len(x.Option) {
				return fmt.Sprintf("%T%s", x.Option[i], normPath(path[len(m[0]):]))
			}
		}
	case *dns.SVCB:
		return svcbDetail(x, path, p)
	case *dns.HTTPS:
		return svcbDetail(&x.SVCB, path, p)
	}
	return p
}

func svcbDetail(x *dns.SVCB, path, p string) string {
	if m := regexp.MustCompile(`Value\[(\d+)\]`).FindStringSubmatch(path); m != nil {
		var i int
		fmt.Sscan(m[1], &i)
		if i < len(x.Value) {
			return fmt.Sprintf("%T%s", x.Value[i], normPath(path[regexp.MustCompile(`Value\[\d+\]`).FindStringIndex(path)[1]:]))
		}
	}
	return p
}

func c16CopyRR(w *core.W, rr dns.RR, origin string) {
	tn := typeName(rr.Header().Rrtype)
	w.Eval(1)
	w.Cover("copy_type", tn)
	wit := map[string]any{"rr": cutS(rr.String()), "origin": origin}
	var cp dns.RR
	if w.Guard("Copy", wit, func() { cp = dns.Copy(rr) }) {
		return
	}
	a, b := graph.Mutable(rr), graph.Mutable(cp)
	if len(a) > 1 {
		w.NontrivialStr(tn, rr.String())
	}
	if x, y, ok := graph.Overlap(a, b); ok {
		w.Violation("C16/copy-alias/"+tn+"/"+c16Detail(rr, x.Path), fmt.Sprintf("Copy(%s) shares memory with the original: original%s [%#x,%#x) and copy%s [%#x,%#x) (%s/%s)", tn, x.Path, x.Lo, x.Hi, y.Path, y.Lo, y.Hi, x.Kind, y.Kind), wit)
	}
	if d := bridge.Diff(rr, cp); d != "" {
		w.Violation("C16/copy-differs/"+tn+"/"+diffField(d), "Copy is not equal to the original at "+d, wit)
	}
	if w.WantSample() && len(a) > 2 {
		var paths []string
		for _, r := range a {
			paths = append(paths, fmt.Sprintf("%s%s[%d octets]", r.Kind, r.Path, r.Hi-r.Lo))
		}
		w.Sample(map[string]any{"check": "copy-alias", "type": tn, "origin": origin, "rr": cutS(rr.String()), "mutable_ranges_of_original": paths, "ranges_of_copy": len(b)})
	}
}

func c16Copies(w *core.W, j int) {
	ls := c01Layouts()
	g := model.NewGen(w.Rng(j))
	g.NoHuge = true
	for k := 0; k < 12; k++ {
		l := ls[(j*12+k)%len(ls)]
		r := g.Rec(l)
		built, err := buildAny(r)
		if err != nil {
			continue
		}
		c16CopyRR(w, built, "struct")
		// the same record with a field or two (or an option, an SVCB parameter) set by hand: address
		// lists in 4- and 16-octet form, hex in either case, unpadded base64 ...
		if hb, err := buildAny(r); err == nil && hb != nil {
			if t := handMutate(g, hb); len(t) > 0 {
				w.Count("copies_of_hand_built_records", 1)
				c16CopyRR(w, hb, "hand-built "+strings.Join(t, ","))
			}
		}
		// and the decoder's own representation of the same record
		if rr2, _, err := dns.UnpackRR(r.Wire(), 0); err == nil {
			c16CopyRR(w, rr2, "decoded")
		}
	}
	// whole messages
	m := genMsg(g, ls, 5)
	if built, err := buildMsgAny(m); err == nil {
		w.Eval(1)
		var cp *dns.Msg
		wit := map[string]any{"model_wire": hx(m.Wire())}
		if !w.Guard("Msg.Copy", wit, func() { cp = built.Copy() }) {
			if x, y, ok := graph.Overlap(graph.Mutable(built), graph.Mutable(cp)); ok {
				w.Violation("C16/msg-copy-alias/"+normPath(x.Path), fmt.Sprintf("Msg.Copy shares memory: original%s and copy%s", x.Path, y.Path), wit)
			}
			if d := bridge.Diff(built, cp); d != "" {
				w.Violation("C16/msg-copy-differs", "Msg.Copy differs at "+d, wit)
			}
			w.Count("msg_copies", 1)
		}
		// CopyTo into a message that started out as a shallow copy of the source (a pooled Msg that was
		// assigned with *dst = *src earlier): the source stays as it was and nothing is shared afterwards
		{
			src, _ := buildMsgAny(m)
			src.Answer = append(make([]dns.RR, 0, len(src.Answer)+len(src.Ns)+len(src.Extra)+8), src.Answer...)
			snap := graph.Clone(src).(*dns.Msg)
			rel := new(dns.Msg)
			*rel = *src
			if !w.Guard("Msg.CopyTo(related destination)", wit, func() { src.CopyTo(rel) }) {
				w.Count("msg_copies", 1)
				if d := bridge.Diff(snap, src); d != "" {
					w.Violation("C16/msg-copyto-changes-source", "CopyTo into a destination that shared the source's slices changed the source at "+d, wit)
				}
				if x, y, ok := graph.Overlap(graph.Mutable(src), graph.Mutable(rel)); ok {
					w.Violation("C16/msg-copyto-alias/related/"+normPath(x.Path), fmt.Sprintf("after CopyTo source and destination share memory: original%s and copy%s", x.Path, y.Path), wit)
				}
				// pointer identity of the records themselves
				for i := range src.Answer {
					if i < len(rel.Answer) && src.Answer[i] == rel.Answer[i] {
						w.Violation("C16/msg-copyto-alias/related/record-pointers", "source and destination hold the same record values after CopyTo", wit)
						break
					}
				}
			}
		}
		// CopyTo into a used message
		dst := &dns.Msg{Answer: make([]dns.RR, 0, 64)}
		if !w.Guard("Msg.CopyTo", wit, func() { built.CopyTo(dst) }) {
			if x, y, ok := graph.Overlap(graph.Mutable(built), graph.Mutable(dst)); ok {
				w.Violation("C16/msg-copyto-alias/"+normPath(x.Path), fmt.Sprintf("Msg.CopyTo shares memory: original%s and copy%s", x.Path, y.Path), wit)
			}
		}
	}
}

// c16Unpack: a decoded message/record shares no memory with the input buffer.
func c16Unpack(w *core.W, j int) {
	ls := c01Layouts()
	g := model.NewGen(w.Rng(j))
	g.NoHuge = true
	m := genMsg(g, ls, 6)
	for _, wire := range [][]byte{m.Wire(), m.WireCompressed(true)} {
		if len(wire) > 65535 {
			continue
		}
		buf := make([]byte, len(wire), len(wire)+64)
		copy(buf, wire)
		lo := uintptr(unsafe.Pointer(&buf[0]))
		hi := lo + uintptr(cap(buf))
		dm := new(dns.Msg)
		wit := map[string]any{"wire": hx(wire)}
		var err error
		if w.Guard("Msg.Unpack", wit, func() { err = dm.Unpack(buf) }) || err != nil {
			continue
		}
		w.Eval(1)
		w.Count("unpack_alias_checks", 1)
		w.Nontrivial(wire)
		if r, ok := graph.OverlapBuf(graph.All(dm), lo, hi); ok {
			w.Violation("C16/unpack-alias/"+normPath(r.Path), fmt.Sprintf("the decoded message references the input buffer at %s (%s)", r.Path, r.Kind), wit)
		}
		snap := graph.Clone(dm).(*dns.Msg)
		for i := range buf {
			buf[i] ^= 0xA5
		}
		if d := bridge.Diff(snap, dm); d != "" {
			w.Violation("C16/unpack-alias-observable/"+diffField(d), "overwriting the input buffer changed the decoded message at "+d, wit)
		}
	}
	// single records
	for k := 0; k < 8; k++ {
		r := g.Rec(ls[(j*8+k)%len(ls)])
		wire := r.Wire()
		buf := append(make([]byte, 0, len(wire)+16), wire...)
		lo := uintptr(unsafe.Pointer(&buf[0]))
		rr, _, err := dns.UnpackRR(buf, 0)
		if err != nil {
			continue
		}
		w.Eval(1)
		if x, ok := graph.OverlapBuf(graph.All(rr), lo, lo+uintptr(cap(buf))); ok {
			w.Violation("C16/unpackrr-alias/"+r.L.Name+"/"+c16Detail(rr, x.Path), fmt.Sprintf("decoded %s references the input buffer at %s", r.L.Name, x.Path), map[string]any{"wire": hx(wire)})
		}
		snap := graph.Clone(rr)
		for i := range buf {
			buf[i] ^= 0xA5
		}
		if d := bridge.Diff(snap, rr); d != "" {
			w.Violation("C16/unpackrr-alias-observable/"+r.L.Name+"/"+diffField(d), "overwriting the input buffer changed the decoded record at "+d, map[string]any{"wire": hx(wire)})
		}
	}
	// "a message returned by Unpack" - whatever the decoder accepts, well-formed or not: OPT records whose
	// known options carry bodies of a length (or content) their own decoders refuse, and structure-aware
	// mutations of the message above. Most are refused; what is accepted is walked like any other message.
	var hostile [][]byte
	optBodies := map[uint16][][]byte{
		1: {make([]byte, 17), make([]byte, 19)}, 2: {{0, 0, 0}, {0, 0, 0, 0, 1}}, 3: {{}}, 5: {{}}, 6: {{}}, 7: {{}}, 8: {{0, 3, 0, 0}, {0, 1, 33, 0, 1, 2, 3, 4, 5}, {0}, {0, 1, 24}},
		9: {{1}, {1, 2, 3}, {1, 2, 3, 4, 5}}, 10: {make([]byte, 7), make([]byte, 9), make([]byte, 15), make([]byte, 41)}, 11: {{1}, {1, 2, 3}}, 12: {{1, 2, 3}}, 15: {{0}, {}}, 4: {{}}, 19: {{1}, {2, 0}},
	}
	for code, bodies := range optBodies {
		for _, b := range bodies {
			rd := binary.BigEndian.AppendUint16(nil, code)
			rd = binary.BigEndian.AppendUint16(rd, uint16(len(b)))
			rd = append(rd, b...)
			// in front of and behind a well-formed local option
			rd2 := append(append([]byte{0xFD, 0xE9, 0, 3, 'a', 'b', 'c'}, rd...), 0xFD, 0xEA, 0, 2, 'x', 'y')
			hostile = append(hostile, rrMsg(41, rd), rrMsg(41, rd2))
		}
	}
	base := m.Wire()
	if len(base) < 4000 {
		off := walkOffsets(base)
		for k := 0; k < 12; k++ {
			hostile = append(hostile, c02Mutate(g.R, base, off))
		}
	}
	for _, wire := range hostile {
		if len(wire) < 12 || len(wire) > 65535 {
			continue
		}
		buf := make([]byte, len(wire), len(wire)+32)
		copy(buf, wire)
		lo := uintptr(unsafe.Pointer(&buf[0]))
		dm := new(dns.Msg)
		wit := map[string]any{"wire": hx(wire), "kind": "hostile input the decoder accepts"}
		var err error
		w.Count("hostile_inputs_offered", 1)
		if w.Guard("Msg.Unpack", wit, func() { err = dm.Unpack(buf) }) || err != nil {
			continue
		}
		w.Eval(1)
		w.Count("hostile_inputs_accepted_and_walked", 1)
		if r, ok := graph.OverlapBuf(graph.All(dm), lo, lo+uintptr(cap(buf))); ok {
			w.Violation("C16/unpack-alias/"+normPath(r.Path), fmt.Sprintf("the message decoded from a hostile input references the input buffer at %s (%s)", r.Path, r.Kind), wit)
			continue
		}
		snap := graph.Clone(dm).(*dns.Msg)
		for i := range buf {
			buf[i] ^= 0xA5
		}
		if d := bridge.Diff(snap, dm); d != "" {
			w.Violation("C16/unpack-alias-observable/"+diffField(d), "overwriting the input buffer changed the message decoded from a hostile input at "+d, wit)
		}
	}
}

// normOpt clears the documented bookkeeping (extended RCODE bits of OPT) before comparing.
func normOpt(m *dns.Msg) {
	for _, rr := range m.Extra {
		if o, ok := rr.(*dns.OPT); ok {
			o.Hdr.Ttl &= 0x00FFFFFF
		}
	}
}

// c16ReadOnly: Pack, PackBuffer, Len, String, Copy, IsDuplicate leave their arguments unchanged.
func c16ReadOnly(w *core.W, j int) {
	ls := c01Layouts()
	g := model.NewGen(w.Rng(j))
	g.NoHuge = true
	mm := genMsg(g, ls, 6)
	built, err := buildMsgAny(mm)
	if err != nil {
		return
	}
	wit := map[string]any{"model_wire": hx(mm.Wire())}
	if j%2 == 1 {
		// values as a program (not the wire or the zone parser) may build them: addresses in their
		// 16-octet form, APL prefixes with host bits set beyond the prefix length
		all := append(append(append([]dns.RR{}, built.Answer...), built.Ns...), built.Extra...)
		hs := &dns.HTTPS{SVCB: dns.SVCB{Hdr: dns.RR_Header{Name: "svc.example.", Rrtype: dns.TypeHTTPS, Class: 1}, Priority: 1, Target: ".",
			Value: []dns.SVCBKeyValue{&dns.SVCBMandatory{Code: []dns.SVCBKey{dns.SVCB_IPV4HINT, dns.SVCB_PORT, dns.SVCB_ALPN}}, &dns.SVCBAlpn{Alpn: []string{"h2"}}, &dns.SVCBPort{Port: 443}, &dns.SVCBIPv4Hint{Hint: []net.IP{{192, 0, 2, 1}}}}}}
		built.Answer = append(built.Answer, hs, dns.Copy(hs))
		all = append(all, hs, built.Answer[len(built.Answer)-1])
		all = append(all, &dns.APL{Hdr: dns.RR_Header{Name: "apl.example.", Rrtype: dns.TypeAPL, Class: 1}, Prefixes: []dns.APLPrefix{
			{Network: net.IPNet{IP: net.IP{198, 51, 103, 255}, Mask: net.CIDRMask(22, 32)}},
			{Negation: true, Network: net.IPNet{IP: net.ParseIP("2001:db8:ffff::1"), Mask: net.CIDRMask(35, 128)}}}})
		built.Extra = append(built.Extra, all[len(all)-1])
		for _, rr := range all {
			switch x := rr.(type) {
			case *dns.A:
				if ip4 := x.A.To4(); ip4 != nil {
					x.A = ip4.To16()
				}
			case *dns.APL:
				for i := range x.Prefixes {
					ip := x.Prefixes[i].Network.IP
					if len(ip) > 0 {
						ip[len(ip)-1] |= 0x01
					}
				}
			case *dns.OPT:
				for _, o := range x.Option {
					if sn, ok := o.(*dns.EDNS0_SUBNET); ok && sn.Family == 1 && len(sn.Address) == 4 {
						sn.Address = sn.Address.To16()
					}
				}
			case *dns.SVCB: // parameters in the order a program (or a zone file) listed them, not by key
				for a, b := 0, len(x.Value)-1; a < b; a, b = a+1, b-1 {
					x.Value[a], x.Value[b] = x.Value[b], x.Value[a]
				}
			case *dns.HTTPS:
				for a, b := 0, len(x.Value)-1; a < b; a, b = a+1, b-1 {
					x.Value[a], x.Value[b] = x.Value[b], x.Value[a]
				}
			}
		}
		w.Count("readonly_noncanonical_values", 1)
	}
	if j%4 >= 2 {
		// records (and EDNS0 options) with one or two fields set by hand to values a decoder would not
		// deliver - length companions that disagree, unpadded base64, an option with no address family:
		// whether or not such a value can be packed, looking at it must not change it
		all := append(append(append([]dns.RR{}, built.Answer...), built.Ns...), built.Extra...)
		if j%8 >= 6 {
			o := &dns.OPT{Hdr: dns.RR_Header{Name: ".", Rrtype: dns.TypeOPT, Class: 1232}}
			o.Option = append(o.Option, &dns.EDNS0_SUBNET{Code: dns.EDNS0SUBNET, Family: uint16(j / 8 % 3), SourceNetmask: uint8(8 + j%25), Address: [][]byte{{192, 0, 2, 0}, net.ParseIP("192.0.2.0"), net.ParseIP("2001:db8::")}[j/24%3]},
				&dns.EDNS0_COOKIE{Code: dns.EDNS0COOKIE, Cookie: "0123456789abcde"}, &dns.EDNS0_EXPIRE{Code: dns.EDNS0EXPIRE}, &dns.EDNS0_TCP_KEEPALIVE{Code: dns.EDNS0TCPKEEPALIVE})
			built.Extra = append(built.Extra, o)
			all = append(all, o)
		}
		n := 0
		for _, rr := range all {
			if g.R.IntN(2) == 0 {
				if t := handMutate(g, rr); len(t) > 0 {
					n++
				}
			}
		}
		w.Count("readonly_hand_set_records", n)
	}
	if j%8 == 5 {
		// a message that cannot be packed as it stands: an extended RCODE and no OPT record to carry it.
		// Pack reports that; it does not repair the caller's message
		var ex []dns.RR
		for _, rr := range built.Extra {
			if rr.Header().Rrtype != dns.TypeOPT {
				ex = append(ex, rr)
			}
		}
		built.Extra = ex
		built.Rcode = []int{16, 17, 23, 255, 4095}[j/8%5]
		w.Count("readonly_unpackable_messages", 1)
	}
	ops := []struct {
		name string
		f    func(m *dns.Msg)
	}{
		{"Pack", func(m *dns.Msg) { m.Pack() }},
		{"PackCompressed", func(m *dns.Msg) { m.Compress = true; m.Pack(); m.Compress = false }},
		{"PackBuffer", func(m *dns.Msg) { m.PackBuffer(make([]byte, 70000)) }},
		{"Len", func(m *dns.Msg) { m.Len() }},
		{"String", func(m *dns.Msg) { _ = m.String() }},
		{"Copy", func(m *dns.Msg) { m.Copy() }},
		{"IsDuplicate", func(m *dns.Msg) {
			all := append(append(append([]dns.RR{}, m.Answer...), m.Ns...), m.Extra...)
			for _, a := range all {
				for _, b := range all {
					dns.IsDuplicate(a, b)
				}
			}
		}},
		{"RR-ops", func(m *dns.Msg) {
			all := append(append(append([]dns.RR{}, m.Answer...), m.Ns...), m.Extra...)
			for _, a := range all {
				dns.Len(a)
				_ = a.String()
				dns.Copy(a)
				packRR(a)
			}
		}},
	}
	for _, op := range ops {
		w.Eval(1)
		w.Count("readonly_ops", 1)
		snap := graph.Clone(built).(*dns.Msg)
		if w.Guard(op.name, wit, func() { op.f(built) }) {
			return
		}
		a, b := graph.Clone(snap).(*dns.Msg), graph.Clone(built).(*dns.Msg)
		normOpt(a)
		normOpt(b)
		if d := bridge.DiffNoRdlen(a, b); d != "" {
			w.Violation("C16/read-only-op-mutates/"+op.name+"/"+diffField(d), op.name+" changed its argument (before vs after) at "+d, wit)
			built = snap
		}
	}
	w.Nontrivial(mm.Wire())
}

// c16Sign: signing and verifying leave the RRset and the key unchanged.
func c16Sign(w *core.W, j int) {
	g := model.NewGen(w.Rng(j))
	g.NoHuge = true
	alg := []uint8{dns.ED25519, dns.ECDSAP256SHA256, dns.RSASHA256}[j%3]
	zone := model.Name{[]byte("ExAmple"), []byte("Org")}
	k, err := getKey(alg, algBits[alg][0], zone.Pres(), 257, 0)
	if err != nil {
		w.Inconclusive("keygen:" + err.Error())
		return
	}
	// RRset: 1..5 records of one type, shared owner (mixed case), possibly a wildcard owner
	sl := signableLayouts()
	l := sl[g.R.IntN(len(sl))]
	wild := g.R.IntN(3) == 0
	owner := append(model.Name{g.Label()}, zone...)
	if wild {
		owner = append(model.Name{[]byte("*")}, zone...)
	}
	g.Pool = []model.Name{zone, owner}
	n := 1 + g.R.IntN(5)
	var recs []*model.Rec
	for i := 0; i < n; i++ {
		r := g.Rec(l)
		r.Owner, r.Class, r.TTL = owner, 1, 300
		recs = append(recs, r)
	}
	build := func(ownerOverride model.Name) []dns.RR {
		var out []dns.RR
		for _, r := range recs {
			rr, err := buildAny(r)
			if err != nil {
				return nil
			}
			if ownerOverride != nil {
				rr.Header().Name = ownerOverride.Pres()
			}
			out = append(out, rr)
		}
		return out
	}
	rrset := build(nil)
	if rrset == nil {
		return
	}
	sig := &dns.RRSIG{Hdr: dns.RR_Header{Name: owner.Pres(), Rrtype: dns.TypeRRSIG, Class: 1, Ttl: 300}, Algorithm: alg,
		KeyTag: k.Key.KeyTag(), SignerName: zone.Pres(), Inception: 1_600_000_000, Expiration: 2_000_000_000}
	wit := map[string]any{"type": l.Name, "alg": alg, "owner": owner.Pres()}
	keySnap := graph.Clone(k.Key)
	snap := graph.Clone(rrset)
	var serr error
	w.Eval(1)
	if w.Guard("RRSIG.Sign", wit, func() { serr = sig.Sign(k.Priv, rrset) }) {
		return
	}
	if d := bridge.Diff(snap, rrset); d != "" {
		w.Violation("C16/read-only-op-mutates/Sign/rrset/"+diffField(d), "Sign changed the RRset at "+d, wit)
		rrset = snap.([]dns.RR)
	}
	if serr != nil {
		w.Count("sign_errors", 1)
		return
	}
	w.Count("signed", 1)
	w.NontrivialStr(l.Name, sig.Signature)
	// verify the set as signed, and (for wildcards) an expanded owner with extra labels
	sets := [][]dns.RR{rrset}
	if wild {
		exp := append(model.Name{[]byte("Host"), []byte("sub")}, zone...)
		sets = append(sets, build(exp))
		w.Count("wildcard_expansions", 1)
	}
	// the same RRset as a validator may hold it: every record with a TTL of its own, above and below the
	// RRSIG's original TTL (only the original TTL is signed, so it still verifies)
	{
		cur := build(nil)
		for i, rr := range cur {
			rr.Header().Ttl = []uint32{301, 299, 86400, 0, 300, 4294967295}[(j+i)%6]
		}
		sets = append(sets, cur)
		w.Count("verified_sets_with_current_ttls", 1)
	}
	for si, set := range sets {
		snap := graph.Clone(set)
		var verr error
		vs := dns.Copy(sig).(*dns.RRSIG)
		vs.Hdr.Name = set[0].Header().Name // in a response the RRSIG carries the (expanded) owner of the RRset
		if si == 0 && j%2 == 1 {
			vs.SignerName = strings.TrimSuffix(vs.SignerName, ".") // as a program may have written it
		}
		sigSnap := graph.Clone(vs)
		if w.Guard("RRSIG.Verify", wit, func() { verr = vs.Verify(k.Key, set) }) {
			return
		}
		if d := bridge.Diff(sigSnap, vs); d != "" {
			w.Violation("C16/read-only-op-mutates/Verify/rrsig/"+diffField(d), "Verify changed the RRSIG it was called on at "+d, wit)
		}
		if verr != nil {
			w.Count("verify_errors", 1)
		} else {
			w.Count("verified", 1)
		}
		if d := bridge.Diff(snap, set); d != "" {
			w.Violation(fmt.Sprintf("C16/read-only-op-mutates/Verify/rrset/%s", diffField(d)), fmt.Sprintf("Verify changed the RRset (set %d) at %s", si, d), wit)
		}
	}
	if d := bridge.Diff(keySnap, k.Key); d != "" {
		w.Violation("C16/read-only-op-mutates/Sign-Verify/key/"+diffField(d), "the key changed at "+d, wit)
	}
	// calls that fail half-way: an RRset (of a type without names in its RDATA) whose middle record cannot
	// be packed - a TXT string one octet over the limit, an A record with three address octets. Whatever
	// Sign / Verify did to the records before they gave up has to be undone.
	{
		own := "Text." + zone.Pres()
		mk := func() []dns.RR {
			if j%2 == 0 {
				return []dns.RR{
					&dns.TXT{Hdr: dns.RR_Header{Name: own, Rrtype: dns.TypeTXT, Class: 1, Ttl: 300}, Txt: []string{"first"}},
					&dns.TXT{Hdr: dns.RR_Header{Name: own, Rrtype: dns.TypeTXT, Class: 1, Ttl: 301}, Txt: []string{strings.Repeat("x", 256)}},
					&dns.TXT{Hdr: dns.RR_Header{Name: own, Rrtype: dns.TypeTXT, Class: 1, Ttl: 7}, Txt: []string{"third"}},
				}
			}
			return []dns.RR{
				&dns.A{Hdr: dns.RR_Header{Name: own, Rrtype: dns.TypeA, Class: 1, Ttl: 300}, A: net.IP{192, 0, 2, 1}},
				&dns.A{Hdr: dns.RR_Header{Name: own, Rrtype: dns.TypeA, Class: 1, Ttl: 86400}, A: net.IP{192, 0, 2}},
				&dns.A{Hdr: dns.RR_Header{Name: own, Rrtype: dns.TypeA, Class: 1, Ttl: 7}, A: net.IP{192, 0, 2, 3}},
			}
		}
		bad := mk()
		snapBad := graph.Clone(bad)
		s2 := &dns.RRSIG{Algorithm: alg, KeyTag: k.Key.KeyTag(), SignerName: zone.Pres(), Inception: 1_600_000_000, Expiration: 2_000_000_000}
		var e2 error
		if !w.Guard("RRSIG.Sign(unpackable record)", wit, func() { e2 = s2.Sign(k.Priv, bad) }) {
			w.Count("failing_sign_calls", 1)
			if e2 == nil {
				w.Count("unpackable_rrset_signed", 1)
			}
			if d := bridge.Diff(snapBad, bad); d != "" {
				w.Violation("C16/read-only-op-mutates/Sign-failed/rrset/"+diffField(d), fmt.Sprintf("Sign (result: %v) on an RRset whose second record cannot be packed changed the RRset at %s", e2, d), wit)
			}
		}
		good := mk()
		good = append(good[:1], good[2:]...)
		s3 := &dns.RRSIG{Algorithm: alg, KeyTag: k.Key.KeyTag(), SignerName: zone.Pres(), Inception: 1_600_000_000, Expiration: 2_000_000_000}
		if s3.Sign(k.Priv, good) == nil {
			s3.OrigTtl = 3600 // (the signature no longer matters: the call has to fail at the unpackable record)
			bad2 := mk()
			snap2 := graph.Clone(bad2)
			var e3 error
			if !w.Guard("RRSIG.Verify(unpackable record)", wit, func() { e3 = s3.Verify(k.Key, bad2) }) {
				w.Count("failing_verify_calls", 1)
				if d := bridge.Diff(snap2, bad2); d != "" {
					w.Violation("C16/read-only-op-mutates/Verify-failed/rrset/"+diffField(d), fmt.Sprintf("Verify (result: %v) on an RRset whose second record cannot be packed changed the RRset at %s", e3, d), wit)
				}
			}
		}
	}
}

// signableLayouts: types that can sit in a signed RRset.
func signableLayouts() []*model.Layout {
	var ls []*model.Layout
	for _, l := range model.LayoutList {
		switch l.Type {
		case 41, 250, 249, 255, 128, 46:
			continue
		}
		ls = append(ls, l)
	}
	return ls
}

// c16Concurrent: the read-only operations run concurrently on one shared message without an
// OPT record; the race detector (this monitor runs from the -race binary) reports any write.
func c16Concurrent(w *core.W, j int) {
	g := model.NewGen(w.Rng(j))
	g.NoHuge = true
	var ls []*model.Layout
	for _, l := range c01Layouts() {
		if l.Type != 41 {
			ls = append(ls, l)
		}
	}
	mm := genMsg(g, ls, 6)
	var ar []*model.Rec
	for _, r := range mm.Ar {
		if r.Type != 41 {
			ar = append(ar, r)
		}
	}
	mm.Ar = ar
	mm.Bits &= 0xFFF0
	built, err := buildMsgAny(mm)
	if err != nil {
		return
	}
	w.Eval(1)
	w.Count("concurrent_rounds", 1)
	var wg sync.WaitGroup
	for t := 0; t < 6; t++ {
		wg.Add(1)
		go func(t int) {
			defer wg.Done()
			defer func() { recover() }()
			for it := 0; it < 3; it++ {
				switch (t + it) % 6 {
				case 0:
					built.Pack()
				case 1:
					built.Len()
				case 2:
					_ = built.String()
				case 3:
					built.Copy()
				case 4:
					all := append(append(append([]dns.RR{}, built.Answer...), built.Ns...), built.Extra...)
					for _, a := range all {
						for _, b := range all {
							dns.IsDuplicate(a, b)
						}
					}
				case 5:
					buf := make([]byte, 70000)
					built.PackBuffer(buf)
				}
			}
		}(t)
	}
	wg.Wait()
	// verification is a read-only use of its inputs too: one signed message (SIG(0)) and one signed
	// RRset checked from several goroutines at once, all on the same buffer / records / key
	if j%4 == 0 {
		alg := []uint8{dns.ED25519, dns.ECDSAP256SHA256}[j/4%2]
		k, err := getKey(alg, algBits[alg][0], "conc.example.", 512, 5)
		if err != nil {
			return
		}
		key := &dns.KEY{DNSKEY: *dns.Copy(k.Key).(*dns.DNSKEY)}
		key.Hdr.Rrtype = dns.TypeKEY
		now := uint32(time.Now().Unix())
		sig := &dns.SIG{RRSIG: dns.RRSIG{KeyTag: key.KeyTag(), SignerName: "conc.example.", Algorithm: alg, Inception: now - 7200, Expiration: now + 7200}}
		sm := built.Copy()
		if len(sm.Extra) > 250 {
			return
		}
		signed, err := sig.Sign(k.Priv, sm)
		if err != nil {
			return
		}
		before := append([]byte(nil), signed...)
		var fails atomic.Int32
		var wg2 sync.WaitGroup
		for t := 0; t < 6; t++ {
			wg2.Add(1)
			go func() {
				defer wg2.Done()
				defer func() { recover() }()
				for it := 0; it < 4; it++ {
					if sig.Verify(key, signed) != nil {
						fails.Add(1)
					}
				}
			}()
		}
		wg2.Wait()
		w.Count("concurrent_sig0_verifications", 1)
		if n := fails.Load(); n > 0 {
			w.Violation("C16/concurrent-verify-fails/SIG0", fmt.Sprintf("%d of 24 concurrent SIG.Verify calls on one valid signed buffer failed", n), map[string]any{"alg": alg})
		}
		if !bytes.Equal(before, signed) {
			w.Violation("C16/read-only-op-mutates/SIG.Verify/buffer", "the signed buffer changed during verification", nil)
		}
	}
	if j%4 == 2 {
		concurrentRRSIGVerify(w, j/4, "C16/concurrent-verify-fails/RRSIG")
	}
}

func init() {
	plan, run := sections(
		section{"copies", tiered(1200, 30000), c16Copies},
		section{"unpack", tiered(600, 15000), c16Unpack},
		section{"readonly", tiered(400, 10000), c16ReadOnly},
		section{"sign", tiered(300, 6000), c16Sign},
		section{"concurrent", tiered(300, 6000), c16Concurrent},
		concurrentSectionAs("C01", "C16", tiered(3, 60)),
		concurrentSectionAs("C02", "C16", tiered(3, 60)),
		concurrentSectionAs("C03", "C16", tiered(3, 60)),
		concurrentSectionAs("C05", "C16", tiered(3, 60)),
		concurrentSectionAs("C09", "C16", tiered(3, 60)),
		concurrentSectionAs("C17", "C16", tiered(3, 60)),
		concurrentSectionAs("C20", "C16", tiered(3, 60)),
	)
	core.Register(&core.Monitor{
		ID: "C16", Level: "exploration", Plan: plan, Run: run, Race: true,
		Rule: "every registry type (struct-built and decoder-built) incl. every EDNS0 option and SVCB parameter kind, and whole messages; oracle = object-graph walker: address ranges of every slice backing array, pointer target and map " +
			"reachable from copy vs original (and from a decoded message vs the input buffer incl. string data, plus overwrite-and-compare); deep snapshot before/after Pack, PackBuffer, Len, String, Copy, IsDuplicate (also on program-built values: 16-octet IPv4 addresses, APL prefixes with host bits set, SVCB parameters and mandatory key lists not in key order, records and EDNS0 options with fields set by hand incl. values that cannot be packed), RRSIG.Sign/Verify (incl. wildcard-expanded owners); " +
			"the same operations concurrently on a shared message under the Go race detector; the pure operations of C01/C02/C03/C05/C09/C17/C20 (decode, measure, pack, name helpers, String and parse, Truncate, KeyTag/ToDS/HashName, IsDuplicate/Dedup) on independent inputs from 8 goroutines under the race detector, results compared with the serial ones; non-trivial = distinct record/message with at least one reachable mutable range",
		Assumptions: []string{"strings are immutable and exempt from the copy check", "Rdlength and the OPT extended-RCODE bits are documented bookkeeping"},
		MinObserved: []string{"msg_copies", "unpack_alias_checks", "readonly_ops", "signed", "verified", "wildcard_expansions", "concurrent_rounds"},
		CaseTimeout: 0,
		MaxParallel: 16,
	})
}

// concurrentRRSIGVerify: RRSIG.Verify from several goroutines, each with an RRSIG, key and RRset of
// its own, and all of them on one shared triple as well; every call must succeed.
func concurrentRRSIGVerify(w *core.W, j int, vkey string) {
	type triple struct {
		sig *dns.RRSIG
		key *dns.DNSKEY
		set []dns.RR
	}
	var ts []triple
	for t := 0; t < 4; t++ {
		alg := []uint8{dns.ED25519, dns.ED25519, dns.ECDSAP256SHA256, dns.RSASHA256}[(t+j)%4]
		zone := fmt.Sprintf("z%d.conc.example.", t)
		k, err := getKey(alg, algBits[alg][0], zone, 256, 3)
		if err != nil {
			return
		}
		var set []dns.RR
		for x := 0; x < 20+10*t; x++ {
			set = append(set, &dns.A{Hdr: dns.RR_Header{Name: "Host." + zone, Rrtype: dns.TypeA, Class: dns.ClassINET, Ttl: uint32(100 + t)}, A: net.IPv4(192, 0, byte(t), byte(x))})
		}
		sig := &dns.RRSIG{Algorithm: alg, KeyTag: k.Key.KeyTag(), SignerName: zone, Inception: 1_700_000_000 + uint32(t), Expiration: 4_000_000_000 - uint32(j)}
		if err := sig.Sign(k.Priv, set); err != nil {
			return
		}
		ts = append(ts, triple{sig, k.Key, set})
	}
	var fails atomic.Int32
	var first atomic.Value
	var wg3 sync.WaitGroup
	for t := 0; t < 8; t++ {
		wg3.Add(1)
		go func(t int) {
			defer wg3.Done()
			defer func() { recover() }()
			for it := 0; it < 6; it++ {
				for _, tr := range []triple{ts[t%len(ts)], ts[0]} {
					if err := tr.sig.Verify(tr.key, tr.set); err != nil {
						fails.Add(1)
						first.CompareAndSwap(nil, fmt.Sprintf("%s: %v", algName(tr.sig.Algorithm), err))
					}
				}
			}
		}(t)
	}
	wg3.Wait()
	w.Count("concurrent_rrsig_verifications", 1)
	if n := fails.Load(); n > 0 {
		w.Violation(vkey, fmt.Sprintf("%d of 96 concurrent RRSIG.Verify calls on valid signatures failed (first: %v)", n, first.Load()), nil)
	}
}
