package mon

import (
	"encoding/hex"
	"fmt"
	"strings"
	"sync"
	"sync/atomic"

	"github.com/miekg/dns"

	"verifharness/core"
	"verifharness/model"
)

// concurrentSame evaluates f(0..n-1) once serially and then from 8 goroutines at once (every
// goroutine visits every index, each starting elsewhere, three rounds); f must be a function of i
// alone that builds whatever it hands to the library from immutable data. A result that differs from
// the serial one means the library's answer depends on what other goroutines are doing: package-level
// scratch buffers, pools handed back too early, caches of objects with state.
func concurrentSame(w *core.W, key string, n int, f func(i int) string) {
	call := func(i int) (s string) {
		defer func() {
			if r := recover(); r != nil {
				s = fmt.Sprintf("panic: %v", r)
			}
		}()
		return f(i)
	}
	want := make([]string, n)
	for i := range want {
		want[i] = call(i)
	}
	// a second serial pass in the opposite order: an answer that depends on what was asked before
	// (a cache keyed by too little, a pooled buffer that is not reset) shows without any concurrency
	for i := n - 1; i >= 0; i-- {
		if got := call(i); got != want[i] {
			w.Violation(strings.Replace(key, "/concurrent-use-differs/", "/repeated-call-differs/", 1), fmt.Sprintf("input %d: first call %.200q, the same call again (after %d others) %.200q", i, want[i], n, got), nil)
			return
		}
	}
	var bad atomic.Int32
	var first atomic.Value
	var wg sync.WaitGroup
	for t := 0; t < 8; t++ {
		wg.Add(1)
		go func(t int) {
			defer wg.Done()
			for round := 0; round < 3; round++ {
				for k := 0; k < n; k++ {
					i := (k + t*n/8) % n
					if got := call(i); got != want[i] {
						bad.Add(1)
						first.CompareAndSwap(nil, fmt.Sprintf("input %d: serial result %.200q, concurrent result %.200q", i, want[i], got))
					}
				}
			}
		}(t)
	}
	wg.Wait()
	w.Eval(1)
	w.Count("concurrent_same_rounds", 1)
	w.Count("concurrent_same_calls", 24*n)
	if b := bad.Load(); b > 0 {
		w.Violation(key, fmt.Sprintf("%d of %d calls made from 8 goroutines at once gave another result than the same call made alone (%v)", b, 24*n, first.Load()), nil)
	}
}

// concurrentSection returns a section that runs the pure operations a property is stated over under
// concurrentSame. The inputs are drawn from the case's PRNG stream before any goroutine starts.
func concurrentSection(prop string) section { return concurrentSectionAs(prop, prop, tiered(10, 150)) }

// concurrentSectionAs runs the operations of prop and reports under keyProp (C16 runs them all under
// the race detector).
func concurrentSectionAs(prop, keyProp string, n func(string) int) section {
	return section{"concurrent-use-" + prop, n, func(w *core.W, j int) {
		registerPrivate()
		g := model.NewGen(w.Rng(j))
		g.NoHuge = true
		g.MaxOpaque = 60
		ls := c01Layouts()
		const n = 24
		var wires [][]byte
		var rrWires [][]byte
		var names []string
		for len(wires) < n {
			g.MakePool(3)
			m := genMsg(g, ls, 4)
			if b := m.WireCompressed(false); len(b) < 20000 {
				wires = append(wires, b)
			}
			r := g.Rec(ls[g.R.IntN(len(ls))])
			if c01Class(r, nil) == "" {
				rrWires = append(rrWires, r.Wire())
			} else {
				rrWires = append(rrWires, (&model.Rec{Owner: g.Name(), Type: 1, Class: 1, TTL: 1, L: model.Layouts[1], Vals: []any{[]byte{1, 2, 3, 4}}}).Wire())
			}
			names = append(names, g.Name().Pres())
		}
		key := keyProp + "/concurrent-use-differs/"
		switch prop {
		case "C01", "C04", "C08":
			concurrentSame(w, key+"Unpack-Len-Pack", n, func(i int) string {
				m := new(dns.Msg)
				if err := m.Unpack(wires[i]); err != nil {
					return "unpack: " + err.Error()
				}
				l0 := m.Len()
				b0, e0 := m.Pack()
				m.Compress = true
				l1 := m.Len()
				b1, e1 := m.Pack()
				return fmt.Sprintf("%d %v %x | %d %v %x", l0, e0, b0, l1, e1, b1)
			})
		case "C02":
			concurrentSame(w, key+"decoders", n, func(i int) string {
				b := append([]byte(nil), wires[i]...)
				if len(b) > 20 {
					b[12+i%8] ^= byte(1 << (i % 8)) // hostile variants too
					b = b[:len(b)-i%7]
				}
				m := new(dns.Msg)
				err := m.Unpack(b)
				rr, off, e2 := dns.UnpackRR(rrWires[i], 0)
				s := ""
				if rr != nil {
					s = rr.String()
				}
				return fmt.Sprintf("%v %s | %s %d %v", err, m.String(), s, off, e2)
			})
		case "C03", "C19":
			concurrentSame(w, key+"names", n, func(i int) string {
				buf := make([]byte, 300)
				off, err := dns.PackDomainName(names[i], buf, 0, nil, false)
				back, _, e2 := dns.UnpackDomainName(buf[:off], 0)
				_, ok := dns.IsDomainName(names[i])
				return fmt.Sprintf("%x %v %s %v %v %s %v %v %d", buf[:off], err, back, e2, ok, dns.CanonicalName(names[i]), dns.SplitDomainName(names[i]), dns.Split(names[i]), dns.CompareDomainName(names[i], names[(i+1)%n]))
			})
		case "C05", "C06", "C07":
			concurrentSame(w, key+"String-parse", n, func(i int) string {
				rr, _, err := dns.UnpackRR(rrWires[i], 0)
				if err != nil || rr == nil {
					return fmt.Sprint(err)
				}
				text := rr.String()
				var sb strings.Builder
				zp := dns.NewZoneParser(strings.NewReader("$ORIGIN example.\n$TTL 300\n"+text+"\nrel IN A 192.0.2.1\n$GENERATE 1-3 g$ A 192.0.2.$\n"), "", "")
				for x, ok := zp.Next(); ok; x, ok = zp.Next() {
					b, _ := packRR(x)
					sb.WriteString(hex.EncodeToString(b))
					sb.WriteByte(' ')
				}
				return fmt.Sprintf("%s | %s | %v", text, sb.String(), zp.Err())
			})
		case "C09":
			concurrentSame(w, key+"Truncate", n, func(i int) string {
				m := new(dns.Msg)
				if err := m.Unpack(wires[i]); err != nil {
					return err.Error()
				}
				m.Response = true
				m.Truncate(64 + 37*i)
				b, err := m.Pack()
				return fmt.Sprintf("%x %v %v", b, err, m.Truncated)
			})
		case "C17":
			concurrentSame(w, key+"KeyTag-ToDS-HashName", n, func(i int) string {
				k := &dns.DNSKEY{Hdr: dns.RR_Header{Name: names[i], Rrtype: dns.TypeDNSKEY, Class: 1}, Flags: 256 + uint16(i%2), Protocol: 3, Algorithm: uint8(8 + i%8),
					PublicKey: hexToB64(wires[i][:12+(i*7)%len(wires[i][12:])])}
				ds1, ds2, ds4 := k.ToDS(1), k.ToDS(2), k.ToDS(4)
				return fmt.Sprintf("%d %v %v %v %s", k.KeyTag(), ds1, ds2, ds4, dns.HashName(names[i], dns.SHA1, uint16(i), hex.EncodeToString(wires[i][:i%9])))
			})
		case "C20":
			concurrentSame(w, key+"IsDuplicate-Dedup", n, func(i int) string {
				a, _, e1 := dns.UnpackRR(rrWires[i], 0)
				b, _, e2 := dns.UnpackRR(rrWires[(i+1)%n], 0)
				c, _, _ := dns.UnpackRR(rrWires[i], 0)
				if e1 != nil || e2 != nil || a == nil || b == nil || c == nil {
					return "unpack"
				}
				c.Header().Ttl = 7
				out := dns.Dedup([]dns.RR{a, b, c}, nil)
				return fmt.Sprintf("%v %v %v %d %d", dns.IsDuplicate(a, b), dns.IsDuplicate(a, c), dns.IsDuplicate(a, a), len(out), out[0].Header().Ttl)
			})
		}
	}}
}

func hexToB64(b []byte) string {
	const tbl = "ABCDEFGHIJKLMNOPQRSTUVWXYZabcdefghijklmnopqrstuvwxyz0123456789+/"
	var sb strings.Builder
	b = append([]byte(nil), b...) // the caller's octets are shared between goroutines
	for len(b)%3 != 0 {
		b = append(b, 0)
	}
	for i := 0; i < len(b); i += 3 {
		v := uint(b[i])<<16 | uint(b[i+1])<<8 | uint(b[i+2])
		sb.WriteByte(tbl[v>>18&63])
		sb.WriteByte(tbl[v>>12&63])
		sb.WriteByte(tbl[v>>6&63])
		sb.WriteByte(tbl[v&63])
	}
	return sb.String()
}
