package mon

import (
	"github.com/miekg/dns"

	"verifharness/sched"
)

func init() {
	// Installed once, before any server goroutine exists; scenarios switch controllers atomically.
	dns.VerifHook = sched.Dispatch
}
