package mon

import (
	"bytes"
	"fmt"
	"strings"

	"github.com/miekg/dns"

	"verifharness/core"
	"verifharness/model"
)

// fqdnShape: the text ends in a dot that is preceded by an even number of backslashes.
func fqdnShape(s string) bool {
	if len(s) == 0 || s[len(s)-1] != '.' {
		return false
	}
	k := 0
	for i := len(s) - 2; i >= 0 && s[i] == '\\'; i-- {
		k++
	}
	return k%2 == 0
}

func packName(s string) ([]byte, error) {
	// a buffer that has been used before: every octet the name occupies has to be written, the final
	// zero octet included
	buf := bytes.Repeat([]byte{0x3F}, 600)
	off, err := dns.PackDomainName(s, buf, 0, nil, false)
	if err != nil {
		return nil, err
	}
	return buf[:off], nil
}

// c03Compressed packs the name with compression enabled right after its own parent (the name
// without its first label) has been packed into the same buffer, so that the packer takes its
// pointer path: the verdict must still be "valid", and the octets must decode to the same labels.
func c03Compressed(w *core.W, s string, n model.Name, valid bool, kind string, wit map[string]any) {
	if len(n) < 2 {
		return
	}
	tail := n[1:].Pres()
	buf := make([]byte, 1400)
	cm := map[string]int{}
	var off1, off2, off3 int
	var err1, err2, err3 error
	if w.Guard("PackDomainName(compress)", wit, func() {
		// the parent stands where a message's first name stands, at the very start of a bare buffer
		// (PackDomainName and PackRR are exported: offset 0 is a target like any other) or somewhere else
		start := []int{12, 0, 1, 300}[(len(s)+len(n))%4]
		w.Cover("compressed_pack_start_offset", fmt.Sprint(start))
		off1, err1 = dns.PackDomainName(tail, buf, start, cm, true)
		if err1 == nil {
			off2, err2 = dns.PackDomainName(s, buf, off1, cm, true)
		}
		if err1 == nil && err2 == nil {
			off3, err3 = dns.PackDomainName(s, buf, off2, cm, true) // once more: a pointer to the whole name
		}
	}) {
		return
	}
	if err1 != nil {
		return // the parent alone is not packable: judged on its own elsewhere
	}
	w.Count("compressed_packs", 1)
	if (err2 == nil) != valid {
		w.Violation(fmt.Sprintf("C03/PackDomainName-compressed-%v-model-%v/%s", err2 == nil, valid, c03Why(n, nil)), fmt.Sprintf("PackDomainName(%q) with compression after its parent %q: err=%v but the name is valid=%v (wire length %d, labels %v)", s, tail, err2, valid, n.WireLen(), labelLens(n)), wit)
		return
	}
	if err2 != nil {
		return
	}
	got, _, ptrs, derr := model.DecodeName(buf[:off2], off1)
	if derr != nil || !got.Equal(n) {
		w.Violation("C03/compressed-pack-octets/"+kind, fmt.Sprintf("PackDomainName(%q) with compression produced %s which decodes to %v (err %v)", s, hx(buf[off1:off2]), got, derr), wit)
	}
	if len(ptrs) > 0 {
		w.Count("compressed_packs_with_pointer", 1)
	}
	if err3 != nil {
		w.Violation("C03/compressed-pack-octets/"+kind, fmt.Sprintf("PackDomainName(%q) with compression, a second time into the same buffer: %v", s, err3), wit)
		return
	}
	if got, _, _, derr := model.DecodeName(buf[:off3], off2); derr != nil || !got.Equal(n) {
		w.Violation("C03/compressed-pack-octets/"+kind, fmt.Sprintf("PackDomainName(%q) with compression, a second time into the same buffer, produced %s which decodes to %v (err %v)", s, hx(buf[off2:off3]), got, derr), wit)
	}
}

// c03Text judges the library's treatment of one presentation string against the model.
func c03Text(w *core.W, s string, kind string) {
	w.Eval(1)
	wit := map[string]any{"text": s, "kind": kind}
	n, _, perr := model.ParsePres(s)
	var ok bool
	var wire []byte
	var err error
	if w.Guard("IsDomainName", wit, func() { _, ok = dns.IsDomainName(s) }) {
		return
	}
	if w.Guard("PackDomainName", wit, func() { wire, err = packName(s) }) {
		return
	}
	if s == "" || perr == model.ErrBadDDD {
		// not a name / a spelling outside the library's presentation form (\256..\999): what such a
		// spelling denotes is not defined, but the two judges of the statement still have to agree
		if s != "" && fqdnShape(s) && ok != (err == nil) {
			w.Violation("C03/IsDomainName-and-PackDomainName-disagree/"+kind, fmt.Sprintf("IsDomainName(%q)=%v, PackDomainName: %v", s, ok, err), wit)
		}
		return
	}
	if !fqdnShape(s) {
		if err == nil {
			w.Violation("C03/packer-accepts-non-fqdn/"+kind, fmt.Sprintf("PackDomainName(%q) accepted a name that is not fully qualified and produced %s", s, hx(wire)), wit)
		}
		return
	}
	w.NontrivialStr(s)
	valid := perr == nil && n.Valid()
	if ok != valid {
		w.Violation(fmt.Sprintf("C03/IsDomainName-%v-model-%v/%s", ok, valid, c03Why(n, perr)), fmt.Sprintf("IsDomainName(%q)=%v but the name is valid=%v (wire length %d, labels %v, parse error %v)", s, ok, valid, n.WireLen(), labelLens(n), perr), wit)
	}
	if (err == nil) != valid {
		w.Violation(fmt.Sprintf("C03/PackDomainName-%v-model-%v/%s", err == nil, valid, c03Why(n, perr)), fmt.Sprintf("PackDomainName(%q) err=%v but the name is valid=%v (wire length %d, labels %v, parse error %v)", s, err, valid, n.WireLen(), labelLens(n), perr), wit)
	}
	if valid && err == nil && !bytes.Equal(wire, n.Wire()) {
		w.Violation("C03/pack-octets/"+kind, fmt.Sprintf("PackDomainName(%q)\n got  %s\n want %s", s, hx(wire), hx(n.Wire())), wit)
	}
	if perr == nil {
		c03Compressed(w, s, n, valid, kind, wit)
	}
	if w.WantSample() && valid {
		w.Sample(map[string]any{"text": s, "wire": hx(n.Wire()), "kind": kind})
	}
}

func labelLens(n model.Name) []int {
	var ls []int
	for _, l := range n {
		ls = append(ls, len(l))
	}
	return ls
}

// c03Why classifies why a name is (in)valid, for stable keys.
func c03Why(n model.Name, perr error) string {
	if perr != nil {
		return strings.ReplaceAll(perr.Error(), " ", "-")
	}
	for _, l := range n {
		if len(l) > 63 {
			return "label-over-63"
		}
	}
	if n.WireLen() > 255 {
		return fmt.Sprintf("wire-length-%d", n.WireLen())
	}
	return "valid"
}

// c03Wire judges the decoding and re-encoding of one valid wire name.
func c03Wire(w *core.W, n model.Name, kind string) {
	w.Eval(1)
	wire := n.Wire()
	wit := map[string]any{"wire": hx(wire), "kind": kind}
	var s string
	var off int
	var err error
	// the name is followed by other octets: the decoder must stop at the root label
	msg := append(append([]byte{}, wire...), 0xC0, 0x00, 0xFF)
	if w.Guard("UnpackDomainName", wit, func() { s, off, err = dns.UnpackDomainName(msg, 0) }) {
		return
	}
	if !n.Valid() {
		if err == nil {
			w.Violation("C03/unpacker-accepts/"+c03Why(n, nil), fmt.Sprintf("UnpackDomainName accepted a name of %d wire octets (labels %v)", n.WireLen(), labelLens(n)), wit)
		}
		return
	}
	w.Nontrivial(wire)
	if err != nil {
		w.Violation("C03/unpack-error/"+kind, fmt.Sprintf("UnpackDomainName rejected a valid name (%d octets): %v", len(wire), err), wit)
		return
	}
	if off != len(wire) {
		w.Violation("C03/unpack-offset/"+kind, fmt.Sprintf("offset %d, want %d", off, len(wire)), wit)
	}
	if s != n.Pres() {
		w.Violation("C03/unpack-text/"+kind, fmt.Sprintf("UnpackDomainName gave %q, canonical presentation is %q", s, n.Pres()), wit)
	}
	// the same name reached through the pointer that follows it in the buffer, and the root reached
	// through a pointer to the octet that ends the name: a name made of pointers alone is a name
	if len(wire) < 16000 {
		var s2, s3 string
		var o2, o3 int
		var e2, e3 error
		m2 := append(append([]byte{}, wire...), 0xC0, 0x00, 0xC0|byte((len(wire)-1)>>8), byte(len(wire)-1), 0xFF)
		if w.Guard("UnpackDomainName(pointer)", wit, func() {
			s2, o2, e2 = dns.UnpackDomainName(m2, len(wire))
			s3, o3, e3 = dns.UnpackDomainName(m2, len(wire)+2)
		}) {
			return
		}
		w.Count("names_read_through_a_pointer", 1)
		if e2 != nil || s2 != s || o2 != len(wire)+2 {
			w.Violation("C03/unpack-through-pointer/"+kind, fmt.Sprintf("read through a pointer to its start the name is %q (offset %d, err %v), read directly %q", s2, o2, e2, s), wit)
		}
		if e3 != nil || s3 != "." || o3 != len(wire)+4 {
			w.Violation("C03/unpack-through-pointer/root", fmt.Sprintf("a pointer to the zero octet that ends a name is read as %q (offset %d, err %v), want the root \".\"", s3, o3, e3), wit)
		}
	}
	// the library must accept what it emitted, and get the same octets back
	back, perr := packName(s)
	if perr != nil {
		w.Violation("C03/emitted-name-rejected-by-packer/"+kind, fmt.Sprintf("PackDomainName(%q) (text the library itself produced): %v", s, perr), wit)
	} else if !bytes.Equal(back, wire) {
		w.Violation("C03/roundtrip-octets/"+kind, fmt.Sprintf("wire→text→wire changed the octets: text %q\n got  %s\n want %s", s, hx(back), hx(wire)), wit)
	}
	if _, ok := dns.IsDomainName(s); !ok {
		w.Violation("C03/emitted-name-rejected-by-IsDomainName/"+kind, fmt.Sprintf("IsDomainName(%q) is false for text the library itself produced from a valid wire name of %d octets", s, len(wire)), wit)
	}
	c03Compressed(w, s, n, true, kind, wit)
	// the independent parser must read the library's text as the same name (unambiguous escaping)
	if n2, fq, e := model.ParsePres(s); e != nil || !fq || !n2.Equal(n) {
		w.Violation("C03/escaping-ambiguous/"+kind, fmt.Sprintf("text %q does not denote the original labels (independent reader: %v fqdn=%v err=%v)", s, n2, fq, e), wit)
	}
	if w.WantSample() {
		w.Sample(map[string]any{"wire": hx(wire), "text": s, "kind": kind})
	}
}

// nameWithLens builds a name with the given label lengths; content cycles through fill.
func nameWithLens(lens []int, fill func(i int) byte) model.Name {
	var n model.Name
	k := 0
	for _, l := range lens {
		b := make([]byte, l)
		for i := range b {
			b[i] = fill(k)
			k++
		}
		n = append(n, b)
	}
	return n
}

// c03Shapes: exhaustive over total wire length 240..260 x first-label length {1,2,31,60..66} x
// 3 fill patterns; both the wire direction (valid ones) and the text direction (all).
func c03Shapes(w *core.W, j int) {
	firsts := []int{1, 2, 31, 60, 61, 62, 63, 64, 65, 66}
	W := 240 + j // total wire length including root
	for _, first := range firsts {
		for _, tail := range []int{63, 62, 1, 7} {
			// labels: first, then as many `tail`-sized labels as fit, then a remainder label
			rem := W - 1 - (1 + first)
			if rem < 0 {
				continue
			}
			lens := []int{first}
			for rem > 0 {
				l := tail
				if rem-1 < l {
					l = rem - 1
				}
				if l == 0 { // a single octet left cannot hold a label: grow the previous one
					lens[len(lens)-1]++
					rem--
					continue
				}
				lens = append(lens, l)
				rem -= 1 + l
			}
			for fi, fill := range []func(int) byte{
				func(int) byte { return 'a' },
				func(i int) byte { return "aB3-_zQ"[i%7] },
				func(i int) byte { return []byte{'.', 'x', '\\', 0, 200, ' ', 'y', '"'}[i%8] },
				func(i int) byte { return byte(1 + i%31) },     // every octet printed as \DDD: the longest possible text
				func(i int) byte { return byte(0x7f + i%129) }, // likewise, high half
			} {
				n := nameWithLens(lens, fill)
				if n.WireLen() != W {
					continue
				}
				w.Count("shapes", 1)
				over63 := false
				for _, l := range lens {
					if l > 63 {
						over63 = true
					}
				}
				if !over63 {
					c03Wire(w, n, fmt.Sprintf("shape-fill%d", fi))
				}
				c03Text(w, n.Pres(), fmt.Sprintf("shape-fill%d", fi))
				// and the same name with the order of labels reversed (long label last)
				var rev model.Name
				for i := len(n) - 1; i >= 0; i-- {
					rev = append(rev, n[i])
				}
				if !over63 {
					c03Wire(w, rev, fmt.Sprintf("shape-rev-fill%d", fi))
				}
				c03Text(w, rev.Pres(), fmt.Sprintf("shape-rev-fill%d", fi))
			}
		}
	}
}

// c03Octets: all 256 octet values x position {first, middle, last, alone} x neighbour
// {plain, dot octet, backslash octet, digit} in a label, wire→text→wire.
func c03Octets(w *core.W, j int) {
	for v := j * 32; v < j*32+32; v++ {
		b := byte(v)
		for _, nb := range []byte{'a', '.', '\\', '7', ' ', 0} {
			for pos := 0; pos < 4; pos++ {
				var lab []byte
				switch pos {
				case 0:
					lab = []byte{b, nb, 'x'}
				case 1:
					lab = []byte{'x', nb, b, nb, 'y'}
				case 2:
					lab = []byte{'x', nb, b}
				default:
					lab = []byte{b}
				}
				for _, n := range []model.Name{{lab}, {lab, []byte("example")}, {[]byte("www"), lab}, {lab, lab}} {
					w.Count("octet_positions", 1)
					c03Wire(w, n, "octets")
				}
			}
		}
	}
}

// c03Spellings: escape spellings in text: \c for every c, \DDD for 000..999, dangling
// backslash, backslash before the final dot, runs of backslashes.
func c03Spellings(w *core.W, j int) {
	ctx := []struct{ pre, post string }{{"", "."}, {"a", "."}, {"", "b."}, {"a", "b.c."}, {"", ""}, {"a", ""}, {"a.", "."}, {"a.", ".b."}}
	switch {
	case j < 8: // \c for 32 values of c per case
		for v := j * 32; v < j*32+32; v++ {
			for _, c := range ctx {
				c03Text(w, c.pre+"\\"+string([]byte{byte(v)})+c.post, "backslash-char")
				c03Text(w, c.pre+string([]byte{byte(v)})+c.post, "raw-char")
			}
		}
	case j < 18: // \DDD, 100 values per case
		for d := (j - 8) * 100; d < (j-8)*100+100; d++ {
			for _, c := range ctx {
				c03Text(w, fmt.Sprintf("%s\\%03d%s", c.pre, d, c.post), "ddd")
				c03Text(w, fmt.Sprintf("%s\\%03d7%s", c.pre, d, c.post), "ddd-digit")
			}
			c03Text(w, fmt.Sprintf("\\%02d.", d%100), "dd")
			c03Text(w, fmt.Sprintf("\\%d", d%10), "d-end")
		}
	default: // runs of backslashes
		for k := 1; k <= 6; k++ {
			bs := strings.Repeat("\\", k)
			for _, s := range []string{bs, bs + ".", "a" + bs, "a" + bs + ".", "a" + bs + ".b.", "a." + bs + ".", bs + "a.", "a" + bs + "b.", "a" + bs + "046.", "a" + bs + "0.", "www.example" + bs + ".", "a" + bs + "..", "a.." + bs, "." + bs, bs + "." + bs + "."} {
				c03Text(w, s, "backslash-run")
			}
		}
		for _, s := range []string{".", "..", "...", "a..", ".a.", "a..b.", "a.b", "a", " ", " .", "\\..", "\\.\\..", "*.", "*.a.", "a.*.", "@.", "@"} {
			c03Text(w, s, "dots")
		}
	}
}

// c03Random: random valid wire names and random texts over a hostile alphabet.
func c03Random(w *core.W, j int) {
	g := model.NewGen(w.Rng(j))
	for k := 0; k < 60; k++ {
		n := g.FreshName()
		c03Wire(w, n, "random")
		// names just over the limits, built from the valid one
		if k%6 == 0 {
			long := g.NameOfWireLen(250 + g.R.IntN(6))
			extra := g.TextBytes(1 + g.R.IntN(8))
			c03Text(w, append(model.Name{extra}, long...).Pres(), "random-long")
			c03Wire(w, long, "random-long")
		}
	}
	alphabet := []string{"a", "B", "7", ".", "\\", "\\.", "\\\\", "\\046", "\\000", "\\255", "0", "-", " ", "\"", "@", "(", ";", "*", "\\3", "é"}
	for k := 0; k < 60; k++ {
		var sb strings.Builder
		m := 1 + g.R.IntN(12)
		for i := 0; i < m; i++ {
			sb.WriteString(alphabet[g.R.IntN(len(alphabet))])
		}
		s := sb.String()
		c03Text(w, s, "random-text")
		c03Text(w, s+".", "random-text")
	}
	// labels of 60..66 octets containing escapes in text
	for k := 0; k < 10; k++ {
		l := 60 + g.R.IntN(7)
		lab := g.TextBytes(l)
		n := model.Name{lab, []byte("example")}
		c03Text(w, n.Pres(), "random-label-boundary")
		// the same label spelled with \DDD for every octet
		var sb strings.Builder
		for _, b := range lab {
			fmt.Fprintf(&sb, "\\%03d", b)
		}
		c03Text(w, sb.String()+".example.", "random-label-boundary-ddd")
	}
}

func init() {
	plan, run := sections(
		section{"shapes", tiered(21, 21), c03Shapes},
		section{"octets", tiered(8, 8), c03Octets},
		section{"spellings", tiered(19, 19), c03Spellings},
		section{"random", tiered(2000, 60000), c03Random},
		concurrentSection("C03"),
	)
	core.Register(&core.Monitor{
		ID: "C03", Level: "exploration", Plan: plan, Run: run,
		Rule: "exhaustive sub-spaces (wire length 240..260 x first label 1,2,31,60..66 x tail sizes x 3 fills; 256 octets x 4 positions x 6 neighbours; \\c for all c, \\DDD 000..999, backslash runs 1..6) plus seeded random names/texts; " +
			"oracle = independent RFC 1035 name model (validity, canonical presentation, presentation parser); every name also packed with compression right after its own parent (pointer path: same verdict, octets decode to the same labels); the same operations called from 8 goroutines at once give the results they give alone; non-trivial = distinct valid wire name or FQDN-shaped text",
		Assumptions: []string{"the library's presentation form is: . SP ' @ ; ( ) \" \\ backslash-escaped, <0x21/>0x7E as \\DDD", "\\DDD above 255 is outside the presentation form (no-panic only)"},
		MinObserved: []string{"shapes", "octet_positions"},
	})
}
