// Package mon holds one monitor (workload + oracle) per property.
package mon

import (
	"os"

	"verifharness/core"
)

// SELFTEST is a framework self-test monitor (not a property): with VERIF_SELFTEST=panic|fatal|hang
// it misbehaves on case 7 so that the driver's triage can be exercised.
func init() {
	core.Register(&core.Monitor{
		ID: "SELFTEST", Level: "exploration", Rule: "framework self-test", Terminates: true,
		CaseTimeout: 3e9,
		Plan:        func(string) int { return 40 },
		Run: func(w *core.W, i int) {
			w.Eval(1)
			w.NontrivialStr("case", string(rune(i)))
			if i == 7 {
				switch os.Getenv("VERIF_SELFTEST") {
				case "panic":
					var p *int
					_ = *p
				case "fatal":
					var f func(int) int
					f = func(n int) int { return f(n+1) + 1 }
					f(0)
				case "hang":
					select {}
				case "viol":
					w.Violation("selftest/viol", "planted", map[string]int{"i": i})
				}
			}
		},
	})
}
