package mon

import (
	"crypto"
	"crypto/ecdsa"
	"crypto/ed25519"
	"crypto/elliptic"
	"crypto/rand"
	"crypto/rsa"
	"encoding/base64"
	"encoding/binary"
	"fmt"
	"math/big"
	"sync"
	"verifharness/model"

	"github.com/miekg/dns"
)

// sigKey is a generated DNSSEC key pair.
type sigKey struct {
	Alg  uint8
	Bits int
	Key  *dns.DNSKEY
	Priv crypto.Signer
}

var (
	keyMu    sync.Mutex
	keyCache = map[string]*sigKey{}
)

var algBits = map[uint8][]int{
	// 4096: the largest modulus the library accepts; 1026 / 1031: moduli whose bit length is not a multiple
	// of 8 (signature and modulus take (bits+7)/8 octets)
	dns.RSASHA1: {1024, 1026}, dns.RSASHA1NSEC3SHA1: {1024}, dns.RSASHA256: {1024, 2048, 1031}, dns.RSASHA512: {1024, 4096},
	dns.ECDSAP256SHA256: {256}, dns.ECDSAP384SHA384: {384}, dns.ED25519: {256},
}

var allAlgs = []uint8{dns.RSASHA1, dns.RSASHA256, dns.RSASHA512, dns.ECDSAP256SHA256, dns.ECDSAP384SHA384, dns.ED25519}

// getKey returns a (per-process cached) key for alg/bits owned by name with the given flags.
// slot distinguishes several keys of the same kind.
func getKey(alg uint8, bits int, owner string, flags uint16, slot int) (*sigKey, error) {
	id := fmt.Sprintf("%d/%d/%s/%d/%d", alg, bits, owner, flags, slot)
	keyMu.Lock()
	defer keyMu.Unlock()
	if k, ok := keyCache[id]; ok {
		return k, nil
	}
	k := &dns.DNSKEY{Hdr: dns.RR_Header{Name: owner, Rrtype: dns.TypeDNSKEY, Class: dns.ClassINET, Ttl: 3600}, Flags: flags, Protocol: 3, Algorithm: alg}
	priv, err := k.Generate(bits)
	for err == nil && k.KeyTag() == 0 {
		// one random key in 65536 has tag 0, which Sign takes for "no tag set" (a recorded finding with a
		// deterministic reproduction of its own, see tagZeroKey): draw again so that runs do not differ
		priv, err = k.Generate(bits)
	}
	if err != nil {
		return nil, err
	}
	s, ok := priv.(crypto.Signer)
	if !ok {
		return nil, fmt.Errorf("generated key is not a crypto.Signer")
	}
	sk := &sigKey{Alg: alg, Bits: bits, Key: k, Priv: s}
	keyCache[id] = sk
	return sk, nil
}

// freshKey generates an uncached key.
func freshKey(alg uint8, bits int, owner string, flags uint16) (*sigKey, error) {
	k := &dns.DNSKEY{Hdr: dns.RR_Header{Name: owner, Rrtype: dns.TypeDNSKEY, Class: dns.ClassINET, Ttl: 3600}, Flags: flags, Protocol: 3, Algorithm: alg}
	priv, err := k.Generate(bits)
	for err == nil && k.KeyTag() == 0 {
		priv, err = k.Generate(bits) // see getKey
	}
	if err != nil {
		return nil, err
	}
	s, ok := priv.(crypto.Signer)
	if !ok {
		return nil, fmt.Errorf("generated key is not a crypto.Signer")
	}
	return &sigKey{Alg: alg, Bits: bits, Key: k, Priv: s}, nil
}

// shortScalarKey builds an ECDSA key whose private scalar has a leading zero octet (as about one
// generated key in 256 has), so that fixed-width export/import of the scalar is exercised.
func shortScalarKey(alg uint8, owner string, flags uint16, seed uint64) (*sigKey, error) {
	var curve elliptic.Curve
	var n int
	switch alg {
	case dns.ECDSAP256SHA256:
		curve, n = elliptic.P256(), 32
	case dns.ECDSAP384SHA384:
		curve, n = elliptic.P384(), 48
	default:
		return nil, fmt.Errorf("not an ECDSA algorithm")
	}
	d := make([]byte, n)
	x := seed*0x9E3779B97F4A7C15 + 1
	for i := 1 + int(seed%2); i < n; i++ { // one or two leading zero octets
		x ^= x << 13
		x ^= x >> 7
		x ^= x << 17
		d[i] = byte(x)
	}
	if d[n-1] == 0 {
		d[n-1] = 1
	}
	priv := new(ecdsa.PrivateKey)
	priv.Curve = curve
	priv.D = new(big.Int).SetBytes(d)
	priv.X, priv.Y = curve.ScalarBaseMult(d)
	pub := make([]byte, 2*n)
	priv.X.FillBytes(pub[:n])
	priv.Y.FillBytes(pub[n:])
	k := &dns.DNSKEY{Hdr: dns.RR_Header{Name: owner, Rrtype: dns.TypeDNSKEY, Class: dns.ClassINET, Ttl: 3600}, Flags: flags, Protocol: 3, Algorithm: alg,
		PublicKey: base64.StdEncoding.EncodeToString(pub)}
	return &sigKey{Alg: alg, Bits: n * 8, Key: k, Priv: priv}, nil
}

// doubleCarryKey returns an Ed25519 zone key whose RFC 4034 Appendix B sum needs the carry folded
// in such that (sum&0xFFFF)+(sum>>16) >= 0x10000 - about one key in 8000; found by walking
// deterministic seeds (a few thousand key derivations, well under a second), cached per process.
func doubleCarryKey(owner string, flags uint16) (*sigKey, error) {
	id := fmt.Sprintf("double-carry/%s/%d", owner, flags)
	keyMu.Lock()
	defer keyMu.Unlock()
	if k, ok := keyCache[id]; ok {
		return k, nil
	}
	seed := make([]byte, ed25519.SeedSize)
	for ctr := uint32(0); ctr < 400000; ctr++ {
		binary.BigEndian.PutUint32(seed[len(seed)-4:], ctr)
		priv := ed25519.NewKeyFromSeed(seed)
		pub := priv.Public().(ed25519.PublicKey)
		rd := model.KeyRdata(flags, 3, dns.ED25519, pub)
		var ac uint32
		for i, b := range rd {
			if i&1 == 1 {
				ac += uint32(b)
			} else {
				ac += uint32(b) << 8
			}
		}
		if (ac&0xFFFF)+(ac>>16) < 0x10000 {
			continue
		}
		k := &dns.DNSKEY{Hdr: dns.RR_Header{Name: owner, Rrtype: dns.TypeDNSKEY, Class: dns.ClassINET, Ttl: 3600}, Flags: flags, Protocol: 3, Algorithm: dns.ED25519,
			PublicKey: base64.StdEncoding.EncodeToString(pub)}
		sk := &sigKey{Alg: dns.ED25519, Bits: 256, Key: k, Priv: priv}
		keyCache[id] = sk
		return sk, nil
	}
	return nil, fmt.Errorf("no double-carry key found")
}

// tagZeroKey returns an Ed25519 key whose RFC 4034 key tag is 0 (one key in 65536; found by walking
// deterministic seeds, about a second, cached per process).
func tagZeroKey(owner string, flags uint16) (*sigKey, error) {
	id := fmt.Sprintf("tag-zero/%s/%d", owner, flags)
	keyMu.Lock()
	defer keyMu.Unlock()
	if k, ok := keyCache[id]; ok {
		return k, nil
	}
	seed := make([]byte, ed25519.SeedSize)
	seed[0] = 0x5a
	for ctr := uint32(0); ctr < 4000000; ctr++ {
		binary.BigEndian.PutUint32(seed[len(seed)-4:], ctr)
		priv := ed25519.NewKeyFromSeed(seed)
		pub := priv.Public().(ed25519.PublicKey)
		if model.KeyTag(model.KeyRdata(flags, 3, dns.ED25519, pub)) != 0 {
			continue
		}
		k := &dns.DNSKEY{Hdr: dns.RR_Header{Name: owner, Rrtype: dns.TypeDNSKEY, Class: dns.ClassINET, Ttl: 3600}, Flags: flags, Protocol: 3, Algorithm: dns.ED25519,
			PublicKey: base64.StdEncoding.EncodeToString(pub)}
		sk := &sigKey{Alg: dns.ED25519, Bits: 256, Key: k, Priv: priv}
		keyCache[id] = sk
		return sk, nil
	}
	return nil, fmt.Errorf("no key with tag 0 found")
}

// rsaExponentKey builds a 1024-bit RSA zone key with public exponent e, whose DNSKEY public key field
// states the exponent length in the one-octet form of RFC 3110 s.2 or (long) in the three-octet form
// (a zero octet followed by a 16-bit length), which a reader has to accept for any length.
func rsaExponentKey(alg uint8, owner string, flags uint16, e int, long bool) (*sigKey, error) {
	id := fmt.Sprintf("rsa-exp/%d/%s/%d/%d/%v", alg, owner, flags, e, long)
	keyMu.Lock()
	defer keyMu.Unlock()
	if k, ok := keyCache[id]; ok {
		return k, nil
	}
	for try := 0; try < 200; try++ {
		base, err := rsa.GenerateKey(rand.Reader, 1024)
		if err != nil {
			return nil, err
		}
		p, q := base.Primes[0], base.Primes[1]
		one := big.NewInt(1)
		phi := new(big.Int).Mul(new(big.Int).Sub(p, one), new(big.Int).Sub(q, one))
		E := big.NewInt(int64(e))
		d := new(big.Int).ModInverse(E, phi)
		if d == nil {
			continue
		}
		priv := &rsa.PrivateKey{PublicKey: rsa.PublicKey{N: new(big.Int).Set(base.N), E: e}, D: d, Primes: []*big.Int{p, q}}
		priv.Precompute()
		if priv.Validate() != nil {
			continue
		}
		eb := E.Bytes()
		var pub []byte
		if long {
			pub = append(pub, 0, byte(len(eb)>>8), byte(len(eb)))
		} else {
			pub = append(pub, byte(len(eb)))
		}
		pub = append(pub, eb...)
		pub = append(pub, priv.N.Bytes()...)
		k := &dns.DNSKEY{Hdr: dns.RR_Header{Name: owner, Rrtype: dns.TypeDNSKEY, Class: dns.ClassINET, Ttl: 3600}, Flags: flags, Protocol: 3, Algorithm: alg,
			PublicKey: base64.StdEncoding.EncodeToString(pub)}
		if k.KeyTag() == 0 {
			continue // see getKey
		}
		sk := &sigKey{Alg: alg, Bits: 1024, Key: k, Priv: priv}
		keyCache[id] = sk
		return sk, nil
	}
	return nil, fmt.Errorf("no RSA key with exponent %d found", e)
}
