package mon

import (
	"fmt"
	"reflect"
	"strings"

	"github.com/miekg/dns"
	"github.com/miekg/dns/dnsutil"

	"verifharness/core"
	"verifharness/model"
)

// c19Atoms: the small alphabet of the bounded-exhaustive enumeration. SEP separates labels.
var c19Atoms = [][]byte{{'a'}, {'B'}, {'7'}, nil /*SEP*/, {'\\'}, {'.'}, {0}, {'Z', 200}}

// c19NameFromIndex decodes idx (base len(atoms), given length) into labels; ok=false if a label is empty.
func c19NameFromIndex(idx, length int) (model.Name, bool) {
	var n model.Name
	var cur []byte
	for i := 0; i < length; i++ {
		a := c19Atoms[idx%len(c19Atoms)]
		idx /= len(c19Atoms)
		if a == nil {
			if len(cur) == 0 {
				return nil, false
			}
			n = append(n, cur)
			cur = nil
			continue
		}
		cur = append(cur, a...)
	}
	if len(cur) == 0 {
		return nil, false
	}
	return append(n, cur), true
}

// labelStarts returns the offsets in the canonical text at which labels start.
func labelStarts(n model.Name) []int {
	var st []int
	off := 0
	for _, l := range n {
		st = append(st, off)
		off += len(model.PresLabel(l)) + 1
	}
	return st
}

// c19Single checks the single-name helpers on n, in fully qualified and relative spelling.
func c19Single(w *core.W, n model.Name, kind string) {
	w.Eval(1)
	fq := n.Pres()
	wit := map[string]any{"name": fq, "kind": kind}
	w.NontrivialStr(fq)
	var wantLabels []string
	for _, l := range n {
		wantLabels = append(wantLabels, model.PresLabel(l))
	}
	starts := labelStarts(n)
	forms := []string{fq}
	if len(n) > 0 {
		forms = append(forms, n.PresRel())
	}
	for fi, s := range forms {
		form := []string{"fqdn", "relative"}[fi]
		w.Guard("label-helpers", wit, func() {
			if got := dns.CountLabel(s); got != len(n) {
				w.Violation("C19/CountLabel/"+form, fmt.Sprintf("CountLabel(%q)=%d, wire labels=%d", s, got, len(n)), wit)
			}
			// the label count IsDomainName reports for a valid name (the root is documented to count as 1)
			if cnt, ok := dns.IsDomainName(s); ok && len(n) > 0 && n.Valid() && cnt != len(n) {
				w.Violation("C19/IsDomainName-label-count/"+form, fmt.Sprintf("IsDomainName(%q) reports %d labels, wire labels=%d", s, cnt, len(n)), wit)
			}
			got := dns.Split(s)
			if !(len(got) == 0 && len(starts) == 0) && !reflect.DeepEqual(got, starts) {
				w.Violation("C19/Split/"+form, fmt.Sprintf("Split(%q)=%v, label starts are %v", s, got, starts), wit)
			}
			gl := dns.SplitDomainName(s)
			if !(len(gl) == 0 && len(wantLabels) == 0) && !reflect.DeepEqual(gl, wantLabels) {
				w.Violation("C19/SplitDomainName/"+form, fmt.Sprintf("SplitDomainName(%q)=%q, wire labels are %q", s, gl, wantLabels), wit)
			}
			if isfq := dns.IsFqdn(s); isfq != (fi == 0) {
				w.Violation("C19/IsFqdn/"+form, fmt.Sprintf("IsFqdn(%q)=%v", s, isfq), wit)
			}
			if f := dns.Fqdn(s); f != fq {
				w.Violation("C19/Fqdn/"+form, fmt.Sprintf("Fqdn(%q)=%q, want %q", s, f, fq), wit)
			}
			if c := dns.CanonicalName(s); c != n.Lower().Pres() {
				w.Violation("C19/CanonicalName/"+form, fmt.Sprintf("CanonicalName(%q)=%q, want %q", s, c, n.Lower().Pres()), wit)
			}
			if len(n) == 0 {
				return
			}
			// NextLabel from every offset of the text
			for off := 0; off < len(s); off++ {
				// the label containing off
				k := 0
				for k+1 < len(starts) && starts[k+1] <= off {
					k++
				}
				i, end := dns.NextLabel(s, off)
				if k+1 < len(starts) {
					if end || i != starts[k+1] {
						w.Violation("C19/NextLabel/"+form, fmt.Sprintf("NextLabel(%q,%d)=(%d,%v), next label starts at %d", s, off, i, end, starts[k+1]), wit)
						break
					}
				} else if !end {
					w.Violation("C19/NextLabel-end/"+form, fmt.Sprintf("NextLabel(%q,%d)=(%d,%v) inside the last label, want end", s, off, i, end), wit)
					break
				}
			}
			// PrevLabel for every count
			for k := 0; k <= len(n)+3; k++ {
				i, start := dns.PrevLabel(s, k)
				switch {
				case k == 0:
					if i != len(s) || start {
						w.Violation("C19/PrevLabel-0/"+form, fmt.Sprintf("PrevLabel(%q,0)=(%d,%v)", s, i, start), wit)
					}
				case k <= len(n):
					if i != starts[len(n)-k] || start {
						w.Violation("C19/PrevLabel/"+form, fmt.Sprintf("PrevLabel(%q,%d)=(%d,%v), label %d from the right starts at %d", s, k, i, start, k, starts[len(n)-k]), wit)
					}
				default:
					if !start {
						w.Violation("C19/PrevLabel-overshoot/"+form, fmt.Sprintf("PrevLabel(%q,%d)=(%d,%v), the name has only %d labels", s, k, i, start, len(n)), wit)
					}
				}
			}
		})
	}
	if w.WantSample() {
		w.Sample(map[string]any{"name": fq, "labels": wantLabels, "starts": starts})
	}
}

// c19Pair checks the two-name helpers.
func c19Pair(w *core.W, a, b model.Name, kind string) {
	w.Eval(1)
	sa, sb := a.Pres(), b.Pres()
	wit := map[string]any{"a": sa, "b": sb, "kind": kind}
	w.NontrivialStr(sa, sb)
	want := a.CommonSuffix(b)
	w.Guard("CompareDomainName", wit, func() {
		if got := dns.CompareDomainName(sa, sb); got != want {
			w.Violation("C19/CompareDomainName", fmt.Sprintf("CompareDomainName(%q,%q)=%d, shared suffix labels=%d", sa, sb, got, want), wit)
		}
		if got := dns.IsSubDomain(sa, sb); got != (want == len(a)) {
			w.Violation("C19/IsSubDomain", fmt.Sprintf("IsSubDomain(parent=%q, child=%q)=%v, shared=%d parent labels=%d", sa, sb, got, want, len(a)), wit)
		}
	})
	// the same pair with the letter case of one side inverted, and both written without the final dot
	flip := func(n model.Name) model.Name {
		o := n.Clone()
		for _, l := range o {
			for i, c := range l {
				if c >= 'a' && c <= 'z' || c >= 'A' && c <= 'Z' {
					l[i] = c ^ 0x20
				}
			}
		}
		return o
	}
	for _, v := range []struct {
		kind   string
		xa, xb string
	}{
		{"case-inverted", sa, flip(b).Pres()},
		{"relative", a.PresRel(), b.PresRel()},
		{"relative-case-inverted", flip(a).PresRel(), b.PresRel()},
		// the root against a name written without the final dot: whatever origin completes it, the name
		// lies below the root and shares no label with it (other absolute/relative mixes are not judged:
		// a relative name and an absolute one spelled alike are different names)
		{"root-and-relative", map[bool]string{true: sa}[len(a) == 0], b.PresRel()},
	} {
		if v.xa == "" || v.xb == "" {
			continue
		}
		w.Eval(1)
		wit2 := map[string]any{"a": v.xa, "b": v.xb, "kind": kind + "/" + v.kind}
		w.Guard("CompareDomainName", wit2, func() {
			if got := dns.CompareDomainName(v.xa, v.xb); got != want {
				w.Violation("C19/CompareDomainName/"+v.kind, fmt.Sprintf("CompareDomainName(%q,%q)=%d, shared suffix labels=%d", v.xa, v.xb, got, want), wit2)
			}
			if got := dns.IsSubDomain(v.xa, v.xb); got != (want == len(a)) {
				w.Violation("C19/IsSubDomain/"+v.kind, fmt.Sprintf("IsSubDomain(parent=%q, child=%q)=%v, shared=%d parent labels=%d", v.xa, v.xb, got, want, len(a)), wit2)
			}
		})
	}
}

// c19Origin checks that AddOrigin and TrimDomainName are inverse for a relative name under an origin.
func c19Origin(w *core.W, rel, origin model.Name) {
	if len(rel) == 0 || rel.WireLen()+origin.WireLen()-1 > 255 {
		return
	}
	w.Eval(1)
	r := rel.PresRel()
	full := append(rel.Clone(), origin...).Pres()
	for _, o := range []string{origin.Pres(), origin.PresRel()} {
		if o == "" {
			continue
		}
		wit := map[string]any{"rel": r, "origin": o}
		w.NontrivialStr(r, o)
		w.Guard("dnsutil", wit, func() {
			added := dnsutil.AddOrigin(r, o)
			wantAdded := full
			if o != origin.Pres() { // origin without trailing dot: result has none either
				wantAdded = full[:len(full)-1]
			}
			if added != wantAdded {
				w.Violation("C19/AddOrigin", fmt.Sprintf("AddOrigin(%q,%q)=%q, want %q", r, o, added, wantAdded), wit)
				return
			}
			if back := dnsutil.TrimDomainName(added, o); back != r {
				w.Violation("C19/TrimDomainName-inverse", fmt.Sprintf("TrimDomainName(AddOrigin(%q,%q)=%q, %q)=%q, want %q", r, o, added, o, back, r), wit)
			}
		})
	}
	// apex
	o := origin.Pres()
	if len(origin) > 0 {
		if got := dnsutil.TrimDomainName(o, o); got != "@" {
			w.Violation("C19/TrimDomainName-apex", fmt.Sprintf("TrimDomainName(%q,%q)=%q, want @", o, o, got), nil)
		}
		if got := dnsutil.AddOrigin("@", o); got != o {
			w.Violation("C19/AddOrigin-apex", fmt.Sprintf("AddOrigin(@,%q)=%q", o, got), nil)
		}
	}
}

const c19Block = 4096

func c19Space(length int) int {
	t := 1
	for i := 0; i < length; i++ {
		t *= len(c19Atoms)
	}
	return t
}

func c19MaxLen(tier string) int {
	if tier == "thorough" {
		return 7
	}
	return 6
}

func c19ExhaustiveCases(tier string) int {
	t := 0
	for l := 1; l <= c19MaxLen(tier); l++ {
		t += (c19Space(l) + c19Block - 1) / c19Block
	}
	return t
}

func c19Exhaustive(w *core.W, j int) {
	for l := 1; l <= c19MaxLen(w.Tier); l++ {
		nb := (c19Space(l) + c19Block - 1) / c19Block
		if j >= nb {
			j -= nb
			continue
		}
		for idx := j * c19Block; idx < (j+1)*c19Block && idx < c19Space(l); idx++ {
			n, ok := c19NameFromIndex(idx, l)
			if !ok {
				continue
			}
			w.Count("enumerated_names", 1)
			c19Single(w, n, "enumerated")
		}
		return
	}
}

func c19RandomName(g *model.Gen) model.Name {
	if g.R.IntN(3) == 0 {
		l := 1 + g.R.IntN(5)
		for {
			if n, ok := c19NameFromIndex(g.R.IntN(c19Space(l)), l); ok {
				return n
			}
		}
	}
	return g.Name()
}

func c19Random(w *core.W, j int) {
	g := model.NewGen(w.Rng(j))
	g.MakePool(4)
	var names []model.Name
	for k := 0; k < 40; k++ {
		n := c19RandomName(g)
		names = append(names, n)
		c19Single(w, n, "random")
	}
	for _, a := range names {
		for _, b := range names {
			c19Pair(w, a, b, "random")
		}
	}
	w.Count("pairs", len(names)*len(names))
	// the same names with their octets above 0x7F written raw (no \DDD): a name is a string of octets
	for _, n := range names {
		raw := rawHighOctets(n.Pres())
		if raw == n.Pres() {
			continue
		}
		w.Eval(1)
		w.Count("raw_8bit_names", 1)
		wit := map[string]any{"name": n.Pres(), "raw": raw}
		w.Guard("raw-8bit helpers", wit, func() {
			want := []byte(raw)
			for i, c := range want {
				if c >= 'A' && c <= 'Z' {
					want[i] = c + 32
				}
			}
			if got := dns.CanonicalName(raw); got != string(want) {
				w.Violation("C19/CanonicalName/raw-8bit", fmt.Sprintf("CanonicalName(%q)=%q, want %q (only A-Z change)", raw, got, want), wit)
			}
			if got := dns.CountLabel(raw); got != len(n) {
				w.Violation("C19/CountLabel/raw-8bit", fmt.Sprintf("CountLabel(%q)=%d, the name has %d labels", raw, got, len(n)), wit)
			}
			if got := dns.CompareDomainName(raw, n.Pres()); got != len(n) && false {
				_ = got // the escaped and the raw spelling are different strings to the label helpers; not compared
			}
			if got := dns.CompareDomainName(raw, strings.ToUpper(raw)); got != len(n) && isASCIIUpperSafe(raw) {
				w.Violation("C19/CompareDomainName/raw-8bit", fmt.Sprintf("CompareDomainName(%q, upper-cased)=%d, want %d", raw, got, len(n)), wit)
			}
		})
	}
	// labels of equal length that differ only in raw octets above 0x7F (not valid UTF-8, or UTF-8
	// letters that are case partners to Unicode): different labels, no folding applies
	for _, pr := range [][2]string{{"\xff", "\xfe"}, {"\xe9", "\xc9"}, {"\xc3\x89", "\xc3\xa9"}, {"a\xff", "a\xfe"}, {"\xce\xa3", "\xcf\x83"}, {"\xd0\x90", "\xd0\xb0"}} {
		for k, suffix := range []string{"raw.example.", "example.", ""} {
			x, y := pr[0]+"."+suffix, pr[1]+"."+suffix
			if k == 0 {
				x, y = pr[0]+suffix, pr[1]+suffix // the differing octets share a label with "raw"
			}
			want := strings.Count(suffix, ".")
			if k == 0 {
				want--
			}
			w.Eval(1)
			w.Count("raw_8bit_pairs", 1)
			wit := map[string]any{"a": x, "b": y}
			w.Guard("raw-8bit pair", wit, func() {
				if got := dns.CompareDomainName(x, y); got != want {
					w.Violation("C19/CompareDomainName/raw-8bit-pair", fmt.Sprintf("CompareDomainName(%q, %q)=%d, want %d: the first labels differ", x, y, got, want), wit)
				}
				if dns.IsSubDomain(x, y) || dns.IsSubDomain(y, x) {
					w.Violation("C19/IsSubDomain/raw-8bit-pair", fmt.Sprintf("IsSubDomain holds between %q and %q", x, y), wit)
				}
				if got := dns.CompareDomainName("sub."+x, x); got != want+1 {
					w.Violation("C19/CompareDomainName/raw-8bit-pair", fmt.Sprintf("CompareDomainName(%q, %q)=%d, want %d", "sub."+x, x, got, want+1), wit)
				}
			})
		}
	}
	// the same names with some letters written escaped (\A is the letter A): still the same wire
	// name, so the helpers count the same labels and canonical form lower-cases those letters too
	for k, n := range names {
		esc := escapeLetters(n.Pres(), uint64(j)*977+uint64(k))
		if esc == n.Pres() {
			continue
		}
		w.Eval(1)
		w.Count("escaped_letter_names", 1)
		wit := map[string]any{"name": n.Pres(), "escaped": esc}
		w.Guard("escaped-letter helpers", wit, func() {
			want := []byte(esc)
			for i, c := range want {
				if c >= 'A' && c <= 'Z' {
					want[i] = c + 32
				}
			}
			if got := dns.CanonicalName(esc); got != string(want) {
				w.Violation("C19/CanonicalName/escaped-letter", fmt.Sprintf("CanonicalName(%q)=%q, want %q", esc, got, want), wit)
			}
			if got := dns.CountLabel(esc); got != len(n) {
				w.Violation("C19/CountLabel/escaped-letter", fmt.Sprintf("CountLabel(%q)=%d, the name has %d labels", esc, got, len(n)), wit)
			}
			if got := dns.Fqdn(strings.TrimSuffix(esc, ".")); len(n) > 0 && !strings.HasSuffix(esc, "\\.") && got != esc {
				w.Violation("C19/Fqdn/escaped-letter", fmt.Sprintf("Fqdn of %q without its root dot = %q", esc, got), wit)
			}
			if got := dns.CompareDomainName(esc, string(want)); got != len(n) {
				w.Violation("C19/CompareDomainName/escaped-letter", fmt.Sprintf("CompareDomainName(%q, %q)=%d, want %d", esc, want, got, len(n)), wit)
			}
			if !dns.IsSubDomain(string(want), esc) {
				w.Violation("C19/IsSubDomain/escaped-letter", fmt.Sprintf("IsSubDomain(%q, %q)=false", want, esc), wit)
			}
		})
	}
	r := g.R
	// names over octets whose 0x20-partner is not a letter either ( @` [{ \| ]} ^~ _DEL and control
	// octets against 0x20..0x3F): a name and its partner-wise image share only the labels that are
	// free of such octets
	punct := []byte{'@', '`', '[', '{', '\\', '|', ']', '}', '^', '~', '_', 0x7f, 0x01, '!', 'a', 'Q', '5'}
	for k := 0; k < 60; k++ {
		var n model.Name
		for l := 1 + r.IntN(4); l > 0; l-- {
			lab := make([]byte, 1+r.IntN(4))
			for i := range lab {
				lab[i] = punct[r.IntN(len(punct))]
			}
			n = append(n, lab)
		}
		img := n.Clone()
		for _, lab := range img {
			for i, c := range lab {
				if !(c >= 'a' && c <= 'z' || c >= 'A' && c <= 'Z') && r.IntN(2) == 0 {
					lab[i] = c ^ 0x20
				}
			}
		}
		if img.Valid() && n.Valid() {
			c19Pair(w, n, img, "0x20-partner")
			c19Pair(w, img, n, "0x20-partner")
			w.Count("partner_pairs", 1)
		}
	}
	for k := 0; k < 40; k++ {
		c19Origin(w, names[g.R.IntN(len(names))], names[g.R.IntN(len(names))])
	}
}

// c19Pairs: all pairs within blocks of enumerated short names (related by construction).
func c19Pairs(w *core.W, j int) {
	var names []model.Name
	r := w.Rng(j)
	for len(names) < 120 {
		l := 1 + r.IntN(5)
		if n, ok := c19NameFromIndex(r.IntN(c19Space(l)), l); ok {
			names = append(names, n)
		}
	}
	names = append(names, model.Name{}) // the root: parent of everything, sub-domain of itself only
	for _, a := range names {
		for _, b := range names {
			c19Pair(w, a, b, "enumerated")
		}
	}
	w.Count("pairs", len(names)*len(names))
	for i := 0; i+1 < len(names); i += 2 {
		c19Origin(w, names[i], names[i+1])
	}
}

func init() {
	plan, run := sections(
		section{"exhaustive", c19ExhaustiveCases, c19Exhaustive},
		section{"pairs", tiered(30, 600), c19Pairs},
		section{"random", tiered(300, 8000), c19Random},
		concurrentSection("C19"),
	)
	core.Register(&core.Monitor{
		ID: "C19", Level: "exploration", Plan: plan, Run: run,
		Rule: "bounded-exhaustive: all sequences of up to 6 (quick) / 7 (thorough) atoms over {a, B, 7, label-separator, backslash octet, dot octet, NUL octet, 'Z'+0xC8} rendered in the library's canonical presentation form, " +
			"each in FQDN and relative spelling; plus random long names and all pairs within sampled blocks; oracle = the model's wire label sequence; the same operations called from 8 goroutines at once give the results they give alone; non-trivial = distinct name or ordered pair",
		Assumptions: []string{"names are given in the canonical presentation form the library itself emits"},
		MinObserved: []string{"enumerated_names", "pairs"},
	})
}

// isASCIIUpperSafe: strings.ToUpper leaves the octets above 0x7F of s alone (true when they do not
// form letters that have an upper case).
func isASCIIUpperSafe(s string) bool {
	u := strings.ToUpper(s)
	if len(u) != len(s) {
		return false
	}
	for i := 0; i < len(s); i++ {
		if s[i] >= 0x80 && u[i] != s[i] {
			return false
		}
	}
	return true
}
