package mon

import (
	"encoding/base64"
	"context"
	"crypto/tls"
	"bytes"
	"crypto/sha256"
	"encoding/binary"
	"encoding/hex"
	"errors"
	"fmt"
	"io"
	"net"
	"os"
	"path/filepath"
	"strings"
	"sync"
	"sync/atomic"
	"time"
	"verifharness/model"

	"github.com/miekg/dns"

	"verifharness/core"
	"verifharness/netsim"
	"verifharness/sched"
)

// sizedMsg builds a message whose uncompressed packed size is exactly size (12, 17.., see below).
func sizedMsg(size int, id uint16, fill byte) *dns.Msg {
	m := new(dns.Msg)
	m.Id = id
	switch {
	case size <= 12:
		return m
	case size < 30:
		if size < 17 {
			size = 17
		}
		// question only: 12 + (l+2) + 4 for one label of l octets; 17 is the root name, 18 does not exist
		l := size - 18
		if l < 1 {
			m.Question = []dns.Question{{Name: ".", Qtype: 1, Qclass: 1}} // 17
			return m
		}
		m.Question = []dns.Question{{Name: strings.Repeat("a", l) + ".", Qtype: 1, Qclass: 1}}
		return m
	}
	m.Question = []dns.Question{{Name: "q.", Qtype: 10, Qclass: 1}}
	rd := bytes.Repeat([]byte{fill}, size-30)
	for i := range rd {
		rd[i] = fill + byte(i*7)
	}
	m.Extra = []dns.RR{&dns.NULL{Hdr: dns.RR_Header{Name: ".", Rrtype: dns.TypeNULL, Class: 1}, Data: string(rd)}}
	return m
}

var c12Sizes = []int{12, 17, 19, 29, 30, 31, 255, 256, 257, 511, 512, 513, 16383, 16384, 16385, 65534, 65535}

func frame(b []byte) []byte {
	out := make([]byte, 2+len(b))
	binary.BigEndian.PutUint16(out, uint16(len(b)))
	copy(out[2:], b)
	return out
}

// readWithin runs f and reports whether it finished within d (watchdog; a miss is a hang).
func within(d time.Duration, f func()) bool {
	done := make(chan struct{})
	go func() { defer close(done); f() }()
	select {
	case <-done:
		return true
	case <-time.After(d):
		return false
	}
}

const c12Watch = 20 * time.Second

// c12WriteFraming: what Conn.WriteMsg puts on a stream is exactly len16 || msg.
func c12WriteFraming(w *core.W, j int) {
	size := c12Sizes[j%len(c12Sizes)]
	m := sizedMsg(size, uint16(j), byte(j))
	want, err := m.Pack()
	if err != nil {
		w.Inconclusive("sizedMsg-pack:" + err.Error())
		return
	}
	if len(want) != size {
		w.Inconclusive(fmt.Sprintf("sizedMsg(%d) packed to %d", size, len(want)))
		return
	}
	cl, sv := netsim.StreamPair()
	co := &dns.Conn{Conn: cl}
	w.Eval(1)
	w.Cover("write_size", fmt.Sprint(size))
	if err := co.WriteMsg(m); err != nil {
		w.Violation("C12/write-error", fmt.Sprintf("Conn.WriteMsg of a %d-octet message failed: %v", size, err), map[string]any{"size": size})
		return
	}
	cl.Close()
	got, _ := io.ReadAll(sv)
	if !bytes.Equal(got, frame(want)) {
		w.Violation("C12/write-framing", fmt.Sprintf("stream carries %d octets for a %d-octet message; first octets %x, want %x", len(got), len(want), head(got, 8), head(frame(want), 8)), map[string]any{"size": size})
	}
	w.NontrivialStr("write", fmt.Sprint(size))
	// several messages of growing and shrinking sizes on the same Conn: the stream is exactly the
	// concatenation of their frames (nothing of an earlier, longer message may follow a shorter one)
	{
		r := w.Rng(j, 7)
		cl3, sv3 := netsim.StreamPair()
		co3 := &dns.Conn{Conn: cl3}
		var wantStream []byte
		var sizes []int
		for k := 0; k < 6; k++ {
			sz := []int{size, 19 + r.IntN(60), 19 + r.IntN(3000), size / 2, 30, size}[k]
			if sz < 19 {
				sz = 19
			}
			mk := sizedMsg(sz, uint16(j*8+k), byte(k))
			b, err := mk.Pack()
			if err != nil {
				continue
			}
			if k%2 == 0 {
				err = co3.WriteMsg(mk)
			} else {
				_, err = co3.Write(b)
			}
			if err != nil {
				w.Violation("C12/write-error", fmt.Sprintf("message %d (%d octets) on a reused Conn: %v", k, len(b), err), map[string]any{"size": size})
				break
			}
			wantStream = append(wantStream, frame(b)...)
			sizes = append(sizes, len(b))
		}
		cl3.Close()
		got3, _ := io.ReadAll(sv3)
		w.Eval(1)
		w.Count("write_sequences", 1)
		if !bytes.Equal(got3, wantStream) {
			w.Violation("C12/write-framing-sequence", fmt.Sprintf("messages of %v octets written on one Conn put %d octets on the stream, want %d; first difference at %d", sizes, len(got3), len(wantStream), firstDiff(got3, wantStream)), map[string]any{"sizes": sizes})
		}
	}
	// oversize writes are refused with nothing on the wire
	for _, over := range []int{65536, 65537, 70000} {
		cl2, sv2 := netsim.StreamPair()
		co2 := &dns.Conn{Conn: cl2}
		n, err := co2.Write(make([]byte, over))
		cl2.Close()
		rest, _ := io.ReadAll(sv2)
		w.Eval(1)
		if err == nil || n != 0 || len(rest) != 0 {
			w.Violation("C12/oversize-write-not-refused/Conn.Write", fmt.Sprintf("Conn.Write of %d octets: n=%d err=%v, %d octets reached the wire", over, n, err, len(rest)), nil)
		}
	}
}

func head(b []byte, n int) []byte {
	if len(b) < n {
		return b
	}
	return b[:n]
}

// splitPlans returns read plans for a frame of n octets: every single split point, one octet
// at a time (short frames), and seeded random multi-splits.
func splitPlans(w *core.W, j, n int) [][]int {
	var plans [][]int
	if n <= 400 {
		for s := 1; s < n; s++ {
			plans = append(plans, []int{s, n - s})
		}
		ones := make([]int, n)
		for i := range ones {
			ones[i] = 1
		}
		plans = append(plans, ones)
	} else {
		for _, s := range []int{1, 2, 3, 13, 14, 15, n / 2, n - 2, n - 1} {
			plans = append(plans, []int{s, n - s})
		}
		plans = append(plans, []int{1, 1, 1, n - 3})
	}
	// segments that carry the end of this frame together with the beginning (or all) of the next
	// message: the peer has 14 more octets queued behind the frame
	plans = append(plans, []int{n + 14}, []int{n + 1}, []int{n + 2}, []int{n + 3}, []int{1, n + 5}, []int{2, n + 12}, []int{n - 1, 9})
	r := w.Rng(j, n)
	for k := 0; k < 6; k++ {
		var p []int
		left := n
		for left > 0 {
			c := 1 + r.IntN(left)
			if r.IntN(3) == 0 && left > 3 {
				c = 1 + r.IntN(3)
			}
			p = append(p, c)
			left -= c
		}
		plans = append(plans, p)
	}
	return plans
}

// c12ReadFraming: Conn.ReadMsg yields the identical message however the stream is split, and
// an error (not a shorter message, not a hang) when the stream ends or fails at any offset.
func c12ReadFraming(w *core.W, j int) {
	sizes := []int{12, 17, 29, 30, 45, 255, 256, 257, 300, 511, 512, 513, 16383, 16384, 16385, 65534, 65535}
	size := sizes[j%len(sizes)]
	if j >= len(sizes) {
		size = 30 + w.Rng(j).IntN(2000)
	}
	m := sizedMsg(size, uint16(j+1), byte(j))
	want, _ := m.Pack()
	fr := frame(want)
	w.Cover("read_size", fmt.Sprint(len(want)))
	fails := 0
	for _, plan := range splitPlans(w, j, len(fr)) {
		if fails >= 2 {
			break // the remaining plans would only repeat the same finding, each at watchdog cost
		}
		cl, sv := netsim.StreamPair()
		sv.Write(fr)
		sv.Write(frame(want[:12])) // a following message must not be merged in
		cl.SetReadPlan(plan)
		co := &dns.Conn{Conn: cl}
		var got *dns.Msg
		var err error
		w.Eval(1)
		w.Count("split_plans", 1)
		if !within(c12Watch, func() { got, err = co.ReadMsg() }) {
			w.Violation("C12/read-hang", fmt.Sprintf("Conn.ReadMsg did not return for a complete %d-octet frame split as %v", len(fr), planHead(plan)), map[string]any{"size": size})
			fails++
			continue
		}
		if err != nil {
			w.Violation("C12/read-split-error", fmt.Sprintf("Conn.ReadMsg failed on a complete frame (%d octets) split as %v: %v", len(fr), planHead(plan), err), map[string]any{"size": size, "plan": planHead(plan)})
			continue
		}
		back, _ := got.Pack()
		if !bytes.Equal(back, want) {
			w.Violation("C12/read-split-mangled", fmt.Sprintf("message read from a stream split as %v differs from the one sent (got %d octets, want %d)", planHead(plan), len(back), len(want)), map[string]any{"size": size, "plan": planHead(plan)})
		}
		// the message that follows on the same stream (already written by the peer, possibly delivered
		// in the same segment) is the next thing read: nothing of it was consumed or dropped
		var got2 *dns.Msg
		if !within(c12Watch, func() { got2, err = co.ReadMsg() }) {
			w.Violation("C12/following-message-lost", fmt.Sprintf("after reading a %d-octet frame split as %v, the next message on the stream is never delivered (ReadMsg blocks)", len(fr), planHead(plan)), map[string]any{"size": size})
			fails++
			continue
		}
		if err != nil || got2 == nil || got2.Id != m.Id {
			w.Violation("C12/following-message-mangled", fmt.Sprintf("after a %d-octet frame split as %v, reading the following header-only message gave %v / err=%v", len(fr), planHead(plan), got2, err), map[string]any{"size": size, "plan": planHead(plan)})
		}
		w.Count("following_messages_read", 1)
		w.NontrivialStr("read", fmt.Sprint(size), fmt.Sprint(planHead(plan)))
	}
	// a frame too short to be a message (0..11 octets behind the length prefix) is an error for the read
	// that meets it - and only for that one: the stream stays delimited, the message behind it is read whole
	if j%3 == 0 {
		for _, rl := range []int{0, 1, 2, 3, 11, j % 12} {
			cl, sv := netsim.StreamPair()
			runt := bytes.Repeat([]byte{0xEE}, rl)
			if rl >= 2 {
				binary.BigEndian.PutUint16(runt, uint16(len(want))) // what a desynchronised reader would take for a length
			}
			sv.Write(append(frame(runt), fr...))
			co := &dns.Conn{Conn: cl}
			var e1, e2 error
			var g2 *dns.Msg
			w.Eval(1)
			w.Count("runt_frames", 1)
			if !within(c12Watch, func() { _, e1 = co.ReadMsg(); g2, e2 = co.ReadMsg() }) {
				w.Violation("C12/read-hang/after-runt-frame", fmt.Sprintf("a %d-octet frame followed by a %d-octet message: the two reads do not return", rl, len(want)), map[string]any{"size": size})
				fails++
				break
			}
			if e1 == nil {
				w.Violation("C12/runt-frame-accepted", fmt.Sprintf("a frame of %d octets was returned as a message", rl), map[string]any{"size": size})
			}
			var back2 []byte
			if g2 != nil {
				back2, _ = g2.Pack()
			}
			if e2 != nil || !bytes.Equal(back2, want) {
				w.Violation("C12/following-message-mangled/after-runt-frame", fmt.Sprintf("after a frame of %d octets the next message (%d octets) on the stream reads as err=%v, %d octets", rl, len(want), e2, len(back2)), map[string]any{"size": size, "runt": rl})
			}
		}
	}
	// Conn.Read (the call zone transfers read envelopes with): a caller buffer of exactly the message's
	// size, one more and 65535 must receive the whole message; one octet less must be refused
	for _, bl := range []int{len(want), len(want) + 1, 65535, len(want) - 1} {
		if bl < 0 || bl > 65535 {
			continue
		}
		cl, sv := netsim.StreamPair()
		sv.Write(fr)
		co := &dns.Conn{Conn: cl}
		buf := make([]byte, bl)
		var n int
		var err error
		w.Eval(1)
		w.Count("conn_read_calls", 1)
		if !within(c12Watch, func() { n, err = co.Read(buf) }) {
			w.Violation("C12/conn-read-hang", fmt.Sprintf("Conn.Read with a %d-octet buffer does not return for a %d-octet message", bl, len(want)), map[string]any{"size": size})
			fails++
			break
		}
		if bl >= len(want) {
			if err != nil || n != len(want) || !bytes.Equal(buf[:n], want) {
				w.Violation("C12/conn-read-exact-buffer", fmt.Sprintf("Conn.Read into a %d-octet buffer for a %d-octet message: n=%d err=%v", bl, len(want), n, err), map[string]any{"size": size, "buffer": bl})
			}
		} else if err == nil {
			w.Violation("C12/conn-read-short-buffer-accepted", fmt.Sprintf("Conn.Read into a %d-octet buffer for a %d-octet message returned n=%d and no error", bl, len(want), n), map[string]any{"size": size, "buffer": bl})
		}
	}
	// early EOF / error at every offset (short frames), sampled for long ones
	var offs []int
	if len(fr) <= 400 {
		for o := 0; o < len(fr); o++ {
			offs = append(offs, o)
		}
	} else {
		offs = []int{0, 1, 2, 3, 13, 14, len(fr) / 2, len(fr) - 2, len(fr) - 1}
		// and wherever what has arrived so far is a well-formed shorter message
		for i, o := range msgBoundaries(fr[2:]) {
			if i < 12 && o+2 < len(fr) {
				offs = append(offs, o+2)
			}
		}
	}
	for _, o := range offs {
		if fails >= 2 {
			break
		}
		for _, ferr := range []error{io.EOF, netsim.ErrInjected} {
			cl, sv := netsim.StreamPair()
			sv.Write(fr)
			cl.FailReadAfter(o, ferr)
			co := &dns.Conn{Conn: cl}
			var got *dns.Msg
			var err error
			w.Eval(1)
			w.Count("fault_offsets", 1)
			if !within(c12Watch, func() { got, err = co.ReadMsg() }) {
				w.Violation("C12/read-hang-on-fault", fmt.Sprintf("Conn.ReadMsg hangs when the stream fails at offset %d of %d", o, len(fr)), nil)
				fails++
				continue
			}
			if err == nil {
				w.Violation("C12/short-stream-accepted", fmt.Sprintf("stream failed (%v) at offset %d of a %d-octet frame but ReadMsg returned a message (%d records) and no error", ferr, o, len(fr), len(got.Extra)), map[string]any{"size": size, "offset": o})
			}
			// the same through the reader zone transfers use
			cl2, sv2 := netsim.StreamPair()
			sv2.Write(fr)
			cl2.FailReadAfter(o, ferr)
			tr := &dns.Transfer{Conn: &dns.Conn{Conn: cl2}}
			w.Eval(1)
			if !within(c12Watch, func() { got, err = tr.ReadMsg() }) {
				w.Violation("C12/read-hang-on-fault/transfer", fmt.Sprintf("Transfer.ReadMsg hangs when the stream fails at offset %d of %d", o, len(fr)), nil)
				fails++
				continue
			}
			if err == nil {
				w.Violation("C12/short-stream-accepted/transfer", fmt.Sprintf("stream failed (%v) at offset %d of a %d-octet frame but Transfer.ReadMsg returned a message and no error", ferr, o, len(fr)), map[string]any{"size": size, "offset": o})
			}
		}
	}
}

func planHead(p []int) []int {
	if len(p) > 8 {
		return p[:8]
	}
	return p
}

// echoHandler answers with the digest of the full request.
type c12Log struct {
	localAddrs int  // requests that declared the server address they were sent to
	tls        bool // the server's transport is TLS
	mu      sync.Mutex
	handled map[string]int    // request key -> times handled
	seen    map[string]string // request key -> digest of what the handler saw (re-packed)
	hseq    atomic.Int64
	tsig    map[string]string // request key -> TsigStatus seen by the handler ("ok", "none", or the error)
	addrs   int               // requests that declared their source address (EDNS0 local option 65002)
	addrBad []string          // ... and whose handler saw another RemoteAddr
}

var c12Secrets = map[string]string{"crosstalk-key.": "c2VjcmV0LXNlY3JldC1zZWNyZXQtc2VjcmV0LTAxMjM="}

func reqKey(m *dns.Msg) string {
	if len(m.Question) == 0 {
		return fmt.Sprintf("noq-%d", m.Id)
	}
	return strings.ToLower(m.Question[0].Name)
}

func (l *c12Log) handler(hold time.Duration) dns.HandlerFunc {
	return func(rw dns.ResponseWriter, req *dns.Msg) {
		if hold > 0 {
			time.Sleep(hold) // keep using req while other packets arrive
		}
		body := req
		ts := "none"
		if t := req.IsTsig(); t != nil {
			ts = "ok"
			if e := rw.TsigStatus(); e != nil {
				ts = e.Error()
			}
			body = req.Copy() // the digest covers the message as the client built it, before signing
			body.Extra = body.Extra[:len(body.Extra)-1]
		}
		b, err := body.Pack()
		d := "pack-error"
		if err == nil {
			s := sha256.Sum256(b)
			d = hex.EncodeToString(s[:])
		}
		k := reqKey(req)
		declared := ""
		if o := req.IsEdns0(); o != nil {
			for _, op := range o.Option {
				if lo, ok := op.(*dns.EDNS0_LOCAL); ok && lo.Code == 65002 {
					declared = string(lo.Data)
				}
			}
		}
		declaredSrv := ""
		if o := req.IsEdns0(); o != nil {
			for _, op := range o.Option {
				if lo, ok := op.(*dns.EDNS0_LOCAL); ok && lo.Code == 65003 {
					declaredSrv = string(lo.Data)
				}
			}
		}
		var cs *tls.ConnectionState
		if st, ok := rw.(dns.ConnectionStater); ok {
			cs = st.ConnectionState()
		}
		l.mu.Lock()
		if declared != "" {
			l.addrs++
			if ra := rw.RemoteAddr(); ra == nil || ra.String() != declared {
				l.addrBad = append(l.addrBad, fmt.Sprintf("%s: sent from %s, handler's RemoteAddr %v", k, declared, ra))
			}
		}
		if declaredSrv != "" {
			l.localAddrs++
			if la := rw.LocalAddr(); la == nil || la.String() != declaredSrv {
				l.addrBad = append(l.addrBad, fmt.Sprintf("%s: sent to %s, handler's LocalAddr %v", k, declaredSrv, la))
			}
			if (cs != nil) != l.tls || cs != nil && !cs.HandshakeComplete {
				l.addrBad = append(l.addrBad, fmt.Sprintf("%s: ConnectionState %v on a server with TLS=%v", k, cs, l.tls))
			}
		}
		l.handled[k]++
		l.seen[k] = d
		if l.tsig != nil {
			l.tsig[k] = ts
		}
		l.mu.Unlock()
		r := new(dns.Msg)
		r.SetReply(req)
		r.Extra = append(r.Extra, &dns.TXT{Hdr: dns.RR_Header{Name: "digest.", Rrtype: dns.TypeTXT, Class: 1}, Txt: []string{d, fmt.Sprint(l.hseq.Add(1))}})
		if t := req.IsTsig(); t != nil && ts == "ok" {
			r.SetTsig(t.Hdr.Name, t.Algorithm, 300, time.Now().Unix())
		} else if t != nil && ts == dns.ErrTime.Error() {
			now := time.Now().Unix()
			r.SetTsig(t.Hdr.Name, t.Algorithm, 300, now)
			rt := r.Extra[len(r.Extra)-1].(*dns.TSIG)
			rt.Error = dns.RcodeBadTime
			rt.OtherLen = 6
			rt.OtherData = fmt.Sprintf("%012x", now)
			// (the RCODE stays NOERROR: for a NOTAUTH reply the client library gives up with ErrAuth
			// before it looks at the MAC, and the MAC is what this is about)
		}
		rw.WriteMsg(r)
	}
}

// c12ServerFraming: a real Server on a simulated listener reads requests under every split and
// its replies are framed exactly.
func c12ServerFraming(w *core.W, j int) {
	ctl := sched.New(uint64(w.Seed) + uint64(j))
	sched.Use(ctl)
	defer sched.Use(nil)
	ln := netsim.NewListener()
	log := &c12Log{handled: map[string]int{}, seen: map[string]string{}}
	started := make(chan struct{})
	srv := &dns.Server{Listener: ln, Handler: log.handler(0), ReadTimeout: time.Hour, IdleTimeout: func() time.Duration { return time.Hour }, NotifyStartedFunc: func() { close(started) }}
	serveErr := make(chan error, 1)
	go func() { serveErr <- srv.ActivateAndServe() }()
	select {
	case <-started:
	case <-time.After(c12Watch):
		w.Inconclusive("server-did-not-start")
		return
	}
	defer func() {
		srv.Shutdown()
		<-serveErr
	}()
	sizes := []int{17, 30, 45, 257, 513, 4000}
	size := sizes[j%len(sizes)]
	seq := 0
	fails := 0
	for _, plan := range splitPlans(w, j, 2+size) {
		if fails >= 2 {
			break
		}
		seq++
		m := sizedMsg(size, uint16(seq), byte(j))
		qn := fmt.Sprintf("c%d-%d.", j, seq)
		if len(m.Question) > 0 && size >= 30 {
			// keep the size: replace the NULL payload's first octets instead of renaming the question
			m.Question[0].Name = "q."
			if d := m.Extra[0].(*dns.NULL).Data; len(d) >= len(qn) {
				m.Extra[0].(*dns.NULL).Data = qn + d[len(qn):]
			}
		}
		want, _ := m.Pack()
		cl, err := ln.Dial()
		if err != nil {
			w.Inconclusive("dial:" + err.Error())
			return
		}
		// the server end is the newest server conn
		svs := ln.ServerConns()
		sv := svs[len(svs)-1]
		sv.SetReadPlan(plan)
		sv.LogWrites()
		w.Eval(1)
		w.Count("server_split_plans", 1)
		cl.Write(frame(want))
		type res struct {
			reply []byte
			err   error
		}
		rc := make(chan res, 1)
		go func() {
			var l [2]byte
			if _, err := io.ReadFull(cl, l[:]); err != nil {
				rc <- res{nil, err}
				return
			}
			reply := make([]byte, binary.BigEndian.Uint16(l[:]))
			_, err := io.ReadFull(cl, reply)
			rc <- res{reply, err}
		}()
		var reply []byte
		var rerr error
		ok := true
		select {
		case r := <-rc:
			reply, rerr = r.reply, r.err
		case <-time.After(c12Watch):
			ok = false
		}
		cl.Close()
		if !ok || rerr != nil {
			w.Violation("C12/server-no-reply-under-split", fmt.Sprintf("no reply for a %d-octet request split as %v (timeout=%v err=%v)", len(want), planHead(plan), !ok, rerr), map[string]any{"size": size, "plan": planHead(plan)})
			fails++
			continue
		}
		rm := new(dns.Msg)
		if err := rm.Unpack(reply); err != nil || rm.Id != m.Id || len(rm.Extra) == 0 {
			w.Violation("C12/server-reply-mangled", fmt.Sprintf("reply does not decode / wrong id: %v", err), nil)
			continue
		}
		s := sha256.Sum256(want)
		if txt, ok := rm.Extra[len(rm.Extra)-1].(*dns.TXT); !ok || txt.Txt[0] != hex.EncodeToString(s[:]) {
			w.Violation("C12/server-saw-different-request", fmt.Sprintf("handler's digest of the request differs from what was sent (%d octets, split %v)", len(want), planHead(plan)), map[string]any{"size": size, "plan": planHead(plan)})
		}
		// the server's writes on this connection: exactly one frame
		var all []byte
		for _, wr := range sv.Writes() {
			all = append(all, wr...)
		}
		if !bytes.Equal(all, frame(reply)) {
			w.Violation("C12/server-write-framing", fmt.Sprintf("server wrote %d octets, reply frame is %d", len(all), 2+len(reply)), nil)
		}
	}
	// a request whose connection ends before the announced length has arrived - in particular where what
	// has arrived is a well-formed shorter message (after the header, the question, each record): no
	// handler is run for a request nobody sent
	{
		seq++
		m := sizedMsg(size, uint16(seq), byte(j))
		want, _ := m.Pack()
		cuts := map[int]bool{0: true, 1: true, 2: true, 3: true, 13: true, 14: true, 1 + len(want): true, len(want) / 2: true}
		for _, o := range msgBoundaries(want) {
			cuts[2+o] = true
		}
		total := func() int {
			log.mu.Lock()
			defer log.mu.Unlock()
			n := 0
			for _, c := range log.handled {
				n += c
			}
			return n
		}
		for cut := range cuts {
			if cut >= 2+len(want) || fails >= 2 {
				continue
			}
			cl, err := ln.Dial()
			if err != nil {
				break
			}
			svs := ln.ServerConns()
			sv := svs[len(svs)-1]
			before := total()
			cl.Write(frame(want)[:cut])
			cl.Close()
			w.Eval(1)
			w.Count("server_short_streams", 1)
			deadline := time.Now().Add(c12Watch)
			for sv.Closes() == 0 && time.Now().Before(deadline) {
				time.Sleep(100 * time.Microsecond)
			}
			if sv.Closes() == 0 {
				w.Violation("C12/server-keeps-short-stream-open", fmt.Sprintf("the client closed after %d of %d octets; the server did not close its end", cut, 2+len(want)), map[string]any{"size": size, "cut": cut})
				fails++
				continue
			}
			if after := total(); after != before {
				w.Violation("C12/server-short-stream-handled", fmt.Sprintf("the connection ended after %d of %d octets (the frame announces %d); a handler was run for the part that had arrived", cut, 2+len(want), len(want)), map[string]any{"size": size, "cut": cut, "request": hx(want)})
			}
		}
	}
	w.Count("hook_hits_readTCP", ctl.Hits()["readTCP.deadlineSet"])
}

// c12AsyncDatagram: a datagram handler may keep its ResponseWriter and answer later from a goroutine of
// its own. Client A's query is held; meanwhile other clients, each on a socket of its own, are served;
// then A's answer is released. It reaches A - not one of the others - and the others got their own.
func c12AsyncDatagram(w *core.W, j int) {
	type held struct {
		rw  dns.ResponseWriter
		req *dns.Msg
	}
	heldCh := make(chan held, 8)
	h := dns.HandlerFunc(func(rw dns.ResponseWriter, req *dns.Msg) {
		if len(req.Question) == 1 && strings.HasPrefix(req.Question[0].Name, "slow") {
			heldCh <- held{rw, req} // answered later, from another goroutine
			return
		}
		r := new(dns.Msg)
		r.SetReply(req)
		rw.WriteMsg(r)
	})
	started := make(chan struct{})
	srv := &dns.Server{Net: "udp", Addr: "127.0.0.1:0", Handler: h, ReadTimeout: time.Hour, NotifyStartedFunc: func() { close(started) }}
	serveErr := make(chan error, 1)
	go func() { serveErr <- srv.ListenAndServe() }()
	select {
	case <-started:
	case err := <-serveErr:
		w.Inconclusive("async-datagram-listen:" + fmt.Sprint(err))
		return
	case <-time.After(c12Watch):
		w.Inconclusive("async-datagram-server-did-not-start")
		return
	}
	defer func() { srv.Shutdown(); <-serveErr }()
	addr := srv.PacketConn.LocalAddr().String()
	for round := 0; round < 4; round++ {
		a, err := dns.DialTimeout("udp", addr, 5*time.Second)
		if err != nil {
			w.Inconclusive("async-datagram-dial")
			return
		}
		qa := new(dns.Msg)
		qa.SetQuestion(fmt.Sprintf("slow%d-%d.example.", j, round), dns.TypeA)
		qa.Id = uint16(0x100 + j*16 + round)
		a.SetWriteDeadline(time.Now().Add(5 * time.Second))
		if err := a.WriteMsg(qa); err != nil {
			a.Close()
			continue
		}
		var hd held
		select {
		case hd = <-heldCh:
		case <-time.After(c12Watch):
			a.Close()
			w.Inconclusive("async-datagram-held-query-not-seen")
			return
		}
		// the others, each from a socket of its own
		nOthers := 2 + (j+round)%8
		for b := 0; b < nOthers; b++ {
			qb := new(dns.Msg)
			qb.SetQuestion(fmt.Sprintf("other%d-%d-%d.example.", j, round, b), dns.TypeA)
			qb.Id = uint16(0x4000 + j*64 + round*16 + b)
			rb, _, err := (&dns.Client{Net: "udp", Timeout: 10 * time.Second}).Exchange(qb, addr)
			w.Eval(1)
			if err != nil {
				w.Count("async_datagram_other_exchange_lost", 1) // datagrams may be lost; not judged
				continue
			}
			if rb.Id != qb.Id || len(rb.Question) != 1 || !strings.EqualFold(rb.Question[0].Name, qb.Question[0].Name) {
				w.Violation("C12/datagram-late-reply-went-elsewhere", fmt.Sprintf("round %d: client %d asked %s (id %d) and was handed a reply to %v (id %d) while another client's query was being held", round, b, qb.Question[0].Name, qb.Id, rb.Question, rb.Id), nil)
			}
		}
		// now the held answer
		ra := new(dns.Msg)
		ra.SetReply(hd.req)
		done := make(chan error, 1)
		go func() { done <- hd.rw.WriteMsg(ra) }()
		select {
		case <-done:
		case <-time.After(c12Watch):
		}
		a.SetReadDeadline(time.Now().Add(10 * time.Second))
		got, rerr := a.ReadMsg()
		a.Close()
		w.Eval(1)
		w.Count("async_datagram_rounds", 1)
		if rerr != nil {
			w.Violation("C12/datagram-late-reply-lost", fmt.Sprintf("round %d: the reply a handler wrote from a goroutine of its own, after %d other clients had been served, did not reach the client that asked (%v)", round, nOthers, rerr), map[string]any{"query": qa.Question[0].Name})
			return
		}
		if got.Id != qa.Id || len(got.Question) != 1 || got.Question[0].Name != qa.Question[0].Name {
			w.Violation("C12/datagram-late-reply-went-elsewhere", fmt.Sprintf("round %d: the client that asked %s (id %d) received a reply to %v (id %d)", round, qa.Question[0].Name, qa.Id, got.Question, got.Id), nil)
			return
		}
	}
	w.NontrivialStr("async-datagram", fmt.Sprint(j))
}

// c12TsigStatusPerRequest: what a handler is told about the signature belongs to the request it was
// handed, not to an earlier one on the same connection: unsigned, signed with the wrong secret, unsigned,
// signed correctly, unsigned - pipelined on one stream connection and one after the other.
func c12TsigStatusPerRequest(w *core.W, j int) {
	type seen struct {
		hasTsig bool
		status  string
	}
	var mu sync.Mutex
	got := map[uint16]seen{}
	h := dns.HandlerFunc(func(rw dns.ResponseWriter, req *dns.Msg) {
		st := "<nil>"
		if e := rw.TsigStatus(); e != nil {
			st = e.Error()
		}
		mu.Lock()
		got[req.Id] = seen{req.IsTsig() != nil, st}
		mu.Unlock()
		r := new(dns.Msg)
		r.SetReply(req)
		rw.WriteMsg(r)
	})
	ln := netsim.NewListener()
	started := make(chan struct{})
	srv := &dns.Server{Listener: ln, Handler: h, ReadTimeout: time.Hour, IdleTimeout: func() time.Duration { return time.Hour }, TsigSecret: c12Secrets, NotifyStartedFunc: func() { close(started) }}
	serveErr := make(chan error, 1)
	go func() { serveErr <- srv.ActivateAndServe() }()
	select {
	case <-started:
	case <-time.After(c12Watch):
		w.Inconclusive("tsig-status-server-did-not-start")
		return
	}
	defer func() { srv.Shutdown(); <-serveErr }()
	cl, err := ln.Dial()
	if err != nil {
		return
	}
	defer cl.Close()
	wrong := map[string]string{"crosstalk-key.": base64.StdEncoding.EncodeToString([]byte("not the secret the server holds"))}
	kinds := []string{"unsigned", "wrong-secret", "unsigned", "signed", "unsigned", "wrong-secret", "wrong-secret", "unsigned"}
	want := map[uint16]string{}
	var frames [][]byte
	for k, kind := range kinds {
		m := new(dns.Msg)
		m.SetQuestion(fmt.Sprintf("status%d-%d.example.", j, k), dns.TypeA)
		m.Id = uint16(0x700 + j*16 + k)
		var b []byte
		var perr error
		switch kind {
		case "unsigned":
			b, perr = m.Pack()
		default:
			m.SetTsig("crosstalk-key.", dns.HmacSHA256, 300, time.Now().Unix())
			sec := c12Secrets["crosstalk-key."]
			if kind == "wrong-secret" {
				sec = wrong["crosstalk-key."]
			}
			b, _, perr = dns.TsigGenerate(m, sec, "", false)
		}
		if perr != nil {
			return
		}
		frames = append(frames, frame(b))
		want[m.Id] = kind
	}
	pipelined := j%2 == 0
	read := func() bool {
		cl.SetReadDeadline(time.Now().Add(c12Watch))
		var l [2]byte
		if _, err := io.ReadFull(cl, l[:]); err != nil {
			return false
		}
		_, err := io.ReadFull(cl, make([]byte, binary.BigEndian.Uint16(l[:])))
		return err == nil
	}
	if pipelined {
		var all []byte
		for _, f := range frames {
			all = append(all, f...)
		}
		cl.Write(all)
		for range frames {
			if !read() {
				break
			}
		}
	} else {
		for _, f := range frames {
			cl.Write(f)
			if !read() {
				break
			}
		}
	}
	w.Eval(1)
	mu.Lock()
	defer mu.Unlock()
	for id, kind := range want {
		g, ok := got[id]
		if !ok {
			w.Count("tsig_status_requests_not_handled", 1)
			continue
		}
		w.Count("tsig_status_requests", 1)
		bad := ""
		switch kind {
		case "unsigned":
			if g.hasTsig || g.status != "<nil>" {
				bad = "an unsigned request"
			}
		case "signed":
			if !g.hasTsig || g.status != "<nil>" {
				bad = "a correctly signed request"
			}
		case "wrong-secret":
			if !g.hasTsig || g.status == "<nil>" {
				bad = "a request signed with another secret"
			}
		}
		if bad != "" {
			w.Violation("C12/handler-saw-bad-tsig-status/per-request/"+kind, fmt.Sprintf("%s (request %d of %v on one stream connection, pipelined=%v) reached its handler with a TSIG record: %v, TsigStatus %s", bad, int(id)-0x700-j*16, kinds, pipelined, g.hasTsig, g.status), nil)
		}
	}
	w.NontrivialStr("tsig-status-per-request", fmt.Sprint(j))
}

// c12ClientDatagramSizes: a datagram reply of exactly the size the client said it takes - by an OPT record
// in the query, by Client.UDPSize, by Conn.UDPSize, or by saying nothing (512) - reaches the caller intact,
// and so does the one that is an octet shorter; the exchange that follows on the same Conn is not disturbed.
func c12ClientDatagramSizes(w *core.W, j int) {
	type mode struct {
		name string
		size int
	}
	modes := []mode{{"default", 512}, {"opt", 512}, {"opt", 1232}, {"opt", 4096}, {"opt", 65535}, {"client-udpsize", 1232}, {"client-udpsize", 4096}, {"client-udpsize", 65535},
		{"conn-udpsize", 1232}, {"conn-udpsize", 16384}, {"opt", 513 + j%700}, {"client-udpsize", 513 + j%3000}}
	md := modes[j%len(modes)]
	for k, size := range []int{md.size, md.size - 1, 17, md.size} {
		q := new(dns.Msg)
		q.SetQuestion("q.", dns.TypeNULL)
		q.Id = uint16(0x3000 + j*4 + k)
		cli := &dns.Client{Timeout: 2 * time.Second}
		rep := sizedMsg(size, q.Id, byte(j+k))
		rep.Response = true
		want, err := rep.Pack()
		if err != nil || len(want) != size && size >= 30 {
			continue
		}
		follow := new(dns.Msg)
		follow.SetQuestion("next.", dns.TypeA)
		follow.Id = q.Id ^ 0x8000
		frep := new(dns.Msg)
		frep.SetReply(follow)
		fwire, _ := frep.Pack()
		sc := netsim.NewScripted([][]byte{want, fwire})
		co := &dns.Conn{Conn: sc}
		switch md.name {
		case "opt":
			q.SetEdns0(uint16(md.size), false)
		case "client-udpsize":
			cli.UDPSize = uint16(md.size)
		case "conn-udpsize":
			co.UDPSize = uint16(md.size)
		}
		var r1, r2 *dns.Msg
		var e1, e2 error
		w.Eval(1)
		w.Count("client_datagram_size_exchanges", 1)
		w.Cover("client_datagram_size_mode", md.name)
		wit := map[string]any{"mode": md.name, "advertised": md.size, "reply_octets": len(want)}
		if !within(c12Watch, func() {
			r1, _, e1 = cli.ExchangeWithConn(q, co)
			if md.name == "opt" {
				follow.SetEdns0(uint16(md.size), false)
			}
			r2, _, e2 = cli.ExchangeWithConn(follow, co)
		}) {
			w.Violation("C12/datagram-exchange-hang", "two exchanges on one scripted datagram Conn did not return", wit)
			return
		}
		if e1 != nil || r1 == nil {
			w.Violation("C12/datagram-reply-of-advertised-size-lost/"+md.name, fmt.Sprintf("a reply of %d octets to a client that takes %d: %v", len(want), md.size, e1), wit)
			continue
		}
		if got, perr := r1.Pack(); perr != nil || !bytes.Equal(got, want) {
			w.Violation("C12/datagram-reply-of-advertised-size-mangled/"+md.name, fmt.Sprintf("a reply of %d octets to a client that takes %d came back different (%v)", len(want), md.size, perr), wit)
			continue
		}
		if e2 != nil || r2 == nil || r2.Id != follow.Id {
			w.Violation("C12/datagram-exchange-after-large-reply-disturbed/"+md.name, fmt.Sprintf("the exchange after a %d-octet reply on the same Conn: %v", len(want), e2), wit)
		}
	}
	w.NontrivialStr("client-datagram-sizes", md.name, fmt.Sprint(md.size))
}

// c12ServerDatagramSizes: a real Server on a simulated datagram socket is handed requests of every
// size from the smallest message there is (12 octets) to the largest the socket takes: with a policy
// that accepts everything, the handler sees each one unchanged and its reply comes back.
func c12ServerDatagramSizes(w *core.W, j int) {
	ctl := sched.New(uint64(w.Seed) + uint64(j))
	sched.Use(ctl)
	defer sched.Use(nil)
	pc := netsim.NewPacketConn()
	log := &c12Log{handled: map[string]int{}, seen: map[string]string{}}
	started := make(chan struct{})
	srv := &dns.Server{PacketConn: pc, Handler: log.handler(0), UDPSize: 65535, ReadTimeout: time.Hour, NotifyStartedFunc: func() { close(started) },
		MsgAcceptFunc: func(dns.Header) dns.MsgAcceptAction { return dns.MsgAccept }}
	serveErr := make(chan error, 1)
	go func() { serveErr <- srv.ActivateAndServe() }()
	select {
	case <-started:
	case <-time.After(c12Watch):
		w.Inconclusive("server-did-not-start")
		return
	}
	defer func() {
		srv.Shutdown()
		<-serveErr
	}()
	fails := 0
	for k, size := range []int{12, 17, 19, 12, 29, 30, 31, 255, 512, 513, 1232, 4096, 16384, 65000 + j%500, 12} {
		if fails >= 2 {
			return
		}
		m := sizedMsg(size, uint16(0x100+k), byte(j+k))
		want, err := m.Pack()
		if err != nil {
			continue
		}
		addr := netsim.Addr(fmt.Sprintf("dg%d-%d", j, k))
		w.Eval(1)
		w.Count("server_datagram_sizes", 1)
		pc.Inject(want, addr)
		reply, ok := pc.Sent(addr, c12Watch)
		wit := map[string]any{"size": len(want)}
		if !ok {
			w.Violation("C12/server-no-reply-to-datagram", fmt.Sprintf("no reply to an accepted %d-octet datagram request", len(want)), wit)
			fails++
			continue
		}
		rm := new(dns.Msg)
		if err := rm.Unpack(reply); err != nil || rm.Id != m.Id || len(rm.Extra) == 0 {
			w.Violation("C12/server-reply-mangled", fmt.Sprintf("the reply to a %d-octet datagram does not decode / has another id: %v", len(want), err), wit)
			continue
		}
		sum := sha256.Sum256(want)
		if txt, ok := rm.Extra[len(rm.Extra)-1].(*dns.TXT); !ok || txt.Txt[0] != hex.EncodeToString(sum[:]) {
			w.Violation("C12/server-saw-different-request", fmt.Sprintf("the handler's digest of a %d-octet datagram request differs from what was sent", len(want)), wit)
		}
	}
}

// c12IDs: ID handling on streams and datagrams.
func c12IDs(w *core.W, j int) {
	r := w.Rng(j)
	q := new(dns.Msg)
	q.SetQuestion(fmt.Sprintf("id%d.example.", j), dns.TypeA)
	q.Id = uint16(1000 + j)
	mk := func(id uint16, tag string) []byte {
		m := new(dns.Msg)
		m.SetReply(q)
		m.Id = id
		m.Extra = append(m.Extra, &dns.TXT{Hdr: dns.RR_Header{Name: "tag.", Rrtype: dns.TypeTXT, Class: 1}, Txt: []string{tag}})
		b, _ := m.Pack()
		return b
	}
	c := &dns.Client{Timeout: 300 * time.Millisecond}
	// stream: foreign id -> ErrId; right id -> ok
	for _, foreign := range []bool{true, false} {
		cl, sv := netsim.StreamPair()
		id := q.Id
		if foreign {
			id = q.Id ^ uint16(1+r.IntN(65535))
		}
		sv.Write(frame(mk(id, "stream")))
		w.Eval(1)
		// (the reply is already in the pipe: the generous deadline is never waited for, it only keeps a
		// machine that schedules this goroutine a second late from turning into a verdict)
		rep, _, err := (&dns.Client{Timeout: time.Minute}).ExchangeWithConn(q, &dns.Conn{Conn: cl})
		if foreign && !errors.Is(err, dns.ErrId) {
			w.Violation("C12/stream-foreign-id-accepted", fmt.Sprintf("stream reply with id %d for request %d: err=%v reply=%v", id, q.Id, err, rep != nil), nil)
		}
		if !foreign && (err != nil || rep == nil || rep.Id != q.Id) {
			w.Violation("C12/stream-own-reply-rejected", fmt.Sprintf("err=%v", err), nil)
		}
	}
	// a unix-domain stream socket is a stream too, although *net.UnixConn also has the methods of a
	// packet connection: framed messages, and a foreign ID is an ID error - it is not skipped
	if j%10 == 3 {
		dir, derr := os.MkdirTemp("", "c12u")
		if derr == nil {
			defer os.RemoveAll(dir)
			sock := filepath.Join(dir, "s")
			if ln, lerr := net.Listen("unix", sock); lerr == nil {
				defer ln.Close()
				for _, foreign := range []bool{true, false} {
					id := q.Id
					if foreign {
						id = q.Id ^ uint16(1+r.IntN(65535))
					}
					go func() {
						sc, err := ln.Accept()
						if err != nil {
							return
						}
						defer sc.Close()
						var l [2]byte
						if _, err := io.ReadFull(sc, l[:]); err != nil {
							return
						}
						io.ReadFull(sc, make([]byte, binary.BigEndian.Uint16(l[:])))
						sc.Write(frame(mk(id, "unix")))
						sc.Write(frame(mk(q.Id, "unix-late"))) // what a skipping client would settle for
						time.Sleep(400 * time.Millisecond)
					}()
					uc, uerr := net.Dial("unix", sock)
					if uerr != nil {
						break
					}
					w.Eval(1)
					w.Count("unix_stream_exchanges", 1)
					rep, _, err := (&dns.Client{Timeout: time.Minute}).ExchangeWithConn(q, &dns.Conn{Conn: uc}) // (the peer hangs up after 400 ms)
					uc.Close()
					if foreign && !errors.Is(err, dns.ErrId) {
						w.Violation("C12/stream-foreign-id-accepted/unix", fmt.Sprintf("reply with id %d for request %d over a unix stream socket: err=%v reply=%v", id, q.Id, err, rep != nil), nil)
					}
					if !foreign && (err != nil || rep == nil || rep.Id != q.Id) {
						w.Violation("C12/stream-own-reply-rejected/unix", fmt.Sprintf("err=%v", err), nil)
					}
				}
			}
		}
	}
	// a zone transfer is a client exchange over a stream as well: a foreign ID in any envelope
	if j%10 == 0 {
		zone := model.Name{[]byte("xfr"), []byte("example")}
		g := model.NewGen(w.Rng(j, 3))
		g.NoHuge = true // an envelope has to fit the 16-bit length prefix
		g.MaxOpaque = 40
		for _, kind := range []int{0, 3} {
			st := c15MakeStream(g, zone, kind)
			envs := compose(st.recs, ^uint64(0)) // one record per envelope
			for at := 0; at < len(envs) && at < 4; at++ {
				tq := new(dns.Msg)
				if st.ixfr {
					tq.SetIxfr(zone.Pres(), st.serial, "ns.example.", "h.example.")
				} else {
					tq.SetAxfr(zone.Pres())
				}
				tq.Id = uint16(3000 + j + at)
				res := c15Run(w, tq, envs, false, c15Fault{kind: "id", at: at}, 0)
				if res.skipped {
					continue
				}
				w.Eval(1)
				w.Count("transfer_id_checks", 1)
				if res.errIndex < 0 || !errors.Is(res.lastErr, dns.ErrId) {
					w.Violation("C12/stream-foreign-id-accepted/transfer/"+st.kind, fmt.Sprintf("envelope %d of %d carries a foreign ID: error index %d, error %v; envelope %d holds %s", at, len(envs), res.errIndex, res.lastErr, res.errIndex, hx(envs[res.errIndex][0].Wire())), map[string]any{"records": func() []string {
						var o []string
						for _, r := range st.recs {
							o = append(o, hx(r.Wire()))
						}
						return o
					}()})
				}
			}
		}
	}
	// one datagram Conn used for two exchanges: the first advertises a large EDNS0 buffer and gets a
	// large reply; a late duplicate of that reply arrives during the second exchange (a plain query)
	// and must be skipped like any other reply with a foreign ID
	if j%5 == 1 {
		q1 := new(dns.Msg)
		q1.SetQuestion(fmt.Sprintf("big%d.example.", j), dns.TypeTXT)
		q1.Id = uint16(5000 + j)
		q1.SetEdns0(4096, false)
		big := new(dns.Msg)
		big.SetReply(q1)
		for i := 0; i < 4; i++ {
			big.Answer = append(big.Answer, &dns.TXT{Hdr: dns.RR_Header{Name: q1.Question[0].Name, Rrtype: dns.TypeTXT, Class: 1, Ttl: 1}, Txt: []string{strings.Repeat("x", 200+r.IntN(50))}})
		}
		bigWire, _ := big.Pack()
		q2 := new(dns.Msg)
		q2.SetQuestion(fmt.Sprintf("small%d.example.", j), dns.TypeA)
		q2.Id = q1.Id + 1
		small := new(dns.Msg)
		small.SetReply(q2)
		smallWire, _ := small.Pack()
		sc := netsim.NewScripted([][]byte{bigWire, bigWire, smallWire})
		co := &dns.Conn{Conn: sc}
		c2 := &dns.Client{Timeout: 300 * time.Millisecond}
		w.Eval(1)
		w.Count("reused_datagram_conns", 1)
		var r1, r2 *dns.Msg
		var e1, e2 error
		if within(c12Watch, func() {
			r1, _, e1 = c2.ExchangeWithConn(q1, co)
			r2, _, e2 = c2.ExchangeWithConn(q2, co)
		}) {
			if e1 != nil || r1 == nil || len(r1.Answer) != 4 {
				w.Violation("C12/datagram-large-reply-lost", fmt.Sprintf("a %d-octet reply to a query advertising 4096 octets: err=%v", len(bigWire), e1), nil)
			} else if e2 != nil || r2 == nil || r2.Id != q2.Id {
				w.Violation("C12/datagram-stale-large-reply-not-skipped", fmt.Sprintf("second exchange on the same Conn: a late %d-octet duplicate of the first reply precedes the real reply; err=%v", len(bigWire), e2), nil)
			}
		} else {
			w.Violation("C12/datagram-exchange-hang", "two exchanges on one scripted datagram Conn did not return", nil)
		}
	}
	// a signed exchange over datagrams: a signed datagram with another ID (a late answer to an earlier
	// query) arrives first and is skipped; the answer that follows is judged against the request's MAC -
	// the genuine one (its MAC covers the request MAC) is accepted, a reply signed with the right key but
	// not over this request's MAC is not
	if j%5 == 4 {
		secret := []byte("c12-datagram-tsig-secret-0123456789")
		secretB64 := base64.StdEncoding.EncodeToString(secret)
		keyName := model.Name{[]byte("dgram-key"), []byte("example")}
		now := time.Now().Unix()
		for _, genuine := range []bool{true, false} {
			sq := q.Copy()
			sq.SetTsig(keyName.Pres(), dns.HmacSHA256, 300, now)
			_, reqMACHex, gerr := dns.TsigGenerate(sq.Copy(), secretB64, "", false)
			if gerr != nil {
				break
			}
			reqMAC, _ := hex.DecodeString(reqMACHex)
			signReply := func(id uint16, tag string, over []byte) []byte {
				t := &model.TSIG{KeyName: keyName, Algorithm: mustName(dns.HmacSHA256), TimeSigned: uint64(now), Fudge: 300}
				out, _, err := t.Sign(mk(id, tag), secret, over, false)
				if err != nil {
					return nil
				}
				return out
			}
			over := reqMAC
			if !genuine {
				over = []byte("some other request's MAC 0123456")
			}
			script := [][]byte{signReply(q.Id+9, "late-signed-answer-to-another-query", []byte("the MAC of that other query 0123")), signReply(q.Id, "answer", over)}
			if script[0] == nil || script[1] == nil {
				break
			}
			sc := netsim.NewScripted(script)
			cc := &dns.Client{Timeout: 300 * time.Millisecond, TsigSecret: map[string]string{keyName.Pres(): secretB64}}
			var rep *dns.Msg
			var err error
			w.Eval(1)
			w.Count("signed_datagram_exchanges", 1)
			if !within(c12Watch, func() { rep, _, err = cc.ExchangeWithConn(sq, &dns.Conn{Conn: sc}) }) {
				w.Violation("C12/datagram-exchange-hang", "a signed exchange over a scripted datagram connection did not return", nil)
				break
			}
			if genuine && (err != nil || rep == nil || rep.Id != q.Id) {
				w.Violation("C12/datagram-signed-reply-rejected-after-skipped-signed-datagram", fmt.Sprintf("a signed datagram with another ID preceded the genuine signed answer; the exchange ended with %v", err), nil)
			}
			if !genuine && err == nil {
				w.Violation("C12/datagram-reply-for-another-request-accepted", "a signed datagram with another ID preceded an answer whose MAC does not cover this request's MAC; the exchange reported success", nil)
			}
		}
	}
	// the deadline may come from the caller's context instead of the client's timeouts: with only
	// foreign replies arriving the exchange ends at that deadline (not at the client's one-hour timeout,
	// not never), with the matching reply behind two foreign ones it succeeds
	if j%5 == 2 {
		for _, withReal := range []bool{false, true} {
			script := [][]byte{mk(q.Id+7, "foreign"), mk(q.Id^0x0100, "foreign")}
			if withReal {
				script = append(script, mk(q.Id, "real"))
			}
			sc := netsim.NewScripted(script)
			cc := &dns.Client{Timeout: time.Hour}
			ctx, cancel := context.WithTimeout(context.Background(), 150*time.Millisecond)
			var rep *dns.Msg
			var err error
			w.Eval(1)
			w.Count("context_deadline_exchanges", 1)
			returned := within(c12Watch, func() { rep, _, err = cc.ExchangeWithConnContext(ctx, q, &dns.Conn{Conn: sc}) })
			cancel()
			switch {
			case !returned:
				w.Violation("C12/datagram-context-deadline-ignored", fmt.Sprintf("ExchangeWithConnContext (context deadline 150 ms, client timeout 1 h, matching reply scripted: %v) did not return within %v", withReal, c12Watch), nil)
				sc.Close()
			case withReal && (err != nil || rep == nil || rep.Id != q.Id):
				w.Violation("C12/datagram-real-reply-missed/context", fmt.Sprintf("two replies with other IDs preceded the matching one; err=%v", err), nil)
			case !withReal && err == nil:
				w.Violation("C12/datagram-foreign-id-accepted/context", fmt.Sprintf("only replies with other IDs were delivered, the exchange returned id %d", rep.Id), nil)
			}
		}
	}
	// datagrams: 0..5 stale/duplicate/foreign replies before the real one
	n := r.IntN(6)
	long := j%10 == 7
	if long {
		// a burst: far more replies with other IDs than any plausible bound on "a few stale answers"
		n = []int{17, 18, 40, 100, 300}[(j/10)%5]
		w.Count("datagram_long_bursts_of_foreign_replies", 1)
	}
	var script [][]byte
	nDamaged := 0
	for i := 0; i < n; i++ {
		switch r.IntN(4) {
		case 0:
			script = append(script, mk(q.Id^uint16(1+r.IntN(65535)), "foreign"))
		case 1:
			script = append(script, mk(q.Id-1, "stale"))
		case 2:
			// a reply with another ID whose body does not decode (cut inside the question or the TXT
			// record, at least a full header): it has an ID, it is not ours, it is skipped like the others
			f := mk(q.Id^uint16(1+r.IntN(65535)), "foreign-damaged")
			script = append(script, f[:12+r.IntN(len(f)-13)+1])
			nDamaged++
		default:
			if len(script) > 0 {
				script = append(script, script[r.IntN(len(script))])
			} else {
				script = append(script, mk(q.Id+1, "foreign"))
			}
		}
	}
	withReal := r.IntN(4) != 0
	if withReal {
		script = append(script, mk(q.Id, "real"), mk(q.Id, "late-duplicate"))
	}
	sc := netsim.NewScripted(script)
	if n >= 2 && !long {
		sc.ReadGap = 4 * time.Millisecond // time passes while foreign replies trickle in
	}
	if long && withReal {
		c = &dns.Client{Timeout: time.Minute} // the matching reply ends the exchange; the deadline is never waited for
	}
	w.Eval(1)
	w.Count("datagram_scripts", 1)
	w.Count("datagram_undecodable_foreign_replies", nDamaged)
	w.NontrivialStr("ids", fmt.Sprint(j))
	var rep *dns.Msg
	var err error
	if !within(c12Watch, func() { rep, _, err = c.ExchangeWithConn(q, &dns.Conn{Conn: sc}) }) {
		w.Violation("C12/datagram-exchange-hang", "ExchangeWithConn over a datagram connection did not return by its deadline", nil)
		return
	}
	// skipping a reply must not move the deadline: every read deadline set during the exchange names
	// the same instant as the first one (compared with each other, not with the clock)
	if dl := sc.ReadDeadlines; len(dl) > 1 {
		var drift time.Duration
		for _, d := range dl[1:] {
			if x := d.Sub(dl[0]); x > drift {
				drift = x
			}
		}
		if drift > 2*time.Millisecond {
			w.Violation("C12/datagram-deadline-extended-by-skipped-replies", fmt.Sprintf("%d read deadlines were set during one exchange; the last lies %v after the first (%d replies with other IDs were skipped)", len(dl), drift, n), nil)
		}
	}
	if withReal {
		if err != nil || rep == nil || rep.Id != q.Id {
			key := "C12/datagram-real-reply-missed"
			if nDamaged > 0 {
				key += "/undecodable-foreign-reply"
			}
			w.Violation(key, fmt.Sprintf("%d other replies (%d of them with a body that does not decode) preceded the matching one; err=%v", n, nDamaged, err), map[string]any{"script": hxs(script)})
		} else if txt := rep.Extra[0].(*dns.TXT).Txt[0]; txt != "real" {
			w.Violation("C12/datagram-wrong-reply", fmt.Sprintf("got the reply tagged %q", txt), nil)
		}
	} else if err == nil {
		w.Violation("C12/datagram-foreign-id-accepted", fmt.Sprintf("only foreign/stale replies were delivered but the exchange succeeded with id %d (want %d)", rep.Id, q.Id), nil)
	} else if ne, ok := err.(net.Error); !ok || !ne.Timeout() {
		w.Violation("C12/datagram-no-deadline-error", fmt.Sprintf("expected the deadline error, got %v", err), nil)
	}
}

// c12CrossTalk: N concurrent clients against real loopback UDP and TCP servers; every request
// is unique; offline check of the merged log. Recycled UDP buffers are scribbled at the hook.
func c12CrossTalk(w *core.W, j int) {
	ctl := sched.New(uint64(w.Seed)*7919 + uint64(j))
	ctl.Scribble = true
	if j%3 == 1 {
		ctl.Delay = 200 * time.Microsecond
	}
	sched.Use(ctl)
	defer sched.Use(nil)
	network := []string{"udp", "tcp"}[j%2]
	if j%6 == 5 {
		network = "tcp-tls" // the stream path behind crypto/tls: record boundaries never coincide with message boundaries
	}
	log := &c12Log{handled: map[string]int{}, seen: map[string]string{}, tsig: map[string]string{}, tls: network == "tcp-tls"}
	hold := time.Duration(0)
	if j%4 == 2 {
		hold = 300 * time.Microsecond
	}
	started := make(chan struct{})
	srv := &dns.Server{Addr: "127.0.0.1:0", Net: network, Handler: log.handler(hold), NotifyStartedFunc: func() { close(started) }, TsigSecret: c12Secrets}
	// every fourth round the server reads and writes through user-supplied decorators (pass-through,
	// counting): the same exchanges, the same oracle
	var decoReads, decoWrites atomic.Int64
	if (j/3)%4 == 3 { // (chosen independently of the transport: j%4 would never meet udp)
		srv.DecorateReader = func(r dns.Reader) dns.Reader { return c12Reader{r, &decoReads} }
		srv.DecorateWriter = func(wr dns.Writer) dns.Writer { return c12Writer{wr, &decoWrites} }
	}
	var tlsCli *tls.Config
	if network == "tcp-tls" {
		srv.TLSConfig, tlsCli = c13TLS()
	}
	serveErr := make(chan error, 1)
	go func() { serveErr <- srv.ListenAndServe() }()
	select {
	case <-started:
	case err := <-serveErr:
		w.Inconclusive("listen:" + fmt.Sprint(err))
		return
	case <-time.After(c12Watch):
		w.Inconclusive("server-did-not-start")
		return
	}
	var addr string
	if network == "udp" {
		addr = srv.PacketConn.LocalAddr().String()
	} else {
		addr = srv.Listener.Addr().String()
	}
	// besides the clients, one sender keeps throwing datagrams with a valid header and an
	// undecodable body at the server (each is answered FORMERR by the library itself): whatever the
	// error path does with its receive buffer must not reach the other requests
	rogueStop := make(chan struct{})
	rogueDone := make(chan struct{})
	go func() {
		defer close(rogueDone)
		if network != "udp" {
			return
		}
		c, err := net.Dial("udp", addr)
		if err != nil {
			return
		}
		defer c.Close()
		pkt := []byte{0xBA, 0xD0, 0x01, 0x00, 0, 1, 0, 0, 0, 0, 0, 0, 5, 'b', 'r', 'o'} // label runs past the end
		buf := make([]byte, 512)
		for i := 0; ; i++ {
			select {
			case <-rogueStop:
				return
			default:
			}
			pkt[1] = byte(i)
			c.Write(pkt)
			c.SetReadDeadline(time.Now().Add(20 * time.Millisecond))
			c.Read(buf)
			if i%8 == 7 {
				time.Sleep(200 * time.Microsecond)
			}
		}
	}()
	var tsigReplyErrs, staleVerified, staleOther, apiUsed atomic.Int64
	var firstStaleErr atomic.Value
	var firstTsigErr atomic.Value
	signedKeys := map[string]bool{}
	staleKeys := map[string]bool{}
	nclients := []int{4, 8, 16, 32}[j%4]
	per := 12
	type sent struct {
		key, digest string
		id          uint16
	}
	var mu sync.Mutex
	var sents []sent
	accepted := map[string]string{} // key -> digest reported by the reply
	var wg sync.WaitGroup
	var badReplies atomic.Int64
	var firstBad atomic.Value
	for c := 0; c < nclients; c++ {
		wg.Add(1)
		go func(c int) {
			defer wg.Done()
			r := w.Rng(j, c)
			cli := &dns.Client{Net: network, Timeout: 5 * time.Second, UDPSize: 4096, TLSConfig: tlsCli}
			signing := c%3 == 0 // a third of the clients sign their requests (TSIG) and verify the signed replies
			if signing {
				cli.TsigSecret = c12Secrets
			}
			var conn *dns.Conn
			for s := 0; s < per; s++ {
				m := new(dns.Msg)
				key := fmt.Sprintf("c%d-s%d-n%x.j%d.example.", c, s, r.Uint64(), j)
				m.SetQuestion(key, dns.TypeTXT)
				m.Id = uint16(r.IntN(65536))
				pay := make([]byte, 1+r.IntN(200))
				for i := range pay {
					pay[i] = byte('a' + r.IntN(26))
				}
				if !signing && c%4 == 1 {
					// a payload record whose values are lists of addresses and opaque parameters (SVCB): every one of
					// them has to have left the receive buffer by the time the buffer is recycled
					v6 := make([]net.IP, 1+r.IntN(4))
					for i := range v6 {
						v6[i] = net.IP(append([]byte{0x20, 0x01, 0x0d, 0xb8, byte(c), byte(s)}, pay[:1]...))
						v6[i] = append(v6[i], make([]byte, 16-len(v6[i]))...)
						v6[i][15] = byte(i + 1)
					}
					m.Extra = append(m.Extra, &dns.HTTPS{SVCB: dns.SVCB{Hdr: dns.RR_Header{Name: "payload.", Rrtype: dns.TypeHTTPS, Class: 1}, Priority: 1, Target: ".",
						Value: []dns.SVCBKeyValue{&dns.SVCBAlpn{Alpn: []string{"h2", string(pay[:min(len(pay), 1+len(pay)%8)])}}, &dns.SVCBIPv4Hint{Hint: []net.IP{net.IPv4(192, 0, 2, byte(c)).To4()}}, &dns.SVCBIPv6Hint{Hint: v6}, &dns.SVCBLocal{KeyCode: 65400, Data: append([]byte(nil), pay...)}}}})
				} else if !signing { // the default accept policy allows two additional records: payload+OPT or OPT+TSIG
					m.Extra = append(m.Extra, &dns.TXT{Hdr: dns.RR_Header{Name: "payload.", Rrtype: dns.TypeTXT, Class: 1}, Txt: []string{string(pay)}})
				}
				// odd clients dial first and tell the handler which address they talk from: what the handler
				// is told about its peer (the datagram session / the connection) must be this client
				var own *dns.Conn
				if c%2 == 1 {
					var derr error
					if own, derr = cli.Dial(addr); derr != nil {
						continue
					}
				}
				o := &dns.OPT{Hdr: dns.RR_Header{Name: ".", Rrtype: dns.TypeOPT, Class: 4096}}
				if own != nil {
					o.Option = append(o.Option, &dns.EDNS0_LOCAL{Code: 65002, Data: []byte(own.LocalAddr().String())}, &dns.EDNS0_LOCAL{Code: 65003, Data: []byte(own.RemoteAddr().String())})
				}
				local := make([]byte, 8+r.IntN(40))
				for i := range local {
					local[i] = byte(c)
				}
				o.Option = append(o.Option, &dns.EDNS0_LOCAL{Code: 65001, Data: local}, &dns.EDNS0_SUBNET{Code: dns.EDNS0SUBNET, Family: 1, SourceNetmask: 32, Address: net.IPv4(10, byte(c), byte(s), 1).To4()},
					&dns.EDNS0_PADDING{Padding: bytes.Repeat([]byte{byte(s)}, r.IntN(30))}, &dns.EDNS0_DAU{AlgCode: []uint8{8, 13, byte(c)}})
				m.Extra = append(m.Extra, o)
				b, err := m.Pack()
				if err != nil {
					if own != nil {
						own.Close()
					}
					continue
				}
				d := sha256.Sum256(b)
				mu.Lock()
				sents = append(sents, sent{strings.ToLower(key), hex.EncodeToString(d[:]), m.Id})
				if signing {
					signedKeys[strings.ToLower(key)] = true
				}
				mu.Unlock()
				if signing {
					at := time.Now().Unix()
					if s%5 == 3 {
						// a client whose clock is off by more than the fudge: the server sees BADTIME and its
						// handler answers with a signed BADTIME error (RFC 8945 s.5.2.3), which the client verifies
						at -= 100000
						mu.Lock()
						staleKeys[strings.ToLower(key)] = true
						mu.Unlock()
					}
					m.SetTsig("crosstalk-key.", dns.HmacSHA256, 300, at)
				}
				var rep *dns.Msg
				// (signing clients dial per query: Conn.WriteMsg signs a second query on the same Conn as a
				// continuation of the first - with the previous MAC - which no server accepts; outside C12)
				if network != "udp" && c%2 == 0 && !signing { // half of the TCP clients reuse one connection
					if conn == nil {
						conn, err = cli.Dial(addr)
						if err != nil {
							continue
						}
					}
					rep, _, err = cli.ExchangeWithConn(m, conn)
				} else if own != nil {
					rep, _, err = cli.ExchangeWithConn(m, own)
					own.Close()
				} else if signing {
					rep, _, err = cli.Exchange(m, addr)
				} else {
					// the other ways into the same exchange: context variants, the package-level helpers with their
					// default client, connections from the Dial* helpers driven by hand, per-phase timeouts
					variant := (c/2 + s) % 8
					apiUsed.Add(1)
					switch {
					case variant == 1:
						ctx, cancel := context.WithTimeout(context.Background(), 5*time.Second)
						rep, _, err = cli.ExchangeContext(ctx, m, addr)
						cancel()
					case variant == 2 && network == "udp":
						rep, err = dns.Exchange(m, addr)
					case variant == 3 && network == "udp":
						ctx, cancel := context.WithTimeout(context.Background(), 5*time.Second)
						rep, err = dns.ExchangeContext(ctx, m, addr)
						cancel()
					case variant == 4 || variant == 5:
						var co *dns.Conn
						switch {
						case network == "tcp-tls" && variant == 4:
							co, err = dns.DialWithTLS(network, addr, tlsCli)
						case network == "tcp-tls":
							co, err = dns.DialTimeoutWithTLS(network, addr, tlsCli, 5*time.Second)
						case variant == 4:
							co, err = dns.Dial(network, addr)
						default:
							co, err = dns.DialTimeout(network, addr, 5*time.Second)
						}
						if err != nil {
							continue
						}
						co.UDPSize = 4096
						co.SetDeadline(time.Now().Add(5 * time.Second))
						if s%2 == 0 {
							if err = co.WriteMsg(m); err == nil {
								rep, err = co.ReadMsg()
							}
						} else {
							rep, err = dns.ExchangeConn(co.Conn, m)
						}
						co.Close()
					case variant == 6:
						c2 := &dns.Client{Net: network, DialTimeout: 5 * time.Second, ReadTimeout: 5 * time.Second, WriteTimeout: 5 * time.Second, UDPSize: 4096, TLSConfig: tlsCli}
						rep, _, err = c2.Exchange(m, addr)
					default:
						rep, _, err = cli.Exchange(m, addr)
					}
				}
				if err != nil && signing && (errors.Is(err, dns.ErrSig) || errors.Is(err, dns.ErrTime) || errors.Is(err, dns.ErrSecret) || errors.Is(err, dns.ErrKeyAlg) || errors.Is(err, dns.ErrNoSig)) {
					tsigReplyErrs.Add(1)
					firstTsigErr.CompareAndSwap(nil, fmt.Sprintf("client %d seq %d (%s): %v", c, s, key, err))
					continue
				}
				if err != nil || rep == nil {
					if signing && s%5 == 3 && err != nil {
						firstStaleErr.CompareAndSwap(nil, err.Error())
						staleOther.Add(1)
					}
					continue // loss/timeouts are legal: the request stays open
				}
				if signing && s%5 == 3 {
					staleVerified.Add(1)
				}
				if signing && rep.IsTsig() != nil {
					rep.Extra = rep.Extra[:len(rep.Extra)-1]
				}
				if rep.Id != m.Id || len(rep.Question) != 1 || !strings.EqualFold(rep.Question[0].Name, key) || len(rep.Extra) == 0 {
					badReplies.Add(1)
					firstBad.CompareAndSwap(nil, fmt.Sprintf("client %d seq %d (id %d, %s) accepted a reply with id %d question %v", c, s, m.Id, key, rep.Id, rep.Question))
					continue
				}
				txt, ok := rep.Extra[len(rep.Extra)-1].(*dns.TXT)
				if !ok || len(txt.Txt) < 1 {
					badReplies.Add(1)
					firstBad.CompareAndSwap(nil, "reply without digest record")
					continue
				}
				mu.Lock()
				accepted[strings.ToLower(key)] = txt.Txt[0]
				mu.Unlock()
			}
			if conn != nil {
				conn.Close()
			}
		}(c)
	}
	if !within(5*time.Minute, wg.Wait) {
		w.Inconclusive("crosstalk-clients-did-not-finish")
	}
	close(rogueStop)
	<-rogueDone
	srv.Shutdown()
	<-serveErr
	// offline check
	w.Eval(len(sents))
	w.Count("exchanges_"+network, len(sents))
	w.Count("replies_accepted_"+network, len(accepted))
	w.Count("hook_poolPut", ctl.Hits()["serveDNS.poolPut"])
	if n := badReplies.Load(); n > 0 {
		w.Violation("C12/client-accepted-foreign-reply/"+network, fmt.Sprintf("%d replies did not belong to the request: %v", n, firstBad.Load()), nil)
	}
	log.mu.Lock()
	defer log.mu.Unlock()
	sentBy := map[string]sent{}
	for _, s := range sents {
		sentBy[s.key] = s
	}
	if (j/3)%4 == 3 {
		w.Count("decorated_reads_"+network, int(decoReads.Load()))
		w.Count("decorated_reads", int(decoReads.Load()))
		w.Count("decorated_writes", int(decoWrites.Load()))
		if int(decoWrites.Load()) < len(log.handled) || int(decoReads.Load()) < len(log.handled) {
			w.Count("decorators_bypassed", 1)
		}
	}
	w.Count("declared_source_addresses_checked_"+network, log.addrs)
	w.Count("declared_server_addresses_checked_"+network, log.localAddrs)
	w.Count("client_api_variant_exchanges", int(apiUsed.Load()))
	if len(log.addrBad) > 0 {
		w.Violation("C12/handler-told-wrong-peer/"+network, fmt.Sprintf("%d of %d requests that declared the addresses they travel between were handled with another RemoteAddr / LocalAddr / ConnectionState: %s", len(log.addrBad), log.addrs, log.addrBad[0]), nil)
	}
	if n := tsigReplyErrs.Load(); n > 0 {
		w.Violation("C12/signed-reply-rejected/"+network, fmt.Sprintf("%d signed replies failed TSIG verification at their client: %v", n, firstTsigErr.Load()), nil)
	}
	nsigned, nstale := 0, 0
	for k, st := range log.tsig {
		if signedKeys[k] {
			nsigned++
			if staleKeys[k] {
				nstale++
				if st != dns.ErrTime.Error() {
					w.Violation("C12/handler-saw-bad-tsig-status/stale-time/"+network, fmt.Sprintf("request %q was signed 100000 s in the past, its handler saw TsigStatus %q", k, st), nil)
				}
			} else if st != "ok" {
				w.Violation("C12/handler-saw-bad-tsig-status/"+network, fmt.Sprintf("request %q was correctly signed by its client but its handler saw TsigStatus %q", k, st), map[string]any{"scribble": true, "clients": nclients})
			}
		} else if st != "none" {
			w.Violation("C12/handler-saw-tsig-on-unsigned-request/"+network, fmt.Sprintf("request %q was sent unsigned but its handler saw a TSIG record (status %q)", k, st), nil)
		}
	}
	w.Count("signed_requests_handled_"+network, nsigned)
	w.Count("stale_signed_requests_handled_"+network, nstale)
	w.Count("stale_signed_replies_verified_"+network, int(staleVerified.Load()))
	w.Count("stale_signed_replies_other_error_"+network, int(staleOther.Load()))
	if v := firstStaleErr.Load(); v != nil {
		w.Cover("stale_reply_error", fmt.Sprint(v))
	}
	for k, n := range log.handled {
		s, ok := sentBy[k]
		if !ok {
			w.Violation("C12/handler-saw-unsent-request/"+network, fmt.Sprintf("handler saw a request %q that no client sent", k), nil)
			continue
		}
		if n > 1 {
			w.Violation("C12/request-handled-twice/"+network, fmt.Sprintf("request %q handled %d times", k, n), nil)
		}
		if log.seen[k] != s.digest {
			w.Violation("C12/handler-saw-altered-request/"+network, fmt.Sprintf("request %q: digest of what the handler decoded (%s) differs from what the client sent (%s)", k, log.seen[k][:16], s.digest[:16]), map[string]any{"scribble": true, "clients": nclients})
		}
	}
	// replies that were written but never arrived: a lost datagram is legal, but on the loopback
	// interface with one outstanding request per client it is not what happens to every fourth one
	lost := 0
	for k := range log.handled {
		if _, ok := accepted[k]; !ok && sentBy[k].key != "" && !staleKeys[k] {
			lost++
		}
	}
	w.Count("replies_written_but_not_received_"+network, lost)
	if len(log.handled) >= 100 && lost*4 > len(log.handled) {
		w.Violation("C12/reply-did-not-reach-its-client/"+network, fmt.Sprintf("%d of %d requests were handled and answered, but their clients never received the reply within 5 s on the loopback interface", lost, len(log.handled)), nil)
	}
	for k, d := range accepted {
		s := sentBy[k]
		if log.handled[k] == 0 {
			w.Violation("C12/reply-without-handler/"+network, fmt.Sprintf("client accepted a reply for %q but no handler ran for it", k), nil)
		} else if d != log.seen[k] {
			w.Violation("C12/reply-not-from-own-handler/"+network, fmt.Sprintf("reply for %q carries digest %s, its handler computed %s", k, d[:16], log.seen[k][:16]), nil)
		}
		_ = s
	}
	w.NontrivialStr("crosstalk", network, fmt.Sprint(j))
	if w.WantSample() {
		w.Sample(map[string]any{"network": network, "clients": nclients, "sent": len(sents), "handled": len(log.handled), "accepted": len(accepted), "hook_hits": ctl.Hits()})
	}
}

type c12Reader struct {
	dns.Reader
	n *atomic.Int64
}

func (r c12Reader) ReadTCP(conn net.Conn, t time.Duration) ([]byte, error) {
	b, err := r.Reader.ReadTCP(conn, t)
	if err == nil {
		r.n.Add(1)
	}
	return b, err
}

func (r c12Reader) ReadUDP(conn *net.UDPConn, t time.Duration) ([]byte, *dns.SessionUDP, error) {
	b, s, err := r.Reader.ReadUDP(conn, t)
	if err == nil {
		r.n.Add(1)
	}
	return b, s, err
}

type c12Writer struct {
	dns.Writer
	n *atomic.Int64
}

func (w c12Writer) Write(b []byte) (int, error) {
	w.n.Add(1)
	return w.Writer.Write(b)
}

// c12Async: handlers that answer later. The handler keeps the request and the writer, returns at once,
// and a goroutine of its own writes the reply after a moment (what a forwarder does while it waits for
// its upstream). One client pipelines ten queries on one stream connection - simulated (every write takes
// a moment), real TCP, real TLS; some replies exceed 4096 octets. Each query gets exactly one reply, built
// from the request its handler was given (same ID, same question, digest of the request as sent), and
// the reply frames of concurrent writers do not cut into each other.
func c12Async(w *core.W, j int) {
	transport := []string{"sim", "tcp", "tcp-tls"}[j%3]
	var pending sync.WaitGroup
	h := dns.HandlerFunc(func(rw dns.ResponseWriter, req *dns.Msg) {
		pending.Add(1)
		delay := time.Duration(req.Id%7) * 300 * time.Microsecond
		go func() {
			defer pending.Done()
			time.Sleep(delay)
			r := new(dns.Msg)
			r.SetReply(req)
			d := "pack-error"
			if b, err := req.Pack(); err == nil {
				s := sha256.Sum256(b)
				d = hex.EncodeToString(s[:])
			}
			r.Extra = append(r.Extra, &dns.TXT{Hdr: dns.RR_Header{Name: "digest.", Rrtype: dns.TypeTXT, Class: 1}, Txt: []string{d}})
			if len(req.Question) > 0 && strings.HasPrefix(req.Question[0].Name, "big") {
				for i := 0; i < 22; i++ {
					r.Answer = append(r.Answer, &dns.TXT{Hdr: dns.RR_Header{Name: req.Question[0].Name, Rrtype: dns.TypeTXT, Class: 1, Ttl: 1}, Txt: []string{strings.Repeat("x", 250)}})
				}
			}
			rw.WriteMsg(r)
		}()
	})
	started := make(chan struct{})
	srv := &dns.Server{Handler: h, ReadTimeout: time.Hour, IdleTimeout: func() time.Duration { return time.Hour }, NotifyStartedFunc: func() { close(started) }}
	var ln *netsim.Listener
	var cliTLS *tls.Config
	serveErr := make(chan error, 1)
	switch transport {
	case "sim":
		ln = netsim.NewListener()
		ln.Prepare = func(sv *netsim.Stream) { sv.WriteGap = 150 * time.Microsecond }
		srv.Listener = ln
		go func() { serveErr <- srv.ActivateAndServe() }()
	default:
		srv.Net, srv.Addr = transport, "127.0.0.1:0"
		if transport == "tcp-tls" {
			srv.TLSConfig, cliTLS = c13TLS()
		}
		go func() { serveErr <- srv.ListenAndServe() }()
	}
	select {
	case <-started:
	case err := <-serveErr:
		w.Inconclusive("async-listen:" + fmt.Sprint(err))
		return
	case <-time.After(c12Watch):
		w.Inconclusive("async-server-did-not-start")
		return
	}
	defer func() {
		within(c12Watch, pending.Wait)
		srv.Shutdown()
		<-serveErr
	}()
	var conn net.Conn
	var err error
	switch transport {
	case "sim":
		conn, err = ln.Dial()
	case "tcp":
		conn, err = net.Dial("tcp", srv.Listener.Addr().String())
	default:
		conn, err = tls.Dial("tcp", srv.Listener.Addr().String(), cliTLS)
	}
	if err != nil {
		w.Inconclusive("async-dial:" + err.Error())
		return
	}
	defer conn.Close()
	const k = 10
	type sentQ struct{ name, digest string }
	sent := map[uint16]sentQ{}
	var stream []byte
	for i := 0; i < k; i++ {
		q := new(dns.Msg)
		name := fmt.Sprintf("q%d-j%d.async.example.", i, j)
		if i%3 == 1 {
			name = "big" + name
		}
		q.SetQuestion(name, dns.TypeTXT)
		q.Id = uint16(0x2000 + 16*(j%200) + i)
		b, _ := q.Pack()
		s := sha256.Sum256(b)
		sent[q.Id] = sentQ{name, hex.EncodeToString(s[:])}
		stream = append(stream, frame(b)...)
	}
	w.Eval(1)
	w.Count("async_pipelines_"+transport, 1)
	conn.Write(stream)
	conn.SetReadDeadline(time.Now().Add(c12Watch))
	seen := map[uint16]bool{}
	wit := map[string]any{"transport": transport, "queries": k}
	for n := 0; n < k; n++ {
		var l [2]byte
		if _, err := io.ReadFull(conn, l[:]); err != nil {
			w.Violation("C12/async/replies-missing/"+transport, fmt.Sprintf("%d queries pipelined on one connection, handlers answer from goroutines of their own: %d replies arrived, then %v", k, n, err), wit)
			return
		}
		body := make([]byte, binary.BigEndian.Uint16(l[:]))
		if _, err := io.ReadFull(conn, body); err != nil {
			w.Violation("C12/async/reply-stream-mangled/"+transport, fmt.Sprintf("reply %d: the stream ends inside a frame of %d octets: %v", n, len(body), err), wit)
			return
		}
		r := new(dns.Msg)
		if err := r.Unpack(body); err != nil {
			w.Violation("C12/async/reply-stream-mangled/"+transport, fmt.Sprintf("reply %d (frame of %d octets) does not decode: %v - the frames of concurrent writers cut into each other", n, len(body), err), wit)
			return
		}
		sq, ok := sent[r.Id]
		switch {
		case !ok:
			w.Violation("C12/async/reply-for-unsent-id/"+transport, fmt.Sprintf("reply with ID %#x, which was not sent", r.Id), wit)
		case seen[r.Id]:
			w.Violation("C12/async/two-replies-for-one-request/"+transport, fmt.Sprintf("a second reply with ID %#x (each handler answers the request it was given: another handler's request has been overwritten)", r.Id), wit)
		case len(r.Question) != 1 || r.Question[0].Name != sq.name:
			w.Violation("C12/async/reply-mixes-requests/"+transport, fmt.Sprintf("the reply with ID %#x carries the question %v, the request with that ID asked for %s", r.Id, r.Question, sq.name), wit)
		case len(r.Extra) == 0 || r.Extra[len(r.Extra)-1].(*dns.TXT).Txt[0] != sq.digest:
			w.Violation("C12/async/handler-saw-altered-request/"+transport, fmt.Sprintf("the handler of request %#x digested something else than the client sent", r.Id), wit)
		}
		seen[r.Id] = true
	}
	w.Count("async_replies_checked", len(seen))
	w.NontrivialStr("async", transport, fmt.Sprint(j))
}

// c12MultiHomed: a UDP server on the wildcard address, one client per local address (127.0.0.1 and
// 127.0.0.2). The first client's handler is held until the second client's datagram has been read;
// each reply must reach the client it belongs to, i.e. leave from the address that client talked to.
func c12MultiHomed(w *core.W, j int) {
	started := make(chan struct{})
	enteredA, enteredB := make(chan struct{}), make(chan struct{})
	var onceA, onceB sync.Once
	h := dns.HandlerFunc(func(rw dns.ResponseWriter, req *dns.Msg) {
		if strings.HasPrefix(req.Question[0].Name, "a.") {
			onceA.Do(func() { close(enteredA) })
			select {
			case <-enteredB: // the next datagram (from the other local address) has been read meanwhile
			case <-time.After(c12Watch):
			}
		} else {
			onceB.Do(func() { close(enteredB) })
		}
		r := new(dns.Msg)
		r.SetReply(req)
		rw.WriteMsg(r)
	})
	// three socket shapes: IPv4 wildcard with two IPv4 clients; dual-stack wildcard ([::], "udp") with an
	// IPv4 client (seen as ::ffff:127.0.0.1, IPv4 control message) and an IPv6 client; IPv6-only wildcard
	shape := []struct{ listen, network, a, b, label string }{
		{"0.0.0.0:0", "udp", "127.0.0.1", "127.0.0.2", "udp-wildcard"},
		{"[::]:0", "udp", "127.0.0.1", "[::1]", "udp-dualstack-wildcard"},
		{"[::]:0", "udp", "[::1]", "127.0.0.2", "udp-dualstack-wildcard"},
		{"[::]:0", "udp6", "[::1]", "[::1]", "udp6-wildcard"},
	}[j%4]
	srv := &dns.Server{Addr: shape.listen, Net: shape.network, Handler: h, NotifyStartedFunc: func() { close(started) }}
	serveErr := make(chan error, 1)
	go func() { serveErr <- srv.ListenAndServe() }()
	select {
	case <-started:
	case err := <-serveErr:
		if shape.listen != "0.0.0.0:0" {
			w.Count("multihomed_ipv6_unavailable", 1)
			return
		}
		w.Inconclusive("multihomed-listen:" + fmt.Sprint(err))
		return
	case <-time.After(c12Watch):
		w.Inconclusive("multihomed-server-did-not-start")
		return
	}
	defer func() { srv.Shutdown(); <-serveErr }()
	_, port, _ := net.SplitHostPort(srv.PacketConn.LocalAddr().String())
	ca, errA := net.Dial("udp", shape.a+":"+port)
	cb, errB := net.Dial("udp", shape.b+":"+port)
	if (errA != nil || errB != nil) && shape.listen != "0.0.0.0:0" {
		w.Count("multihomed_ipv6_unavailable", 1)
		return
	}
	if errA != nil || errB != nil {
		w.Inconclusive(fmt.Sprintf("multihomed-dial:%v/%v", errA, errB))
		return
	}
	defer ca.Close()
	defer cb.Close()
	mk := func(name string, id uint16) []byte {
		q := new(dns.Msg)
		q.SetQuestion(name, dns.TypeA)
		q.Id = id
		b, _ := q.Pack()
		return b
	}
	w.Eval(1)
	w.Count("multihomed_rounds", 1)
	w.Cover("multihomed_shape", shape.label+" "+shape.a+" "+shape.b)
	ca.Write(mk(fmt.Sprintf("a.j%d.example.", j), 0xA000+uint16(j)))
	select {
	case <-enteredA:
	case <-time.After(c12Watch):
		w.Inconclusive("multihomed-first-request-not-handled")
		return
	}
	cb.Write(mk(fmt.Sprintf("b.j%d.example.", j), 0xB000+uint16(j)))
	read := func(c net.Conn, id uint16) bool {
		buf := make([]byte, 512)
		c.SetReadDeadline(time.Now().Add(c12Watch))
		n, err := c.Read(buf)
		return err == nil && n >= 12 && binary.BigEndian.Uint16(buf) == id
	}
	okB := read(cb, 0xB000+uint16(j))
	okA := read(ca, 0xA000+uint16(j))
	w.NontrivialStr("multihomed", fmt.Sprint(j))
	if !okA || !okB {
		w.Violation("C12/reply-did-not-reach-its-client/"+shape.label, fmt.Sprintf("server on the wildcard address "+shape.listen+" ("+shape.network+"), client A via "+shape.a+" (handler held while the datagram of client B via "+shape.b+" was read): reply received A=%v B=%v - a reply sent from another local address than the one the client used never arrives on its connected socket", okA, okB), nil)
	}
}

// c12ResponseWrite: the server-side writer refuses messages over 65535 octets on streams.
func c12ResponseWrite(w *core.W, j int) {
	ln := netsim.NewListener()
	started := make(chan struct{})
	var wn int
	var werr error
	done := make(chan struct{})
	h := dns.HandlerFunc(func(rw dns.ResponseWriter, req *dns.Msg) {
		wn, werr = rw.Write(make([]byte, 65536+j%3))
		r := new(dns.Msg)
		r.SetReply(req)
		rw.WriteMsg(r)
		close(done)
	})
	srv := &dns.Server{Listener: ln, Handler: h, ReadTimeout: time.Hour, NotifyStartedFunc: func() { close(started) }}
	serveErr := make(chan error, 1)
	go func() { serveErr <- srv.ActivateAndServe() }()
	<-started
	defer func() { srv.Shutdown(); <-serveErr }()
	cl, _ := ln.Dial()
	q := new(dns.Msg)
	q.SetQuestion("big.example.", dns.TypeA)
	b, _ := q.Pack()
	cl.Write(frame(b))
	w.Eval(1)
	if !within(c12Watch, func() { <-done }) {
		w.Inconclusive("response-write-handler-not-run")
		return
	}
	co := &dns.Conn{Conn: cl}
	cl.SetReadDeadline(time.Now().Add(c12Watch))
	rep, err := co.ReadMsg()
	if werr == nil || wn != 0 {
		w.Violation("C12/oversize-write-not-refused/ResponseWriter.Write", fmt.Sprintf("n=%d err=%v", wn, werr), nil)
	}
	if err != nil || rep == nil || rep.Id != q.Id {
		w.Violation("C12/stream-corrupted-by-refused-write", fmt.Sprintf("after the refused write the next reply does not parse: %v", err), nil)
	}
	w.Count("oversize_response_writes", 1)
}

func init() {
	plan, run := sections(
		section{"write", tiered(len(c12Sizes), len(c12Sizes)*4), c12WriteFraming},
		section{"read", tiered(40, 1200), c12ReadFraming},
		section{"server", tiered(12, 300), c12ServerFraming},
		section{"ids", tiered(300, 6000), c12IDs},
		section{"respwrite", tiered(3, 30), c12ResponseWrite},
		section{"crosstalk", tiered(18, 400), c12CrossTalk},
		section{"multihomed", tiered(8, 100), c12MultiHomed},
		section{"async-handlers", tiered(30, 600), c12Async},
		section{"server-datagram-sizes", tiered(6, 100), c12ServerDatagramSizes},
		section{"client-datagram-sizes", tiered(24, 600), c12ClientDatagramSizes},
		section{"async-datagram-handlers", tiered(6, 120), c12AsyncDatagram},
		section{"tsig-status-per-request", tiered(6, 120), c12TsigStatusPerRequest},
	)
	core.Register(&core.Monitor{
		ID: "C12", Level: "fault_enumeration", Plan: plan, Run: run, Race: true, Terminates: true, MaxParallel: 8,
		Rule: "framing: message sizes {12,17,29,30,255..257,511..513,16383..16385,65534,65535,random}; every single split point and 1-octet reads for frames <= 400 octets (sampled above), seeded multi-splits; EOF and error injected at every offset (<=400) ; " +
			"65536+ octet writes; stream/datagram ID handling with 0..5 stale/duplicate/foreign replies in seeded orders; cross-talk: 4..32 concurrent clients x 12 unique requests against real loopback UDP/TCP servers with scribbled recycled buffers and hook delays, offline exactly-once/no-mixing check; a third of the clients sign with TSIG (handler must see TsigStatus nil, signed replies must verify); after every split plan the following message on the stream is read too, incl. segments that carry the end of one frame and the start of the next; race detector on; " +
			"non-trivial = distinct (size, split plan) / scripted reply order / cross-talk round",
		Assumptions: []string{"loss of UDP datagrams is legal: an unanswered request stays open, never 'failed'", "a watchdog of 20 s decides 'hang' for in-memory transports"},
		MinObserved: []string{"split_plans", "fault_offsets", "server_split_plans", "datagram_scripts", "exchanges_udp", "exchanges_tcp", "hook_poolPut", "oversize_response_writes", "following_messages_read", "conn_read_calls", "write_sequences", "multihomed_rounds", "signed_requests_handled_udp", "signed_requests_handled_tcp", "exchanges_tcp-tls", "declared_source_addresses_checked_udp", "declared_source_addresses_checked_tcp", "async_replies_checked"},
	})
}
