package mon

import (
	"fmt"
	"sort"

	"github.com/miekg/dns"

	"verifharness/bridge"
	"verifharness/core"
	"verifharness/model"
)

// c09Limit is the effective limit of Truncate(size).
func c09Limit(size int) int {
	if size < 512 {
		return 512
	}
	return size
}

func isOPT(rr dns.RR) bool { return rr.Header().Rrtype == dns.TypeOPT }

// packedLen packs a message made of the given parts with compression and returns its length (-1 on error).
func c09PackedLen(hdr dns.MsgHdr, q []dns.Question, an, ns, ar []dns.RR) int {
	m := &dns.Msg{MsgHdr: hdr, Compress: true, Question: q, Answer: an, Ns: ns, Extra: ar}
	b, err := m.Pack()
	if err != nil {
		return -1
	}
	return len(b)
}

// c09One runs Truncate(size) on a fresh build of mm and judges the result.
func c09One(w *core.W, mm *model.Msg, size int, exact bool, kind string) {
	orig, err := buildMsgAny(mm)
	if err != nil {
		return
	}
	w.Eval(1)
	wasTC := orig.Truncated
	origCompress := uint16(mm.ID)&1 == 1
	orig.Compress = origCompress
	// remember the original records (pointer identity)
	oa, on, oe := append([]dns.RR(nil), orig.Answer...), append([]dns.RR(nil), orig.Ns...), append([]dns.RR(nil), orig.Extra...)
	var opt dns.RR
	var oeNoOpt []dns.RR
	for i := len(oe) - 1; i >= 0; i-- {
		if isOPT(oe[i]) && opt == nil {
			opt = oe[i]
		}
	}
	for _, r := range oe {
		if r != opt {
			oeNoOpt = append(oeNoOpt, r)
		}
	}
	limit := c09Limit(size)
	wit := map[string]any{"model_wire": hx(mm.Wire()), "size": size, "kind": kind, "compress_before": origCompress}
	// reference lengths computed before the call (Truncate does not change records)
	ref, _ := buildMsgAny(mm)
	ref.Compress = true
	fullC, e1 := ref.Pack()
	ref.Compress = false
	fullU, e2 := ref.Pack()
	if e1 != nil || e2 != nil {
		w.Count("unpackable", 1)
		return
	}
	refLenC := func() int { r2, _ := buildMsgAny(mm); r2.Compress = true; return r2.Len() }()

	if w.Guard("Truncate", wit, func() { orig.Truncate(size) }) {
		return
	}
	w.NontrivialStr(fmt.Sprint(size), string(fullC))
	key := func(s string) string { return "C09/" + s + "/" + kind }

	// prefix property (pointer identity), OPT retained
	isPrefix := func(got, of []dns.RR) bool {
		if len(got) > len(of) {
			return false
		}
		for i := range got {
			if got[i] != of[i] {
				return false
			}
		}
		return true
	}
	ga, gn, ge := orig.Answer, orig.Ns, orig.Extra
	var geNoOpt []dns.RR
	optSeen := 0
	for _, r := range ge {
		if r == opt && opt != nil {
			optSeen++
			continue
		}
		geNoOpt = append(geNoOpt, r)
	}
	if !isPrefix(ga, oa) {
		w.Violation(key("answer-not-a-prefix"), fmt.Sprintf("answer section after Truncate(%d) is not a prefix of the original (%d of %d)", size, len(ga), len(oa)), wit)
	}
	if !isPrefix(gn, on) {
		w.Violation(key("authority-not-a-prefix"), fmt.Sprintf("authority section is not a prefix (%d of %d)", len(gn), len(on)), wit)
	}
	if !isPrefix(geNoOpt, oeNoOpt) {
		w.Violation(key("additional-not-a-prefix"), fmt.Sprintf("additional section (OPT aside) is not a prefix (%d of %d)", len(geNoOpt), len(oeNoOpt)), wit)
	}
	if opt != nil && optSeen != 1 {
		w.Violation(key("opt-not-retained"), fmt.Sprintf("the OPT record appears %d times after Truncate(%d)", optSeen, size), wit)
	}
	dropA, dropN, dropE := len(oa)-len(ga), len(on)-len(gn), len(oeNoOpt)-len(geNoOpt)
	dropped := dropA > 0 || dropN > 0 || dropE > 0
	if dropped {
		w.Count("truncations", 1)
	}
	if dropA > 0 && (len(gn) > 0 || len(geNoOpt) > 0) {
		w.Violation(key("later-section-kept-after-drop"), fmt.Sprintf("answer lost %d records but authority keeps %d and additional %d", dropA, len(gn), len(geNoOpt)), wit)
	}
	if dropN > 0 && len(geNoOpt) > 0 {
		w.Violation(key("later-section-kept-after-drop"), fmt.Sprintf("authority lost %d records but additional keeps %d", dropN, len(geNoOpt)), wit)
	}
	if orig.Truncated != (wasTC || dropped) {
		w.Violation(key("tc-bit"), fmt.Sprintf("TC=%v after Truncate(%d): was %v, records dropped=%v (answer -%d, authority -%d, additional -%d)", orig.Truncated, size, wasTC, dropped, dropA, dropN, dropE), wit)
	}
	// size: whenever header+question+OPT alone fit
	var optOnly []dns.RR
	if opt != nil {
		optOnly = []dns.RR{opt}
	}
	minLen := c09PackedLen(orig.MsgHdr, orig.Question, nil, nil, optOnly)
	out, perr := orig.Pack()
	if perr != nil {
		w.Violation(key("pack-after-truncate"), fmt.Sprintf("Pack after Truncate(%d) failed: %v", size, perr), wit)
		return
	}
	if minLen >= 0 && minLen <= limit && len(out) > limit {
		w.Violation(key("does-not-fit"), fmt.Sprintf("after Truncate(%d) the message packs to %d octets > %d although header+question+OPT need only %d", size, len(out), limit, minLen), wit)
	}
	// a message that already fits keeps all records
	if dropped {
		if len(fullU) <= limit && orig.Len() >= 0 {
			// uncompressed it fits: by the library's own (over)estimate?
			r2, _ := buildMsgAny(mm)
			r2.Compress = false
			if r2.Len() <= limit {
				w.Violation(key("dropped-although-fits-uncompressed"), fmt.Sprintf("records dropped by Truncate(%d) although the uncompressed message is %d octets", size, len(fullU)), wit)
			}
		}
		if refLenC <= limit {
			w.Violation(key("dropped-although-fits"), fmt.Sprintf("records dropped by Truncate(%d) although the compressed length estimate is %d", size, refLenC), wit)
		}
		if exact && len(fullC) <= limit {
			w.Violation(key("dropped-although-fits-exact"), fmt.Sprintf("escape-free common-type message packs (compressed) to %d <= %d but Truncate(%d) dropped records", len(fullC), limit, size), wit)
		}
	}
	// for escape-free common-type messages the first dropped record would not have fitted
	if exact && dropped {
		ka, kn, ke := ga, gn, geNoOpt
		switch {
		case dropA > 0:
			ka, kn, ke = append(append([]dns.RR(nil), ga...), oa[len(ga)]), nil, nil
		case dropN > 0:
			kn, ke = append(append([]dns.RR(nil), gn...), on[len(gn)]), nil
		default:
			ke = append(append([]dns.RR(nil), geNoOpt...), oeNoOpt[len(geNoOpt)])
		}
		if opt != nil {
			ke = append(append([]dns.RR(nil), ke...), opt)
		}
		if n := c09PackedLen(orig.MsgHdr, orig.Question, ka, kn, ke); n >= 0 && n <= limit {
			w.Violation(key("dropped-record-would-have-fitted"), fmt.Sprintf("after Truncate(%d): kept records plus the first dropped one (and OPT) pack to %d <= %d", size, n, limit), wit)
		}
		w.Count("first_dropped_checked", 1)
	}
	if w.WantSample() && dropped {
		w.Sample(map[string]any{"kind": kind, "size": size, "kept": []int{len(ga), len(gn), len(ge)}, "of": []int{len(oa), len(on), len(oe)}, "packed_after": len(out), "tc": orig.Truncated})
	}
}

// c09Sizes: boundary sizes incl. the exact packed length of every record prefix (+-1).
func c09Sizes(g *model.Gen, mm *model.Msg, n int) []int {
	set := map[int]bool{0: true, 511: true, 512: true, 513: true, 1232: true, 4096: true, 65535: true}
	built, err := buildMsgAny(mm)
	if err == nil {
		var opt []dns.RR
		var extraNoOpt []dns.RR
		for _, r := range built.Extra {
			if isOPT(r) {
				opt = []dns.RR{r}
			} else {
				extraNoOpt = append(extraNoOpt, r)
			}
		}
		all := [][]dns.RR{built.Answer, built.Ns, extraNoOpt}
		total := len(built.Answer) + len(built.Ns) + len(extraNoOpt)
		step := 1
		if total > n {
			step = total / n
		}
		for k := 0; k <= total; k += step {
			var secs [3][]dns.RR
			rem := k
			for s := 0; s < 3; s++ {
				take := rem
				if take > len(all[s]) {
					take = len(all[s])
				}
				secs[s] = all[s][:take]
				rem -= take
			}
			l := c09PackedLen(built.MsgHdr, built.Question, secs[0], secs[1], append(append([]dns.RR(nil), secs[2]...), opt...))
			if l > 0 {
				set[l-1], set[l], set[l+1] = true, true, true
			}
		}
		built.Compress = false
		if b, err := built.Pack(); err == nil {
			set[len(b)-1], set[len(b)], set[len(b)+1] = true, true, true
		}
	}
	for i := 0; i < 4; i++ {
		set[g.R.IntN(3000)] = true
	}
	var out []int
	for s := range set {
		if s >= 0 && s <= 65535 {
			out = append(out, s)
		}
	}
	sort.Ints(out)
	return out
}

func c09Run(w *core.W, j int, exact bool) {
	g := model.NewGen(w.Rng(j))
	g.NoHuge = true
	g.MaxOpaque = 60
	var mm *model.Msg
	kind := "general"
	if exact {
		kind = "common"
		mm = genCommonMsg(g, g.Len(0, 40), g.R.IntN(3) > 0)
	} else {
		mm = genPoolMsg(g, g.Len(0, 30))
		if g.R.IntN(3) > 0 {
			opt := g.Rec(model.Layouts[41])
			pos := g.R.IntN(len(mm.Ar) + 1)
			mm.Ar = append(mm.Ar[:pos], append([]*model.Rec{opt}, mm.Ar[pos:]...)...)
		}
	}
	if j%8 == 3 {
		// everything in one section only (a referral without answer, glue only, ...): what is left after
		// truncation is then a question plus a record or two of a single section
		all := append(append(append([]*model.Rec(nil), mm.An...), mm.Ns...), mm.Ar...)
		mm.An, mm.Ns, mm.Ar = nil, nil, nil
		*[]*[]*model.Rec{&mm.An, &mm.Ns, &mm.Ar}[j/8%3] = all
		if j/8%3 != 2 {
			// an OPT belongs in the additional section
			var keep []*model.Rec
			for _, r := range all {
				if r.Type == 41 {
					mm.Ar = append(mm.Ar, r)
				} else {
					keep = append(keep, r)
				}
			}
			*[]*[]*model.Rec{&mm.An, &mm.Ns}[j/8%3] = keep
		}
		w.Count("single_section_replies", 1)
	}
	if j%16 == 11 {
		// a long question name owning a few large records of one section, no OPT: what survives is
		// a question and one record that fit only when the owner is compressed against the question
		var qn model.Name
		for k := 0; k < 4; k++ {
			lab := make([]byte, 40+g.R.IntN(20))
			for i := range lab {
				lab[i] = byte('a' + g.R.IntN(26))
			}
			qn = append(qn, lab)
		}
		qn = append(qn, []byte("example"))
		mm.Q = []model.Question{{Name: qn, Type: 16, Class: 1}}
		var recs []*model.Rec
		for k := 0; k < 2+g.R.IntN(3); k++ {
			owner := qn.Clone()
			if k > 0 && g.R.IntN(3) == 0 {
				owner = append(model.Name{[]byte("sub")}, qn[1:]...)
			}
			recs = append(recs, &model.Rec{Owner: owner, Type: 16, Class: 1, TTL: 60, L: model.Layouts[16], Vals: []any{[][]byte{g.TextBytes(200 + g.R.IntN(56))}}})
		}
		mm.An, mm.Ns, mm.Ar = nil, nil, nil
		*[]*[]*model.Rec{&mm.An, &mm.Ns, &mm.Ar}[j/16%3] = recs
		w.Count("long_question_single_section_replies", 1)
	}
	if g.R.IntN(4) == 0 {
		// TXT-family records without any string (RDLENGTH 0), anywhere in the reply
		for x := 1 + g.R.IntN(3); x > 0; x-- {
			e := &model.Rec{Owner: g.Name(), Type: []uint16{16, 99}[g.R.IntN(2)], Class: 1, TTL: 60, Vals: []any{[][]byte{}}}
			e.L = model.Layouts[e.Type]
			sec := []*[]*model.Rec{&mm.An, &mm.Ns, &mm.Ar}[g.R.IntN(3)]
			pos := g.R.IntN(len(*sec) + 1)
			*sec = append((*sec)[:pos], append([]*model.Rec{e}, (*sec)[pos:]...)...)
		}
		w.Count("replies_with_empty_txt", 1)
	}
	mm.Bits |= 0x8000
	if g.R.IntN(4) == 0 {
		mm.Bits |= 0x0200 // TC already set
	} else {
		mm.Bits &^= 0x0200
	}
	if len(mm.Wire()) > 60000 {
		return
	}
	w.Count("messages", 1)
	for _, size := range c09Sizes(g, mm, 30) {
		c09One(w, mm, size, exact, kind)
	}
}

// c09Large: complete replies of 17..40 KiB made of the common types, new owner names introduced every
// few records (so some name first appears just below offset 16384 and is reused after it), with a
// large OPT; sizes at and around the exact packed length and around 16384.
func c09Large(w *core.W, j int) {
	g := model.NewGen(w.Rng(j))
	g.NoHuge = true
	g.Plain = true
	if j%2 == 1 {
		c09LateName(w, g, j)
		return
	}
	ls := commonLayouts()
	mm := &model.Msg{ID: uint16(g.Uint(16)), Bits: 0x8000}
	g.MakePool(3)
	mm.Q = []model.Question{{Name: g.Name(), Type: 1, Class: 1}}
	n := 700 + g.R.IntN(900)
	secs := []*[]*model.Rec{&mm.An, &mm.Ns, &mm.Ar}
	cut1, cut2 := n/3+g.R.IntN(n/3), 2*n/3+g.R.IntN(n/3)
	for i := 0; i < n; i++ {
		if i%(4+j%13) == 0 {
			g.MakePool(2 + g.R.IntN(3))
		}
		r := g.Rec(ls[g.R.IntN(len(ls))])
		si := 0
		if i >= cut1 {
			si = 1
		}
		if i >= cut2 {
			si = 2
		}
		*secs[si] = append(*secs[si], r)
	}
	if j%4 != 3 {
		pad := []int{0, 40, 300, 900}[j%4]
		opt := &model.Rec{Owner: model.Name{}, Type: 41, Class: 4096, TTL: 0, L: model.Layouts[41]}
		opt.Vals = []any{[]model.Opt{{Code: model.OptPadding, Data: make([]byte, pad)}}}
		pos := g.R.IntN(len(mm.Ar) + 1)
		mm.Ar = append(mm.Ar[:pos], append([]*model.Rec{opt}, mm.Ar[pos:]...)...)
	}
	huge := j%10 == 8 // replies of more than 65535 octets uncompressed (a Msg can describe them; 65535 is the budget of a TCP client)
	if huge {
		for len(mm.Wire()) < 70000 {
			for i := 0; i < 200; i++ {
				if i%(4+j%13) == 0 {
					g.MakePool(2 + g.R.IntN(3))
				}
				mm.Ns = append(mm.Ns, g.Rec(ls[g.R.IntN(len(ls))]))
			}
		}
		w.Count("messages_beyond_64k", 1)
	}
	for !huge && len(mm.Wire()) > 64000 {
		mm.Ar = mm.Ar[len(mm.Ar)/3:] // the OPT stays if it is in the kept part; either way is covered
		mm.Ns = mm.Ns[:len(mm.Ns)*2/3]
		mm.An = mm.An[:len(mm.An)*2/3]
	}
	built, err := buildMsgAny(mm)
	if err != nil {
		return
	}
	built.Compress = true
	full, err := built.Pack()
	if err != nil {
		return
	}
	w.Count("messages", 1)
	if len(full) > 16384 {
		w.Count("messages_over_16384", 1)
	}
	set := map[int]bool{len(full) - 1: true, len(full): true, len(full) + 1: true, 65535: true, 65534: true, 16383: true, 16384: true, 16385: true, 17000: true, len(full) - 100: true, len(full) * 3 / 4: true, 512: true}
	var sizes []int
	for s := range set {
		if s >= 0 && s <= 65535 {
			sizes = append(sizes, s)
		}
	}
	sort.Ints(sizes)
	for _, size := range sizes {
		c09One(w, mm, size, true, "large")
	}
}

// c09LateName: filler records bring the packed length to 16384-delta; the next owner name, first used
// there, is (delta>0) or is not (delta<=0) a legal compression target for the 40 records that
// follow it. delta sweeps around 0 and around the length of the OPT record.
func c09LateName(w *core.W, g *model.Gen, j int) {
	pad := []int{0, 100, 389}[(j/2)%3]
	optLen := 11 + 4 + pad
	deltas := []int{1, 2, optLen - 1, optLen, optLen + 1, optLen / 2, 0, -1, 1 + g.R.IntN(optLen+40)}
	delta := deltas[(j/6)%len(deltas)]
	n := (16384 - delta - 16 - 20) / 16
	qlen := 16384 - delta - 16 - 16*n
	lab := make([]byte, qlen-2)
	for i := range lab {
		lab[i] = byte('a' + i%26)
	}
	qname := model.Name{lab}
	late := model.Name{[]byte("bbbbbbbbbbbbbbbbbbbbbbbbbbbbbbbbbbbbbbbbbbbbbbbbbbbbbbbbbbbb"), lab}
	la := model.Layouts[1]
	mm := &model.Msg{ID: uint16(g.Uint(16)), Bits: 0x8000, Q: []model.Question{{Name: qname, Type: 1, Class: 1}}}
	for i := 0; i < n; i++ {
		mm.An = append(mm.An, &model.Rec{Owner: qname, Type: 1, Class: 1, TTL: 300, L: la, Vals: []any{[]byte{10, 0, byte(i >> 8), byte(i)}}})
	}
	for i := 0; i < 40; i++ {
		mm.Ns = append(mm.Ns, &model.Rec{Owner: late, Type: 1, Class: 1, TTL: 300, L: la, Vals: []any{[]byte{192, 0, 2, byte(i)}}})
	}
	opt := &model.Rec{Owner: model.Name{}, Type: 41, Class: 4096, TTL: 0, L: model.Layouts[41]}
	opt.Vals = []any{[]model.Opt{{Code: model.OptPadding, Data: make([]byte, pad)}}}
	mm.Ar = []*model.Rec{opt}
	built, err := buildMsgAny(mm)
	if err != nil {
		w.Inconclusive("late-name-build-failed:" + err.Error())
		return
	}
	built.Compress = true
	full, err := built.Pack()
	if err != nil {
		w.Inconclusive("late-name-pack-failed:" + err.Error())
		return
	}
	w.Count("messages", 1)
	w.Count("late_name_messages", 1)
	w.Cover("late_name_delta", fmt.Sprint(delta))
	for _, size := range []int{len(full) - 17, len(full) - 1, len(full), len(full) + 1, len(full) + 500, 16384, 65535} {
		c09One(w, mm, size, true, "late-name")
	}
}

// c09Tsig: a reply carrying a TSIG record is left untouched.
func c09Tsig(w *core.W, j int) {
	g := model.NewGen(w.Rng(j))
	g.NoHuge = true
	mm := genCommonMsg(g, 5+g.R.IntN(30), g.R.IntN(2) == 0)
	ts := g.Rec(model.Layouts[250])
	mm.Ar = append(mm.Ar, ts)
	for _, size := range []int{0, 512, 600, 1232, 4096} {
		a, err := buildMsgAny(mm)
		if err != nil {
			return
		}
		b, _ := buildMsgAny(mm)
		w.Eval(1)
		w.Count("tsig_messages", 1)
		a.Truncate(size)
		if d := bridge.Diff(a, b); d != "" {
			w.Violation("C09/tsig-reply-modified", fmt.Sprintf("Truncate(%d) changed a TSIG-bearing reply at %s", size, d), map[string]any{"model_wire": hx(mm.Wire())})
		}
	}
}

// c09OtherSigned: only a TSIG record exempts a reply. One that ends in another kind of signature record - a
// SIG(0) (SIG with type covered 0), an RRSIG, a KEY - is truncated like any other.
func c09OtherSigned(w *core.W, j int) {
	g := model.NewGen(w.Rng(j))
	g.NoHuge = true
	g.MaxOpaque = 64
	mm := genCommonMsg(g, 20+g.R.IntN(40), g.R.IntN(2) == 0)
	last := g.Rec(model.Layouts[[]uint16{24, 24, 46, 25}[j%4]])
	if i := last.L.FieldIndex("TypeCovered"); i >= 0 && j%4 < 2 {
		last.Vals[i] = uint64(0) // SIG(0)
	}
	last.Owner, last.Class, last.TTL = model.Name{}, 255, 0
	last.Fixup()
	mm.Ar = append(mm.Ar, last)
	w.Count("replies_ending_in_another_signature_record", 1)
	for _, size := range []int{0, 512, 600, 1232} {
		c09One(w, mm, size, false, "ends-in-"+last.L.Name)
	}
}

func init() {
	plan, run := sections(
		section{"other-signed", tiered(40, 1000), c09OtherSigned},
		section{"common", tiered(700, 30000), func(w *core.W, j int) { c09Run(w, j, true) }},
		section{"general", tiered(500, 20000), func(w *core.W, j int) { c09Run(w, j, false) }},
		section{"tsig", tiered(100, 2000), c09Tsig},
		section{"large", tiered(108, 2400), c09Large},
		concurrentSection("C09"),
	)
	core.Register(&core.Monitor{
		ID: "C09", Level: "exploration", Plan: plan, Run: run,
		Rule: "replies (with/without OPT at any position in the additional section, TC preset or not, pool names shared/unshared, 0..40 records) x sizes {0,511,512,513,1232,4096,65535, the exact compressed packed length of every record prefix and +-1, the uncompressed length +-1, random}; 17..60 KiB replies with new owner names introduced throughout and a padded OPT, and replies whose filler brings a new owner name to offset 16384-delta (delta around 0 and around the OPT length) reused by 40 later records, at sizes around the exact compressed length; " +
			"oracle from the statement: pointer-identical section prefixes, no later-section record after a drop, OPT retained once, TC == was||dropped, fits when header+question+OPT fit, nothing dropped when it fits, first dropped record would not fit (escape-free common types); " +
			"the same operations called from 8 goroutines at once give the results they give alone; non-trivial = distinct (message,size)",
		MinObserved: []string{"messages", "truncations", "first_dropped_checked", "tsig_messages", "late_name_messages", "messages_over_16384"},
	})
}
