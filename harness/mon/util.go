package mon

import (
	"encoding/hex"
	"fmt"

	"github.com/miekg/dns"

	"verifharness/core"
)

// section is a contiguous block of cases of one kind inside a monitor's plan.
type section struct {
	name string
	n    func(tier string) int
	run  func(w *core.W, j int)
}

// sections builds Plan/Run from sections; cases of all sections are interleaved by
// concatenation (section order is fixed, so case indices are stable per tier).
func sections(secs ...section) (func(string) int, func(*core.W, int)) {
	plan := func(tier string) int {
		t := 0
		for _, s := range secs {
			t += s.n(tier)
		}
		return t
	}
	run := func(w *core.W, i int) {
		for _, s := range secs {
			n := s.n(w.Tier)
			if i < n {
				w.Count("cases_"+s.name, 1)
				s.run(w, i)
				return
			}
			i -= n
		}
	}
	return plan, run
}

func tiered(q, t int) func(string) int {
	return func(tier string) int {
		if tier == "thorough" {
			return t
		}
		return q
	}
}

func hx(b []byte) string {
	if len(b) > 3000 {
		return hex.EncodeToString(b[:3000]) + fmt.Sprintf("...(%d octets)", len(b))
	}
	return hex.EncodeToString(b)
}

func typeName(t uint16) string {
	if s, ok := dns.TypeToString[t]; ok {
		return s
	}
	return fmt.Sprintf("TYPE%d", t)
}

// packRR packs one RR uncompressed into a fresh maximal buffer.
func packRR(rr dns.RR) ([]byte, error) {
	buf := make([]byte, 70000)
	off, err := dns.PackRR(rr, buf, 0, nil, false)
	if err != nil {
		return nil, err
	}
	return buf[:off], nil
}

func hxs(bs [][]byte) []string {
	o := make([]string, len(bs))
	for i, b := range bs {
		o[i] = hx(b)
	}
	return o
}
