package mon

import (
	"sync"
	"sort"
	"hash/fnv"
	"bytes"
	"encoding/binary"
	"fmt"
	"math/rand/v2"
	"reflect"
	"runtime"
	"verifharness/bridge"

	"github.com/miekg/dns"

	"verifharness/core"
	"verifharness/model"
)

// msgOffsets walks an uncompressed, well-formed message and returns the offsets of interesting
// fields: label-length octets, RDLENGTH fields, record starts.
type msgOffsets struct {
	labels, rdlens, recs, rdata []int
}

func walkOffsets(b []byte) msgOffsets {
	var o msgOffsets
	if len(b) < 12 {
		return o
	}
	qd := int(binary.BigEndian.Uint16(b[4:]))
	n := int(binary.BigEndian.Uint16(b[6:])) + int(binary.BigEndian.Uint16(b[8:])) + int(binary.BigEndian.Uint16(b[10:]))
	off := 12
	name := func() bool {
		for off < len(b) {
			c := int(b[off])
			o.labels = append(o.labels, off)
			if c == 0 {
				off++
				return true
			}
			if c&0xC0 == 0xC0 {
				off += 2
				return true
			}
			off += 1 + c
		}
		return false
	}
	for i := 0; i < qd; i++ {
		if !name() || off+4 > len(b) {
			return o
		}
		off += 4
	}
	for i := 0; i < n; i++ {
		o.recs = append(o.recs, off)
		if !name() || off+10 > len(b) {
			return o
		}
		o.rdlens = append(o.rdlens, off+8)
		rl := int(binary.BigEndian.Uint16(b[off+8:]))
		off += 10
		o.rdata = append(o.rdata, off)
		off += rl
		if off > len(b) {
			return o
		}
	}
	return o
}

var interesting16 = []uint16{0, 1, 2, 3, 255, 256, 257, 0x3FFF, 0x4000, 0x7FFF, 0x8000, 0xC000, 0xC00C, 0xFFFE, 0xFFFF}

// mutate derives a hostile input from a valid message.
func c02Mutate(r *rand.Rand, valid []byte, o msgOffsets) []byte {
	b := append([]byte(nil), valid...)
	k := 1 + r.IntN(3)
	for i := 0; i < k; i++ {
		if len(b) == 0 {
			break
		}
		switch r.IntN(12) {
		case 0: // truncate
			b = b[:r.IntN(len(b)+1)]
		case 1: // bit flip
			p := r.IntN(len(b))
			b[p] ^= 1 << r.IntN(8)
		case 2: // byte set
			b[r.IntN(len(b))] = []byte{0, 1, 0x3F, 0x40, 0x7F, 0x80, 0xBF, 0xC0, 0xFF}[r.IntN(9)]
		case 3: // header counts
			if len(b) >= 12 {
				binary.BigEndian.PutUint16(b[4+2*r.IntN(4):], interesting16[r.IntN(len(interesting16))])
			}
		case 4: // an RDLENGTH
			if len(o.rdlens) > 0 {
				p := o.rdlens[r.IntN(len(o.rdlens))]
				if p+2 <= len(b) {
					old := binary.BigEndian.Uint16(b[p:])
					v := []uint16{0, 1, old - 1, old + 1, old + 2, 0xFFFF, old / 2, uint16(r.IntN(65536))}[r.IntN(8)]
					binary.BigEndian.PutUint16(b[p:], v)
				}
			}
		case 5: // a label length
			if len(o.labels) > 0 {
				p := o.labels[r.IntN(len(o.labels))]
				if p < len(b) {
					b[p] = []byte{0, 1, 62, 63, 64, 0x80, 0xBF, 0xC0, 0xC1, 0xFF, b[p] + 1, b[p] - 1}[r.IntN(12)]
				}
			}
		case 6: // turn a label into a pointer
			if len(o.labels) > 0 {
				p := o.labels[r.IntN(len(o.labels))]
				if p+2 <= len(b) {
					t := []int{p, p + 1, p - 1, 0, 12, len(b) - 1, len(b), r.IntN(len(b) + 4), 0x3FFF}[r.IntN(9)]
					if t < 0 {
						t = 0
					}
					b[p] = 0xC0 | byte(t>>8)
					b[p+1] = byte(t)
				}
			}
		case 7: // delete a span
			p := r.IntN(len(b))
			q := p + r.IntN(16)
			if q > len(b) {
				q = len(b)
			}
			b = append(b[:p], b[q:]...)
		case 8: // duplicate a span
			p := r.IntN(len(b))
			q := p + r.IntN(24)
			if q > len(b) {
				q = len(b)
			}
			b = append(b[:q], append(append([]byte{}, b[p:q]...), b[q:]...)...)
		case 9: // overwrite a 16-bit word with an interesting value
			if len(b) >= 2 {
				binary.BigEndian.PutUint16(b[r.IntN(len(b)-1):], interesting16[r.IntN(len(interesting16))])
			}
		case 10: // splice random bytes
			p := r.IntN(len(b))
			n := r.IntN(12)
			ins := make([]byte, n)
			for i := range ins {
				ins[i] = byte(r.IntN(256))
			}
			b = append(b[:p], append(ins, b[p:]...)...)
		case 11: // record type changed (RDATA read under another layout)
			if len(o.rdlens) > 0 {
				p := o.rdlens[r.IntN(len(o.rdlens))] - 8
				if p >= 0 && p+2 <= len(b) {
					ts := model.LayoutList
					binary.BigEndian.PutUint16(b[p:], ts[r.IntN(len(ts))].Type)
				}
			}
		}
	}
	if len(b) > 65535 {
		b = b[:65535]
	}
	return b
}

// pointerGraph builds a message whose names form adversarial pointer graphs.
func c02PointerGraph(r *rand.Rand) []byte {
	b := make([]byte, 12, 600)
	binary.BigEndian.PutUint16(b[4:], 1)
	ptr := func(t int) []byte { return []byte{0xC0 | byte(t>>8), byte(t)} }
	switch r.IntN(9) {
	case 0: // self pointer
		b = append(b, ptr(12)...)
	case 1: // forward pointer to a later name
		b = append(b, ptr(18)...)
		b = append(b, 0, 1, 0, 1)
		b = append(b, 1, 'a', 0)
	case 2: // mutual
		b = append(b, ptr(14)...)
		b = append(b, ptr(12)...)
	case 3: // chain of n hops ending in a real name
		n := 1 + r.IntN(200)
		for i := 0; i < n; i++ {
			b = append(b, ptr(12+2*(i+1))...)
		}
		b = append(b, 3, 'w', 'w', 'w', 0)
	case 4: // chain of backwards hops: name first, then pointers each to the previous
		b = append(b, 3, 'w', 'w', 'w', 0) // at 12
		n := 1 + r.IntN(200)
		prev := 12
		for i := 0; i < n; i++ {
			at := len(b)
			b = append(b, ptr(prev)...)
			prev = at
		}
		binary.BigEndian.PutUint16(b[4:], 0)
		binary.BigEndian.PutUint16(b[6:], 1)
		// owner = pointer to the last pointer, then a minimal A record
		b = append(b, ptr(prev)...)
		b = append(b, 0, 1, 0, 1, 0, 0, 0, 0, 0, 4, 1, 2, 3, 4)
		return b
	case 5: // pointer into the middle of a label
		b = append(b, 5, 'a', 'b', 3, 'd', 'e', 0) // label bytes contain a fake length
		b = append(b, 0, 1, 0, 1)
		binary.BigEndian.PutUint16(b[6:], 1)
		b = append(b, ptr(15)...)
		b = append(b, 0, 1, 0, 1, 0, 0, 0, 0, 0, 4, 1, 2, 3, 4)
		return b
	case 6: // pointer beyond the message
		b = append(b, ptr(len(b)+50+r.IntN(0x3000))...)
	case 7: // labels that expand to more than 255 octets through pointers
		b = append(b, 63)
		b = append(b, make([]byte, 63)...)
		b = append(b, ptr(12)...)
	case 8: // long valid-looking name followed by pointer to itself + more labels
		for i := 0; i < 3; i++ {
			b = append(b, 63)
			b = append(b, make([]byte, 63)...)
		}
		b = append(b, 61)
		b = append(b, make([]byte, 61)...)
		b = append(b, ptr(12)...)
	}
	b = append(b, 0, 1, 0, 1)
	return b
}

// c02BackwardChain: one record of an unknown type whose opaque RDATA holds a name followed by n
// pointers, each to the one before it; then `users` 12-octet records whose owner is a pointer to
// the top of the chain. With closing, the bottom of the chain is a forward pointer to the top
// (a loop that is only recognised after walking it).
func c02BackwardChain(n, users int, closing bool) []byte {
	ptr := func(t int) []byte { return []byte{0xC0 | byte(t>>8), byte(t)} }
	b := make([]byte, 12, 12+16+2*n+12*users)
	if 12+11+5+2*n >= 0x4000 {
		n = (0x4000 - 12 - 11 - 5 - 2) / 2
	}
	binary.BigEndian.PutUint16(b[6:], uint16(1+users))
	b = append(b, 0, 0xFF, 0x00, 0, 1, 0, 0, 0, 0) // root owner, TYPE65280, IN, TTL 0
	rdlen := 5 + 2*n
	b = append(b, byte(rdlen>>8), byte(rdlen))
	bottom := len(b)
	top := bottom + 5 + 2*(n-1)
	if closing {
		b = append(b, ptr(top)...)
		b = append(b, 'w', 'w', 0)
	} else {
		b = append(b, 3, 'w', 'w', 'w', 0)
	}
	prev := bottom
	for i := 0; i < n; i++ {
		at := len(b)
		b = append(b, ptr(prev)...)
		prev = at
	}
	for i := 0; i < users; i++ {
		b = append(b, ptr(prev)...)
		b = append(b, 0, 1, 0, 1, 0, 0, 0, 0, 0, 0)
	}
	return b
}

// c02StructuredTLV: one OPT (or SVCB) record whose LAST option/parameter has a payload that is
// nearly well-formed for its code: inner length fields, prefix lengths and element sizes are off by
// a little, so decoders that derive a slice bound from a field inside the payload are exercised at
// the very end of the message (where an over-read leaves the input).
func c02StructuredTLV(r *rand.Rand) []byte {
	svcb := r.IntN(3) == 0
	var code uint16
	var data []byte
	rnd := func(n int) []byte {
		b := make([]byte, n)
		for i := range b {
			b[i] = byte(r.IntN(256))
		}
		return b
	}
	if !svcb {
		switch r.IntN(8) {
		case 0, 1, 2: // client subnet: family, source prefix, scope, address of any length
			code = 8
			fam := []uint16{0, 1, 1, 2, 2, 3}[r.IntN(6)]
			max := map[uint16]int{0: 0, 1: 32, 2: 128, 3: 255}[fam]
			prefix := r.IntN(max + 2)
			alen := r.IntN(18)
			if r.IntN(2) == 0 {
				alen = (prefix+7)/8 + r.IntN(3) - 1
				if alen < 0 {
					alen = 0
				}
			}
			data = append(binary.BigEndian.AppendUint16(nil, fam), byte(prefix), byte(r.IntN(max+1)))
			data = append(data, rnd(alen)...)
		case 3: // cookie 8 + 0/8..32, any length
			code = 10
			data = rnd([]int{0, 1, 7, 8, 9, 15, 16, 24, 40, 41}[r.IntN(10)])
		case 4: // EDE: info code + text
			code = 15
			data = rnd(r.IntN(4))
		case 5: // LLQ (18), UL (4/8), expire (0/4), keepalive (0/2), with lengths around those
			code = []uint16{1, 2, 9, 11}[r.IntN(4)]
			data = rnd([]int{0, 1, 2, 3, 4, 5, 7, 8, 9, 17, 18, 19}[r.IntN(12)])
		case 6: // DAU/DHU/N3U/NSID/padding/zoneversion/reporting channel
			code = []uint16{5, 6, 7, 3, 12, 19, 18}[r.IntN(7)]
			data = rnd(r.IntN(6))
		default:
			code = uint16(r.IntN(22))
			data = rnd(r.IntN(20))
		}
	} else {
		switch r.IntN(7) {
		case 0: // mandatory: list of 16-bit keys
			code, data = 0, rnd([]int{0, 1, 2, 3, 4, 5}[r.IntN(6)])
		case 1: // alpn: length-prefixed strings
			code = 1
			n := r.IntN(4)
			for i := 0; i < n; i++ {
				l := r.IntN(5)
				data = append(data, byte(l+r.IntN(3)-1))
				data = append(data, rnd(l)...)
			}
		case 2: // port
			code, data = 3, rnd(r.IntN(4))
		case 3: // ipv4hint / ipv6hint: multiples of 4 / 16, +-1
			code = []uint16{4, 6}[r.IntN(2)]
			data = rnd([]int{0, 3, 4, 5, 8, 15, 16, 17, 32, 33}[r.IntN(10)])
		case 4: // ech, dohpath, ohttp, tls-supported-groups
			code = []uint16{5, 7, 8, 9, 2}[r.IntN(5)]
			data = rnd(r.IntN(5))
		default:
			code = uint16(r.IntN(12))
			data = rnd(r.IntN(20))
		}
	}
	var rd []byte
	if svcb {
		rd = append(rd, 0, 1, 0)
	} else if r.IntN(2) == 0 { // a harmless option in front
		rd = append(rd, 0, 3, 0, 2, 'i', 'd')
	}
	rd = binary.BigEndian.AppendUint16(rd, code)
	rd = binary.BigEndian.AppendUint16(rd, uint16(len(data)))
	rd = append(rd, data...)
	b := make([]byte, 12, 32+len(rd))
	binary.BigEndian.PutUint16(b[10:], 1)
	b = append(b, 0)
	if svcb {
		b = append(b, 0, 65)
	} else {
		b = append(b, 0, 41)
	}
	b = append(b, 0, 1, 0, 0, 0, 0)
	b = binary.BigEndian.AppendUint16(b, uint16(len(rd)))
	return append(b, rd...)
}

// tlvSoup wraps hostile TLV data into an OPT or SVCB record inside a message.
func c02TLVSoup(r *rand.Rand) []byte {
	var rd []byte
	svcb := r.IntN(2) == 0
	if svcb {
		rd = append(rd, 0, 1, 0) // priority 1, target root
	}
	n := r.IntN(8)
	for i := 0; i < n; i++ {
		code := uint16(r.IntN(22))
		if r.IntN(5) == 0 {
			code = uint16(r.IntN(65536))
		}
		l := r.IntN(40)
		data := make([]byte, l)
		for k := range data {
			data[k] = byte(r.IntN(256))
		}
		claimed := l
		switch r.IntN(6) {
		case 0:
			claimed = l + 1 + r.IntN(5)
		case 1:
			claimed = 0xFFFF
		case 2:
			if l > 0 {
				claimed = l - 1
			}
		}
		rd = binary.BigEndian.AppendUint16(rd, code)
		rd = binary.BigEndian.AppendUint16(rd, uint16(claimed))
		rd = append(rd, data...)
	}
	b := make([]byte, 12, 64+len(rd))
	binary.BigEndian.PutUint16(b[10:], 1)
	b = append(b, 0)
	if svcb {
		b = append(b, 0, 64)
	} else {
		b = append(b, 0, 41)
	}
	b = append(b, 0, 1, 0, 0, 0, 0)
	b = binary.BigEndian.AppendUint16(b, uint16(len(rd)))
	return append(b, rd...)
}

var c02MemStats runtime.MemStats

func allocated() uint64 {
	runtime.ReadMemStats(&c02MemStats)
	return c02MemStats.TotalAlloc
}

// nameFields returns the values of the name-typed RDATA fields of rr per the model's layout table.
func nameFields(rr dns.RR) []string {
	l := model.Layouts[rr.Header().Rrtype]
	if l == nil {
		return nil
	}
	v := reflect.ValueOf(rr)
	if v.Kind() != reflect.Ptr || v.Elem().Kind() != reflect.Struct {
		return nil
	}
	v = v.Elem()
	var out []string
	for _, fd := range l.Fields {
		switch fd.Kind {
		case model.KName, model.KCName:
			if f := v.FieldByName(fd.Go); f.IsValid() && f.Kind() == reflect.String {
				out = append(out, f.String())
			}
		case model.KGateway:
			if f := v.FieldByName("GatewayHost"); f.IsValid() && f.Kind() == reflect.String {
				out = append(out, f.String())
			}
		case model.KNames:
			if f := v.FieldByName(fd.Go); f.IsValid() && f.Kind() == reflect.Slice {
				for i := 0; i < f.Len(); i++ {
					out = append(out, f.Index(i).String())
				}
			}
		}
	}
	return out
}

func c02CheckName(w *core.W, s, where string, wit any) {
	if s == "" {
		return // absent (RDATA-less record)
	}
	n, fq, err := model.ParsePres(s)
	if err != nil || !fq || !n.Valid() {
		w.Violation("C02/accepted-invalid-name/"+where, fmt.Sprintf("decoder accepted a message with the name %q (parse err %v, fqdn %v, wire length %d, labels %v)", cutS(s), err, fq, n.WireLen(), labelLens(n)), wit)
	}
}

// c02Input runs every decoder over one hostile input and exercises whatever was accepted.
func c02Input(w *core.W, b []byte, kind string) {
	w.Eval(1)
	w.Progress()
	wit := map[string]any{"input": hx(b), "kind": kind}
	in := make([]byte, len(b)) // the decoders get their own copy of exactly the input's size (no spare capacity); b stays the pristine witness
	copy(in, b)
	m := new(dns.Msg)
	var err error
	before := allocated()
	dns.VerifWork.Store(0)
	if w.Guard("Msg.Unpack", wit, func() { err = m.Unpack(in) }) {
		return
	}
	delta := allocated() - before
	// work: steps of the only loop whose iterations do not each consume input (the label/pointer
	// walk). A name costs at least 2 input octets (a pointer) and the decoder's own limits (126
	// pointers, 127 labels) cap one walk at 254 steps, so 128 steps per input octet is a fixed
	// multiple that correct code cannot exceed.
	work := dns.VerifWork.Load()
	w.Max("name_walk_steps_per_input_octet", float64(work)/float64(len(b)+1))
	if work > int64(128*len(b)+512) {
		w.Violation("C02/work-not-linear/Msg.Unpack", fmt.Sprintf("Msg.Unpack took %d label/pointer steps for an input of %d octets (bound %d)", work, len(b), 128*len(b)+512), wit)
	}
	c02Reuse(w, b, m, err, wit)
	// the same input at the front of a larger buffer (a pooled receive buffer) whose spare capacity
	// holds other octets: the result may not depend on anything behind the input
	{
		big := bytes.Repeat([]byte{0xA5}, len(b)+96)
		copy(big, b)
		m3 := new(dns.Msg)
		var e3 error
		if !w.Guard("Msg.Unpack(spare capacity)", wit, func() { e3 = m3.Unpack(big[:len(b)]) }) {
			if (e3 == nil) != (err == nil) {
				w.Violation("C02/depends-on-octets-behind-input/verdict", fmt.Sprintf("exact-size buffer: %v; same input with foreign octets in the spare capacity: %v", err, e3), wit)
			} else if err == nil {
				if d := bridge.Diff(m, m3); d != "" {
					w.Violation("C02/depends-on-octets-behind-input/content", "decoding the same input from a buffer with foreign octets behind it differs at "+d, wit)
				}
			}
		}
	}
	bound := uint64(1024*len(b) + 64*1024)
	w.Max("alloc_per_input_octet", float64(delta)/float64(len(b)+1))
	if delta > bound {
		w.Violation("C02/over-allocation/Msg.Unpack", fmt.Sprintf("Msg.Unpack allocated %d octets for an input of %d octets (bound %d); counts %d/%d/%d/%d", delta, len(b), bound,
			u16at(b, 4), u16at(b, 6), u16at(b, 8), u16at(b, 10)), wit)
	}
	if err == nil {
		w.Count("accepted_messages", 1)
		w.Nontrivial(b)
		nrec := len(m.Answer) + len(m.Ns) + len(m.Extra)
		if len(b) >= 12 && (nrec > (len(b)-12)/11 || len(m.Question) > len(b)-12) {
			w.Violation("C02/records-outside-input", fmt.Sprintf("an input of %d octets decoded into %d questions and %d records (a question needs at least 1 octet - the decoder tolerates a message that ends after the question name - and a record 11)", len(b), len(m.Question), nrec), wit)
		}
		for _, q := range m.Question {
			c02CheckName(w, q.Name, "question", wit)
		}
		for _, sec := range [][]dns.RR{m.Answer, m.Ns, m.Extra} {
			for _, rr := range sec {
				c02CheckName(w, rr.Header().Name, "owner", wit)
				for _, s := range nameFields(rr) {
					c02CheckName(w, s, "rdata/"+typeName(rr.Header().Rrtype), wit)
				}
			}
		}
		// whatever is accepted can be printed, measured, copied, compared and re-packed
		if nrec < 3000 {
			w.Guard("String(accepted)", wit, func() { _ = m.String() })
			w.Guard("Len(accepted)", wit, func() { m.Len() })
			var cp *dns.Msg
			w.Guard("Copy(accepted)", wit, func() { cp = m.Copy() })
			w.Guard("Pack(accepted)", wit, func() { m.Pack() })
			w.Guard("PackCompressed(accepted)", wit, func() { m.Compress = true; m.Pack(); m.Len() })
			if cp != nil {
				w.Guard("Pack(copy of accepted)", wit, func() { cp.Pack() })
			}
			all := append(append(append([]dns.RR{}, m.Answer...), m.Ns...), m.Extra...)
			if len(all) <= 40 {
				w.Guard("IsDuplicate(accepted)", wit, func() {
					for _, x := range all {
						for _, y := range all {
							dns.IsDuplicate(x, y)
						}
					}
				})
			}
			w.Guard("Truncate(accepted)", wit, func() { cp.Truncate(512) })
			if w.WantSample() && nrec > 0 {
				w.Sample(map[string]any{"kind": kind, "input": hx(b), "accepted_records": nrec})
			}
		}
	} else {
		w.Count("rejected_messages", 1)
	}
	// record, header and name decoders at several offsets
	offs := []int{0, 12}
	if len(b) > 0 {
		offs = append(offs, int(uint(len(b))*7/13), len(b)-1, len(b))
	}
	for _, off := range offs {
		if off > len(b) || off < 0 {
			continue
		}
		in2 := make([]byte, len(b))
		copy(in2, b)
		var rr dns.RR
		var o1 int
		w.Guard("UnpackRR", wit, func() { rr, o1, err = dns.UnpackRR(in2, off) })
		if err == nil && rr != nil {
			w.Count("accepted_records", 1)
			if o1 > len(b) {
				w.Violation("C02/offset-beyond-input/UnpackRR", fmt.Sprintf("UnpackRR(off=%d) returned offset %d for an input of %d octets", off, o1, len(b)), wit)
			}
			c02CheckName(w, rr.Header().Name, "owner", wit)
			for _, s := range nameFields(rr) {
				c02CheckName(w, s, "rdata/"+typeName(rr.Header().Rrtype), wit)
			}
			w.Guard("String(rr)", wit, func() { _ = rr.String() })
			w.Guard("Len(rr)", wit, func() { dns.Len(rr) })
			w.Guard("Copy(rr)", wit, func() { dns.Copy(rr) })
			w.Guard("PackRR(rr)", wit, func() { packRR(rr) })
			w.Guard("IsDuplicate(rr)", wit, func() { dns.IsDuplicate(rr, rr) })
		}
		var s string
		w.Guard("UnpackDomainName", wit, func() { s, o1, err = dns.UnpackDomainName(in2, off) })
		if err == nil {
			if o1 > len(b) {
				w.Violation("C02/offset-beyond-input/UnpackDomainName", fmt.Sprintf("UnpackDomainName(off=%d) returned offset %d for %d octets", off, o1, len(b)), wit)
			}
			c02CheckName(w, s, "UnpackDomainName", wit)
		}
	}
	// header-driven decoding of RDATA under every type: the input as RDATA of a record
	if len(b) <= 2000 {
		ts := []uint16{41, 64, 65, 42, 47, 50, 55, 45, 260, 46, 6, 16, 35, 257, 249, 250, 62, 37}
		// plus five more types of the registry, chosen by the input, so that every type's RDATA decoder
		// meets every kind of hostile input over a run
		all := c02AllTypes()
		h := fnv.New32a()
		h.Write(b)
		for k, st := 0, int(h.Sum32()%uint32(len(all))); k < 5; k++ {
			ts = append(ts, all[(st+k)%len(all)])
		}
		for _, t := range ts {
			h := dns.RR_Header{Name: ".", Rrtype: t, Class: 1, Ttl: 0, Rdlength: uint16(len(b))}
			in3 := make([]byte, len(b))
			copy(in3, b)
			var rr dns.RR
			w.Guard("UnpackRRWithHeader/"+typeName(t), wit, func() { rr, _, err = dns.UnpackRRWithHeader(h, in3, 0) })
			if err == nil && rr != nil {
				w.Guard("String(rr)/"+typeName(t), wit, func() { _ = rr.String() })
				w.Guard("Len(rr)/"+typeName(t), wit, func() { dns.Len(rr) })
				w.Guard("PackRR(rr)/"+typeName(t), wit, func() { packRR(rr) })
				w.Guard("Copy(rr)/"+typeName(t), wit, func() { dns.Copy(rr) })
			}
		}
	}
	// the same decoder with a header whose RDLENGTH claims less than the buffer holds (the RDATA is
	// followed by other records) and an RDATA that starts inside the buffer
	if len(b) >= 2 && len(b) <= 600 {
		for _, t := range []uint16{43, 48, 46, 47, 50, 51, 52, 6, 15, 33, 35, 44, 55, 45, 42, 41, 64, 99, 257, 256, 249, 250, 108, 109, 29, 65280} {
			for _, rl := range []int{0, 1, 2, 3, 5, len(b) / 2} {
				for _, off := range []int{0, 1, len(b) / 3} {
					if off+rl > len(b) {
						continue
					}
					h := dns.RR_Header{Name: ".", Rrtype: t, Class: 1, Rdlength: uint16(rl)}
					in4 := make([]byte, len(b))
					copy(in4, b)
					var rr dns.RR
					var o4 int
					w.Guard("UnpackRRWithHeader(short RDLENGTH)/"+typeName(t), wit, func() { rr, o4, err = dns.UnpackRRWithHeader(h, in4, off) })
					if err == nil && rr != nil && o4 > off+rl {
						w.Violation("C02/rdata-read-beyond-rdlength/"+typeName(t), fmt.Sprintf("UnpackRRWithHeader(RDLENGTH %d at %d) consumed up to offset %d", rl, off, o4), wit)
					}
				}
			}
		}
	}
	w.Guard("IsMsg", wit, func() { dns.IsMsg(append([]byte(nil), b...)) })
}

// c02Dirty is a message with every section populated, decoded once per process; c02Reuse decodes
// each input into a copy of it: a Msg that is reused for the next packet must end up exactly like
// a fresh one (nothing of the previous content may survive as records "of" the new input).
var c02DirtyWire = func() []byte {
	m := new(dns.Msg)
	m.SetQuestion("previous.example.", dns.TypeMX)
	m.Response = true
	m.Answer = []dns.RR{&dns.MX{Hdr: dns.RR_Header{Name: "previous.example.", Rrtype: dns.TypeMX, Class: 1, Ttl: 60}, Preference: 1, Mx: "mail.previous.example."}}
	m.Ns = []dns.RR{&dns.NS{Hdr: dns.RR_Header{Name: "previous.example.", Rrtype: dns.TypeNS, Class: 1, Ttl: 60}, Ns: "ns.previous.example."}}
	m.Extra = []dns.RR{&dns.A{Hdr: dns.RR_Header{Name: "ns.previous.example.", Rrtype: dns.TypeA, Class: 1, Ttl: 60}, A: []byte{192, 0, 2, 1}}}
	m.SetEdns0(4096, true)
	b, err := m.Pack()
	if err != nil {
		panic(err)
	}
	return b
}()

func c02Reuse(w *core.W, b []byte, fresh *dns.Msg, freshErr error, wit map[string]any) {
	used := new(dns.Msg)
	if used.Unpack(append([]byte(nil), c02DirtyWire...)) != nil {
		w.Inconclusive("dirty-message-does-not-decode")
		return
	}
	var err error
	if w.Guard("Msg.Unpack(reused)", wit, func() { err = used.Unpack(append([]byte(nil), b...)) }) {
		return
	}
	if (err == nil) != (freshErr == nil) {
		w.Violation("C02/reused-msg/verdict-differs", fmt.Sprintf("Unpack into a fresh Msg: %v; into a Msg that held another message: %v", freshErr, err), wit)
		return
	}
	if err != nil {
		return
	}
	w.Count("reused_decodes", 1)
	if d := bridge.Diff(fresh, used); d != "" {
		w.Violation("C02/reused-msg/stale-content", "a Msg reused for this input differs from a fresh one (fresh vs reused) at "+d, wit)
	}
	// ... and a Msg whose previous decode failed half-way (the packet before this one was cut inside its
	// last record: header, question and the first sections were already filled in)
	half := new(dns.Msg)
	half.Unpack(append([]byte(nil), c02DirtyWire[:len(c02DirtyWire)-7]...))
	var herr error
	if w.Guard("Msg.Unpack(reused after a failed decode)", wit, func() { herr = half.Unpack(append([]byte(nil), b...)) }) {
		return
	}
	if herr != nil {
		w.Violation("C02/reused-msg/verdict-differs", fmt.Sprintf("Unpack into a fresh Msg succeeds; into a Msg whose previous decode had failed: %v", herr), wit)
	} else if d := bridge.Diff(fresh, half); d != "" {
		w.Violation("C02/reused-msg/stale-content-after-failed-decode", "a Msg reused after a failed decode differs from a fresh one (fresh vs reused) at "+d, wit)
	}
}

func u16at(b []byte, off int) int {
	if off+2 > len(b) {
		return -1
	}
	return int(binary.BigEndian.Uint16(b[off:]))
}

var c02TypesOnce sync.Once
var c02Types []uint16

func c02AllTypes() []uint16 {
	c02TypesOnce.Do(func() {
		for t := range dns.TypeToRR {
			c02Types = append(c02Types, t)
		}
		sort.Slice(c02Types, func(i, j int) bool { return c02Types[i] < c02Types[j] })
	})
	return c02Types
}

func c02Mutations(w *core.W, j int) {
	g := model.NewGen(w.Rng(j))
	g.NoHuge = true
	g.MaxOpaque = 60
	ls := c01Layouts()
	r := w.Rng(j, 1)
	for k := 0; k < 4; k++ {
		m := genMsg(g, ls, 4)
		valid := m.Wire()
		o := walkOffsets(valid)
		if k%2 == 1 {
			valid = m.WireCompressed(true)
			o = msgOffsets{}
		}
		if len(valid) > 20000 {
			continue
		}
		c02Input(w, valid, "valid")
		for i := 0; i < 40; i++ {
			c02Input(w, c02Mutate(r, valid, o), "mutation")
		}
		// every truncation point of short messages
		if len(valid) <= 300 {
			for t := 0; t < len(valid); t++ {
				c02Input(w, valid[:t], "truncation")
			}
			w.Count("exhaustive_truncations", 1)
		}
	}
}

func c02Crafted(w *core.W, j int) {
	r := w.Rng(j)
	for k := 0; k < 60; k++ {
		c02Input(w, c02PointerGraph(r), "pointer-graph")
		c02Input(w, c02TLVSoup(r), "tlv-soup")
		c02Input(w, c02StructuredTLV(r), "structured-tlv")
		c02Input(w, c02StructuredTLV(r), "structured-tlv")
	}
	// long chains of strictly backward pointers inside opaque RDATA, used by many tiny records
	for _, n := range []int{100, 126, 127, 128, 300, 2000, 8000} {
		for _, users := range []int{1, 50, 2000} {
			for _, closing := range []bool{false, true} {
				c02Input(w, c02BackwardChain(n, users, closing), fmt.Sprintf("backward-chain-%d-users-%d", n, users))
			}
		}
	}
	// lying counts over a tiny body
	for _, cnt := range interesting16 {
		for f := 0; f < 4; f++ {
			b := make([]byte, 12)
			binary.BigEndian.PutUint16(b[4+2*f:], cnt)
			c02Input(w, b, "lying-count")
			// a message ending exactly on a record boundary with larger counts
			full := append(append([]byte{}, b...), 0, 0, 1, 0, 1, 0, 0, 0, 0, 0, 4, 1, 2, 3, 4)
			c02Input(w, full, "lying-count")
			all := append([]byte{}, full...)
			for x := 4; x < 12; x += 2 {
				binary.BigEndian.PutUint16(all[x:], cnt)
			}
			c02Input(w, all, "lying-count")
		}
	}
}

func c02Random(w *core.W, j int) {
	r := w.Rng(j)
	for k := 0; k < 60; k++ {
		var n int
		switch r.IntN(10) {
		case 0:
			n = r.IntN(65536)
		case 1:
			n = r.IntN(13)
		default:
			n = r.IntN(300)
		}
		b := make([]byte, n)
		mode := r.IntN(4)
		for i := range b {
			switch mode {
			case 0:
				b[i] = byte(r.IntN(256))
			case 1:
				b[i] = byte(r.IntN(4))
			case 2:
				b[i] = []byte{0, 0xC0, 0x0C, 1, 0xFF, 63, 0x29}[r.IntN(7)]
			default:
				b[i] = byte(r.IntN(256)) & byte(r.IntN(256))
			}
		}
		if n >= 12 && r.IntN(2) == 0 { // plausible header so that the body is reached
			for x := 4; x < 12; x += 2 {
				binary.BigEndian.PutUint16(b[x:], uint16(r.IntN(4)))
			}
		}
		c02Input(w, b, "random")
	}
}

func init() {
	plan, run := sections(
		section{"mutations", tiered(500, 40000), c02Mutations},
		section{"crafted", tiered(60, 3000), c02Crafted},
		section{"random", tiered(300, 20000), c02Random},
		section{"scaling", func(string) int { return len(c02Families) }, c02Scaling},
		concurrentSection("C02"),
	)
	core.Register(&core.Monitor{
		ID: "C02", Level: "exploration", Plan: plan, Run: run, Terminates: true, CaseTimeout: 40e9,
		Rule: "structure-aware mutations of valid (uncompressed and model-compressed) messages of all types (truncation at every point of short ones, bit/byte flips, counts/RDLENGTH/label-length/pointer fields set to boundary values, type swaps, splices), " +
			"adversarial pointer graphs (self, forward, mutual, 1..200-hop chains, into a label, beyond the message, >255 expansions; chains of 100..8000 strictly backward pointers inside opaque RDATA used by 1..2000 records, open and closed into a loop), lying counts over tiny bodies, OPT/SVCB TLV soup, nearly well-formed payloads per EDNS0 option / SVCB key as the last thing in the message (client-subnet family x prefix x address length, cookie/LLQ/UL/expire/keepalive sizes, alpn/hint/mandatory element sizes), each input decoded from an exact-capacity copy and again from a buffer with foreign octets behind it, random strings 0..65535; " +
			"every decoder (Msg.Unpack, UnpackRR, UnpackRRWithHeader under 18 types, UnpackDomainName at 5 offsets, IsMsg); oracle: no panic/fatal/hang, TotalAlloc delta <= 1024*len+64KiB, label/pointer-walk steps (verif counter) <= 128*len+512, decoding into a Msg that held another message equals decoding into a fresh one, offsets inside the input, records >= 11 octets each (questions >= 1), accepted names valid by the model, " +
			"accepted results survive String/Len/Copy/Pack/IsDuplicate/Truncate; the same operations called from 8 goroutines at once give the results they give alone; non-trivial = distinct input accepted by Msg.Unpack",
		Assumptions: []string{"allocation measured with runtime.ReadMemStats in a single-goroutine worker", "a hang is a watchdog firing three times on the isolated case"},
		MinObserved: []string{"accepted_messages", "rejected_messages", "accepted_records", "exhaustive_truncations"},
	})
}
