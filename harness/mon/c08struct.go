package mon

import (
	"encoding/base32"
	"encoding/base64"
	"encoding/hex"
	"fmt"
	"net"
	"reflect"
	"strings"

	"github.com/miekg/dns"

	"verifharness/bridge"
	"verifharness/core"
	"verifharness/model"
)

// c08Struct: records as a program builds them by hand, not as a decoder delivers them. The statement
// quantifies over "every message that can be packed": whenever PackRR accepts a value, Len must cover
// what was written and Msg.Pack must not run out of room - whatever the companion length fields,
// paddings, letter case of hex digits or the in-memory form of addresses say.
func c08Struct(w *core.W, j int) {
	registerPrivate()
	ls := c01Layouts()
	g := model.NewGen(w.Rng(j))
	g.NoHuge = true
	g.MaxOpaque = 90
	for k := 0; k < 12; k++ {
		l := ls[(j*12+k)%len(ls)]
		rec := g.Rec(l)
		rr, err := buildAny(rec)
		if err != nil || rr == nil {
			continue
		}
		touched := handMutate(g, rr)
		if g.R.IntN(5) == 0 {
			// the header is a struct a program fills in too: any valid owner name, also for records whose
			// owner is conventionally the root (OPT) - what the packer writes is what Len has to count
			if n := g.Name(); n.Valid() {
				rr.Header().Name = n.Pres()
				touched = append(touched, "Hdr.Name:name")
			}
		}
		if l.Type == 42 || l.Type == 41 || l.Type == 64 || l.Type == 65 {
			// types whose RDATA is a list of structured items: more than one try at reaching an item
			for x := 0; x < 3; x++ {
				touched = append(touched, handMutate(g, rr)...)
			}
		}
		if len(touched) == 0 {
			continue
		}
		w.Eval(1)
		wit := map[string]any{"type": l.Name, "fields_set_by_hand": touched, "value": fmt.Sprintf("%#v", rr)}
		if len(wit["value"].(string)) > 3000 {
			wit["value"] = wit["value"].(string)[:3000]
		}
		var off, ln int
		var perr error
		big := make([]byte, 70000)
		if w.Guard("PackRR/Len(hand-built)", wit, func() {
			ln = dns.Len(rr)
			off, perr = dns.PackRR(rr, big, 0, nil, false)
		}) {
			continue
		}
		if perr != nil {
			w.Count("hand_built_unpackable", 1)
			continue
		}
		w.Count("hand_built_records", 1)
		w.Cover("hand_built_type", l.Name)
		for _, t := range touched {
			w.Cover("hand_built_field_kind", t[strings.IndexByte(t, ':')+1:])
		}
		w.NontrivialStr(l.Name, string(big[:off]))
		kinds := strings.Join(touched, "+")
		if ln < off {
			w.Violation("C08/rr-len-underestimates/hand-built/"+l.Name, fmt.Sprintf("Len(rr)=%d < %d octets written by PackRR (fields set by hand: %s)", ln, off, kinds), wit)
		}
		for _, compress := range []bool{false, true} {
			m := new(dns.Msg)
			m.SetQuestion("hand.example.", dns.TypeA)
			m.Compress = compress
			if l.Type == 41 || l.Type == 250 || l.Type == 24 && false {
				m.Extra = []dns.RR{rr}
			} else {
				m.Answer = []dns.RR{rr}
			}
			var ml int
			var out []byte
			var merr error
			if w.Guard("Msg.Len/Pack(hand-built)", wit, func() { ml = m.Len(); out, merr = m.Pack() }) {
				break
			}
			if merr != nil {
				w.Violation(fmt.Sprintf("C08/pack-fails-on-packable/hand-built/%s/compress=%v", l.Name, compress), fmt.Sprintf("PackRR wrote the record into a large buffer (%d octets) but Msg.Pack fails: %v (Len()=%d; fields set by hand: %s)", off, merr, ml, kinds), wit)
				continue
			}
			if ml < len(out) {
				w.Violation(fmt.Sprintf("C08/len-underestimates/hand-built/%s/compress=%v", l.Name, compress), fmt.Sprintf("Len()=%d < %d packed (fields set by hand: %s)", ml, len(out), kinds), wit)
			}
		}
	}
}

// handMutate sets one or two fields of the record (for an OPT: of one of its options) by hand, the way
// a program filling in the struct might: integers (including the length companions of other fields),
// hex/base64/base32 text in either case and padding, text with escapes, addresses in their 0-, 4- and
// 16-octet forms. It returns what it set.
func handMutate(g *model.Gen, rr dns.RR) []string {
	v := reflect.ValueOf(rr)
	if o, ok := rr.(*dns.OPT); ok && len(o.Option) > 0 && g.R.IntN(4) > 0 {
		v = reflect.ValueOf(o.Option[g.R.IntN(len(o.Option))])
	}
	// SVCB/HTTPS: one of the parameters (ipv4hint/ipv6hint address lists, alpn ids, mandatory keys, ...)
	var sv *dns.SVCB
	switch x := rr.(type) {
	case *dns.SVCB:
		sv = x
	case *dns.HTTPS:
		sv = &x.SVCB
	}
	if sv != nil && len(sv.Value) > 0 && g.R.IntN(3) > 0 {
		v = reflect.ValueOf(sv.Value[g.R.IntN(len(sv.Value))])
	}
	if v.Kind() != reflect.Ptr || v.Elem().Kind() != reflect.Struct {
		return nil
	}
	return handMutateStruct(g, v.Elem())
}

func handMutateStruct(g *model.Gen, sv reflect.Value) []string {
	r := g.R
	var cand []int
	for i := 0; i < sv.NumField(); i++ {
		if sv.Type().Field(i).Name != "Hdr" && sv.Field(i).CanSet() {
			cand = append(cand, i)
		}
	}
	if len(cand) == 0 {
		return nil
	}
	var touched []string
	for n := 1 + r.IntN(2); n > 0; n-- {
		i := cand[r.IntN(len(cand))]
		f := sv.Field(i)
		sf := sv.Type().Field(i)
		tag := sf.Tag.Get("dns")
		what := ""
		switch f.Kind() {
		case reflect.Uint8, reflect.Uint16, reflect.Uint32, reflect.Uint64:
			bits := f.Type().Bits()
			val := []uint64{0, 1, 2, uint64(1)<<uint(bits) - 1, r.Uint64() >> uint(64-bits), uint64(r.IntN(40))}[r.IntN(6)]
			f.SetUint(val)
			what = "int"
		case reflect.String:
			raw := g.Bytes(r.IntN(60))
			switch {
			case strings.Contains(tag, "hex"):
				s := hex.EncodeToString(raw)
				if r.IntN(3) == 0 {
					s = strings.ToUpper(s)
				}
				what = "hex"
				if len(s) > 0 && r.IntN(5) == 0 {
					// an odd number of digits, a blank inside: text a user may well write; whatever the packer
					// makes of it (it refuses it today), Len goes by the same reading
					if r.IntN(2) == 0 {
						s = s[1:]
						what = "hex-odd-digits"
					} else {
						s = s[:len(s)/2] + " " + s[len(s)/2:]
						what = "hex-with-blank"
					}
				}
				f.SetString(s)
			case strings.Contains(tag, "base64"):
				s := base64.StdEncoding.EncodeToString(raw)
				if r.IntN(2) == 0 {
					s = strings.TrimRight(s, "=")
					what = "base64-unpadded"
				} else {
					what = "base64"
				}
				f.SetString(s)
			case strings.Contains(tag, "base32"):
				s := base32.HexEncoding.WithPadding(base32.NoPadding).EncodeToString(raw)
				if r.IntN(2) == 0 {
					s = strings.ToLower(s)
				}
				f.SetString(s)
				what = "base32"
			case strings.Contains(tag, "domain-name"):
				continue
			case tag == "octet" || tag == "txt" || tag == "":
				f.SetString(bridge.EscStr(g.TextBytes(r.IntN(80))))
				what = "text"
			default:
				continue
			}
		case reflect.Slice:
			switch f.Type() {
			case reflect.TypeOf(net.IP{}):
				ip := net.IP(g.Bytes([]int{0, 4, 16, 16}[r.IntN(4)]))
				if len(ip) == 16 && r.IntN(2) == 0 {
					ip = net.IPv4(ip[12], ip[13], ip[14], ip[15])
				}
				f.Set(reflect.ValueOf(ip))
				what = "ip"
			case reflect.TypeOf([]dns.APLPrefix{}):
				ps, _ := f.Interface().([]dns.APLPrefix)
				if len(ps) == 0 {
					continue
				}
				x := &ps[r.IntN(len(ps))]
				n := len(x.Network.IP)
				if n != 4 && n != 16 {
					n = 4
				}
				x.Network.IP = net.IP(g.Bytes(n))
				x.Network.Mask = net.IPMask(g.Bytes(n)) // not a CIDR mask: wildcard masks, holes
				what = "apl-mask"
			case reflect.TypeOf([]net.IP{}):
				// address lists (SVCB hints): the 4-octet form, the 16-octet form of an IPv4 address (what
				// net.ParseIP and net.IPv4 return), plain IPv6
				v6 := strings.Contains(sv.Type().Name(), "IPv6")
				var ips []net.IP
				for x := 1 + r.IntN(3); x > 0; x-- {
					b := g.Bytes(16)
					switch {
					case v6 && r.IntN(4) > 0:
						ips = append(ips, net.IP(b))
					case r.IntN(2) == 0:
						ips = append(ips, net.IPv4(b[0], b[1], b[2], b[3]))
					default:
						ips = append(ips, net.IP(b[:4]))
					}
				}
				f.Set(reflect.ValueOf(ips))
				what = "ip-list"
			case reflect.TypeOf([]string{}):
				var ss []string
				for x := r.IntN(4); x > 0; x-- {
					ss = append(ss, bridge.EscStr(g.TextBytes(r.IntN(300))))
				}
				f.Set(reflect.ValueOf(ss))
				what = "strings"
			default:
				continue
			}
		default:
			continue
		}
		touched = append(touched, sf.Name+":"+what)
	}
	return touched
}
