package mon

import (
	"sort"
	"sync"
	"bytes"
	"encoding/base64"
	"encoding/hex"
	"fmt"
	"net/netip"
	"strconv"
	"strings"

	"github.com/miekg/dns"

	"verifharness/core"
	"verifharness/model"
)

// textLayouts: the types that have a presentation format.
func textLayouts() []*model.Layout {
	var ls []*model.Layout
	for _, l := range model.LayoutList {
		if !l.NoText {
			ls = append(ls, l)
		}
	}
	return ls
}

// c05Features are hostile contents injected into one text-ish field at a time.
var c05Features = []struct {
	name string
	data []byte
}{
	{"plain", []byte("abc")},
	{"space", []byte("a b")},
	{"tab", []byte("a\tb")},
	{"quote", []byte(`a"b`)},
	{"backslash", []byte(`a\b`)},
	{"backslash-digits", []byte(`a\065b`)},
	{"trailing-backslash", []byte(`ab\`)},
	{"semicolon", []byte("a;b")},
	{"parens", []byte("a(b)c")},
	{"newline", []byte("a\nb")},
	{"cr", []byte("a\rb")},
	{"nul", []byte("a\x00b")},
	{"del", []byte("a\x7fb")},
	{"high-bit", []byte("a\x80\xff\xc3\xa9b")},
	{"dollar-at", []byte("$a@b")},
	{"empty", []byte{}},
	{"len255", bytes.Repeat([]byte("x"), 255)},
	{"len255-hostile", bytes.Repeat([]byte("\" "), 127)},
	{"dot", []byte("a.b")},
	{"leading-digit", []byte("0123")},
	{"hash", []byte("#a")},
	{"only-space", []byte(" ")},
	{"len300", bytes.Repeat([]byte("y"), 300)},
}

// injectable field kinds and how a feature is applied
func c05Inject(r *model.Rec, fi int, feat []byte) bool {
	fd := r.L.Fields[fi]
	switch fd.Kind {
	case model.KStr:
		if len(feat) > 255 {
			return false
		}
		r.Vals[fi] = append([]byte(nil), feat...)
	case model.KStrs:
		if len(feat) > 255 {
			return false
		}
		r.Vals[fi] = [][]byte{append([]byte(nil), feat...), []byte("second")}
	case model.KStrOpt:
		if len(feat) > 255 {
			return false
		}
		r.Vals[fi] = model.OptStr{Present: true, S: append([]byte(nil), feat...)}
	case model.KOctet:
		r.Vals[fi] = append([]byte(nil), feat...)
	case model.KName, model.KCName:
		if len(feat) == 0 || len(feat) > 63 {
			return false
		}
		n := r.Vals[fi].(model.Name).Clone()
		n = append(model.Name{append([]byte(nil), feat...)}, n...)
		if !n.Valid() {
			n = model.Name{append([]byte(nil), feat...), []byte("example")}
		}
		r.Vals[fi] = n
	default:
		return false
	}
	return true
}

func isTextKind(k model.Kind) bool {
	switch k {
	case model.KStr, model.KStrs, model.KStrOpt, model.KOctet, model.KName, model.KCName:
		return true
	}
	return false
}

// c05Round runs the text round trip for one library record and reports under key suffix cls.
func c05Round(w *core.W, rr dns.RR, origin string, cls string, wit map[string]any) {
	tn := typeName(rr.Header().Rrtype)
	w.Eval(1)
	var text string
	if w.Guard("String", wit, func() { text = rr.String() }) {
		return
	}
	wit["text"] = cutS(text)
	want, err := packRR(rr)
	if err != nil {
		return // not packable: outside "record"
	}
	var rr2 dns.RR
	if w.Guard("NewRR", wit, func() { rr2, err = dns.NewRR(text) }) {
		return
	}
	if err != nil || rr2 == nil {
		w.Violation("C05/reparse-error/"+tn+cls, fmt.Sprintf("the text produced by String() is not accepted by the zone parser (%s record from %s): %v\n text: %s", tn, origin, err, cutS(text)), wit)
		return
	}
	h1, h2 := rr.Header(), rr2.Header()
	if !strings.EqualFold(h1.Name, h2.Name) || h1.Name != h2.Name || h1.Class != h2.Class || h1.Ttl != h2.Ttl || h1.Rrtype != h2.Rrtype {
		w.Violation("C05/header-differs/"+tn+cls, fmt.Sprintf("re-read header %q/%d/%d/%d, original %q/%d/%d/%d", h2.Name, h2.Class, h2.Ttl, h2.Rrtype, h1.Name, h1.Class, h1.Ttl, h1.Rrtype), wit)
		return
	}
	got, err := packRR(rr2)
	if err != nil {
		w.Violation("C05/reparsed-record-unpackable/"+tn+cls, fmt.Sprintf("the re-read record cannot be packed: %v", err), wit)
		return
	}
	if !bytes.Equal(got, want) {
		w.Violation("C05/rdata-differs/"+tn+cls, fmt.Sprintf("String() → parse changes the record (%s from %s): %s\n text: %s", tn, origin, diffWin(got, want), cutS(text)), wit)
		return
	}
	// the text of the re-read record is stable
	if t2 := rr2.String(); t2 != text {
		rr3, err := dns.NewRR(t2)
		if err != nil || rr3 == nil {
			w.Violation("C05/second-roundtrip-error/"+tn+cls, fmt.Sprintf("the text printed by a record that was itself read from text is not accepted: %v\n text: %s", err, cutS(t2)), wit)
		} else if g3, err := packRR(rr3); err == nil && !bytes.Equal(g3, want) {
			w.Violation("C05/second-roundtrip-differs/"+tn+cls, "a record read from text prints to text that reads back differently", wit)
		}
	}
	w.Count("roundtrips", 1)
}

// c05Independent reads the text with the independent tokenizer and, for regular layouts,
// compares field values.
func c05Independent(w *core.W, r *model.Rec, text string, cls string, wit map[string]any) {
	tn := r.L.Name
	toks, err := model.Tokenize(text)
	if err != nil {
		w.Violation("C05/not-master-file-syntax/"+tn+cls, fmt.Sprintf("an independent RFC 1035 s.5.1 tokenizer rejects the text: %v\n text: %s", err, cutS(text)), wit)
		return
	}
	if len(toks) < 4 {
		w.Violation("C05/too-few-tokens/"+tn+cls, fmt.Sprintf("%d tokens in %s", len(toks), cutS(text)), wit)
		return
	}
	w.Count("independent_reads", 1)
	if n, fq, err := model.ParsePres(toks[0].Raw); err != nil || !fq || !n.Equal(r.Owner) {
		w.Violation("C05/independent-owner/"+tn+cls, fmt.Sprintf("owner token %q does not denote %s (err %v)", toks[0].Raw, r.Owner.Pres(), err), wit)
	}
	if v, err := strconv.ParseUint(toks[1].Raw, 10, 32); err != nil || uint32(v) != r.TTL {
		w.Violation("C05/independent-ttl/"+tn+cls, fmt.Sprintf("TTL token %q, want %d", toks[1].Raw, r.TTL), wit)
	}
	if c, ok := classFromText(toks[2].Raw); !ok || c != r.Class {
		w.Violation("C05/independent-class/"+tn+cls, fmt.Sprintf("class token %q, want %d", toks[2].Raw, r.Class), wit)
	}
	if bespokeText[r.Type] {
		w.Count("independent_reads_bespoke", 1)
		if why := c05Bespoke(r, toks[4:]); why != "" {
			w.Violation("C05/independent-read-differs/"+tn+cls, fmt.Sprintf("the text, read from the RFC's description of the %s format, does not denote the record: %s\n text: %s", tn, why, cutS(text)), wit)
		}
		return
	}
	if !regularText[r.Type] {
		return
	}
	rd := toks[4:]
	pos := 0
	fail := func(fd model.Field, why string) {
		w.Violation("C05/independent-read-differs/"+tn+cls, fmt.Sprintf("field %s read independently from the text differs: %s\n text: %s", fd.Go, why, cutS(text)), wit)
	}
	for i, fd := range r.L.Fields {
		v := r.Vals[i]
		next := func() (model.Token, bool) {
			if pos >= len(rd) {
				return model.Token{}, false
			}
			pos++
			return rd[pos-1], true
		}
		switch fd.Kind {
		case model.KU8, model.KU16, model.KU32, model.KU48, model.KU64:
			t, ok := next()
			if !ok {
				fail(fd, "missing")
				return
			}
			if x, err := strconv.ParseUint(t.Raw, 10, 64); err != nil || x != v.(uint64) {
				fail(fd, fmt.Sprintf("token %q, want %d", t.Raw, v.(uint64)))
			}
		case model.KName, model.KCName:
			t, ok := next()
			if !ok {
				fail(fd, "missing")
				return
			}
			if n, fq, err := model.ParsePres(t.Raw); err != nil || !fq || !n.Equal(v.(model.Name)) {
				fail(fd, fmt.Sprintf("token %q does not denote %s", t.Raw, v.(model.Name).Pres()))
			}
		case model.KA, model.KAAAA:
			t, ok := next()
			if !ok {
				fail(fd, "missing")
				return
			}
			a, err := netip.ParseAddr(t.Raw)
			if err != nil {
				fail(fd, fmt.Sprintf("token %q is not an address", t.Raw))
				break
			}
			var b []byte
			if fd.Kind == model.KA {
				if !a.Is4() {
					fail(fd, fmt.Sprintf("token %q is not an IPv4 address", t.Raw))
					break
				}
				x := a.As4()
				b = x[:]
			} else {
				x := a.As16()
				b = x[:]
			}
			if !bytes.Equal(b, v.([]byte)) {
				fail(fd, fmt.Sprintf("token %q, want %x", t.Raw, v.([]byte)))
			}
		case model.KStr:
			t, ok := next()
			if !ok {
				fail(fd, "missing")
				return
			}
			if !bytes.Equal(t.Val, v.([]byte)) {
				fail(fd, fmt.Sprintf("token %q reads as %q, want %q", t.Raw, t.Val, v.([]byte)))
			}
		case model.KStrOpt:
			o := v.(model.OptStr)
			if o.Present {
				t, ok := next()
				if !ok || !bytes.Equal(t.Val, o.S) {
					fail(fd, "optional string differs")
				}
			}
		case model.KStrs:
			var got [][]byte
			for pos < len(rd) {
				got = append(got, rd[pos].Val)
				pos++
			}
			want := v.([][]byte)
			if len(got) != len(want) {
				fail(fd, fmt.Sprintf("%d strings, want %d", len(got), len(want)))
				break
			}
			for k := range got {
				if !bytes.Equal(got[k], want[k]) {
					fail(fd, fmt.Sprintf("string %d reads as %q, want %q", k, got[k], want[k]))
					break
				}
			}
		case model.KOctet:
			t, ok := next()
			if !ok || !bytes.Equal(t.Val, v.([]byte)) {
				fail(fd, fmt.Sprintf("reads as %q, want %q", t.Val, v.([]byte)))
			}
		case model.KHex, model.KB64:
			var sb strings.Builder
			for pos < len(rd) {
				sb.WriteString(rd[pos].Raw)
				pos++
			}
			var b []byte
			var err error
			if fd.Kind == model.KHex {
				b, err = hex.DecodeString(sb.String())
			} else {
				b, err = base64.StdEncoding.DecodeString(sb.String())
			}
			if err != nil || !bytes.Equal(b, v.([]byte)) {
				fail(fd, fmt.Sprintf("blob %q does not decode to the field (%d octets): %v", cutS(sb.String()), len(v.([]byte)), err))
			}
		default:
			return
		}
	}
	if pos != len(rd) {
		w.Violation("C05/independent-extra-tokens/"+tn+cls, fmt.Sprintf("%d tokens left over in %s", len(rd)-pos, cutS(text)), wit)
	}
}

func classFromText(s string) (uint16, bool) {
	switch strings.ToUpper(s) {
	case "IN":
		return 1, true
	case "CS":
		return 2, true
	case "CH":
		return 3, true
	case "HS":
		return 4, true
	case "NONE":
		return 254, true
	case "ANY":
		return 255, true
	}
	if strings.HasPrefix(strings.ToUpper(s), "CLASS") {
		v, err := strconv.ParseUint(s[5:], 10, 16)
		return uint16(v), err == nil
	}
	return 0, false
}

// regularText: types whose RDATA text is the plain sequence of their fields.
var regularText = map[uint16]bool{1: true, 2: true, 3: true, 4: true, 5: true, 6: true, 7: true, 8: true, 9: true, 12: true, 13: true, 14: true, 15: true, 16: true, 17: true, 18: true,
	19: true, 20: true, 21: true, 23: true, 26: true, 27: true, 28: true, 33: true, 35: true, 36: true, 39: true, 43: true, 44: true, 48: true, 25: true, 60: true, 57: true, 49: true,
	52: true, 53: true, 56: true, 58: true, 59: true, 61: true, 63: true, 99: true, 100: true, 101: true, 102: true, 105: true, 107: true, 256: true, 257: true, 258: true, 261: true,
	31: true, 32: true, 32768: true, 32769: true}

// c05Base draws a record of layout l whose text-ish fields hold fixed, harmless, non-empty
// content, class IN and a small TTL, so that an injected feature is the only hostile thing in it.
func c05Base(g *model.Gen, l *model.Layout) *model.Rec {
	var r *model.Rec
	for {
		r = g.Rec(l)
		if c01Class(r, nil) == "" {
			break
		}
	}
	r.Owner = model.Name{[]byte("owner"), []byte("example")}
	r.Class = 1
	r.TTL = uint32(1 + g.R.IntN(86400))
	for i, fd := range l.Fields {
		switch fd.Kind {
		case model.KU8, model.KU16, model.KU32, model.KU48, model.KU64:
			r.Vals[i] = uint64(1 + i)
		case model.KA:
			r.Vals[i] = []byte{192, 0, 2, byte(1 + i)}
		case model.KAAAA:
			r.Vals[i] = []byte{0x20, 0x01, 0x0d, 0xb8, 0, 0, 0, 0, 0, 0, 0, 0, 0, 0, 0, byte(1 + i)}
		case model.KStr:
			r.Vals[i] = []byte(fmt.Sprintf("s%d", i))
		case model.KStrs:
			r.Vals[i] = [][]byte{[]byte("one"), []byte("two")}
		case model.KStrOpt:
			r.Vals[i] = model.OptStr{Present: true, S: []byte("sub")}
		case model.KOctet:
			r.Vals[i] = []byte("octets")
		case model.KName, model.KCName:
			r.Vals[i] = model.Name{[]byte(fmt.Sprintf("n%d", i)), []byte("example")}
		case model.KNames:
			r.Vals[i] = []model.Name{{[]byte("rvs"), []byte("example")}}
		case model.KGateway:
			gw := r.Vals[i].(model.Gateway)
			if gw.Type == 3 {
				gw.Host = model.Name{[]byte("gw"), []byte("example")}
				r.Vals[i] = gw
			}
		case model.KHex, model.KB64, model.KHexN, model.KB64N:
			r.Vals[i] = []byte{0xde, 0xad, 0xbe, 0xef, byte(i), 0x01, 0x02, 0x03}
		case model.KB32N:
			r.Vals[i] = bytes.Repeat([]byte{0x5a, byte(i)}, 10) // 20 octets: the SHA-1 hash length
		case model.KBitmap:
			r.Vals[i] = []uint16{1, 15, 46}
		}
	}
	set := func(name string, v uint64) {
		if i := l.FieldIndex(name); i >= 0 {
			r.Vals[i] = v
		}
	}
	switch l.Type {
	case 29: // LOC: a position inside the RFC 1876 ranges
		set("Version", 0)
		set("Size", 0x12)
		set("HorizPre", 0x16)
		set("VertPre", 0x13)
		set("Latitude", 1<<31+52*3600000)
		set("Longitude", 1<<31-4*3600000)
		set("Altitude", 10000000+1234)
	case 27: // GPOS: decimal numbers (RFC 1712)
		r.Vals[0], r.Vals[1], r.Vals[2] = []byte("-32.6882"), []byte("116.8652"), []byte("10.0")
	case 24, 46:
		set("TypeCovered", 1)
		set("Algorithm", 8)
		set("Labels", 2)
		set("OrigTtl", 3600)
		set("Expiration", 1_760_000_000)
		set("Inception", 1_750_000_000)
	case 50, 51:
		set("Hash", 1)
		set("Flags", 1)
		set("Iterations", 10)
	case 37:
		set("Type", 1)
		set("Algorithm", 8)
	case 48, 25, 60, 57:
		set("Flags", 257)
		set("Protocol", 3)
		set("Algorithm", 8)
	case 43, 59, 32768, 32769:
		set("Algorithm", 8)
		set("DigestType", 2)
	case 55:
		set("PublicKeyAlgorithm", 2)
	}
	if l.Type == 257 { // CAA tags are 1..15 letters/digits (RFC 8659)
		r.Vals[1] = []byte("issue")
	}
	r.Fixup()
	return r
}

var c05ClassFeatures = []struct {
	name  string
	class uint16
}{{"class-CH", 3}, {"class-HS", 4}, {"class-NONE", 254}, {"class-ANY", 255}, {"class-2", 2}, {"class-65535", 65535}, {"class-0", 0}}

// c05Feature: one hostile feature in one field (or the owner, or the class) of an otherwise harmless record.
func c05Feature(w *core.W, j int) {
	ls := textLayouts()
	l := ls[j%len(ls)]
	g := model.NewGen(w.Rng(j))
	g.NoHuge = true
	g.Plain = true
	g.MaxOpaque = 48
	var fields []int
	for i, fd := range l.Fields {
		if isTextKind(fd.Kind) {
			fields = append(fields, i)
		}
	}
	w.Cover("type", l.Name)
	// the harmless base itself
	c05Both(w, c05Base(g, l), "/base/plain")
	for _, ttl := range []uint32{0, 1<<31 - 1, 1 << 31, 1<<32 - 1} {
		r := c05Base(g, l)
		r.TTL = ttl
		w.Cover("feature", fmt.Sprintf("ttl-%d", ttl))
		c05Both(w, r, fmt.Sprintf("/ttl/%d", ttl))
	}
	for _, cf := range c05ClassFeatures {
		r := c05Base(g, l)
		r.Class = cf.class
		w.Cover("feature", cf.name)
		c05Both(w, r, "/class/"+cf.name)
	}
	targets := append([]int{-1}, fields...) // -1 = owner name
	for _, fi := range targets {
		for _, ft := range c05Features {
			r := c05Base(g, l)
			field := "owner"
			if fi < 0 {
				if len(ft.data) == 0 || len(ft.data) > 63 {
					continue
				}
				r.Owner = model.Name{append([]byte(nil), ft.data...), []byte("example")}
			} else {
				field = l.Fields[fi].Go
				if l.Type == 257 && field == "Tag" {
					continue // RFC 8659 restricts tags to letters and digits
				}
				if l.Type == 27 {
					continue // RFC 1712: GPOS fields are decimal numbers
				}
				if !c05Inject(r, fi, ft.data) {
					continue
				}
			}
			r.Fixup()
			w.Cover("feature", ft.name)
			c05Both(w, r, "/"+field+"/"+ft.name)
		}
	}
	// LOC: values around every point where the text form changes shape (sign of the altitude, hemisphere,
	// whole degrees/minutes/seconds, every size/precision mantissa and exponent)
	if l.Type == 29 {
		setv := func(r *model.Rec, name string, v uint64) {
			if i := l.FieldIndex(name); i >= 0 {
				r.Vals[i] = v
			}
		}
		for _, d := range []int64{-100000, -10001, -10000, -9999, -201, -200, -199, -101, -100, -99, -51, -50, -49, -2, -1, 0, 1, 2, 49, 50, 51, 99, 100, 101, 199, 200, 10000, 4284967295 - 10000000} {
			r := c05Base(g, l)
			setv(r, "Altitude", uint64(10000000+d))
			c05Both(w, r, "/Altitude/around-zero")
		}
		for _, d := range []int64{-324000000, -3600001, -3600000, -3599999, -60001, -60000, -59999, -1001, -1000, -999, -1, 0, 1, 999, 1000, 1001, 59999, 60000, 60001, 3599999, 3600000, 3600001, 324000000} {
			r := c05Base(g, l)
			setv(r, "Latitude", uint64(int64(1)<<31+d))
			c05Both(w, r, "/Latitude/around-equator")
			r2 := c05Base(g, l)
			setv(r2, "Longitude", uint64(int64(1)<<31+2*d))
			c05Both(w, r2, "/Longitude/around-meridian")
		}
		// every value of the degrees / minutes / seconds / milliseconds subfields at least once (the
		// text form pads them with zeros: 08, 09, 007 ...)
		for k := 0; k < 60; k++ {
			r := c05Base(g, l)
			v := int64(k%90)*3600000 + int64(k)*60000 + int64((k*7)%60)*1000 + int64((k*37)%1000)
			setv(r, "Latitude", uint64(int64(1)<<31+[]int64{v, -v}[k%2]))
			v2 := int64((k*3)%180)*3600000 + int64(59-k)*60000 + int64(k)*1000 + int64((k*101)%1000)
			setv(r, "Longitude", uint64(int64(1)<<31+[]int64{-v2, v2}[k%2]))
			c05Both(w, r, "/position/subfields")
		}
		for m := 0; m <= 9; m++ {
			for e := 0; e <= 9; e++ {
				if m == 0 && e > 0 {
					continue // 0 x 10^e: zero written with a spare exponent has no text form of its own
				}
				r := c05Base(g, l)
				setv(r, []string{"Size", "HorizPre", "VertPre"}[(m+e)%3], uint64(m<<4|e))
				c05Both(w, r, "/precision/mantissa-exponent")
			}
		}
	}
	// GPOS: decimal numbers over the whole globe in both angle fields (RFC 1712's prose gives the first
	// field the +-90 range, its field name says longitude: text the library prints for either reading has
	// to be read back), altitudes below sea level and far above
	if l.Type == 27 {
		for _, v := range [][3]string{{"151.2093", "-33.8688", "58"}, {"-179.9999", "89.9999", "-430.5"}, {"180", "-90", "0"}, {"-180.0", "90.0", "8848.86"},
			{"90.0001", "179.9", "10000000"}, {"0", "0", "-0.5"}, {"-0.0001", "180", "35786000"}, {"116.8652", "-32.6882", "10.0"}, {"89", "-179", "-10994"}} {
			r := c05Base(g, l)
			r.Vals[0], r.Vals[1], r.Vals[2] = []byte(v[0]), []byte(v[1]), []byte(v[2])
			r.Fixup()
			c05Both(w, r, "/position/whole-globe")
		}
	}
	// CAA: tags in upper and mixed case (RFC 8659 s.4.1: letters and digits, matched case-insensitively -
	// the octets are kept as they are), of 1 and of 15 characters
	if l.Type == 257 {
		for _, tag := range []string{"Issue", "ISSUEWILD", "ioDef", "A", "z", "0", "Z9", "contactEmail", "ABCDEFGHIJKLMNO", "a1B2c3D4e5F6g7H", "issuemail"} {
			r := c05Base(g, l)
			r.Vals[1] = []byte(tag)
			r.Fixup()
			c05Both(w, r, "/Tag/letter-case")
		}
	}
	// names of the maximum length (255 octets on the wire): every octet escaped as \DDD (the longest
	// possible text, 1004 characters), every octet a plain letter, and one octet short of the limit
	for _, mn := range c05MaxNames() {
		for _, fi := range targets {
			r := c05Base(g, l)
			field := "owner"
			if fi < 0 {
				r.Owner = mn.n.Clone()
			} else {
				fd := l.Fields[fi]
				if fd.Kind != model.KName && fd.Kind != model.KCName {
					continue
				}
				field = fd.Go
				r.Vals[fi] = mn.n.Clone()
			}
			r.Fixup()
			w.Cover("feature", mn.name)
			c05Both(w, r, "/"+field+"/"+mn.name)
		}
	}
	// boundary values of the non-text fields, one at a time
	for i, fd := range l.Fields {
		var vals []any
		switch fd.Kind {
		case model.KU8:
			vals = []any{uint64(0), uint64(255)}
		case model.KU16:
			vals = []any{uint64(0), uint64(65535)}
		case model.KU32:
			vals = []any{uint64(0), uint64(1<<32 - 1)}
		case model.KU48:
			vals = []any{uint64(0), uint64(1<<48 - 1)}
		case model.KU64:
			vals = []any{uint64(0), ^uint64(0)}
		case model.KHex, model.KB64:
			vals = []any{[]byte{}, []byte{0}, bytes.Repeat([]byte{0xAB}, 600)}
		case model.KHexN, model.KB64N:
			vals = []any{[]byte{}, bytes.Repeat([]byte{0xCD}, 255)}
		case model.KBitmap:
			vals = []any{[]uint16{}, []uint16{0}, []uint16{65535}, []uint16{1, 255, 256, 65280}, []uint16{41, 250, 249}}
		case model.KA:
			vals = []any{[]byte{0, 0, 0, 0}, []byte{255, 255, 255, 255}}
		case model.KAAAA:
			vals = []any{make([]byte, 16), append(make([]byte, 10), 0xff, 0xff, 1, 2, 3, 4), bytes.Repeat([]byte{0xff}, 16)}
		}
		if fd.LenOf != "" || fd.GwOf != "" || l.Type == 29 {
			continue // derived fields; LOC values are range-restricted (RFC 1876) and have bespoke text
		}
		if l.Type == 50 && fd.Go == "NextDomain" {
			continue
		}
		if l.Type == 55 && (fd.Go == "Hit" || fd.Go == "PublicKey") {
			vals = vals[1:] // RFC 8005: a HIP record has a HIT and a public key; empty ones have no text form
		}
		for vi, v := range vals {
			r := c05Base(g, l)
			r.Vals[i] = v
			r.Fixup()
			if c01Class(r, nil) != "" {
				continue
			}
			c05Both(w, r, fmt.Sprintf("/%s/boundary%d", fd.Go, vi))
		}
	}
}

type c05MaxName struct {
	name string
	n    model.Name
}

func c05MaxNames() []c05MaxName {
	mk := func(fill func(i int) byte, lens ...int) model.Name {
		var n model.Name
		k := 0
		for _, l := range lens {
			lab := make([]byte, l)
			for i := range lab {
				lab[i] = fill(k)
				k++
			}
			n = append(n, lab)
		}
		return n
	}
	ctl := func(i int) byte { return byte(1 + i%31) }    // all printed as \DDD
	hi := func(i int) byte { return byte(0x80 + i%128) } // all printed as \DDD
	let := func(i int) byte { return byte('a' + i%26) }
	return []c05MaxName{
		{"name-255-all-escaped", mk(ctl, 63, 63, 63, 61)},
		{"name-255-all-escaped-high", mk(hi, 63, 63, 63, 61)},
		{"name-254-all-escaped", mk(ctl, 63, 63, 63, 60)},
		{"name-255-letters", mk(let, 63, 63, 63, 61)},
		{"name-255-one-octet-labels", mk(let, func() []int {
			x := make([]int, 127)
			for i := range x {
				x[i] = 1
			}
			return x
		}()...)},
	}
}

// c05Zone: the String() lines of several records, one per line, read back as one zone must give
// the same records in the same order (no record's parser may eat into the next entry).
func c05Zone(w *core.W, j int) {
	ls := textLayouts()
	g := model.NewGen(w.Rng(j))
	g.NoHuge = true
	g.Plain = true
	g.MaxOpaque = 48
	// every type is followed by every "successor shape" over the plan: pair (j, j/len) plus random filler
	n := 2 + g.R.IntN(4)
	var recs []*model.Rec
	for k := 0; k < n; k++ {
		var l *model.Layout
		switch k {
		case 0:
			l = ls[j%len(ls)]
		case 1:
			l = ls[(j/len(ls)*7+j)%len(ls)]
		default:
			l = ls[g.R.IntN(len(ls))]
		}
		r := c05Base(g, l)
		r.Owner = model.Name{[]byte(fmt.Sprintf("r%d", k)), []byte("example")}
		if k == 0 && (j/len(ls))%3 == 1 && len(l.Fields) > 0 {
			// the first record ends early: its last field is empty (no key, no digest, no type list, no
			// parameters), so its line ends right behind the field before - and the next entry follows
			last := len(l.Fields) - 1
			switch l.Fields[last].Kind {
			case model.KB64, model.KHex, model.KOctet:
				r.Vals[last] = []byte{}
			case model.KBitmap:
				r.Vals[last] = []uint16{}
			case model.KNames:
				r.Vals[last] = []model.Name{}
			case model.KSVCB:
				r.Vals[last] = []model.SVCParam{}
			case model.KAPL:
				r.Vals[last] = []model.APLItem{}
			}
			r.Fixup()
			w.Count("zones_first_record_ends_early", 1)
		}
		recs = append(recs, r)
	}
	var text strings.Builder
	var want [][]byte
	var types []string
	for _, r := range recs {
		rr, _, err := dns.UnpackRR(r.Wire(), 0)
		if err != nil {
			return
		}
		// each line alone must be readable, otherwise the single-record sections report it
		if one, err := dns.NewRR(rr.String()); err != nil || one == nil {
			return
		}
		pk, err := packRR(rr)
		if err != nil {
			return
		}
		want = append(want, pk)
		types = append(types, r.L.Name)
		text.WriteString(rr.String())
		text.WriteString("\n")
	}
	w.Eval(1)
	w.Count("zones", 1)
	w.NontrivialStr("zone", strings.Join(types, ","))
	w.Cover("zone_first_type", types[0])
	wit := map[string]any{"zone": cutS(text.String())}
	var got [][]byte
	var perr error
	if w.Guard("ZoneParser", wit, func() {
		zp := dns.NewZoneParser(strings.NewReader(text.String()), "", "")
		for rr, ok := zp.Next(); ok; rr, ok = zp.Next() {
			pk, err := packRR(rr)
			if err != nil {
				pk = []byte("unpackable")
			}
			got = append(got, pk)
		}
		perr = zp.Err()
	}) {
		return
	}
	for i := range want {
		if i >= len(got) {
			what := "parse-error"
			if perr == nil {
				what = "records-missing"
			}
			w.Violation("C05/zone-sequence/"+what+"/"+types[i], fmt.Sprintf("a zone made of the String() lines of %d records (%s) stops at record %d (%s): %v\n%s", len(want), strings.Join(types, ","), i, types[i], perr, cutS(text.String())), wit)
			return
		}
		if !bytes.Equal(got[i], want[i]) {
			w.Violation("C05/zone-sequence/record-differs/"+types[i], fmt.Sprintf("record %d (%s) of a zone made of String() lines reads back differently: %s", i, types[i], diffWin(got[i], want[i])), wit)
			return
		}
	}
	if len(got) > len(want) || perr != nil {
		w.Violation("C05/zone-sequence/extra/"+types[len(types)-1], fmt.Sprintf("zone of %d String() lines yields %d records, err=%v", len(want), len(got), perr), wit)
	}
}

// c05Both runs the round trip for the record built from the struct and decoded from the wire.
func c05Both(w *core.W, r *model.Rec, cls string) {
	wire := r.Wire()
	w.Nontrivial(wire)
	wit := map[string]any{"type": r.L.Name, "wire": hx(wire)}
	if rr, _, err := dns.UnpackRR(wire, 0); err == nil {
		c05Round(w, rr, "wire", cls, wit)
		if text, ok := wit["text"].(string); ok && !strings.HasSuffix(text, "...") {
			c05Independent(w, r, rr.String(), cls, wit)
		}
		if w.WantSample() {
			w.Sample(map[string]any{"type": r.L.Name, "class": cls, "text": cutS(rr.String())})
		}
	}
	if built, err := buildAny(r); err == nil {
		c05Round(w, built, "struct", cls, map[string]any{"type": r.L.Name, "wire": hx(wire)})
	}
}

// c05Random: the harmless base with random hostile content in every text field at once and
// random values in the other fields (values with a recorded finding of their own are avoided:
// types 0 and 65535 in bitmaps/TypeCovered, octet fields over 255 octets).
func c05Random(w *core.W, j int) {
	ls := textLayouts()
	g := model.NewGen(w.Rng(j))
	g.NoHuge = true
	g.MaxOpaque = 120
	for k := 0; k < 12; k++ {
		l := ls[(j*12+k)%len(ls)]
		g.Plain = false
		r := c05Base(g, l)
		r.Class = []uint16{1, 1, 3, 4, 254, 65535}[g.R.IntN(6)]
		r.TTL = uint32(g.R.IntN(1 << 31))
		if lab := g.Label(); k%2 == 0 {
			r.Owner = model.Name{lab, g.Label()}
		}
		for i, fd := range l.Fields {
			if fd.LenOf != "" || fd.GwOf != "" || l.Type == 29 || l.Type == 27 {
				continue
			}
			switch fd.Kind {
			case model.KStr:
				if l.Type == 257 {
					continue
				}
				r.Vals[i] = g.TextBytes(g.Len(0, 255))
			case model.KStrs:
				n := 1 + g.R.IntN(4)
				ss := make([][]byte, n)
				for x := range ss {
					ss[x] = g.TextBytes(g.Len(0, 255))
				}
				r.Vals[i] = ss
			case model.KStrOpt:
				r.Vals[i] = model.OptStr{Present: true, S: g.TextBytes(g.Len(0, 255))}
			case model.KOctet:
				r.Vals[i] = g.TextBytes(g.Len(0, 255))
			case model.KName, model.KCName:
				r.Vals[i] = g.FreshName()
			case model.KU8, model.KU16, model.KU32, model.KU48, model.KU64:
				v := g.Val(l, fd, 1000).(uint64)
				if fd.Go == "TypeCovered" && (v == 0 || v == 65535) {
					v = 1
				}
				r.Vals[i] = v
			case model.KHex, model.KB64, model.KHexN, model.KB64N:
				r.Vals[i] = g.Bytes(1 + g.R.IntN(100))
			case model.KBitmap:
				var bm []uint16
				for _, t := range g.Bitmap() {
					if t != 0 && t != 65535 {
						bm = append(bm, t)
					}
				}
				r.Vals[i] = bm
			case model.KA:
				r.Vals[i] = g.Bytes(4)
			case model.KAAAA:
				r.Vals[i] = g.Bytes(16)
			}
		}
		r.Fixup()
		if c01Class(r, nil) != "" || !r.Owner.Valid() {
			continue
		}
		w.Cover("type", l.Name)
		c05Both(w, r, "/random")
	}
}

// c05Generic: the RFC 3597 generic form (\# len hex) and TYPEnnn/CLASSnnn spellings give the same record.
func c05Generic(w *core.W, j int) {
	ls := textLayouts()
	g := model.NewGen(w.Rng(j))
	g.NoHuge = true
	g.Plain = true
	g.MaxOpaque = 64
	// records of types without a mnemonic (RFC 3597 s.5: only the generic form exists), from the wire
	// and from text
	for _, t := range []uint16{11, 22, 40, 103, 127, 262, 4711, 32767, 65280, 65534} {
		u := model.Unknown(t)
		r := g.Rec(u)
		r.Owner, r.Class, r.TTL = model.Name{[]byte("unk"), []byte("example")}, 1, uint32(1+g.R.IntN(86400))
		if k := g.R.IntN(4); k == 0 {
			r.Vals[0] = []byte{}
		}
		r.Fixup()
		if t == 4711 && j%8 == 0 {
			r.Vals[0] = bytes.Repeat([]byte{0xA5, byte(j)}, []int{32767, 32768, 40000, 65535}[j/8%4])[:[]int{32767, 32768, 40000, 65535}[j/8%4]]
			r.Fixup()
			w.Count("generic_forms_over_32767_octets", 1)
		}
		w.Cover("type", "TYPE"+fmt.Sprint(t))
		c05Both(w, r, "/unknown-type")
		rd, _ := r.Rdata()
		text := fmt.Sprintf("%s %d IN TYPE%d \\# %d %s", r.Owner.Pres(), r.TTL, t, len(rd), hex.EncodeToString(rd))
		if rr, err := dns.NewRR(text); err == nil && rr != nil {
			c05Round(w, rr, "text", "/unknown-type", map[string]any{"type": u.Name, "source_text": text})
		} else {
			w.Violation("C05/generic-form-rejected/unknown-type/TYPEnnn", fmt.Sprintf("%v\n text: %s", err, text), map[string]any{"text": text})
		}
	}
	for k := 0; k < 8; k++ {
		l := ls[(j*8+k)%len(ls)]
		r := c05Base(g, l)
		if k%2 == 0 {
			r.Class = []uint16{1, 3, 4, 254, 2, 65535}[g.R.IntN(6)]
		}
		rd, _ := r.Rdata()
		if len(rd) > 2000 {
			continue
		}
		want := r.Wire()
		wit := map[string]any{"type": l.Name, "wire": hx(want)}
		classes := []string{fmt.Sprintf("CLASS%d", r.Class)}
		if s, ok := dns.ClassToString[r.Class]; ok {
			classes = append(classes, s, strings.ToLower(s))
		}
		types := []string{fmt.Sprintf("TYPE%d", l.Type), l.Name, strings.ToLower(l.Name)}
		for _, c := range classes {
			for _, t := range types {
				hexs := hex.EncodeToString(rd)
				if g.R.IntN(2) == 0 && len(hexs) > 8 { // hex may be split into words
					hexs = hexs[:4] + " " + hexs[4:8] + " ( " + hexs[8:] + " )"
				}
				text := fmt.Sprintf("%s %d %s %s \\# %d %s", r.Owner.Pres(), r.TTL, c, t, len(rd), hexs)
				if len(rd) == 0 {
					text = fmt.Sprintf("%s %d %s %s \\# 0", r.Owner.Pres(), r.TTL, c, t)
				}
				w.Eval(1)
				w.Count("generic_forms", 1)
				var rr dns.RR
				var err error
				wit["text"] = cutS(text)
				if w.Guard("NewRR", wit, func() { rr, err = dns.NewRR(text) }) {
					continue
				}
				key := "type-mnemonic"
				if strings.HasPrefix(t, "TYPE") {
					key = "TYPEnnn"
				}
				if err != nil || rr == nil {
					w.Violation("C05/generic-form-rejected/"+l.Name+"/"+key, fmt.Sprintf("the generic form is not accepted: %v\n text: %s", err, cutS(text)), wit)
					continue
				}
				got, err := packRR(rr)
				if err != nil || !bytes.Equal(got, want) {
					w.Violation("C05/generic-form-differs/"+l.Name+"/"+key, fmt.Sprintf("the generic form yields a different record (err %v): %s", err, diffWin(got, want)), wit)
				}
			}
		}
		// the ordinary text with TYPEnnn / CLASSnnn in place of the mnemonics
		if rr, _, err := dns.UnpackRR(want, 0); err == nil {
			text := rr.String()
			parts := strings.SplitN(text, "\t", 5)
			if len(parts) == 5 {
				for _, sub := range [][2]string{{fmt.Sprintf("CLASS%d", r.Class), parts[3]}, {parts[2], fmt.Sprintf("TYPE%d", l.Type)}, {fmt.Sprintf("CLASS%d", r.Class), fmt.Sprintf("TYPE%d", l.Type)}} {
					t2 := strings.Join([]string{parts[0], parts[1], sub[0], sub[1], parts[4]}, "\t")
					w.Eval(1)
					w.Count("numeric_spellings", 1)
					rr2, err := dns.NewRR(t2)
					if err != nil || rr2 == nil {
						w.Violation("C05/numeric-spelling-rejected/"+l.Name, fmt.Sprintf("%v\n text: %s", err, cutS(t2)), wit)
						continue
					}
					if got, err := packRR(rr2); err != nil || !bytes.Equal(got, want) {
						w.Violation("C05/numeric-spelling-differs/"+l.Name, fmt.Sprintf("text with %s %s reads as a different record", sub[0], sub[1]), wit)
					}
				}
			}
		}
	}
}

// c05Codes: all 65536 type and class codes through mnemonic and numeric spellings (4096 per case).
var c05GoneOnce sync.Once

func c05Codes(w *core.W, j int) {
	// a user-registered private type that has been taken out of the registry again (PrivateHandle, then
	// PrivateHandleRemove): its code is an unknown type like any other afterwards, in every table
	c05GoneOnce.Do(func() {
		dns.PrivateHandle("GONEPRIV", 65290, func() dns.PrivateRdata { return new(privRdata) })
		dns.PrivateHandleRemove(65290)
	})
	if j == 15 {
		for _, text := range []string{"n.example. 300 IN NSEC next.example. A TYPE65290", "s.example. 300 IN RRSIG TYPE65290 8 2 300 20300101000000 20200101000000 1 example. AAAA"} {
			rr, err := dns.NewRR(text)
			w.Eval(1)
			w.Count("removed_private_type_records", 1)
			if err != nil || rr == nil {
				continue
			}
			if back, err := dns.NewRR(rr.String()); err != nil || back == nil || back.String() != rr.String() {
				w.Violation("C05/reparse-error/removed-private-type", fmt.Sprintf("a record that mentions the code of a private type that was registered and removed again prints as %q, which reads back as err=%v", rr.String(), err), map[string]any{"text": text})
			}
		}
	}
	for k := 0; k < 4096; k++ {
		code := uint16(j*4096 + k)
		w.Eval(1)
		// type: TYPEnnn always; the mnemonic String() emits must read back to the same code
		for _, spelling := range []string{fmt.Sprintf("TYPE%d", code), dns.Type(code).String()} {
			if code == 41 || code == 250 || code == 249 || code == 255 && spelling == "ANY" { // no presentation format (OPT, TSIG, TKEY)
				continue
			}
			text := fmt.Sprintf("x.example. 300 IN %s \\# 0", spelling)
			rr, err := dns.NewRR(text)
			if err != nil || rr == nil {
				w.Violation("C05/type-code-spelling-rejected/"+c05CodeClass(spelling), fmt.Sprintf("type %d written %q: %v", code, spelling, err), map[string]any{"text": text})
				continue
			}
			if rr.Header().Rrtype != code {
				w.Violation("C05/type-code-spelling-differs/"+c05CodeClass(spelling), fmt.Sprintf("type %d written %q reads as %d", code, spelling, rr.Header().Rrtype), map[string]any{"text": text})
			}
		}
		for _, spelling := range []string{fmt.Sprintf("CLASS%d", code), dns.Class(code).String()} {
			text := fmt.Sprintf("x.example. 300 %s TXT \"a\"", spelling)
			rr, err := dns.NewRR(text)
			if err != nil || rr == nil {
				w.Violation("C05/class-code-spelling-rejected/"+c05CodeClass(spelling), fmt.Sprintf("class %d written %q: %v", code, spelling, err), map[string]any{"text": text})
				continue
			}
			if rr.Header().Class != code {
				w.Violation("C05/class-code-spelling-differs/"+c05CodeClass(spelling), fmt.Sprintf("class %d written %q reads as %d", code, spelling, rr.Header().Class), map[string]any{"text": text})
			}
		}
		w.Count("codes", 1)
	}
	w.NontrivialStr("codes", fmt.Sprint(j))
}

// c05TypesWithFindings: types whose text has recorded (known) defects for specific contents; they
// are judged content class by content class in the feature section and left out of the random
// section, where a failure could not be attributed to one class.
var c05TypesWithFindings = map[string]bool{}

func c05CodeClass(spelling string) string {
	if strings.HasPrefix(spelling, "TYPE") || strings.HasPrefix(spelling, "CLASS") {
		return "numeric"
	}
	return "mnemonic:" + spelling
}

// c05RdatalessText: the zone parser reads an entry that ends after the type - `name ttl class TYPE` - as
// a record without RDATA (the form RFC 2136 prerequisites and deletions have); "whether it came from
// unpacking wire data or from parsing text", the text String() gives for it is read back as the same record.
func c05RdatalessText(w *core.W, j int) {
	var names []string
	for t, n := range dns.TypeToString {
		if t == dns.TypeOPT || t == dns.TypeANY || t == dns.TypeNone || t == dns.TypeReserved || t == dns.TypeAXFR || t == dns.TypeIXFR || t == dns.TypeMAILA || t == dns.TypeMAILB || t == dns.TypeTSIG || t == dns.TypeTKEY {
			continue
		}
		names = append(names, n)
	}
	sort.Strings(names)
	for k, name := range names {
		if k%2 != j%2 {
			continue
		}
		text := "rdataless.example.\t300\tIN\t" + name
		wit := map[string]any{"type": name, "zone_text": text}
		var rr, back dns.RR
		var err, err2 error
		var out string
		if w.Guard("NewRR/String(rdataless)", wit, func() {
			rr, err = dns.NewRR(text)
			if err == nil && rr != nil {
				out = rr.String()
				back, err2 = dns.NewRR(out)
			}
		}) {
			continue
		}
		w.Eval(1)
		if err != nil || rr == nil {
			w.Count("rdataless_text_not_read", 1)
			continue
		}
		w.Count("rdataless_text_records", 1)
		wit["string"] = out
		if err2 != nil || back == nil {
			w.Violation("C05/rdataless-text-not-rereadable/"+name, fmt.Sprintf("%q is read as a %s record without RDATA; its String() %q is refused: %v", text, name, out, err2), wit)
			continue
		}
		b1, e1 := packRR(rr)
		b2, e2 := packRR(back)
		if e1 != nil || e2 != nil || !bytes.Equal(b1, b2) {
			w.Violation("C05/rdataless-text-not-rereadable/"+name, fmt.Sprintf("%q is read as a %s record without RDATA; its String() %q is read back as another record (%x vs %x, pack errors %v / %v)", text, name, out, b1, b2, e1, e2), wit)
		}
	}
	w.NontrivialStr("rdataless-text", fmt.Sprint(j))
}

func init() {
	nt := len(textLayouts())
	plan, run := sections(
		section{"codes", tiered(16, 16), c05Codes},
		section{"features", tiered(nt*4, nt*40), c05Feature},
		section{"generic", tiered(nt*4, nt*60), c05Generic},
		section{"random", tiered(6000, 200000), c05Random},
		section{"zones", tiered(nt*12, nt*nt), c05Zone},
		section{"rdataless-text", tiered(2, 2), c05RdatalessText},
		concurrentSection("C05"),
	)
	core.Register(&core.Monitor{
		ID: "C05", Level: "exploration", Plan: plan, Run: run, Terminates: true,
		Rule: "every type with a presentation format: an otherwise plain record with one of 22 hostile contents (space, tab, quote, backslash, \\DDD-looking digits, trailing backslash, semicolon, parentheses, newline, CR, NUL, DEL, high-bit octets, $ and @, empty, 255 octets, dots, leading digit, #) injected into one text field or the owner at a time; fully random well-formed records; " +
			"both wire-decoded and struct-built records: String() must be accepted by NewRR with identical header and octet-identical RDATA; an independent RFC 1035 s.5.1 tokenizer must accept the text and, for 56 regular types, read every field value back; " +
			"names of the maximum length (255 octets, all-escaped = 1004 characters) as owner and in every name field; zones made of 2..5 String() lines (every type first, varied successors) read back record for record; RFC 3597 generic form and TYPEnnn/CLASSnnn/mnemonic/lower-case spellings for every type; all 65536 type and class codes in both spellings; the same operations called from 8 goroutines at once give the results they give alone; non-trivial = distinct record wire",
		Assumptions: []string{"OPT, TSIG, TKEY, NULL, ANY, NXNAME and RDATA-less records have no presentation format", "record classes with a C01 known finding are excluded"},
		MinObserved: []string{"roundtrips", "independent_reads", "generic_forms", "numeric_spellings", "codes", "zones"},
	})
}
