package mon

import (
	"errors"
	"crypto/tls"
	"net"
	"path/filepath"
	"os"
	"bytes"
	"encoding/base64"
	"encoding/binary"
	"fmt"
	"io"
	"strings"
	"sync/atomic"
	"time"

	"github.com/miekg/dns"

	"verifharness/core"
	"verifharness/model"
	"verifharness/netsim"
)

const c15Key = "xfr-key."

var c15Secret = []byte("0123456789abcdef0123456789ABCDEF")

func soaRec(zone model.Name, serial uint32) *model.Rec {
	l := model.Layouts[6]
	return &model.Rec{Owner: zone, Type: 6, Class: 1, TTL: 3600, L: l,
		Vals: []any{append(model.Name{[]byte("ns")}, zone...), append(model.Name{[]byte("hostmaster")}, zone...), uint64(serial), uint64(7200), uint64(3600), uint64(1209600), uint64(300)}}
}

// zoneRecs draws n non-SOA records under zone.
func zoneRecs(g *model.Gen, zone model.Name, n int) []*model.Rec {
	var ls []*model.Layout
	for _, l := range model.LayoutList {
		switch l.Type {
		case 6, 41, 250, 249, 255, 128, 10:
			continue
		}
		ls = append(ls, l)
	}
	g.Pool = []model.Name{zone}
	var out []*model.Rec
	for len(out) < n {
		r := g.Rec(ls[g.R.IntN(len(ls))])
		if c01Class(r, nil) != "" {
			continue
		}
		r.Owner = append(model.Name{g.Label()}, zone...)
		if !r.Owner.Valid() {
			continue
		}
		r.Class = 1
		out = append(out, r)
	}
	return out
}

// compose splits a record stream into envelopes according to the bits of comp (bit i set =
// envelope boundary after record i).
func compose(stream []*model.Rec, comp uint64) [][]*model.Rec {
	var envs [][]*model.Rec
	var cur []*model.Rec
	for i, r := range stream {
		cur = append(cur, r)
		if i == len(stream)-1 || comp&(1<<uint(i%63)) != 0 {
			envs = append(envs, cur)
			cur = nil
		}
	}
	return envs
}

type c15Fault struct {
	readTimeout time.Duration // 0: the harness default of 3 s
	kind string // "", "first-not-soa", "rcode", "id", "idwire", "eof", "alter", "reorder", "unsign", "wrongkey", "emptymac", "extra-after-end"
	at   int    // envelope index (or octet offset for eof)
}

type c15Result struct {
	skipped    bool     // the fault does not apply to this stream
	records    [][]byte // packed records delivered (all envelopes)
	errIndex   int      // index of the first envelope with Error != nil, -1 if none
	envelopes  int
	closedCh   bool
	connCloses int
	hung       bool
	lastErr    error
}

// runTransfer plays the primary: it writes the envelopes (with the fault) and lets the library's
// Transfer.In consume them.
func c15Run(w *core.W, q *dns.Msg, envs [][]*model.Rec, tsig bool, f c15Fault, rcodeAt int) c15Result {
	cl, sv := netsim.StreamPair()
	if len(envs)%2 == 0 {
		cl.CloseDelay = 2 * time.Millisecond // closing takes a while: "channel closed" must still imply "connection closed"
	}
	rt := 3 * time.Second
	if f.readTimeout > 0 {
		rt = f.readTimeout
	}
	tr := &dns.Transfer{Conn: &dns.Conn{Conn: cl}, ReadTimeout: rt}
	secretB64 := base64.StdEncoding.EncodeToString(c15Secret)
	if tsig {
		tr.TsigSecret = map[string]string{c15Key: secretB64}
		q.SetTsig(c15Key, dns.HmacSHA256, 300, time.Now().Unix())
	}
	res := c15Result{errIndex: -1}
	ch, err := tr.In(q, "sim")
	if err != nil {
		res.lastErr = err
		res.errIndex = 0
		return res
	}
	// read the request the secondary wrote
	var l [2]byte
	sv.SetReadDeadline(time.Now().Add(c13Watch))
	if _, err := io.ReadFull(sv, l[:]); err != nil {
		res.lastErr = err
		return res
	}
	reqWire := make([]byte, binary.BigEndian.Uint16(l[:]))
	io.ReadFull(sv, reqWire)
	var prevMAC []byte
	if tsig {
		_, rt, _, ok := model.SplitTSIG(reqWire)
		if !ok {
			w.Inconclusive("c15-request-tsig-not-parsed")
			return res
		}
		prevMAC = rt.MAC
	}
	id := binary.BigEndian.Uint16(reqWire)
	// encode envelopes
	var frames [][]byte
	now := uint64(time.Now().Unix())
	keyName, _, _ := model.ParsePres(c15Key)
	algName, _, _ := model.ParsePres("hmac-sha256.")
	order := make([]int, len(envs))
	for i := range order {
		order[i] = i
	}
	if f.kind == "reorder" && f.at+1 < len(envs) {
		order[f.at], order[f.at+1] = order[f.at+1], order[f.at]
	}
	// MACs are chained in the intended (unfaulted) order
	signed := make([][]byte, len(envs))
	for i, e := range envs {
		m := &model.Msg{ID: id, Bits: 0x8400, Q: []model.Question{{Name: mustName(q.Question[0].Name), Type: q.Question[0].Qtype, Class: 1}}, An: e}
		if id%4 == 1 {
			// a primary that speaks EDNS: every envelope carries an OPT record after its answers
			m.Ar = []*model.Rec{{Owner: model.Name{}, Type: 41, Class: 1232, TTL: 0, L: model.Layouts[41], Vals: []any{[]model.Opt{}}}}
		}
		if f.kind == "rcode" && i == f.at {
			m.Bits |= uint16(rcodeAt)
		}
		if f.kind == "ext-rcode" && i == f.at {
			// an RCODE above 15: its upper eight bits travel in the OPT record (which stands in front of the
			// TSIG record of a signed envelope), the header's four bits may well be zero (BADVERS = 16)
			ext := []int{16, 23, 3840, 4095, 32}[rcodeAt%5]
			m.Bits |= uint16(ext & 0xF)
			m.Ar = []*model.Rec{{Owner: model.Name{}, Type: 41, Class: 1232, TTL: uint32(ext>>4) << 24, L: model.Layouts[41], Vals: []any{[]model.Opt{}}}}
		}
		if f.kind == "rcode-noquestion" && i == f.at {
			// an error answer without a question section (a bare REFUSED/SERVFAIL header, or a later
			// envelope of a sender that leaves the question out, RFC 5936 s.2.2.2), with or without records
			m.Bits |= uint16(rcodeAt)
			m.Q = nil
			if rcodeAt != dns.RcodeServerFailure {
				m.An, m.Ar = nil, nil
			}
		}
		if f.kind == "id" && i == f.at {
			m.ID = id ^ 0x5555
		}
		wire := m.Wire()
		if tsig {
			t := &model.TSIG{KeyName: keyName, Algorithm: algName, TimeSigned: now, Fudge: 300}
			if f.kind == "stale-time" && i == f.at {
				// correctly keyed and chained, but signed outside the fudge window (RFC 8945 s.5.2.3 applies
				// to every message of a multi-message answer): 301 s or 1000 s off, either side
				t.TimeSigned = now + []uint64{^uint64(1000) + 1, 1000, ^uint64(301) + 1, 302}[(int(id)+i)%4]
			}
			secret := c15Secret
			if f.kind == "wrongkey" && i == f.at {
				secret = []byte("another secret another secret!!!")
			}
			out, mac, err := t.Sign(wire, secret, prevMAC, i > 0)
			if err != nil {
				w.Inconclusive("c15-model-sign:" + err.Error())
				return res
			}
			if f.kind == "unsign" && i == f.at {
				// the envelope goes out without TSIG; the chain continues from the MAC it would have carried
			} else if f.kind == "emptymac" && i >= f.at {
				// a forger without the key: from this envelope on the content is altered and the TSIG
				// carries a MAC of zero octets (so does the running MAC of whoever accepted it)
				forged := append([]byte(nil), wire...)
				if p := 12 + len(mustName(q.Question[0].Name).Wire()) + 4 + 3; p < len(forged) && i == f.at {
					forged[p] ^= 0x01
				}
				t2 := &model.TSIG{KeyName: keyName, Algorithm: algName, TimeSigned: now, Fudge: 300, OrigID: binary.BigEndian.Uint16(forged), MAC: []byte{}}
				binary.BigEndian.PutUint16(forged[10:], binary.BigEndian.Uint16(forged[10:])+1)
				wire = append(forged, t2.RRWire()...)
			} else {
				wire = out
			}
			if f.kind == "id" && i == f.at {
				// keep original id semantics: OrigID already equals the sent id
				_ = mac
			}
			prevMAC = mac
		}
		if f.kind == "append-after-tsig" && i == f.at && tsig {
			// complete records appended behind the TSIG record, ARCOUNT raised to match: the message is
			// not the one that was signed (the TSIG is not its last record, its counts differ)
			wire = append([]byte(nil), wire...)
			extra := &model.Rec{Owner: model.Name{[]byte("injected"), []byte("example")}, Type: 16, Class: 1, TTL: 60, L: model.Layouts[16], Vals: []any{[][]byte{[]byte("not part of the zone")}}}
			wire = append(wire, extra.Wire()...)
			binary.BigEndian.PutUint16(wire[10:], binary.BigEndian.Uint16(wire[10:])+1)
		}
		if f.kind == "idwire" && i == f.at {
			// the ID in the header is changed on the wire, after signing: the TSIG (whose original ID
			// still equals the query's) verifies, the envelope still does not answer this query
			wire = append([]byte(nil), wire...)
			wire[0] ^= 0x55
			wire[1] ^= 0x55
		}
		if f.kind == "alter-tsig-rr" && i == f.at && tsig {
			// one bit of the envelope's own TSIG record, in a field its digest covers: the TTL of the record
			// (part of the TSIG variables of a first envelope, RFC 8945 s.4.3.3) or, in a later envelope whose
			// digest holds the timers only, the time signed
			if no, ts, _, ok := model.SplitTSIG(wire); ok {
				base := len(no) + len(ts.KeyName.Wire())
				p := base + 4 + 3 // last octet of the TTL
				if i > 0 {
					p = base + 10 + len(ts.Algorithm.Wire()) + 5 // last octet of the time signed
				}
				if p < len(wire) {
					wire = append([]byte(nil), wire...)
					wire[p] ^= 0x01
				}
			}
		}
		if f.kind == "alter" && i == f.at {
			// flip one octet inside the answer section (after the header and question)
			p := 12 + len(mustName(q.Question[0].Name).Wire()) + 4 + 3
			if p < len(wire) {
				wire = append([]byte(nil), wire...)
				wire[p] ^= 0x01
			}
		}
		if len(wire) > 65535 {
			// not an envelope any sender could frame: the harness drew a record too large for one message
			w.Count("envelopes_over_65535_skipped", 1)
			cl.Close()
			sv.Close()
			for range ch {
			}
			return c15Result{skipped: true}
		}
		signed[i] = wire
	}
	for _, i := range order {
		frames = append(frames, frame(signed[i]))
	}
	var all []byte
	for _, fr := range frames {
		all = append(all, fr...)
	}
	if f.kind == "extra-after-end" {
		extra := &model.Msg{ID: id, Bits: 0x8400, An: envs[0]}
		all = append(all, frame(extra.Wire())...)
	}
	if f.kind == "eof-boundary" {
		// the connection ends exactly between two records (or after the header or the question) of
		// an envelope: what has arrived of that envelope is a well-formed shorter message
		var bnds []int
		base := 0
		for _, fr := range frames {
			for _, o := range msgBoundaries(fr[2:]) {
				if base+2+o < len(all) {
					bnds = append(bnds, base+2+o)
				}
			}
			base += len(fr)
		}
		if len(bnds) == 0 {
			return c15Result{skipped: true}
		}
		f.kind, f.at = "eof", bnds[f.at%len(bnds)]
	}
	// how the octets reach the secondary: in one piece, with the first length prefix split, octet by
	// octet, or in seeded chunks (segment boundaries inside length prefixes and headers)
	if f.kind != "eof" {
		switch mode := (len(all) + int(id)) % 4; mode {
		case 1:
			cl.SetReadPlan([]int{1, len(all)})
		case 2:
			n := len(all)
			if n > 1500 {
				n = 1500
			}
			ones := make([]int, n)
			for i := range ones {
				ones[i] = 1
			}
			cl.SetReadPlan(ones)
		case 3:
			var plan []int
			x := uint32(len(all))*2654435761 + uint32(id)
			for left := len(all); left > 0; {
				x = x*1664525 + 1013904223
				c := 1 + int(x>>16)%97
				if c > left {
					c = left
				}
				plan = append(plan, c)
				left -= c
			}
			cl.SetReadPlan(plan)
		}
	}
	go func() {
		if f.kind == "eof" {
			n := f.at
			if n > len(all) {
				n = len(all)
			}
			sv.Write(all[:n])
			sv.Close()
			return
		}
		sv.Write(all)
		// the primary keeps the connection open: the secondary must know where the transfer ends
	}()
	done := make(chan struct{})
	go func() {
		defer close(done)
		for env := range ch {
			if env.Error != nil && res.errIndex < 0 {
				res.errIndex = res.envelopes
				res.lastErr = env.Error
			}
			if env.Error == nil {
				for _, rr := range env.RR {
					b, err := packRR(rr)
					if err != nil {
						b = []byte("unpackable:" + err.Error())
					}
					res.records = append(res.records, b)
				}
			}
			res.envelopes++
		}
		res.closedCh = true
		res.connCloses = cl.Closes() // at the very moment the consumer learns that the transfer is over
	}()
	select {
	case <-done:
	case <-time.After(c13Watch):
		res.hung = true
		sv.Close()
		<-done
	}
	sv.Close()
	return res
}

// c15RealSockets: the same well-formed transfers over real stream sockets - TCP on the loopback interface
// and a unix-domain stream socket (whose net.Conn also has the methods of a packet connection, but which
// is a stream like TCP: framed envelopes, as many as the sender needs).
func c15RealSockets(w *core.W, g *model.Gen, zone model.Name, j int) {
	dir, derr := os.MkdirTemp("", "c15u")
	if derr != nil {
		w.Inconclusive("c15-tempdir")
		return
	}
	defer os.RemoveAll(dir)
	// "tcp-self" and "tls-self": the Transfer value carries no connection, In dials the address itself (over
	// TLS when the TLS field is set) and owns the connection it made
	srvTLS, cliTLS := c13TLS()
	leftOpen := 0
	for ni, network := range []string{"unix", "tcp", "tcp-self", "tls-self"} {
		addr := "127.0.0.1:0"
		if network == "unix" {
			addr = filepath.Join(dir, "xfr.sock")
		}
		self := strings.HasSuffix(network, "-self")
		lnet := network
		if self {
			lnet = "tcp"
		}
		ln, lerr := net.Listen(lnet, addr)
		if lerr != nil {
			w.Inconclusive("c15-listen-" + network)
			continue
		}
		if network == "tls-self" {
			ln = tls.NewListener(ln, srvTLS)
		}
		for kind := 0; kind < 4; kind++ {
			st := c15MakeStream(g, zone, kind)
			for ci, comp := range []uint64{^uint64(0), 0, 1 << uint((len(st.recs)-1)/2)} {
				envs := compose(st.recs, comp)
				q := st.query(zone, uint16(7000+j+ni*100+kind*10+ci))
				hungUp := make(chan struct{})
				go func() { // the primary
					defer close(hungUp)
					c, err := ln.Accept()
					if err != nil {
						return
					}
					defer c.Close()
					c.SetDeadline(time.Now().Add(c13Watch))
					var l [2]byte
					if _, err := io.ReadFull(c, l[:]); err != nil {
						return
					}
					req := make([]byte, binary.BigEndian.Uint16(l[:]))
					if _, err := io.ReadFull(c, req); err != nil {
						return
					}
					for _, e := range envs {
						m := &model.Msg{ID: binary.BigEndian.Uint16(req), Bits: 0x8400, Q: []model.Question{{Name: zone, Type: q.Question[0].Qtype, Class: 1}}, An: e}
						if wire := m.Wire(); len(wire) <= 65535 {
							c.Write(frame(wire))
						}
					}
					io.Copy(io.Discard, c) // until the secondary hangs up
				}()
				var c net.Conn = nopConn{}
				var tr *dns.Transfer
				target := "unused"
				if self {
					tr = &dns.Transfer{ReadTimeout: 5 * time.Second, DialTimeout: 5 * time.Second}
					if network == "tls-self" {
						tr.TLS = cliTLS
					}
					if ci == 1 {
						tr.DialTimeout = 0 // the default
					}
					target = ln.Addr().String()
				} else {
					var cerr error
					c, cerr = net.Dial(network, ln.Addr().String())
					if cerr != nil {
						w.Inconclusive("c15-dial-" + network)
						continue
					}
					tr = &dns.Transfer{Conn: &dns.Conn{Conn: c}, ReadTimeout: 5 * time.Second}
				}
				ch, ierr := tr.In(q, target)
				w.Eval(1)
				w.Count("real_socket_transfers_"+network, 1)
				var sizes []int
				for _, e := range envs {
					sizes = append(sizes, len(e))
				}
				wit := map[string]any{"network": network, "kind": st.kind, "envelope_sizes": sizes}
				if ierr != nil {
					w.Violation("C15/real-socket/in-error/"+network, fmt.Sprintf("Transfer.In: %v", ierr), wit)
					c.Close()
					continue
				}
				var got [][]byte
				var firstErr error
				nenv := 0
				finished := within(c13Watch, func() {
					for env := range ch {
						nenv++
						if env.Error != nil && firstErr == nil {
							firstErr = env.Error
						}
						for _, rr := range env.RR {
							b, _ := packRR(rr)
							got = append(got, b)
						}
					}
				})
				// the transfer ends "closing channel and connection": the primary sees the secondary hang up
				// without anybody but the library touching the connection
				if finished && firstErr == nil {
					wait := c13Watch
					if leftOpen >= 2 {
						wait = 300 * time.Millisecond // it has been reported; the remaining transfers need not cost 15 s each
					}
					select {
					case <-hungUp:
						w.Count("real_socket_connections_closed_by_the_library", 1)
					case <-time.After(wait):
						leftOpen++
						w.Violation("C15/real-socket/connection-left-open/"+network+"/"+st.kind, fmt.Sprintf("envelope sizes %v: the channel was closed at the closing SOA, the connection was still open %v later", sizes, c13Watch), wit)
					}
				}
				c.Close()
				switch {
				case !finished:
					w.Violation("C15/real-socket/transfer-does-not-end/"+network+"/"+st.kind, fmt.Sprintf("envelope sizes %v: the channel was not closed", sizes), wit)
				case firstErr != nil:
					w.Violation("C15/real-socket/good-transfer-reports-error/"+network+"/"+st.kind, fmt.Sprintf("envelope sizes %v: %v", sizes, firstErr), wit)
				default:
					if i, ok := sameWires(got, wiresOf(st.recs)); !ok {
						w.Violation("C15/real-socket/records-differ/"+network+"/"+st.kind, fmt.Sprintf("delivered %d records in %d envelopes, transmitted %d in %d (envelope sizes %v); first difference at record %d, yet the transfer was reported complete and error-free", len(got), nenv, len(st.recs), len(envs), sizes, i), wit)
					}
				}
			}
		}
		ln.Close()
	}
}

func mustName(s string) model.Name {
	n, _, _ := model.ParsePres(s)
	return n
}

func wiresOf(rs []*model.Rec) [][]byte {
	var out [][]byte
	for _, r := range rs {
		out = append(out, r.Wire())
	}
	return out
}

func sameWires(a, b [][]byte) (int, bool) {
	n := len(a)
	if len(b) < n {
		n = len(b)
	}
	for i := 0; i < n; i++ {
		if !bytes.Equal(a[i], b[i]) {
			return i, false
		}
	}
	if len(a) != len(b) {
		return n, false
	}
	return -1, true
}

type c15Stream struct {
	kind   string
	recs   []*model.Rec // the transmitted record stream up to and including the closing SOA
	ixfr   bool
	serial uint32 // client's serial for IXFR
}

func c15MakeStream(g *model.Gen, zone model.Name, kind int) c15Stream {
	switch kind {
	case 0: // AXFR
		n := g.Len(0, 12)
		body := zoneRecs(g, zone, n)
		return c15Stream{kind: "axfr", recs: append(append([]*model.Rec{soaRec(zone, 10)}, body...), soaRec(zone, 10))}
	case 1: // IXFR, up to date: a single SOA
		return c15Stream{kind: "ixfr-uptodate", ixfr: true, serial: 10, recs: []*model.Rec{soaRec(zone, uint32(10-g.R.IntN(2)))}}
	case 2: // IXFR answered AXFR-style
		body := zoneRecs(g, zone, g.Len(0, 10))
		return c15Stream{kind: "ixfr-axfr-style", ixfr: true, serial: 5, recs: append(append([]*model.Rec{soaRec(zone, 10)}, body...), soaRec(zone, 10))}
	default: // incremental IXFR with k difference sequences
		k := 1 + g.R.IntN(3)
		recs := []*model.Rec{soaRec(zone, 10)}
		from := uint32(10 - k)
		for i := 0; i < k; i++ {
			recs = append(recs, soaRec(zone, from))
			recs = append(recs, zoneRecs(g, zone, g.R.IntN(3))...)
			recs = append(recs, soaRec(zone, from+1))
			recs = append(recs, zoneRecs(g, zone, g.R.IntN(3))...)
			from++
		}
		recs = append(recs, soaRec(zone, 10))
		return c15Stream{kind: fmt.Sprintf("ixfr-incremental-%d", k), ixfr: true, serial: uint32(10 - k), recs: recs}
	}
}

func (s c15Stream) query(zone model.Name, id uint16) *dns.Msg {
	q := new(dns.Msg)
	// the zone is asked for under another spelling of its name than the primary stores it under
	// (0x20-style mixed case, upper case): the same zone
	zn := zone.Pres()
	switch id % 3 {
	case 1:
		zn = strings.ToUpper(zn)
	case 2:
		b := []byte(zn)
		for i := range b {
			if i%2 == 0 && b[i] >= 'a' && b[i] <= 'z' {
				b[i] -= 32
			}
		}
		zn = string(b)
	}
	if s.ixfr {
		q.SetIxfr(zn, s.serial, "ns."+zone.Pres(), "hostmaster."+zone.Pres())
	} else {
		q.SetAxfr(zn)
	}
	q.Id = id
	return q
}

func c15Good(w *core.W, s c15Stream, zone model.Name, comp uint64, tsig bool, id uint16, extra bool) {
	envs := compose(s.recs, comp)
	f := c15Fault{}
	if extra {
		f.kind = "extra-after-end"
	}
	res := c15Run(w, s.query(zone, id), envs, tsig, f, 0)
	if res.skipped {
		return
	}
	if ne, ok := res.lastErr.(net.Error); res.errIndex >= 0 && (ok && ne.Timeout() || errors.Is(res.lastErr, os.ErrDeadlineExceeded)) {
		// a well-formed transfer ran into the 3 s read timeout: on a machine where goroutines wait seconds for a
		// processor that says nothing about the library. Once more with a minute; only that verdict counts.
		w.Count("good_transfers_repeated_after_a_read_timeout", 1)
		f.readTimeout = time.Minute
		res = c15Run(w, s.query(zone, id), envs, tsig, f, 0)
		if res.skipped {
			return
		}
	}
	w.Eval(1)
	w.Count("transfers_good", 1)
	w.Cover("stream_kind", s.kind)
	var sizes []int
	for _, e := range envs {
		sizes = append(sizes, len(e))
	}
	wit := map[string]any{"kind": s.kind, "records": len(s.recs), "envelope_sizes": sizes, "tsig": tsig, "extra_after_end": extra}
	w.NontrivialStr(s.kind, fmt.Sprint(sizes), fmt.Sprint(tsig), fmt.Sprint(len(s.recs)))
	key := func(k string) string {
		t := "plain"
		if tsig {
			t = "tsig"
		}
		return "C15/" + k + "/" + s.kind + "/" + t
	}
	if res.hung {
		w.Violation(key("transfer-does-not-end"), fmt.Sprintf("after the closing SOA (envelope sizes %v) the channel was not closed although the connection stays open", sizes), wit)
		return
	}
	if res.errIndex >= 0 {
		w.Violation(key("good-transfer-reports-error"), fmt.Sprintf("error %v at envelope %d of a well-formed transfer (envelope sizes %v)", res.lastErr, res.errIndex, sizes), wit)
		return
	}
	if i, ok := sameWires(res.records, wiresOf(s.recs)); !ok {
		w.Violation(key("records-differ"), fmt.Sprintf("delivered %d records, transmitted %d; first difference at record %d (envelope sizes %v)", len(res.records), len(s.recs), i, sizes), wit)
	}
	if !res.closedCh {
		w.Violation(key("channel-not-closed"), "channel not closed", wit)
	}
	if res.connCloses != 1 {
		w.Violation(key("connection-close-count"), fmt.Sprintf("the connection was closed %d times at the end of the transfer, want 1", res.connCloses), wit)
	}
	if res.envelopes != len(envs) {
		w.Violation(key("envelope-count"), fmt.Sprintf("%d envelopes delivered, %d sent up to the closing SOA", res.envelopes, len(envs)), wit)
	}
	if w.WantSample() {
		w.Sample(wit)
	}
}

func c15Faulty(w *core.W, s c15Stream, zone model.Name, comp uint64, tsig bool, id uint16, f c15Fault, rcode int) {
	stream := s.recs
	if f.kind == "first-not-soa" {
		stream = append([]*model.Rec{zoneRecs(model.NewGen(w.Rng(int(id), 5)), zone, 1)[0]}, s.recs[1:]...)
		if len(s.recs) == 1 {
			stream = stream[:1]
		}
	}
	envs := compose(stream, comp)
	if f.at >= len(envs) && f.kind != "eof" && f.kind != "eof-boundary" {
		f.at = len(envs) - 1
	}
	if (f.kind == "reorder") && f.at+1 >= len(envs) {
		return
	}
	if f.kind == "reorder" {
		// swapping two identical envelopes is no fault
		a, b := envs[f.at], envs[f.at+1]
		if len(a) == len(b) {
			same := true
			for i := range a {
				if !bytes.Equal(a[i].Wire(), b[i].Wire()) {
					same = false
				}
			}
			if same {
				return
			}
		}
	}
	res := c15Run(w, s.query(zone, id), envs, tsig, f, rcode)
	if res.skipped {
		return
	}
	w.Eval(1)
	w.Count("transfers_faulty", 1)
	w.Cover("fault", f.kind)
	var sizes []int
	for _, e := range envs {
		sizes = append(sizes, len(e))
	}
	wit := map[string]any{"kind": s.kind, "fault": f.kind, "at": f.at, "records": len(stream), "envelope_sizes": sizes, "tsig": tsig}
	w.NontrivialStr(s.kind, f.kind, fmt.Sprint(f.at), fmt.Sprint(sizes), fmt.Sprint(tsig))
	t := "plain"
	if tsig {
		t = "tsig"
	}
	key := "C15/fault-hidden/" + f.kind + "/" + s.kind + "/" + t
	if res.hung {
		w.Violation("C15/fault-hangs/"+f.kind+"/"+s.kind+"/"+t, fmt.Sprintf("fault %s at %d: the transfer neither ended nor reported an error", f.kind, f.at), wit)
		return
	}
	if f.kind == "eof" {
		// closing the connection after a complete transfer (all octets written) is no fault
		total := 0
		for _, e := range envs {
			m := &model.Msg{An: e}
			_ = m
			total++
		}
	}
	if res.errIndex < 0 {
		complete := len(res.records) == len(stream)
		w.Violation(key, fmt.Sprintf("fault %q at %d (envelope sizes %v): the transfer ended without any Error envelope (%d of %d records delivered, complete=%v)", f.kind, f.at, sizes, len(res.records), len(stream), complete), wit)
	}
	if !res.closedCh {
		w.Violation("C15/channel-not-closed-after-fault/"+f.kind, "channel not closed", wit)
	}
}

// c15Datagram: an IXFR answered over a datagram connection the caller supplied (RFC 1995 s.2: a single
// packet when it fits). The answer is larger than 512 octets and smaller than the 64 KiB a datagram
// can carry; every record arrives.
func c15Datagram(w *core.W, g *model.Gen, zone model.Name, j int) {
	// one difference sequence: new SOA, old SOA, deletions, new SOA, additions, new SOA
	recs := []*model.Rec{soaRec(zone, 10), soaRec(zone, 9)}
	recs = append(recs, zoneRecs(g, zone, 2)...)
	recs = append(recs, soaRec(zone, 10))
	recs = append(recs, zoneRecs(g, zone, 3)...)
	recs = append(recs, soaRec(zone, 10))
	for len((&model.Msg{An: recs}).Wire()) < 700+(j%5)*400 {
		recs = append(recs[:len(recs)-1], append(zoneRecs(g, zone, 4), soaRec(zone, 10))...)
	}
	q := new(dns.Msg)
	q.SetIxfr(zone.Pres(), 9, "ns.example.", "h.example.")
	q.Id = uint16(7000 + j)
	ans := &model.Msg{ID: q.Id, Bits: 0x8400, Q: []model.Question{{Name: zone, Type: 251, Class: 1}}, An: recs}
	wire := ans.Wire()
	if len(wire) > 60000 {
		return
	}
	sc := netsim.NewScripted([][]byte{wire})
	tr := &dns.Transfer{Conn: &dns.Conn{Conn: sc}, ReadTimeout: 500 * time.Millisecond}
	w.Eval(1)
	w.Count("datagram_transfers", 1)
	wit := map[string]any{"answer_octets": len(wire), "records": len(recs)}
	ch, err := tr.In(q, "sim")
	if err != nil {
		w.Violation("C15/datagram-transfer/start", fmt.Sprintf("%v", err), wit)
		return
	}
	var got [][]byte
	var terr error
	done := make(chan struct{})
	go func() {
		defer close(done)
		for env := range ch {
			if env.Error != nil && terr == nil {
				terr = env.Error
			}
			for _, rr := range env.RR {
				b, _ := packRR(rr)
				got = append(got, b)
			}
		}
	}()
	select {
	case <-done:
	case <-time.After(c13Watch):
		w.Violation("C15/datagram-transfer/does-not-end", "an IXFR answered in one datagram does not end", wit)
		return
	}
	if terr != nil {
		w.Violation("C15/datagram-transfer/error", fmt.Sprintf("an IXFR answer of %d octets in one datagram: %v", len(wire), terr), wit)
		return
	}
	if i, ok := sameWires(got, wiresOf(recs)); !ok {
		w.Violation("C15/datagram-transfer/records-differ", fmt.Sprintf("delivered %d records, transmitted %d; first difference at %d", len(got), len(recs), i), wit)
	}
}

// c15Paced: a primary that sends one envelope every 30 ms for longer than the transfer's ReadTimeout
// in total. The timeout bounds the wait for the next envelope, not the transfer: no error. (Decided
// on wall-clock pacing, so a failure only counts when it repeats and the sender's own gaps - which it
// measures - stayed far below the timeout; anything else is inconclusive.)
func c15Paced(w *core.W, g *model.Gen, zone model.Name, j int, ixfr bool) {
	const timeout = 1200 * time.Millisecond
	const gap = 30 * time.Millisecond
	var recs []*model.Rec
	if ixfr {
		recs = []*model.Rec{soaRec(zone, 10), soaRec(zone, 9)}
		recs = append(recs, zoneRecs(g, zone, 20)...)
		recs = append(recs, soaRec(zone, 10))
		recs = append(recs, zoneRecs(g, zone, 28)...)
		recs = append(recs, soaRec(zone, 10))
	} else {
		recs = append([]*model.Rec{soaRec(zone, 10)}, zoneRecs(g, zone, 50)...)
		recs = append(recs, soaRec(zone, 10))
	}
	kind := map[bool]string{true: "ixfr", false: "axfr"}[ixfr]
	failures := 0
	for attempt := 0; attempt < 2; attempt++ {
		cl, sv := netsim.StreamPair()
		tr := &dns.Transfer{Conn: &dns.Conn{Conn: cl}, ReadTimeout: timeout}
		q := new(dns.Msg)
		if ixfr {
			q.SetIxfr(zone.Pres(), 9, "ns.example.", "h.example.")
		} else {
			q.SetAxfr(zone.Pres())
		}
		q.Id = uint16(9000 + j)
		ch, err := tr.In(q, "sim")
		if err != nil {
			w.Inconclusive("c15-paced-start:" + err.Error())
			return
		}
		var maxGapNs atomic.Int64
		go func() {
			last := time.Now()
			for _, r := range recs {
				m := &model.Msg{ID: q.Id, Bits: 0x8400, Q: []model.Question{{Name: zone, Type: q.Question[0].Qtype, Class: 1}}, An: []*model.Rec{r}}
				time.Sleep(gap)
				sv.Write(frame(m.Wire()))
				if d := time.Since(last); int64(d) > maxGapNs.Load() {
					maxGapNs.Store(int64(d))
				}
				last = time.Now()
			}
		}()
		n := 0
		var terr error
		for env := range ch {
			if env.Error != nil && terr == nil {
				terr = env.Error
			}
			n += len(env.RR)
		}
		sv.Close()
		w.Eval(1)
		w.Count("paced_transfers", 1)
		if terr == nil && n == len(recs) {
			return
		}
		maxGap := time.Duration(maxGapNs.Load())
		if maxGap > timeout/3 {
			w.Inconclusive("c15-paced-sender-was-slow")
			return
		}
		failures++
		if failures == 2 {
			w.Violation("C15/paced-transfer-fails/"+kind, fmt.Sprintf("%d envelopes sent %v apart (largest gap %v) with ReadTimeout %v: %d of %d records, error %v", len(recs), gap, maxGap, timeout, n, len(recs), terr), map[string]any{"kind": kind})
		}
	}
}

// c15SlowConsumer: the consumer of the channel is busy with each envelope for longer than the transfer's
// ReadTimeout (it writes the records somewhere) while the stream ends early / an envelope arrives that is
// no answer to the query: whenever the consumer comes back, the error is there - a transfer that was cut
// short is not reported complete because its consumer was slow.
func c15SlowConsumer(w *core.W, g *model.Gen, zone model.Name, j int) {
	for _, ixfr := range []bool{false, true} {
		for _, fault := range []string{"eof", "eof-mid-frame", "foreign-id"} {
			var recs []*model.Rec
			if ixfr {
				recs = append([]*model.Rec{soaRec(zone, 10), soaRec(zone, 9)}, zoneRecs(g, zone, 3)...)
			} else {
				recs = append([]*model.Rec{soaRec(zone, 10)}, zoneRecs(g, zone, 4)...)
			}
			cl, sv := netsim.StreamPair()
			tr := &dns.Transfer{Conn: &dns.Conn{Conn: cl}, ReadTimeout: 40 * time.Millisecond}
			q := new(dns.Msg)
			if ixfr {
				q.SetIxfr(zone.Pres(), 9, "ns.example.", "h.example.")
			} else {
				q.SetAxfr(zone.Pres())
			}
			q.Id = uint16(9500 + j)
			ch, err := tr.In(q, "sim")
			if err != nil {
				w.Inconclusive("c15-slow-consumer-start:" + err.Error())
				return
			}
			go func() {
				first := &model.Msg{ID: q.Id, Bits: 0x8400, Q: []model.Question{{Name: zone, Type: q.Question[0].Qtype, Class: 1}}, An: recs[:2]}
				sv.Write(frame(first.Wire()))
				second := &model.Msg{ID: q.Id, Bits: 0x8400, Q: first.Q, An: recs[2:]}
				switch fault {
				case "eof":
				case "eof-mid-frame":
					fr := frame(second.Wire())
					sv.Write(fr[:len(fr)/2])
				case "foreign-id":
					second.ID ^= 0x0101
					sv.Write(frame(second.Wire()))
				}
				sv.Close()
			}()
			w.Eval(1)
			w.Count("slow_consumer_transfers", 1)
			var terr error
			n := 0
			kind := map[bool]string{true: "ixfr", false: "axfr"}[ixfr]
			if !within(c13Watch, func() {
				for env := range ch {
					if env.Error != nil && terr == nil {
						terr = env.Error
					}
					n += len(env.RR)
					time.Sleep(160 * time.Millisecond) // four read timeouts per envelope
				}
			}) {
				w.Violation("C15/slow-consumer/transfer-does-not-end/"+kind, "the channel was never closed", nil)
				continue
			}
			if terr == nil {
				w.Violation("C15/fault-hidden/slow-consumer/"+fault+"/"+kind, fmt.Sprintf("the stream ended after the first envelope (fault %s, no closing SOA, %d records delivered) while the consumer was busy for longer than ReadTimeout: the channel was closed without an error envelope", fault, n), map[string]any{"kind": kind, "fault": fault})
			}
		}
	}
}

// c15FullEnvelopes: a sender that fills envelopes to the brim: the first, a middle or the only
// envelope is exactly 65535 (or 65534, 65533) octets on the wire.
func c15FullEnvelopes(w *core.W, g *model.Gen, zone model.Name, j int) {
	target := []int{65535, 65534, 65535, 65533}[j/16%4]
	where := j / 64 % 3 // 0: everything in one envelope, 1: full first envelope, 2: full middle envelope
	kind := []int{0, 2, 3}[j/16%3]
	s := c15MakeStream(g, zone, kind)
	qn := mustName(s.query(zone, 1).Question[0].Name)
	qt := s.query(zone, 1).Question[0].Qtype
	size := func(recs []*model.Rec) int {
		return len((&model.Msg{Q: []model.Question{{Name: qn, Type: qt, Class: 1}}, An: recs}).Wire())
	}
	filler := func(need int) *model.Rec {
		owner := append(model.Name{[]byte("fill")}, zone...)
		R := need - owner.WireLen() - 10
		if R < 1 {
			return nil
		}
		rem := (R - 1) % 256
		var strs [][]byte
		for k := (R - 1 - rem) / 256; k > 0; k-- {
			strs = append(strs, g.TextBytes(255))
		}
		strs = append(strs, g.TextBytes(rem))
		return &model.Rec{Owner: owner, Type: 16, Class: 1, TTL: 300, L: model.Layouts[16], Vals: []any{strs}}
	}
	last := len(s.recs) - 1
	var comp uint64
	var recs []*model.Rec
	switch {
	case where == 0 || last < 2:
		f := filler(target - size(s.recs))
		if f == nil {
			return
		}
		recs = append(append(append([]*model.Rec(nil), s.recs[:last]...), f), s.recs[last])
		comp = 0
	case where == 1:
		// first envelope: SOA + filler, the rest in a second one
		f := filler(target - size(s.recs[:1]))
		recs = append(append([]*model.Rec{s.recs[0], f}), s.recs[1:]...)
		comp = 1 << 1
	default:
		// SOA alone, then a full envelope holding the filler and everything but the closing SOA
		f := filler(target - size(s.recs[1:last]))
		recs = append(append(append([]*model.Rec{s.recs[0], f}), s.recs[1:last]...), s.recs[last])
		comp = 1<<0 | 1<<uint(len(recs)-2)
	}
	for _, r := range recs {
		if r == nil {
			return
		}
	}
	s.recs = recs
	found := false
	for _, e := range compose(recs, comp) {
		if size(e) == target {
			found = true
		}
	}
	if !found {
		w.Count("full_envelope_size_missed", 1)
		return
	}
	w.Count("full_envelope_transfers", 1)
	w.Cover("full_envelope", fmt.Sprintf("%d/%s/%d", target, s.kind, where))
	c15Good(w, s, zone, comp, false, uint16(1+j%60000), false)
}

func c15Case(w *core.W, j int) {
	g := model.NewGen(w.Rng(j))
	g.NoHuge = true
	g.MaxOpaque = 40
	g.Plain = j%2 == 0
	zone := model.Name{[]byte("zone"), []byte("example")}
	c15Datagram(w, g, zone, j)
	if j%16 == 5 {
		c15Paced(w, g, zone, j, j%32 == 5)
	}
	if j%16 == 9 {
		c15FullEnvelopes(w, g, zone, j)
	}
	if j%16 == 3 {
		c15RealSockets(w, g, zone, j)
	}
	if j%16 == 11 {
		c15SlowConsumer(w, g, zone, j)
	}
	s := c15MakeStream(g, zone, j%4)
	n := len(s.recs)
	tsig := j%3 == 0
	id := uint16(1 + j%60000)
	// compositions: all for short streams, sampled otherwise
	var comps []uint64
	if n <= 6 {
		for c := uint64(0); c < 1<<uint(n-1); c++ {
			comps = append(comps, c)
		}
	} else {
		comps = []uint64{0, ^uint64(0), 1, 1 << uint(n-2)} // everything in one, one per envelope, SOA alone first, SOA alone last
		for k := 0; k < 5; k++ {
			comps = append(comps, g.R.Uint64())
		}
	}
	for ci, c := range comps {
		c15Good(w, s, zone, c, tsig, id, ci%4 == 3)
	}
	w.Count("compositions", len(comps))
	// faults
	faults := []string{"first-not-soa", "rcode", "ext-rcode", "id", "rcode-noquestion"}
	if tsig {
		faults = append(faults, "alter", "alter-tsig-rr", "reorder", "unsign", "wrongkey", "emptymac", "idwire", "append-after-tsig", "stale-time")
	}
	for _, c := range []uint64{comps[0], comps[len(comps)-1], comps[len(comps)/2]} {
		ne := len(compose(s.recs, c))
		for _, fk := range faults {
			ats := []int{0}
			if fk != "first-not-soa" {
				for a := 1; a < ne; a++ {
					ats = append(ats, a)
				}
			}
			if len(ats) > 6 {
				ats = append(ats[:3], ats[len(ats)-3:]...)
			}
			for _, at := range ats {
				if s.kind == "ixfr-uptodate" && fk == "first-not-soa" {
					continue
				}
				rc := []int{dns.RcodeServerFailure, dns.RcodeRefused, dns.RcodeNotAuth}[g.R.IntN(3)]
				c15Faulty(w, s, zone, c, tsig, id, c15Fault{kind: fk, at: at}, rc)
			}
		}
	}
	// early EOF: every octet for small transfers, sampled otherwise
	envs := compose(s.recs, comps[len(comps)/2])
	total := 0
	for _, e := range envs {
		m := &model.Msg{Q: []model.Question{{Name: zone, Type: 252, Class: 1}}, An: e}
		total += 2 + len(m.Wire())
		if tsig {
			total += 80
		}
	}
	var offs []int
	if total <= 260 && !tsig {
		for o := 0; o < total-1; o++ {
			offs = append(offs, o)
		}
		w.Count("exhaustive_eof_sweeps", 1)
	} else {
		for k := 0; k < 8; k++ {
			offs = append(offs, g.R.IntN(total*3/4))
		}
		offs = append(offs, 0, 1, 2, 3)
	}
	for _, o := range offs {
		c15Faulty(w, s, zone, comps[len(comps)/2], tsig, id, c15Fault{kind: "eof", at: o}, 0)
	}
	// EOF at every record boundary of every envelope (all-in-one and the middle composition)
	for _, c := range []uint64{comps[0], comps[len(comps)/2]} {
		for k := 0; k < len(s.recs)+3*len(compose(s.recs, c)) && k < 40; k++ {
			c15Faulty(w, s, zone, c, tsig, id, c15Fault{kind: "eof-boundary", at: k}, 0)
		}
	}
}

// msgBoundaries returns the offsets inside a wire message at which a record (or the question
// section) ends: after the header, after each question, after each record.
func msgBoundaries(msg []byte) []int {
	if len(msg) < 12 {
		return nil
	}
	skipName := func(off int) int {
		for off < len(msg) {
			c := int(msg[off])
			switch {
			case c == 0:
				return off + 1
			case c&0xC0 == 0xC0:
				return off + 2
			default:
				off += 1 + c
			}
		}
		return -1
	}
	out := []int{12}
	off := 12
	for q := int(binary.BigEndian.Uint16(msg[4:])); q > 0; q-- {
		if off = skipName(off); off < 0 || off+4 > len(msg) {
			return out
		}
		off += 4
		out = append(out, off)
	}
	n := int(binary.BigEndian.Uint16(msg[6:])) + int(binary.BigEndian.Uint16(msg[8:])) + int(binary.BigEndian.Uint16(msg[10:]))
	for ; n > 0; n-- {
		if off = skipName(off); off < 0 || off+10 > len(msg) {
			return out
		}
		off += 10 + int(binary.BigEndian.Uint16(msg[off+8:]))
		if off > len(msg) {
			return out
		}
		out = append(out, off)
	}
	return out
}

func init() {
	plan, run := sections(
		section{"transfers", tiered(160, 6000), c15Case},
	)
	core.Register(&core.Monitor{
		ID: "C15", Level: "fault_enumeration", Plan: plan, Run: run, Race: true, Terminates: true, MaxParallel: 16, CaseTimeout: 300e9,
		Rule: "the harness is the primary: AXFR, IXFR up-to-date, IXFR AXFR-style and incremental IXFR (1..3 difference sequences) streams of model records, all 2^(n-1) envelope compositions for n<=6 records (sampled above, always incl. all-in-one, one-per-envelope, SOA alone first/last; envelopes of exactly 65533..65535 octets as the only, first or a middle one), with and without an independently computed RFC 8945 MAC chain; " +
			"faults: first record not SOA, error RCODE / foreign ID / altered / unsigned / wrongly keyed / reordered envelope, or envelopes forged with a zero-length MAC from that index on, at every envelope index (<=6, else first and last three), extra envelope after the end, EOF at every octet (transfers <= 260 octets) or sampled; " +
			"oracle: delivered records == transmitted up to the closing SOA (RFC 5936 / RFC 1995), channel and connection closed exactly once, every fault run ends with an Error envelope; non-trivial = distinct (stream kind, envelope sizes, fault, position)",
		Assumptions: []string{"envelopes are signed at the real current time with fudge 300, far from the window boundary"},
		MinObserved: []string{"transfers_good", "transfers_faulty", "compositions", "exhaustive_eof_sweeps"},
	})
}

// nopConn stands in for the connection of transfers that dial for themselves.
type nopConn struct{ net.Conn }

func (nopConn) Close() error { return nil }
