package mon

import (
	"math/big"
	crand "crypto/rand"
	"encoding/base64"
	"fmt"
	"reflect"
	"strings"

	"github.com/miekg/dns"

	"verifharness/core"
	"verifharness/model"
)

func algName(a uint8) string {
	if s, ok := dns.AlgorithmToString[a]; ok {
		return s
	}
	return fmt.Sprint(a)
}

// c10Set is an RRset in model and library form.
type c10Set struct {
	recs    []*model.Rec
	respell uint64 // non-zero: names are written with RFC 1035 \X escapes in front of some letters
	raw8    bool   // octets above 0x7F are written raw into the name strings instead of as \DDD
	zoneLen int    // labels of the owner that belong to the zone name (left in their plain spelling: Verify compares the signer name with the owner's text)
}

func (s c10Set) build() []dns.RR {
	var out []dns.RR
	for i, r := range s.recs {
		rr, err := buildAny(r)
		if err != nil {
			return nil
		}
		if s.raw8 {
			mapNames(rr, rawHighOctets)
		}
		if s.respell != 0 {
			seed := s.respell + uint64(i)*977
			mapNames(rr, func(n string) string {
				seed = seed*6364136223846793005 + 1442695040888963407
				return escapeLetters(n, seed)
			})
			// one spelling of the owner for the whole RRset (IsRRset compares owners as strings)
			rr.Header().Name = s.ownerSpelling(r.Owner)
		}
		out = append(out, rr)
	}
	return out
}

// rawHighOctets rewrites \DDD escapes of octets above 0x7F into the raw octet (a name as a program
// may hold it: the library accepts raw 8-bit octets in names).
func rawHighOctets(n string) string {
	var sb strings.Builder
	for i := 0; i < len(n); i++ {
		if n[i] == '\\' && i+3 < len(n) && n[i+1] >= '0' && n[i+1] <= '9' && n[i+2] >= '0' && n[i+2] <= '9' && n[i+3] >= '0' && n[i+3] <= '9' {
			v := int(n[i+1]-'0')*100 + int(n[i+2]-'0')*10 + int(n[i+3]-'0')
			if v >= 128 && v <= 255 {
				sb.WriteByte(byte(v))
			} else {
				sb.WriteString(n[i : i+4])
			}
			i += 3
			continue
		}
		if n[i] == '\\' && i+1 < len(n) {
			sb.WriteString(n[i : i+2])
			i++
			continue
		}
		sb.WriteByte(n[i])
	}
	return sb.String()
}

func (s c10Set) ownerSpelling(o model.Name) string {
	if s.respell == 0 || s.zoneLen > len(o) {
		return o.Pres()
	}
	k := len(o) - s.zoneLen
	if k == 0 {
		return o.Pres()
	}
	if s.zoneLen == 0 { // below the root: there is no zone part to leave alone
		return escapeLetters(o.Pres(), s.respell)
	}
	return escapeLetters(model.Name(o[:k]).Pres(), s.respell) + model.Name(o[k:]).Pres()
}

// escapeLetters rewrites a presentation name so that some letters are written as \X (RFC 1035 s.5.1:
// "\X where X is any character other than a digit"): the same name, another spelling.
func escapeLetters(n string, seed uint64) string {
	var sb strings.Builder
	for i := 0; i < len(n); i++ {
		c := n[i]
		if c == '\\' {
			if i+3 < len(n) && n[i+1] >= '0' && n[i+1] <= '9' {
				sb.WriteString(n[i : i+4])
				i += 3
			} else if i+1 < len(n) {
				sb.WriteString(n[i : i+2])
				i++
			} else {
				sb.WriteByte(c)
			}
			continue
		}
		if c >= 'a' && c <= 'z' || c >= 'A' && c <= 'Z' {
			seed = seed*6364136223846793005 + 1442695040888963407
			if seed>>33%3 == 0 {
				sb.WriteByte('\\')
			}
		}
		sb.WriteByte(c)
	}
	return sb.String()
}

// mapNames applies f to the owner and to every domain-name field of rr (found by struct tag).
func mapNames(rr dns.RR, f func(string) string) {
	h := rr.Header()
	h.Name = f(h.Name)
	v := reflect.ValueOf(rr).Elem()
	t := v.Type()
	for i := 0; i < t.NumField(); i++ {
		tag := t.Field(i).Tag.Get("dns")
		if !strings.Contains(tag, "domain-name") {
			continue
		}
		fv := v.Field(i)
		switch fv.Kind() {
		case reflect.String:
			fv.SetString(f(fv.String()))
		case reflect.Slice:
			for k := 0; k < fv.Len(); k++ {
				if fv.Index(k).Kind() == reflect.String {
					fv.Index(k).SetString(f(fv.Index(k).String()))
				}
			}
		}
	}
}

func (s c10Set) clone() c10Set {
	var o c10Set
	o.respell, o.zoneLen, o.raw8 = s.respell, s.zoneLen, s.raw8
	for _, r := range s.recs {
		o.recs = append(o.recs, cloneRec(r))
	}
	return o
}

func sigFields(sig *dns.RRSIG) (model.SigFields, bool) {
	b, err := base64.StdEncoding.DecodeString(sig.Signature)
	if err != nil {
		return model.SigFields{}, false
	}
	return model.SigFields{TypeCovered: sig.TypeCovered, Alg: sig.Algorithm, Labels: sig.Labels, OrigTTL: sig.OrigTtl, Expiration: sig.Expiration,
		Inception: sig.Inception, KeyTag: sig.KeyTag, Signer: mustName(sig.SignerName), Sig: b}, true
}

// c10ModelAccepts is the statement's acceptance condition, evaluated independently.
func c10ModelAccepts(sig *dns.RRSIG, key *dns.DNSKEY, set c10Set) (bool, string) {
	f, ok := sigFields(sig)
	if !ok {
		return false, "signature not base64"
	}
	pub, err := base64.StdEncoding.DecodeString(key.PublicKey)
	if err != nil {
		return false, "key not base64"
	}
	krd := model.KeyRdata(key.Flags, key.Protocol, key.Algorithm, pub)
	switch {
	case key.Flags&256 == 0:
		return false, "not a zone key"
	case key.Protocol != 3:
		return false, "protocol"
	case model.KeyTag(krd) != sig.KeyTag:
		return false, "key tag"
	case key.Algorithm != sig.Algorithm:
		return false, "algorithm"
	case key.Hdr.Class != sig.Hdr.Class:
		return false, "key class"
	case !mustName(key.Hdr.Name).EqualFold(f.Signer):
		return false, "signer name"
	}
	if len(set.recs) == 0 {
		return false, "empty"
	}
	o := set.recs[0]
	for _, r := range set.recs {
		if !r.Owner.EqualFold(o.Owner) || r.Class != o.Class || r.Type != o.Type {
			return false, "not an rrset"
		}
	}
	switch {
	case !o.Owner.EqualFold(mustName(sig.Hdr.Name)):
		return false, "rrsig owner"
	case o.Class != sig.Hdr.Class:
		return false, "class"
	case o.Type != sig.TypeCovered:
		return false, "type covered"
	case len(o.Owner) < int(sig.Labels):
		return false, "labels"
	}
	if !model.VerifySig(sig.Algorithm, pub, model.SigData(f, set.recs), f.Sig) {
		return false, "signature"
	}
	return true, ""
}

func c10Case(w *core.W, j int) {
	g := model.NewGen(w.Rng(j))
	g.NoHuge = true
	g.MaxOpaque = 60
	alg := allAlgs[j%len(allAlgs)]
	if alg == dns.RSASHA1 && (j/len(allAlgs))%3 == 2 {
		alg = dns.RSASHA1NSEC3SHA1 // the same RSA/SHA-1 under its NSEC3-aware number (RFC 5155 s.2): a supported algorithm like the others
	}
	bits := algBits[alg][(j/len(allAlgs))%len(algBits[alg])]
	zone := model.Name{[]byte("Signed"), []byte("EXAMPLE")}
	if j%5 == 3 {
		zone = model.Name{[]byte("a.b\\c"), []byte("Zone"), []byte("test")} // escaped octets in the zone name
	}
	if j%5 == 4 {
		zone = model.Name{[]byte("z^ne[1]"), []byte("T@st`x")} // octets whose 0x20-partner is not a letter either
	}
	switch j % 17 {
	case 9:
		zone = model.Name{} // the root zone signs names right below it and at any depth
		w.Count("root_zone_signers", 1)
	case 13:
		zone = model.Name{[]byte("Tld")}
	}
	// zone keys in every shape a validator meets: ZSK, KSK, revoked (RFC 5011 bit 0x0080) and with a
	// reserved bit set (RFC 4034 s.2.1.1: reserved bits are ignored on receipt): a zone key has bit 7
	flags := []uint16{257, 256, 257, 385, 257, 256, 384, 257, 0x8100, 258, 257}[j%11]
	w.Cover("key_flags", fmt.Sprint(flags))
	k, err := getKey(alg, bits, zone.Pres(), flags, j%2)
	if alg == dns.ED25519 && (j/len(allAlgs))%3 == 0 {
		// a key whose tag computation needs the second carry (RFC 4034 Appendix B adds the carry once)
		k, err = doubleCarryKey(zone.Pres(), 257)
		w.Count("double_carry_keys", 1)
	}
	if err != nil {
		w.Inconclusive("keygen:" + err.Error())
		return
	}
	if j == 5 { // (one case per run) a key whose tag is 0
		if k0, e0 := tagZeroKey(zone.Pres(), 257); e0 == nil {
			k = k0
			w.Count("tag_zero_keys", 1)
		}
	}
	an := algName(alg)
	sl := signableLayouts()
	l := sl[g.R.IntN(len(sl))]
	if j%3 == 0 {
		l = sl[(j/3)%len(sl)] // every third case walks the list, so that each type is signed in every run
	}
	g.Plain = j%3 == 0
	wild := j%4 == 1
	owner := append(model.Name{g.Label()}, zone...)
	if j%7 == 5 {
		owner = append(model.Name{g.Label(), g.Label()}, zone...)
	}
	if j%5 == 4 && j%7 != 5 {
		owner = append(model.Name{[]byte("h~st{2}")}, zone...)
	}
	if j%5 == 2 && j%7 != 5 {
		owner = append(model.Name{[]byte("B\xc3\x9cCHER-\xe2\x84\xaa-\xc3\x89")}, zone...) // UTF-8 upper-case letters outside ASCII
	}
	if j%11 == 6 {
		// leftmost labels that merely start with, end in or contain an asterisk: ordinary names
		owner = append(model.Name{[][]byte{[]byte("*ab"), []byte("**"), []byte("a*"), []byte("*.x")}[j/11%4]}, zone...)
	}
	if wild {
		owner = append(model.Name{[]byte("*")}, zone...)
	}
	if j%19 == 7 {
		owner = zone.Clone() // an RRset at the apex: owner and signer are the same name
		w.Count("apex_rrsets", 1)
	}
	if !owner.Valid() {
		return
	}
	wild = len(owner) > 0 && string(owner[0]) == "*" // also when the generator drew "*" as an ordinary label
	g.Pool = []model.Name{zone, owner}
	var set c10Set
	n := 1 + g.R.IntN(6)
	emptyTail := j%13 == 4
	if emptyTail {
		l = model.Layouts[[]uint16{257, 256, 16, 10}[j/13%4]] // CAA, URI, TXT, NULL: RDATA may end in an empty field
	}
	origTTL := []uint32{3600, 0, 1, 300, 0, 2147483647, 4294967295}[(j/2)%7]
	w.Cover("original_ttl", fmt.Sprint(origTTL))
	for i := 0; i < n; i++ {
		r := g.Rec(l)
		if emptyTail && i%2 == 0 {
			switch r.Vals[len(r.Vals)-1].(type) {
			case []byte:
				r.Vals[len(r.Vals)-1] = []byte{}
			case [][]byte:
				r.Vals[len(r.Vals)-1] = [][]byte{{}}
			}
			r.Fixup()
		}
		if c01Class(r, nil) != "" {
			continue
		}
		// the original TTL is a signed field like any other: 0 (not "unset" once it stands in an RRSIG), 1 and the
		// largest values included
		r.Owner, r.Class, r.TTL = owner.Clone(), 1, origTTL
		set.recs = append(set.recs, r)
		if g.R.IntN(5) == 0 { // a repeated record
			set.recs = append(set.recs, cloneRec(r))
		}
	}
	if j%9 == 8 {
		// an RRset whose canonical form is far larger than any fixed working buffer (5..40 KiB)
		set.recs = nil
		big := model.Layouts[16]
		for i := 0; i < 3+g.R.IntN(30); i++ {
			var strs [][]byte
			for k := 0; k < 1+g.R.IntN(6); k++ {
				strs = append(strs, g.TextBytes(200+g.R.IntN(56)))
			}
			set.recs = append(set.recs, &model.Rec{Owner: owner.Clone(), Type: 16, Class: 1, TTL: 3600, L: big, Vals: []any{strs}})
		}
		if g.R.IntN(3) == 0 {
			one := [][]byte{}
			for k := 0; k < 22; k++ {
				one = append(one, g.TextBytes(255))
			}
			set.recs = []*model.Rec{{Owner: owner.Clone(), Type: 16, Class: 1, TTL: 3600, L: big, Vals: []any{one}}}
		}
		l = big
		w.Count("large_rrsets", 1)
	}
	if len(set.recs) == 0 {
		return
	}
	rrs := set.build()
	if rrs == nil {
		return
	}
	wit := map[string]any{"alg": an, "type": l.Name, "owner": owner.Pres(), "records": len(set.recs)}
	for i, r := range set.recs {
		if i < 6 {
			wit[fmt.Sprintf("rr%d", i)] = hx(r.Wire())
		}
	}
	sig := &dns.RRSIG{Algorithm: alg, KeyTag: k.Key.KeyTag(), SignerName: zone.Pres(), Inception: 1_700_000_000, Expiration: 1_800_000_000}
	// validity times are signed octets like any other; Verify is the cryptographic test and does not look
	// at the clock (ValidityPeriod does, see C17). Windows of every shape: across the 2^32 wrap (the
	// expiration is the numerically smaller value), unset (0), expired long ago, inception == expiration
	switch j % 9 {
	case 2:
		sig.Inception, sig.Expiration = 4293967296, 1592000 // inception + 30 days, wrapped
	case 4:
		sig.Inception, sig.Expiration = 1_700_000_000, 0
	case 6:
		sig.Inception, sig.Expiration = 0, 0
	case 7:
		sig.Inception, sig.Expiration = 100, 200
	case 8:
		sig.Inception, sig.Expiration = 4294967295, 4294967295
	}
	w.Cover("validity_shape", fmt.Sprint(j%9))
	if j%3 == 1 {
		sig.SignerName = zone.Lower().Pres()
	}
	var serr error
	w.Eval(1)
	if w.Guard("RRSIG.Sign", wit, func() { serr = sig.Sign(k.Priv, rrs) }) {
		return
	}
	if serr != nil {
		w.Count("sign_errors", 1)
		if k.Key.KeyTag() == 0 && model.KeyTag(model.KeyRdata(k.Key.Flags, 3, alg, func() []byte { b, _ := base64.StdEncoding.DecodeString(k.Key.PublicKey); return b }())) == 0 {
			w.Violation("C10/sign-fails/key-tag-0", fmt.Sprintf("Sign with a key whose (correct) tag is 0 fails: %v", serr), wit)
		}
		if j%9 == 8 {
			w.Violation("C10/sign-fails/large-rrset/"+algName(alg), fmt.Sprintf("Sign of a well-formed TXT RRset of %d records fails: %v", len(set.recs), serr), wit)
		} else if k.Key.KeyTag() != 0 {
			w.Violation("C10/sign-fails/"+l.Name+"/"+algName(alg), fmt.Sprintf("Sign of a well-formed %s RRset of %d records fails: %v", l.Name, len(set.recs), serr), wit)
		}
		return
	}
	w.Count("signed", 1)
	w.Cover("alg", fmt.Sprintf("%s/%d", an, bits))
	w.Cover("type", l.Name)
	w.NontrivialStr(an, l.Name, sig.Signature)
	key := func(s string) string { return "C10/" + s + "/" + an }

	verify := func(s *dns.RRSIG, kk *dns.DNSKEY, set c10Set) (error, bool) {
		rr := set.build()
		if rr == nil {
			return nil, false
		}
		var verr error
		if w.Guard("RRSIG.Verify", wit, func() { verr = s.Verify(kk, rr) }) {
			return nil, false
		}
		w.Eval(1)
		return verr, true
	}
	{
		wantLabels := len(owner)
		if wild {
			wantLabels--
		}
		if int(sig.Labels) != wantLabels {
			w.Violation(key("sign-output-labels"), fmt.Sprintf("Sign set Labels=%d for owner %s, RFC 4034 s.3.1.3 gives %d", sig.Labels, owner.Pres(), wantLabels), wit)
		}
	}
	// (1) the signature is a signature of the canonical form, and verifies
	if ok, why := c10ModelAccepts(sig, k.Key, set); !ok {
		w.Violation(key("sign-output-not-canonical/"+l.Name), "the RRSIG produced by Sign is not a valid signature of the RFC 4034 canonical form under the matching key: "+why, wit)
		return
	}
	if verr, ok := verify(sig, k.Key, set); ok && verr != nil {
		w.Violation(key("own-signature-rejected/"+l.Name), fmt.Sprintf("Verify rejects the RRSIG that Sign just produced: %v", verr), wit)
	}
	// (2) a signature made by the harness over the model's canonical form is accepted
	{
		s2 := dns.Copy(sig).(*dns.RRSIG)
		s2.Inception, s2.Expiration, s2.OrigTtl = 1_600_000_000+uint32(j), 1_900_000_000, 7200
		f, _ := sigFields(s2)
		raw, err := model.SignData(alg, k.Priv, model.SigData(f, set.recs), crand.Reader)
		if err == nil {
			s2.Signature = base64.StdEncoding.EncodeToString(raw)
			if verr, ok := verify(s2, k.Key, set); ok && verr != nil {
				w.Violation(key("valid-canonical-signature-rejected/"+l.Name), fmt.Sprintf("Verify rejects a valid signature over the RFC 4034 canonical form computed independently: %v", verr), wit)
			}
			w.Count("harness_signatures", 1)
		}
	}
	// (3) variants that must not matter
	type variant struct {
		name string
		set  c10Set
		sig  *dns.RRSIG
	}
	var vs []variant
	{
		v := set.clone()
		g.R.Shuffle(len(v.recs), func(a, b int) { v.recs[a], v.recs[b] = v.recs[b], v.recs[a] })
		vs = append(vs, variant{"order", v, sig})
		v2 := set.clone()
		v2.recs = append(v2.recs, cloneRec(v2.recs[g.R.IntN(len(v2.recs))]))
		vs = append(vs, variant{"repeated-record", v2, sig})
		v3 := set.clone()
		for _, r := range v3.recs {
			r.TTL = 1 + uint32(g.R.IntN(3600)) // never 0: a current TTL differs from an original TTL of 0 too
		}
		vs = append(vs, variant{"current-ttl", v3, sig})
		v4 := set.clone()
		flipped, changed := flipCase(g, owner)
		for _, r := range v4.recs {
			r.Owner = flipped.Clone() // one spelling for the whole RRset
		}
		if changed {
			// all records must still share one owner spelling-insensitively; the RRSIG keeps its own spelling
			vs = append(vs, variant{"owner-case", v4, sig})
		}
		if model.LowersRdataNames(l.Type) {
			v5 := set.clone()
			ch := false
			for i, r := range v5.recs {
				c, x := caseVariant(g, r, 1)
				v5.recs[i] = c
				ch = ch || x
			}
			if ch {
				vs = append(vs, variant{"rdata-name-case", v5, sig})
			}
		}
		{
			v7 := set.clone()
			v7.respell, v7.zoneLen = uint64(j)*2654435761+1, len(zone)
			sv := dns.Copy(sig).(*dns.RRSIG)
			sv.Hdr.Name = v7.ownerSpelling(owner)
			vs = append(vs, variant{"escaped-letter-spelling", v7, sv})
			// and the other way round: signed from the escaped spelling, verified against the plain one
			var s7 *dns.RRSIG
			var e7 error
			if !w.Guard("RRSIG.Sign", wit, func() {
				s7 = &dns.RRSIG{Algorithm: alg, KeyTag: k.Key.KeyTag(), SignerName: escapeLetters(zone.Pres(), uint64(j)+7), Inception: 1_700_000_000, Expiration: 1_800_000_000}
				e7 = s7.Sign(k.Priv, v7.build())
			}) && e7 == nil {
				s7.SignerName = sig.SignerName // the RRSIG as it would be read back from the wire
				s7.Hdr.Name = sig.Hdr.Name
				if ok, why := c10ModelAccepts(s7, k.Key, set); !ok {
					w.Violation(key("sign-output-not-canonical/escaped-letter-spelling"), "signing an RRset whose names are spelled with \\X escapes does not sign the RFC 4034 canonical form: "+why, wit)
				} else {
					vs = append(vs, variant{"signed-from-escaped-letter-spelling", set, s7})
				}
			}
		}
		{
			v8 := set.clone()
			v8.raw8 = true
			s8 := dns.Copy(sig).(*dns.RRSIG)
			s8.Hdr.Name = rawHighOctets(owner.Pres())
			vs = append(vs, variant{"raw-8bit-spelling", v8, s8})
			var n8 *dns.RRSIG
			var e8 error
			if !w.Guard("RRSIG.Sign", wit, func() {
				n8 = &dns.RRSIG{Algorithm: alg, KeyTag: k.Key.KeyTag(), SignerName: sig.SignerName, Inception: 1_700_000_000, Expiration: 1_800_000_000}
				e8 = n8.Sign(k.Priv, v8.build())
			}) && e8 == nil {
				n8.Hdr.Name = sig.Hdr.Name
				if ok, why := c10ModelAccepts(n8, k.Key, set); !ok {
					w.Violation(key("sign-output-not-canonical/raw-8bit-spelling"), "signing an RRset whose names hold raw octets above 0x7F does not sign the RFC 4034 canonical form (only A-Z are folded): "+why, wit)
				}
			}
		}
		if wild {
			for _, extra := range []model.Name{{[]byte("host")}, {[]byte("A"), []byte("b")}, {[]byte("x.y"), []byte("z"), []byte("w")}} {
				exp := append(extra.Clone(), zone...)
				v6 := set.clone()
				for _, r := range v6.recs {
					r.Owner = exp.Clone()
				}
				s6 := dns.Copy(sig).(*dns.RRSIG)
				s6.Hdr.Name = exp.Pres()
				vs = append(vs, variant{fmt.Sprintf("wildcard-expansion-%d-labels", len(extra)), v6, s6})
			}
		}
	}
	for _, v := range vs {
		ok, why := c10ModelAccepts(v.sig, k.Key, v.set)
		if !ok {
			w.Inconclusive("c10-model-rejects-irrelevant-variant:" + v.name + ":" + why)
			continue
		}
		w.Cover("accepted_variant", v.name)
		if verr, vok := verify(v.sig, k.Key, v.set); vok && verr != nil {
			w.Violation(key("irrelevant-variant-rejected/"+v.name), fmt.Sprintf("Verify fails (%v) for a variant that must not matter: %s", verr, v.name), wit)
		}
	}
	// (3b) the same RRSIG value signs the next RRset (a signer loops over a zone with one template):
	// owners of another depth and a wildcard owner
	for ri, o2 := range []model.Name{append(model.Name{[]byte("deeper"), []byte("down")}, owner...), zone.Clone(), append(model.Name{[]byte("*")}, zone...)} {
		if !o2.Valid() {
			continue
		}
		s2set := set.clone()
		for _, r := range s2set.recs {
			r.Owner = o2.Clone()
		}
		reused := dns.Copy(sig).(*dns.RRSIG) // carries Labels, OrigTtl, Signature ... of the first use
		rr2 := s2set.build()
		if rr2 == nil {
			continue
		}
		var e2 error
		if w.Guard("RRSIG.Sign(reused)", wit, func() { e2 = reused.Sign(k.Priv, rr2) }) {
			continue
		}
		w.Count("reused_rrsig_signings", 1)
		if e2 != nil {
			w.Violation(key("reused-rrsig/sign-error"), fmt.Sprintf("signing a second RRset (owner %s) with the same RRSIG value: %v", o2.Pres(), e2), wit)
			continue
		}
		wantLabels := len(o2)
		if len(o2) > 0 && string(o2[0]) == "*" {
			wantLabels--
		}
		if int(reused.Labels) != wantLabels {
			w.Violation(key(fmt.Sprintf("reused-rrsig/labels/%d", ri)), fmt.Sprintf("the RRSIG produced for owner %s carries Labels=%d, RFC 4034 s.3.1.3 gives %d", o2.Pres(), reused.Labels, wantLabels), wit)
		}
		if ok, why := c10ModelAccepts(reused, k.Key, s2set); !ok {
			w.Violation(key(fmt.Sprintf("reused-rrsig/sign-output-invalid/%d", ri)), fmt.Sprintf("an RRSIG value reused for an RRset owned by %s (Labels now %d) is not a valid signature: %s", o2.Pres(), reused.Labels, why), wit)
		} else if verr, vok := verify(reused, k.Key, s2set); vok && verr != nil {
			w.Violation(key(fmt.Sprintf("reused-rrsig/own-signature-rejected/%d", ri)), fmt.Sprintf("Verify rejects the reused RRSIG for owner %s: %v", o2.Pres(), verr), wit)
		}
	}
	// (4) alterations: whatever Verify accepts must be acceptable to the model
	type alt struct {
		name string
		sig  *dns.RRSIG
		key  *dns.DNSKEY
		set  c10Set
	}
	var alts []alt
	mods := func(name string, f func(s *dns.RRSIG)) {
		s := dns.Copy(sig).(*dns.RRSIG)
		f(s)
		alts = append(alts, alt{name, s, k.Key, set})
	}
	mods("rrsig.TypeCovered", func(s *dns.RRSIG) { s.TypeCovered ^= 1 })
	mods("rrsig.Algorithm", func(s *dns.RRSIG) { s.Algorithm = allAlgs[(j+1)%len(allAlgs)] })
	mods("rrsig.Labels+1", func(s *dns.RRSIG) { s.Labels++ })
	mods("rrsig.Labels-1", func(s *dns.RRSIG) { s.Labels-- })
	mods("rrsig.OrigTtl", func(s *dns.RRSIG) { s.OrigTtl++ })
	mods("rrsig.Expiration", func(s *dns.RRSIG) { s.Expiration++ })
	mods("rrsig.Inception", func(s *dns.RRSIG) { s.Inception-- })
	mods("rrsig.KeyTag", func(s *dns.RRSIG) { s.KeyTag++ })
	mods("rrsig.SignerName", func(s *dns.RRSIG) { s.SignerName = "other." + s.SignerName })
	if len(zone) > 0 {
		mods("rrsig.SignerName-parent", func(s *dns.RRSIG) { s.SignerName = model.Name(zone[1:]).Pres() })
	}
	mods("rrsig.owner", func(s *dns.RRSIG) { s.Hdr.Name = "x" + s.Hdr.Name })
	mods("rrsig.class", func(s *dns.RRSIG) { s.Hdr.Class = 3 })
	// one octet of the RRSIG owner / DNSKEY owner replaced by its 0x20-partner where neither is a letter
	flipNonLetter := func(n string) (string, bool) {
		for i := 0; i < len(n); i++ {
			switch n[i] {
			case '^', '~', '[', '{', ']', '}', '`':
				if i > 0 && n[i-1] == '\\' {
					continue
				}
				return n[:i] + string(n[i]^0x20) + n[i+1:], true
			}
		}
		return n, false
	}
	if fn, ok := flipNonLetter(sig.Hdr.Name); ok {
		mods("rrsig.owner-0x20-nonletter", func(s *dns.RRSIG) { s.Hdr.Name = fn })
	}
	if fn, ok := flipNonLetter(k.Key.Hdr.Name); ok {
		alts = append(alts, alt{"key.owner-0x20-nonletter", sig, func() *dns.DNSKEY { kk := dns.Copy(k.Key).(*dns.DNSKEY); kk.Hdr.Name = fn; return kk }(), set})
	}
	// the same DNSKEY value used again after its public key was replaced in place by another key's
	// (a long-lived table entry rolled over): Verify goes by what the value holds when it is called
	if k2, err := getKey(alg, bits, zone.Pres(), 256, 7); err == nil && k2.Key.PublicKey != k.Key.PublicKey {
		live := dns.Copy(k.Key).(*dns.DNSKEY)
		if rr := set.build(); rr != nil && sig.Verify(live, rr) == nil {
			live.PublicKey = k2.Key.PublicKey
			s := dns.Copy(sig).(*dns.RRSIG)
			s.KeyTag = live.KeyTag()
			alts = append(alts, alt{"key.public-key-replaced-in-place", s, live, set})
		}
	}
	rawSig, _ := base64.StdEncoding.DecodeString(sig.Signature)
	nflips := 12
	if w.Tier == "thorough" {
		nflips = len(rawSig) * 8
	}
	for f := 0; f < nflips; f++ {
		bit := f
		if w.Tier != "thorough" {
			bit = g.R.IntN(len(rawSig) * 8)
		}
		mods("rrsig.Signature-bit", func(s *dns.RRSIG) {
			b := append([]byte(nil), rawSig...)
			b[bit/8] ^= 1 << (bit % 8)
			s.Signature = base64.StdEncoding.EncodeToString(b)
		})
	}
	mods("rrsig.Signature-truncated", func(s *dns.RRSIG) { s.Signature = base64.StdEncoding.EncodeToString(rawSig[:len(rawSig)-1]) })
	mods("rrsig.Signature-empty", func(s *dns.RRSIG) { s.Signature = "" })
	// alterations that change the length: octets behind a valid signature, in front of it, and - for the
	// two-integer ECDSA form - a zero octet in front of each half (the same integers, not the RFC 6605 encoding)
	b64 := func(b []byte) string { return base64.StdEncoding.EncodeToString(b) }
	for _, n := range []int{1, 2, len(rawSig) / 2, len(rawSig)} {
		n := n
		mods("rrsig.Signature-octets-appended", func(s *dns.RRSIG) { s.Signature = b64(append(append([]byte(nil), rawSig...), make([]byte, n)...)) })
		mods("rrsig.Signature-octets-prepended", func(s *dns.RRSIG) { s.Signature = b64(append(make([]byte, n), rawSig...)) })
	}
	mods("rrsig.Signature-appended-copy", func(s *dns.RRSIG) { s.Signature = b64(append(append([]byte(nil), rawSig...), rawSig...)) })
	if len(rawSig)%2 == 0 {
		h := len(rawSig) / 2
		mods("rrsig.Signature-halves-zero-padded", func(s *dns.RRSIG) {
			s.Signature = b64(append(append(append([]byte{0}, rawSig[:h]...), 0), rawSig[h:]...))
		})
	}
	modk := func(name string, f func(kk *dns.DNSKEY)) {
		kk := dns.Copy(k.Key).(*dns.DNSKEY)
		f(kk)
		alts = append(alts, alt{name, sig, kk, set})
		// and with the tag in the RRSIG adjusted to the altered key, so that the check behind the tag is reached
		s := dns.Copy(sig).(*dns.RRSIG)
		s.KeyTag = kk.KeyTag()
		alts = append(alts, alt{name + "+tag", s, kk, set})
	}
	modk("key.zone-bit", func(kk *dns.DNSKEY) { kk.Flags &^= 256 })
	modk("key.sep-bit", func(kk *dns.DNSKEY) { kk.Flags ^= 1 })
	modk("key.protocol", func(kk *dns.DNSKEY) { kk.Protocol = 2 })
	modk("key.algorithm", func(kk *dns.DNSKEY) { kk.Algorithm = allAlgs[(j+2)%len(allAlgs)] })
	modk("key.owner", func(kk *dns.DNSKEY) { kk.Hdr.Name = "k." + kk.Hdr.Name })
	modk("key.class", func(kk *dns.DNSKEY) { kk.Hdr.Class = 3 })
	// a key published at an ancestor or a descendant of the signer name is not the signer's key
	for up := 1; up <= len(zone); up++ {
		anc := model.Name(zone[up:]).Pres()
		modk("key.owner-ancestor", func(kk *dns.DNSKEY) { kk.Hdr.Name = anc })
	}
	modk("key.owner-descendant", func(kk *dns.DNSKEY) { kk.Hdr.Name = "sub." + kk.Hdr.Name })
	for _, fp := range [][2]string{{"s", "\u017f"}, {"S", "\u017f"}, {"k", "\u212a"}, {"K", "\u212a"}} {
		if i := strings.Index(k.Key.Hdr.Name, fp[0]); i >= 0 {
			nn := k.Key.Hdr.Name[:i] + fp[1] + k.Key.Hdr.Name[i+1:]
			modk("key.owner-unicode-fold", func(kk *dns.DNSKEY) { kk.Hdr.Name = nn })
			mods("rrsig.owner-unicode-fold", func(s *dns.RRSIG) {
				if x := strings.Index(s.Hdr.Name, fp[0]); x >= 0 {
					s.Hdr.Name = s.Hdr.Name[:x] + fp[1] + s.Hdr.Name[x+1:]
				}
			})
		}
	}
	rawKey, _ := base64.StdEncoding.DecodeString(k.Key.PublicKey)
	for f := 0; f < 6; f++ {
		bit := g.R.IntN(len(rawKey) * 8)
		modk("key.PublicKey-bit", func(kk *dns.DNSKEY) {
			b := append([]byte(nil), rawKey...)
			b[bit/8] ^= 1 << (bit % 8)
			kk.PublicKey = base64.StdEncoding.EncodeToString(b)
		})
	}
	// public keys that cannot be keys of the algorithm
	modk("key.PublicKey-truncated", func(kk *dns.DNSKEY) { kk.PublicKey = base64.StdEncoding.EncodeToString(rawKey[:len(rawKey)-1]) })
	modk("key.PublicKey-extended", func(kk *dns.DNSKEY) {
		kk.PublicKey = base64.StdEncoding.EncodeToString(append(append([]byte{}, rawKey...), 0))
	})
	modk("key.PublicKey-empty", func(kk *dns.DNSKEY) { kk.PublicKey = "" })
	modk("key.PublicKey-one-octet", func(kk *dns.DNSKEY) { kk.PublicKey = base64.StdEncoding.EncodeToString(rawKey[:1]) })
	// RRset alterations
	for m := 0; m < 6; m++ {
		v := set.clone()
		i := g.R.IntN(len(v.recs))
		if fi := g.Mutate(v.recs[i]); fi >= 0 && c01Class(v.recs[i], nil) == "" {
			alts = append(alts, alt{"rrset.field:" + l.Name, sig, k.Key, v})
		}
	}
	{
		v := set.clone()
		v.recs = v.recs[:len(v.recs)-1]
		if len(v.recs) > 0 {
			alts = append(alts, alt{"rrset.record-removed", sig, k.Key, v})
		}
		v2 := set.clone()
		extra := g.Rec(l)
		extra.Owner, extra.Class, extra.TTL = owner.Clone(), 1, 3600
		if c01Class(extra, nil) == "" {
			v2.recs = append(v2.recs, extra)
			alts = append(alts, alt{"rrset.record-added", sig, k.Key, v2})
		}
		v3 := set.clone()
		for _, r := range v3.recs {
			r.Class = 3
		}
		alts = append(alts, alt{"rrset.class", sig, k.Key, v3})
		if !model.LowersRdataNames(l.Type) {
			v4 := set.clone()
			ch := false
			for i, r := range v4.recs {
				c, x := caseVariant(g, r, 1)
				v4.recs[i] = c
				ch = ch || x
			}
			if ch {
				alts = append(alts, alt{"rrset.rdata-name-case-of-other-type", sig, k.Key, v4})
			}
		}
		if !wild && len(owner) > 0 {
			v5 := set.clone()
			no := append(model.Name{[]byte("zz")}, owner[1:]...)
			for _, r := range v5.recs {
				r.Owner = no.Clone()
			}
			s5 := dns.Copy(sig).(*dns.RRSIG)
			s5.Hdr.Name = no.Pres()
			alts = append(alts, alt{"rrset.owner", s5, k.Key, v5})
		}
	}
	for _, a := range alts {
		ma, _ := c10ModelAccepts(a.sig, a.key, a.set)
		verr, ok := verify(a.sig, a.key, a.set)
		if !ok {
			continue
		}
		base := a.name
		if i := indexByte(base, ':'); i >= 0 {
			base = base[:i]
		}
		w.Cover("alteration", base)
		if verr == nil && !ma {
			w.Violation(key("accepts-invalid/"+base), fmt.Sprintf("Verify accepts after the alteration %q although the signature is not valid for the altered inputs", a.name), wit)
		}
		if verr == nil {
			w.Count("alterations_still_valid", 1)
		} else {
			w.Count("alterations_rejected", 1)
		}
	}
	if w.WantSample() {
		w.Sample(map[string]any{"alg": an, "bits": bits, "type": l.Name, "owner": owner.Pres(), "records": len(set.recs), "rrsig": cutS(sig.String()), "variants": len(vs), "alterations": len(alts)})
	}
}

func indexByte(s string, c byte) int {
	for i := 0; i < len(s); i++ {
		if s[i] == c {
			return i
		}
	}
	return -1
}

// c10ManySignatures: the fixed-width encodings of ECDSA signatures (RFC 6605: r | s, each padded to the
// curve size) have a one-in-256 case per integer in which the value is an octet short. Hundreds of
// signatures over one small RRset per case make those cases certain to occur; each must verify with
// Verify and independently.
func c10ManySignatures(w *core.W, j int) {
	alg := []uint8{dns.ECDSAP256SHA256, dns.ECDSAP384SHA384, dns.ECDSAP256SHA256, dns.ED25519, dns.RSASHA256}[j%5]
	k, err := getKey(alg, algBits[alg][0], "many.example.", 256, 2)
	if err != nil {
		w.Inconclusive("keygen:" + err.Error())
		return
	}
	n := map[uint8]int{dns.ECDSAP256SHA256: 500, dns.ECDSAP384SHA384: 300, dns.ED25519: 60, dns.RSASHA256: 30}[alg]
	zone := mustName("many.example.")
	rec := &model.Rec{Owner: append(model.Name{[]byte("a")}, zone...), Type: 1, Class: 1, TTL: 60, L: model.Layouts[1], Vals: []any{[]byte{192, 0, 2, byte(j)}}}
	set := c10Set{recs: []*model.Rec{rec}}
	short := 0
	for i := 0; i < n; i++ {
		sig := &dns.RRSIG{Algorithm: alg, KeyTag: k.Key.KeyTag(), SignerName: "many.example.", Inception: 1_700_000_000, Expiration: 1_800_000_000 + uint32(i)}
		if err := sig.Sign(k.Priv, set.build()); err != nil {
			w.Violation("C10/sign-fails/A/"+algName(alg), fmt.Sprintf("signature %d of %d: %v", i, n, err), nil)
			return
		}
		w.Eval(1)
		raw, _ := base64.StdEncoding.DecodeString(sig.Signature)
		if len(raw) >= 2 && (raw[0] == 0 || raw[len(raw)/2] == 0) {
			short++
		}
		ok, why := c10ModelAccepts(sig, k.Key, set)
		verr := sig.Verify(k.Key, set.build())
		if !ok || verr != nil {
			w.Violation("C10/sign-output-invalid/many/"+algName(alg), fmt.Sprintf("signature %d of %d over one small RRset: independent verification %v (%s), Verify: %v; signature %x", i, n, ok, why, verr, raw), map[string]any{"alg": algName(alg)})
			return
		}
	}
	w.Count("many_signatures", n)
	w.Count("many_signatures_with_leading_zero_half", short)
}

// c10SameTagKeys: two different keys of one zone that share owner, algorithm and key tag (RFC 4034 App. B:
// the tag does not identify a key; here the flags of the second key are chosen so that the tags collide).
// Each key verifies its own signatures and not the other's, in whatever order they are used.
func c10SameTagKeys(w *core.W, j int) { sameTagKeys(w, j, "C10") }

func sameTagKeys(w *core.W, j int, prop string) {
	alg := []uint8{dns.RSASHA256, dns.ED25519, dns.RSASHA1, dns.ECDSAP256SHA256, dns.RSASHA512}[j%5]
	zone := "same-tag.example."
	var k1, k2 *sigKey
	for try := 0; try < 12 && k2 == nil; try++ {
		a, e1 := freshKey(alg, algBits[alg][0], zone, 257)
		b, e2 := freshKey(alg, algBits[alg][0], zone, 256)
		if e1 != nil || e2 != nil {
			w.Inconclusive("keygen")
			return
		}
		want := a.Key.KeyTag()
		for f := 0; f < 65536; f++ {
			if f&0x0100 == 0 {
				continue // a zone key
			}
			b.Key.Flags = uint16(f)
			if b.Key.KeyTag() == want && model.KeyTag(model.KeyRdata(uint16(f), 3, alg, mustB64(b.Key.PublicKey))) == want {
				k1, k2 = a, b
				break
			}
		}
	}
	if k2 == nil {
		w.Count("same_tag_pairs_not_found", 1)
		return
	}
	w.Eval(1)
	w.Count("same_tag_key_pairs", 1)
	rrset := func() []dns.RR {
		return []dns.RR{&dns.A{Hdr: dns.RR_Header{Name: "host." + zone, Rrtype: 1, Class: 1, Ttl: 300}, A: []byte{192, 0, 2, byte(j)}}, &dns.A{Hdr: dns.RR_Header{Name: "host." + zone, Rrtype: 1, Class: 1, Ttl: 300}, A: []byte{192, 0, 2, 200}}}
	}
	sign := func(k *sigKey) *dns.RRSIG {
		s := &dns.RRSIG{Algorithm: alg, KeyTag: k.Key.KeyTag(), SignerName: zone, Inception: 1_700_000_000, Expiration: 1_800_000_000}
		if err := s.Sign(k.Priv, rrset()); err != nil {
			return nil
		}
		return s
	}
	s1, s2 := sign(k1), sign(k2)
	if s1 == nil || s2 == nil {
		w.Violation(prop+"/sign-fails/same-tag-keys/"+algName(alg), "Sign failed for one of two keys with the same tag", nil)
		return
	}
	wit := map[string]any{"alg": algName(alg), "tag": k1.Key.KeyTag(), "key1": k1.Key.String(), "key2": k2.Key.String()}
	type step struct {
		s    *dns.RRSIG
		k    *sigKey
		want bool
		what string
	}
	steps := []step{{s1, k1, true, "sig1/key1"}, {s2, k2, true, "sig2/key2"}, {s1, k2, false, "sig1/key2"}, {s2, k1, false, "sig2/key1"}, {s1, k1, true, "sig1/key1 again"}, {s2, k2, true, "sig2/key2 again"}}
	if j%2 == 1 {
		steps[0], steps[1] = steps[1], steps[0]
	}
	for _, st := range steps {
		var err error
		if w.Guard("RRSIG.Verify", wit, func() { err = st.s.Verify(st.k.Key, rrset()) }) {
			return
		}
		w.Eval(1)
		if st.want && err != nil {
			w.Violation(prop+"/own-signature-rejected/same-tag-keys/"+algName(alg), fmt.Sprintf("two keys of one zone share algorithm and tag %d; step %q: a key's own signature is rejected: %v", k1.Key.KeyTag(), st.what, err), wit)
			return
		}
		if !st.want && err == nil {
			w.Violation(prop+"/accepts-invalid/same-tag-keys/"+algName(alg), fmt.Sprintf("two keys of one zone share algorithm and tag %d; step %q: the signature of one key verifies under the other", k1.Key.KeyTag(), st.what), wit)
			return
		}
	}
	w.NontrivialStr("same-tag", fmt.Sprint(j))
}

func mustB64(s string) []byte {
	b, _ := base64.StdEncoding.DecodeString(s)
	return b
}

// c10RSAExponents: RSA keys whose public exponent is not the usual 65537 - one to four octets long, up to
// the 2^31-1 the statement's "supported" keys can have - and keys that state the exponent length in the
// three-octet form of RFC 3110 s.2. What such a key signs verifies, independently and with Verify.
func c10RSAExponents(w *core.W, j int) {
	exps := []int{3, 17, 257, 65537, 0x01000001, 0x7FFFFFFF}
	e := exps[j%len(exps)]
	long := (j/len(exps))%2 == 1
	alg := []uint8{dns.RSASHA256, dns.RSASHA1, dns.RSASHA512, dns.RSASHA1NSEC3SHA1}[(j/(2*len(exps)))%4]
	k, err := rsaExponentKey(alg, "rsa-exp.example.", 256+uint16(j%2), e, long)
	if err != nil {
		w.Inconclusive("keygen:" + err.Error())
		return
	}
	form := "short-length-form"
	if long {
		form = "long-length-form"
	}
	zone := mustName("rsa-exp.example.")
	rec := &model.Rec{Owner: append(model.Name{[]byte("host")}, zone...), Type: 1, Class: 1, TTL: 300, L: model.Layouts[1], Vals: []any{[]byte{192, 0, 2, byte(j)}}}
	set := c10Set{recs: []*model.Rec{rec}}
	sig := &dns.RRSIG{Algorithm: alg, KeyTag: k.Key.KeyTag(), SignerName: "rsa-exp.example.", Inception: 1_700_000_000, Expiration: 1_800_000_000}
	wit := map[string]any{"alg": algName(alg), "exponent": e, "form": form, "dnskey": k.Key.String()}
	w.Eval(1)
	var serr error
	if w.Guard("RRSIG.Sign", wit, func() { serr = sig.Sign(k.Priv, set.build()) }) {
		return
	}
	if serr != nil {
		w.Violation("C10/sign-fails/rsa-exponent/"+form, fmt.Sprintf("Sign with an RSA key of exponent %d: %v", e, serr), wit)
		return
	}
	wit["rrsig"] = sig.String()
	ok, why := c10ModelAccepts(sig, k.Key, set)
	if !ok {
		w.Violation("C10/sign-output-invalid/rsa-exponent/"+form, fmt.Sprintf("the signature of an RSA key with exponent %d does not verify independently: %s", e, why), wit)
		return
	}
	var verr error
	if w.Guard("RRSIG.Verify", wit, func() { verr = sig.Verify(k.Key, set.build()) }) {
		return
	}
	if verr != nil {
		w.Violation("C10/own-signature-rejected/rsa-exponent/"+form, fmt.Sprintf("Verify rejects the signature of an RSA key with exponent %d (%d octets, %s): %v", e, len(big.NewInt(int64(e)).Bytes()), form, verr), wit)
	}
	// the same key material with the other spelling of the exponent length is another DNSKEY RDATA with
	// (almost always) another tag: its tag must not be taken for this key's
	w.Count("rsa_exponent_keys", 1)
	w.Cover("rsa_exponent", fmt.Sprintf("%d/%s", e, form))
	w.NontrivialStr("rsa-exp", sig.Signature)
	// a flipped signature bit still fails
	raw, _ := base64.StdEncoding.DecodeString(sig.Signature)
	raw[len(raw)-1] ^= 1
	bad := *sig
	bad.Signature = base64.StdEncoding.EncodeToString(raw)
	if bad.Verify(k.Key, set.build()) == nil {
		w.Violation("C10/accepts-invalid/rsa-exponent/signature-bit", fmt.Sprintf("Verify accepts a damaged signature under an RSA key with exponent %d", e), wit)
	}
}

// c10Inhomogeneous: Sign does not look at what it is given; Verify does - "the RRset matches the RRSIG's
// owner". Two records whose owners are different names (as octet strings, ASCII case aside) are not an
// RRset, however alike the names look to a comparison made for text: Unicode case pairs (KELVIN SIGN / k,
// LONG S / s, e-acute / E-acute) and octets that are no UTF-8 at all.
func c10Inhomogeneous(w *core.W, j int) {
	alg := []uint8{dns.ED25519, dns.ECDSAP256SHA256, dns.RSASHA256}[j%3]
	zone := "inhomog.example."
	k, err := getKey(alg, algBits[alg][0], zone, 257, 3)
	if err != nil {
		w.Inconclusive("keygen:" + err.Error())
		return
	}
	pairs := [][2]string{{"host", "other"}, {"\xe2\x84\xaa", "k"}, {"\xe2\x84\xaa", "K"}, {"\xc5\xbf", "s"}, {"\xff", "\xfe"}, {"\xe9", "\xc9"}, {"caf\xc3\xa9", "caf\xc3\x89"},
		{"x\xff\xffy", "x\xfe\xfdy"}, {"stra\xc3\x9fe", "strasse"}, {"a", "a.b"}}
	for pi, p := range pairs {
		for order := 0; order < 2; order++ {
			o1, o2 := p[0]+"."+zone, p[1]+"."+zone
			if order == 1 {
				o1, o2 = o2, o1
			}
			mk := func(owner string, last byte) dns.RR {
				return &dns.A{Hdr: dns.RR_Header{Name: owner, Rrtype: dns.TypeA, Class: dns.ClassINET, Ttl: 300}, A: []byte{192, 0, 2, last}}
			}
			set := []dns.RR{mk(o1, 1), mk(o2, 2)}
			if j%2 == 1 {
				set = append(set, mk(o1, 3))
			}
			sig := &dns.RRSIG{Algorithm: alg, KeyTag: k.Key.KeyTag(), SignerName: zone, Inception: 1_700_000_000, Expiration: 1_800_000_000}
			wit := map[string]any{"alg": algName(alg), "owner_first": fmt.Sprintf("%q", o1), "owner_second": fmt.Sprintf("%q", o2)}
			w.Eval(1)
			var serr, verr error
			if w.Guard("RRSIG.Sign", wit, func() { serr = sig.Sign(k.Priv, set) }) {
				return
			}
			if serr != nil {
				w.Count("inhomogeneous_sets_not_signed", 1)
				continue
			}
			if w.Guard("RRSIG.Verify", wit, func() { verr = sig.Verify(k.Key, set) }) {
				return
			}
			w.Count("inhomogeneous_sets", 1)
			if verr == nil {
				w.Violation("C10/accepts-invalid/rrset.owners-differ/"+algName(alg), fmt.Sprintf("Verify succeeds for a set whose records are owned by %q and %q (pair %d): not an RRset, and not the RRSIG's owner throughout", o1, o2, pi), wit)
			}
		}
	}
	w.NontrivialStr("inhomogeneous", fmt.Sprint(j))
}

func init() {
	plan, run := sections(section{"rrsets", tiered(360, 12000), c10Case},
		section{"same-tag-keys", tiered(10, 200), c10SameTagKeys},
		section{"concurrent", tiered(24, 400), func(w *core.W, j int) {
			w.Eval(1)
			concurrentRRSIGVerify(w, j, "C10/concurrent-verify-fails")
		}},
		section{"many-signatures", tiered(15, 300), c10ManySignatures},
		section{"rsa-exponents", tiered(24, 96), c10RSAExponents},
		section{"inhomogeneous-sets", tiered(6, 30), c10Inhomogeneous})
	core.Register(&core.Monitor{
		ID: "C10", Level: "exploration", Plan: plan, Run: run, MaxParallel: 16, CaseTimeout: 300e9,
		Rule: "RRsets of every signable registry type (1..6 records, repeated records, mixed case, escaped names, wildcard and multi-label owners) x RSASHA1/256(1024,2048)/512, ECDSA P-256/P-384, Ed25519 with keys generated per run; " +
			"oracle = independent verifier (own RFC 4034 s.3.1.8.1/6.2/6.3 + RFC 6840 s.5.1 canonical form, own RFC 3110/6605/8080 key decoding, Go crypto): Sign output must verify independently and with Verify; harness-made signatures over the model form must be accepted; " +
			"irrelevant variants (order, repeats, TTL, owner case, s.6.2 name case, wildcard expansions of 1..3 labels, RFC 1035 \\X spellings of letters in owner labels and embedded names - verified and signed from) must verify; RRSIG/DNSKEY owners differing by 0x20 in a non-letter (^~ [{ ]} `@) must not; ~60 single-field alterations of RRSIG/DNSKEY/RRset and signature/key bit flips (all signature bits in thorough): Verify==nil implies the model accepts; hundreds of signatures per key over one small RRset (the one-in-256 short r, s of RFC 6605 encodings), each verified both ways; RSA keys with public exponents 3, 17, 257, 65537, 2^24+1 and 2^31-1 whose exponent length is stated in the one-octet and in the three-octet form of RFC 3110; 8 goroutines verifying 4 valid (RRSIG, key, RRset) triples of their own and a shared one at the same time: every call succeeds; non-trivial = distinct signed RRset",
		Assumptions: []string{"NXT, SIG and A6 RRsets are not generated (obsolete)", "signature validity windows are not part of Verify (see C17 for ValidityPeriod)"},
		MinObserved: []string{"signed", "harness_signatures", "alterations_rejected"},
	})
}
