package mon

import (
	"sort"
	"bufio"
	"errors"
	"fmt"
	"io"
	"io/fs"
	"os"
	"path/filepath"
	"regexp"
	"strings"
	"sync/atomic"
	"testing/fstest"

	"github.com/miekg/dns"

	"verifharness/core"
	"verifharness/model"
)

// c07Canary is a directory that does not exist; zone "file" names point into it so that any
// attempt to open an include relative to the zone file is visible in the strace log.
const c07Canary = "/verif-canary-no-such-dir"

// c07Allowed is the (equally non-existent) directory used when includes are enabled without an FS.
const c07Allowed = "/verif-includes-enabled-no-such-dir"

// recFS records every Open.
type recFS struct {
	inner fs.FS
	opens atomic.Int64
	names []string
}

func (r *recFS) Open(name string) (fs.File, error) {
	r.opens.Add(1)
	if len(r.names) < 20 {
		r.names = append(r.names, name)
	}
	if r.inner == nil || r.opens.Load() > 40 {
		return nil, fs.ErrNotExist // also ends a nesting that would otherwise never stop
	}
	return r.inner.Open(name)
}

// faultReader counts the octets consumed and fails at a chosen offset.
type faultReader struct {
	s      string
	pos    int
	failAt int // -1: never
	err    error
}

func (f *faultReader) Read(p []byte) (int, error) {
	if f.failAt >= 0 && f.pos >= f.failAt {
		return 0, f.err
	}
	if f.pos >= len(f.s) {
		return 0, io.EOF
	}
	n := len(p)
	if n > 64 {
		n = 64
	}
	if f.pos+n > len(f.s) {
		n = len(f.s) - f.pos
	}
	if f.failAt >= 0 && f.pos+n > f.failAt {
		n = f.failAt - f.pos
	}
	copy(p, f.s[f.pos:f.pos+n])
	f.pos += n
	return n, nil
}

var errInjectedRead = errors.New("injected read error")

type c07Cfg struct {
	includes bool
	fsMode   int // 0 nil FS, 1 recording MapFS
	origin   string
	defTTL   bool
	file     string
	failAt   int
}

var posRe = regexp.MustCompile(`at line: (\d+):(\d+)$`)

// c07Parse runs the parser over text under cfg and judges everything the statement says.
func c07Parse(w *core.W, text string, cfg c07Cfg, kind string, files fstest.MapFS) {
	w.Eval(1)
	w.Progress()
	wit := map[string]any{"zone_text": cutBig(text), "kind": kind, "includes": cfg.includes, "fs": cfg.fsMode, "origin": cfg.origin, "file": cfg.file, "fail_at": cfg.failAt}
	rd := &faultReader{s: text, failAt: cfg.failAt, err: errInjectedRead}
	var rfs *recFS
	var zp *dns.ZoneParser
	records := 0
	var firstErr error
	var after, withErr string
	before := allocated()
	if w.Guard("ZoneParser", wit, func() {
		zp = dns.NewZoneParser(bufio.NewReaderSize(rd, 16), cfg.origin, cfg.file)
		if cfg.defTTL {
			zp.SetDefaultTTL(3600)
		}
		if cfg.includes {
			zp.SetIncludeAllowed(true)
		}
		if cfg.fsMode == 1 {
			rfs = &recFS{inner: files}
			zp.SetIncludeFS(rfs)
		}
		for {
			rr, ok := zp.Next()
			if !ok {
				if rr != nil {
					after = "Next returned a record together with ok=false"
				}
				break
			}
			if rr == nil {
				after = "Next returned ok=true with a nil record"
				break
			}
			records++
			if e := zp.Err(); e != nil && withErr == "" {
				// the error has occurred - Err() says so - and a record is handed out all the same
				withErr = fmt.Sprintf("Next returned the record %q (ok=true) although Err() already reports: %v", cutS(rr.String()), e)
			}
			if records > 70000 {
				break
			}
		}
		firstErr = zp.Err()
		// once it has stopped, it stays stopped and the error stays the same
		for i := 0; i < 3; i++ {
			rr, ok := zp.Next()
			if ok || rr != nil {
				after = fmt.Sprintf("Next returned (%v, %v) after parsing had stopped (first error: %v)", rr, ok, firstErr)
			}
			e2 := zp.Err()
			if (e2 == nil) != (firstErr == nil) || e2 != nil && e2.Error() != firstErr.Error() {
				after = fmt.Sprintf("Err() changed from %v to %v", firstErr, e2)
			}
		}
	}) {
		return
	}
	delta := allocated() - before
	w.Count("texts", 1)
	w.Count("records", records)
	if firstErr != nil {
		w.Count("errors", 1)
	} else {
		w.Count("accepted", 1)
		w.NontrivialStr(text, kind)
	}
	if after != "" {
		w.Violation("C07/continues-after-stop/"+kind, after, wit)
	}
	if withErr != "" {
		w.Violation("C07/record-returned-after-error/"+kind, withErr, wit)
	}
	// with a single $GENERATE every other line of the text accounts for at most one record
	plainLines := 0
	for _, ln := range strings.Split(text, "\n") {
		if t := strings.TrimLeft(ln, " \t"); t != "" && t[0] != '$' && t[0] != ';' {
			plainLines++
		}
	}
	if records > 65536+plainLines && strings.Count(strings.ToUpper(text), "$GENERATE") <= 1 && len(text) < 3000 {
		w.Violation("C07/generate-over-65536", fmt.Sprintf("%d records from a text of %d octets with one $GENERATE", records, len(text)), wit)
	}
	// allocation
	up := strings.ToUpper(text)
	bound := uint64(1<<20) + uint64(4096*(len(text)+1))
	if strings.Contains(up, "$GENERATE") || strings.Contains(up, "$INCLUDE") {
		bound += uint64(records) * uint64(4096+4*len(text))
		for _, f := range files {
			bound += uint64(9 * 4096 * (len(f.Data) + 1))
		}
	} else {
		bound += uint64(records) * 4096
	}
	w.Max("alloc_per_octet", float64(delta)/float64(len(text)+1))
	if delta > bound {
		w.Violation("C07/over-allocation/"+kind, fmt.Sprintf("parsing %d octets (%d records) allocated %d octets, bound %d", len(text), records, delta, bound), wit)
	}
	// error shape
	if firstErr != nil {
		var pe *dns.ParseError
		if errors.As(firstErr, &pe) {
			msg := firstErr.Error()
			m := posRe.FindStringSubmatch(msg)
			if m == nil {
				w.Violation("C07/error-without-position/"+kind, "syntax error does not end in 'at line: L:C': "+cutS(msg), wit)
			} else {
				var line int
				fmt.Sscan(m[1], &line)
				maxLine := strings.Count(text, "\n") + 2
				for _, f := range files {
					if n := strings.Count(string(f.Data), "\n") + 2; n > maxLine {
						maxLine = n
					}
				}
				// (a bad origin handed to NewZoneParser is reported before any text is read: no position)
				if line < 1 && !strings.Contains(msg, "bad initial origin name") || line > maxLine && !strings.Contains(up, "$GENERATE") {
					w.Violation("C07/error-line-out-of-range/"+kind, fmt.Sprintf("error reports line %d, the text has %d lines: %s", line, maxLine-1, cutS(msg)), wit)
				}
			}
			if cfg.file != "" && !strings.Contains(msg, filepath.Base(cfg.file)) && len(files) == 0 && !(cfg.includes && strings.Contains(up, "$INCLUDE")) {
				w.Violation("C07/error-without-file/"+kind, fmt.Sprintf("file %q given but the error does not name it: %s", cfg.file, cutS(msg)), wit)
			}
		}
	}
	if cfg.failAt >= 0 && cfg.failAt < len(text) && firstErr == nil && rd.pos >= cfg.failAt {
		w.Violation("C07/read-error-swallowed/"+kind, fmt.Sprintf("the reader failed at offset %d of %d but Err() is nil (%d records returned)", cfg.failAt, len(text), records), wit)
	}
	// files
	if rfs != nil {
		n := rfs.opens.Load()
		w.Count("fs_opens", int(n))
		if !cfg.includes && n > 0 {
			w.Violation("C07/file-opened-although-includes-disabled/fs", fmt.Sprintf("%d Open calls on the include FS (%v) although includes were not enabled", n, rfs.names), wit)
		}
		if n > 8 && kind == "self-include" {
			w.Violation("C07/include-depth-unbounded", fmt.Sprintf("a self-including file was opened %d times", n), wit)
		}
	}
	if kind == "nested-generate" && firstErr == nil {
		w.Violation("C07/nested-generate-accepted", fmt.Sprintf("a $GENERATE inside a $GENERATE was accepted (%d records)", records), wit)
	}
	if w.WantSample() && firstErr != nil {
		w.Sample(map[string]any{"kind": kind, "text": cutS(text), "records": records, "error": cutS(firstErr.Error())})
	}
}

func cutBig(s string) string {
	if len(s) > 6000 {
		return s[:3000] + fmt.Sprintf("...(%d octets)...", len(s)) + s[len(s)-2000:]
	}
	return s
}

func c07Cfgs(j int, r interface{ IntN(int) int }) c07Cfg {
	cfg := c07Cfg{failAt: -1}
	cfg.includes = j%2 == 1
	cfg.fsMode = (j / 2) % 2
	cfg.origin = []string{"", ".", "example.org.", "a.very.long.origin.name.example.org", "bad..origin"}[r.IntN(5)]
	cfg.defTTL = r.IntN(2) == 0
	cfg.file = []string{"", c07Canary + "/zone.db", "zones/main.db"}[r.IntN(3)]
	switch {
	case !cfg.includes:
		cfg.file = c07Canary + "/zone.db" // whatever gets opened relative to the file lands in the canary directory
	case cfg.fsMode == 0:
		cfg.file = c07Allowed + "/zone.db" // includes enabled, no FS: os.Open is legitimate, in a directory of its own
	default:
		cfg.file = "zones/main.db" // includes enabled with an FS: the canary directory is reserved for parsers that must open nothing
	}
	return cfg
}

var c07Tokens = []string{"$TTL", "$ORIGIN", "$INCLUDE", "$GENERATE", "IN", "CH", "A", "MX", "TXT", "SOA", "NS", "(", ")", "\"", ";", "\\", "\\\"", "\\000", "@", ".", "..", "example.", "300", "1h", "99999999999",
	"\n", "\n", " ", "\t", "\r\n", "\x00", "\xff\xfe", "192.0.2.1", "10", "\\# 4", "0A000001", "TYPE65535", "CLASS0", "0-3", "0-65535", "1-100/0", "$", "${0,3,x}", "${", "}", "other.db", "../x", "/etc/passwd", "*", "_"}

func c07Mutate(r interface{ IntN(int) int }, s string) string {
	b := []byte(s)
	k := 1 + r.IntN(4)
	for i := 0; i < k && len(b) > 0; i++ {
		p := r.IntN(len(b))
		switch r.IntN(8) {
		case 0:
			b = append(b[:p], b[p+1:]...)
		case 1:
			b = append(b[:p], append([]byte{b[p]}, b[p:]...)...)
		case 2:
			if p+1 < len(b) {
				b[p], b[p+1] = b[p+1], b[p]
			}
		case 3:
			b[p] = []byte{'(', ')', '"', '\\', ';', '\n', 0, ' ', '$', '\t', 0xff, '.', '@'}[r.IntN(13)]
		case 4:
			t := c07Tokens[r.IntN(len(c07Tokens))]
			b = append(b[:p], append([]byte(" "+t+" "), b[p:]...)...)
		case 5:
			q := p + r.IntN(30)
			if q > len(b) {
				q = len(b)
			}
			b = append(b[:p], b[q:]...)
		case 6:
			b = b[:p]
		case 7:
			// delete a whole token
			q := p
			for q < len(b) && b[q] != ' ' && b[q] != '\n' && b[q] != '\t' {
				q++
			}
			b = append(b[:p], b[q:]...)
		}
	}
	return string(b)
}

func c07Case(w *core.W, j int) {
	g := model.NewGen(w.Rng(j))
	g.NoHuge = true
	g.MaxOpaque = 30
	r := g.R
	cfg := c07Cfgs(j, r)
	files := fstest.MapFS{}
	// a valid rendering to start from
	nfile := 0
	z := &zwriter{g: g, nfile: &nfile, files: files}
	zone := model.Name{[]byte("hostile"), []byte("example")}
	z.origin, z.hasOrigin = zone, true
	v := uint32(3600)
	z.last = &v
	z.body(zone, 1+r.IntN(6))
	valid := "$ORIGIN hostile.example.\n" + z.sb.String()
	// includes in the valid text refer to incN.db next to the zone file
	mfs := fstest.MapFS{}
	for k, f := range files {
		mfs[strings.TrimPrefix(k, "zones/")] = f
		mfs[k] = f
		mfs[strings.TrimPrefix(c07Canary, "/")+"/"+strings.TrimPrefix(k, "zones/")] = f
	}
	for k := 0; k < 12; k++ {
		text := valid
		kind := "mutation"
		switch k {
		case 0:
			kind = "valid"
		case 1: // token soup
			var sb strings.Builder
			n := 1 + r.IntN(60)
			for i := 0; i < n; i++ {
				sb.WriteString(c07Tokens[r.IntN(len(c07Tokens))])
				if r.IntN(3) > 0 {
					sb.WriteByte(' ')
				}
			}
			text, kind = sb.String(), "token-soup"
		case 2: // read error at a random offset of the valid text
			c2 := cfg
			c2.failAt = r.IntN(len(valid) + 1)
			c07Parse(w, valid, c2, "read-error", mfs)
			continue
		default:
			text = c07Mutate(r, valid)
		}
		c07Parse(w, text, cfg, kind, mfs)
	}
}

// c07MustErrorWith is c07MustError for parsers with includes enabled on an in-memory file system.
func c07MustErrorWith(w *core.W, text, kind string, fsys fstest.MapFS) {
	w.Eval(1)
	w.Count("must_error_texts", 1)
	wit := map[string]any{"zone_text": cutBig(text), "kind": kind, "includes": "allowed, in-memory FS"}
	records := 0
	var err error
	if w.Guard("ZoneParser", wit, func() {
		zp := dns.NewZoneParser(strings.NewReader(text), "example.", "zones/zone.db")
		zp.SetIncludeAllowed(true)
		zp.SetIncludeFS(fsys)
		for _, ok := zp.Next(); ok; _, ok = zp.Next() {
			records++
		}
		err = zp.Err()
	}) {
		return
	}
	if err == nil {
		w.Violation("C07/syntax-error-not-reported/"+kind, fmt.Sprintf("the text is malformed by construction (%s) but parsing ended without an error after %d record(s)", strings.SplitN(kind, "/", 2)[0], records), wit)
	}
}

// c07DirectiveParens: a closing parenthesis that closes nothing, and one that is still open when the input
// ends, at every token boundary of every directive line: lexical errors wherever they stand.
func c07DirectiveParens(w *core.W, j int) {
	fsys := fstest.MapFS{"zones/inc.db": &fstest.MapFile{Data: []byte("inc 60 IN A 192.0.2.9\n")}}
	lines := []struct{ name, line string }{
		{"$ORIGIN", "$ORIGIN sub.example."},
		{"$TTL", "$TTL 300"},
		{"$INCLUDE", "$INCLUDE inc.db"},
		{"$INCLUDE+origin", "$INCLUDE inc.db sub.example."},
		{"$GENERATE", "$GENERATE 1-3 h$ 300 IN A 192.0.2.$"},
		{"record", "www 300 IN A 192.0.2.1"},
		{"record-no-owner", " 300 IN A 192.0.2.1"},
	}
	l := lines[j%len(lines)]
	pre := "first 60 IN A 192.0.2.7\n"
	next := "\nnext 60 IN A 192.0.2.1\n"
	var cuts []int
	for p := 1; p < len(l.line); p++ {
		if l.line[p] == ' ' && l.line[p-1] != ' ' {
			cuts = append(cuts, p)
		}
	}
	cuts = append(cuts, len(l.line))
	for _, p := range cuts {
		for _, tail := range []string{next, "\n", "", " ; comment" + next} {
			c07MustErrorWith(w, pre+l.line[:p]+" )"+l.line[p:]+tail, "unbalanced-parenthesis/directive/"+l.name, fsys)
		}
		// left open until the end of the input (the lines after it become part of the entry)
		c07MustErrorWith(w, pre+l.line[:p]+" ("+l.line[p:], "unbalanced-parenthesis/directive-open-at-eof/"+l.name, fsys)
		c07MustErrorWith(w, pre+l.line[:p]+" ("+l.line[p:]+"\n", "unbalanced-parenthesis/directive-open-at-eof/"+l.name, fsys)
	}
	// the well-formed counterparts are accepted (the oracle above is not vacuous: the same lines parse)
	var err error
	n := 0
	zp := dns.NewZoneParser(strings.NewReader(pre+l.line+next), "example.", "zones/zone.db")
	zp.SetIncludeAllowed(true)
	zp.SetIncludeFS(fsys)
	for _, ok := zp.Next(); ok; _, ok = zp.Next() {
		n++
	}
	if err = zp.Err(); err != nil || n < 2 {
		w.Violation("C07/wellformed-directive-rejected/"+l.name, fmt.Sprintf("the line without the stray parenthesis: %d records, error %v", n, err), map[string]any{"zone_text": pre + l.line + next})
	}
	w.Count("directive_paren_lines", 1)
	w.NontrivialStr("directive-parens", l.name)
}

// c07MustError: texts that contain a lexical error by construction (a closing parenthesis that
// closes nothing, a parenthesis left open at the end of the input) - whatever record type they
// stand in: the parser must report an error, not hand out records and fall silent.
func c07MustError(w *core.W, text, kind string) {
	w.Eval(1)
	w.Count("must_error_texts", 1)
	wit := map[string]any{"zone_text": cutBig(text), "kind": kind}
	records := 0
	var err error
	if w.Guard("ZoneParser", wit, func() {
		zp := dns.NewZoneParser(strings.NewReader(text), "", "zone.db")
		for _, ok := zp.Next(); ok; _, ok = zp.Next() {
			records++
		}
		err = zp.Err()
	}) {
		return
	}
	if err == nil {
		w.Violation("C07/syntax-error-not-reported/"+kind, fmt.Sprintf("the text is malformed by construction (%s) but parsing ended without an error after %d record(s)", strings.SplitN(kind, "/", 2)[0], records), wit)
	}
}

// c07Prefixes: for one record type, the text of a plain record of that type cut off after every
// octet (with and without a final newline) - the RDATA ends early at the end of the input - and
// continued with surplus tokens; plus RDATA given to the types that have no presentation format.
func c07Prefixes(w *core.W, j int) {
	ls := textLayouts()
	cfg := c07Cfg{failAt: -1, file: c07Canary + "/zone.db"}
	if j >= len(ls) {
		// a user-registered private type (PrivateHandle): its parser is driven by the same token stream
		if j == len(ls)+1 {
			registerPrivate()
			line := "own.example.\t60\tIN\tXPRIV\t7 dead beef 00"
			for p := 0; p <= len(line); p++ {
				c07Parse(w, line[:p], cfg, "prefix/XPRIV", nil)
				c07Parse(w, line[:p]+"\n", cfg, "prefix/XPRIV", nil)
				if p < len(line) && (line[p] == ' ' || line[p] == '\t') {
					c07Parse(w, line[:p]+" (", cfg, "prefix/XPRIV", nil)
					c07Parse(w, line[:p]+" ( ; c", cfg, "prefix/XPRIV", nil)
					c07MustError(w, line[:p]+" ) "+line[p:]+"\nnext.example. 60 IN A 192.0.2.1\n", "unbalanced-parenthesis/XPRIV")
				}
			}
			for _, rd := range []string{"", "7", "7 ( de\nad )", "7 zz", "x", "7 de ad ; comment"} {
				c07Parse(w, "own.example. 60 IN XPRIV "+rd, cfg, "typed-tokens/XPRIV", nil)
				c07Parse(w, "own.example. 60 IN XPRIV "+rd+"\nnext.example. 60 IN A 192.0.2.1\n", cfg, "typed-tokens/XPRIV", nil)
			}
		}
		// numbers that no 32-bit TTL can hold, in every place a TTL can stand: an error, not a small TTL
		if j == len(ls) {
			for _, big := range []string{"4294967296", "18446744073709551615", "18446744073709551616", "18446744073709551617", "36893488147419103233", "99999999999999999999999", "30500568904943w1s", "1w18446744073709551615s", "5124095576030432h", "4294967295s1s", "49710d6h28m16s"} {
				for _, text := range []string{
					"a.example. " + big + " IN A 192.0.2.1\n",
					"a.example. IN " + big + " A 192.0.2.1\n",
					"a.example. " + big + " A 192.0.2.1\n",
					"$TTL " + big + "\na.example. IN A 192.0.2.1\n",
					"$ORIGIN example.\n$GENERATE 1-2 h$ " + big + " IN A 192.0.2.1\n",
				} {
					c07MustError(w, text, "ttl-out-of-range")
				}
			}
		}
		// a quoted string that is still open when the input ends (directly, after more lines that the
		// open quote swallows, or inside the text a $GENERATE expands to)
		if j == len(ls) {
			for _, t := range []struct{ typ, pre string }{{"TXT", ""}, {"SPF", ""}, {"AVC", ""}, {"NINFO", ""}, {"HINFO", ""}, {"HINFO", "\"cpu\" "}, {"ISDN", ""}, {"X25", ""}, {"URI", "10 1 "}, {"CAA", "0 issue "}, {"TXT", "\"first\" "}} {
				for _, tail := range []string{"\"abc", "\"abc\n", "\"abc\nnext.example. 60 IN A 192.0.2.1\n", "\"", "\"abc def ; no comment\n"} {
					c07MustError(w, "a.example. 300 IN "+t.typ+" "+t.pre+tail, "unterminated-quote/"+t.typ)
				}
				c07MustError(w, "$ORIGIN example.\n$GENERATE 1-3 h$ 300 IN "+t.typ+" "+t.pre+"\"abc$\n", "unterminated-quote/generate/"+t.typ) // three iterations: an odd number of quotes
			}
		}
		// mnemonics of every known type followed by arbitrary tokens
		k := 0
		for t, name := range dns.TypeToString {
			k++
			if k%(1+0) < 0 || int(t)%4 != (j-len(ls))%4 {
				continue
			}
			for _, rd := range []string{"", "1 2 3", "\"a\" \"b\"", "\\# 0", "\\# 2 0001", "\\# 2 00", "host.example.", "1 2 3 4 5 6 7 8 9 10 11 12 13 14", "\"\"", "( )", "1 ( 2"} {
				c07Parse(w, "own.example. 60 IN "+name+" "+rd, cfg, "typed-tokens/"+name, nil)
				c07Parse(w, "own.example. 60 IN "+name+" "+rd+"\nnext.example. 60 IN A 192.0.2.1\n", cfg, "typed-tokens/"+name, nil)
			}
		}
		return
	}
	l := ls[j]
	g := model.NewGen(w.Rng(j))
	g.NoHuge = true
	g.Plain = true
	g.MaxOpaque = 24
	r := c05Base(g, l)
	rr, _, err := dns.UnpackRR(r.Wire(), 0)
	if err != nil {
		return
	}
	line := rr.String()
	w.Cover("prefix_type", l.Name)
	kind := "prefix/" + l.Name
	for p := 0; p <= len(line); p++ {
		c07Parse(w, line[:p], cfg, kind, nil)
		c07Parse(w, line[:p]+"\n", cfg, kind, nil)
		if p < len(line) && (line[p] == ' ' || line[p] == '\t') {
			c07Parse(w, line[:p]+" (", cfg, kind, nil)
			c07Parse(w, line[:p]+" \"", cfg, kind, nil)
			c07Parse(w, line[:p]+" \\", cfg, kind, nil)
		}
	}
	next := "\nnext.example. 60 IN A 192.0.2.1\n"
	for _, bad := range []string{line + " )", line + " ) ; c", line + " )" + next, line + " ( " + next, "( ) ) " + line + next} {
		c07MustError(w, bad, "unbalanced-parenthesis/"+l.Name)
	}
	// after every blank of the line
	for p := 0; p < len(line); p++ {
		if line[p] == ' ' || line[p] == '\t' {
			c07MustError(w, line[:p]+" ) "+line[p:]+next, "unbalanced-parenthesis/"+l.Name)
		}
	}
	for _, extra := range []string{" extra", " \"extra\"", " 1", " ( extra )", " \\# 1 00", " ;c\n extra"} {
		c07Parse(w, line+extra, cfg, "surplus/"+l.Name, nil)
		c07Parse(w, line+extra+"\nnext.example. 60 IN A 192.0.2.1\n", cfg, "surplus/"+l.Name, nil)
	}
}

// c07Frags are the pieces RDATA tokens are glued from in c07TokenSoup: the punctuation the bespoke
// parsers (APL, SVCB, LOC, NSEC3, IPSECKEY, AMTRELAY, HIP, CERT, NID, EUI, times, TTLs) split their tokens
// at, values at and beyond field limits, and the lexer's own specials.
var c07Frags = []string{":", "!", "/", "=", ",", "-", "+", ".", "@", "*", "_", "$", "#", "%", "0", "1", "3", "255", "256", "65535", "65536", "4294967295", "4294967296",
	"a", "N", "S", "E", "W", "m", "key1", "key65535", "alpn", "mandatory", "ipv4hint", "port", "no-default-alpn", "1:", "2:", "!1:", "::", "::1", "1.2.3.4", "/0", "/33", "/129",
	"00", "zz", "AA==", "AAAA", "\"\"", "\"a\"", "\"a b\"", "\\", "\\.", "\\000", "\\256", "(", ")", "20060102150405", "1h", "PKIX", "RSASHA256", "A", "TYPE1", "TYPE65536", "CLASS1", "IN", "\\#", "-", "0x", "1e3", "٣"}

// c07TokenSoup: after the mnemonic of every type, RDATA of 1..6 tokens glued from c07Frags. Whatever a
// token parser indexes, slices or converts has to survive tokens that are empty on one side of their
// separator, carry the separator first or last, or are out of range.
func c07TokenSoup(w *core.W, j int) {
	r := w.Rng(j)
	var names []string
	for _, n := range dns.TypeToString {
		names = append(names, n)
	}
	sort.Strings(names)
	cfg := c07Cfg{failAt: -1, file: c07Canary + "/zone.db"}
	for k := 0; k < 12; k++ {
		name := names[(j*12+k)%len(names)]
		var sb strings.Builder
		for t := 1 + r.IntN(6); t > 0; t-- {
			for f := 1 + r.IntN(3); f > 0; f-- {
				sb.WriteString(c07Frags[r.IntN(len(c07Frags))])
			}
			if t > 1 {
				sb.WriteByte(' ')
			}
		}
		w.Cover("soup_type", name)
		c07Parse(w, "own.example. 60 IN "+name+" "+sb.String(), cfg, "token-soup/"+name, nil)
		c07Parse(w, "own.example. 60 IN "+name+" "+sb.String()+"\nnext.example. 60 IN A 192.0.2.1\n", cfg, "token-soup/"+name, nil)
	}
	w.Count("token_soup_cases", 1)
	// SVCB/HTTPS parameters (one case per run does the whole matrix): every key with values whose list
	// syntax is off - leading, doubled and trailing commas, empty and quoted items, escaped commas
	if j == 0 {
		keys := []string{"mandatory", "alpn", "no-default-alpn", "port", "ipv4hint", "ech", "ipv6hint", "dohpath", "ohttp", "key9", "key65534", "key65535", "key0", "KEY1", "Alpn"}
		vals := []string{"", "=", "=,", "=,,", "=,alpn", "=alpn,", "=alpn,,port", "=\",\"", "=\"\"", "=\",a\"", "=a,,b", "=h2,", "=,h2", "=h2,,h3", "=\\,", "=\\\\,", "=1.2.3.4,", "=,1.2.3.4", "=1.2.3.4,,5.6.7.8",
			"=::1,", "=,::1", "=::,,::", "=65536", "=-1", "=0,", "=,", "=alpn,alpn", "=key1,key1", "=port,alpn", "=mandatory", "=\\044", "=a\\,b,c", "=\"a,b\"", "=" + strings.Repeat("a", 256), "=" + strings.Repeat("a,", 300), "==", "=a=b"}
		for _, typ := range []string{"SVCB", "HTTPS"} {
			for _, k := range keys {
				for _, v := range vals {
					for _, pre := range []string{"1 . ", "1 svc.example. alpn=h2 ", "0 . "} {
						text := "own.example. 60 IN " + typ + " " + pre + k + v
						c07Parse(w, text, cfg, "svcb-params/"+typ, nil)
						c07Parse(w, text+" port=53\nnext.example. 60 IN A 192.0.2.1\n", cfg, "svcb-params/"+typ, nil)
					}
				}
			}
		}
		w.Count("svcb_param_matrix_runs", 1)
	}
}

// c07CommentBoundary: comments of n octets at the places where the lexer carries a comment over
// (inside parentheses across lines, after tokens, before and after blanks), followed by more
// comments; token and string lengths of n octets as well.
func c07CommentBoundary(n int) string {
	c := strings.Repeat("c", n)
	t := strings.Repeat("t", n)
	return "a.example. 60 IN TXT ( ;" + c + "\n\tx ;second\n\ty ;" + c + "\n ;third\n z ) ; " + c + "\n" +
		"b.example. 60 IN TXT ( \"q\" ;" + c[:n/2] + "\n ;" + c + "\n\t\"r\" ;x\n) ;y\n" +
		";" + c + "\n;" + c + "\n" +
		"c.example. 60 IN TXT " + t + " ;" + c + "\n" +
		"d.example. 60 IN TXT \"" + t[:n%256] + "\" ( ;" + c + "\n ;" + c + "\n)\n"
}

func c07Crafted(w *core.W, j int) {
	r := w.Rng(j)
	cfg := c07Cfgs(j, r)
	big := func(n int, c string) string { return strings.Repeat(c, n) }
	texts := []struct{ kind, text string }{
		{"long-token", "a" + big(100*1024, "x") + " 300 IN A 192.0.2.1\n"},
		{"long-comment", "a. 300 IN A 192.0.2.1 ;" + big(100*1024, "c") + "\nb. 300 IN A 192.0.2.2\n"},
		{"long-quoted", "a. 300 IN TXT \"" + big(70*1024, "q") + "\"\n"},
		{"long-comment-in-parens", "a. 300 IN SOA ns. mb. ( 1 ;" + big(20*1024, "c") + "\n 2 3 4 5 )\n"},
		{"unterminated-quote", "a. 300 IN TXT \"never closed\nb. 300 IN A 192.0.2.1\n"},
		{"unterminated-paren", "a. 300 IN SOA ns. mb. ( 1 2 3\nb. 300 IN A 192.0.2.1\n"},
		{"extra-close-paren", "a. 300 IN A 192.0.2.1 )\n"},
		{"dangling-backslash", "a. 300 IN TXT x\\"},
		{"nul", "a\x00b. 300 IN A 192.0.2.1\n\x00\x00\n"},
		{"only-blanks", big(5000, " \t\n")},
		{"many-parens", big(3000, "(") + big(3000, ")") + "\n"},
		{"deep-escapes", big(4000, "\\") + ". 300 IN A 192.0.2.1\n"},
		{"many-empty-lines", big(20000, "\n")},
		{"generate-max", "$ORIGIN example.\n$GENERATE 0-65535 h$ 300 IN A 192.0.2.1\n"},
		{"generate-over", "$ORIGIN example.\n$GENERATE 0-65536 h$ 300 IN A 192.0.2.1\n"},
		{"generate-over", "$ORIGIN example.\n$GENERATE 1-65537 h$ 300 IN A 192.0.2.1"},
		{"generate-over", "$ORIGIN example.\n$GENERATE 5-196613/3 h$ 300 IN A 192.0.2.1"},
		{"generate-max", "$ORIGIN example.\n$GENERATE 5-196612/3 h$ 300 IN A 192.0.2.1"},
		{"generate-step-over", "$ORIGIN example.\n$GENERATE 0-131073/2 h$ 300 IN A 192.0.2.1\n"},
		{"generate-huge-range", "$ORIGIN example.\n$GENERATE 0-9223372036854775807/4611686018427387904 h$ 300 IN A 127.0.0.1\n"},
		{"generate-huge-range2", "$ORIGIN example.\n$GENERATE 9223372036854775806-9223372036854775807 h$ 300 IN A 127.0.0.1\n"},
		{"generate-huge-step", "$ORIGIN example.\n$GENERATE 1-9223372036854775807/9223372036854775807 h$ 300 IN A 127.0.0.1\n"},
		{"generate-negative", "$ORIGIN example.\n$GENERATE -5-5 h$ 300 IN A 127.0.0.1\n"},
		{"generate-bad-modifier", "$ORIGIN example.\n$GENERATE 0-3 h${0,300,d} 300 IN A 127.0.0.1\n$GENERATE 0-3 h${ 300 IN A 127.0.0.1\n"},
		{"generate-wide-modifier", "$ORIGIN example.\n$GENERATE 0-3 host 300 IN TXT ${0,3000000,d}\n"},
		{"comment-buffer-boundary", c07CommentBoundary(510)}, {"comment-buffer-boundary", c07CommentBoundary(511)}, {"comment-buffer-boundary", c07CommentBoundary(512)},
		{"comment-buffer-boundary", c07CommentBoundary(513)}, {"comment-buffer-boundary", c07CommentBoundary(1023)}, {"comment-buffer-boundary", c07CommentBoundary(1024)},
		{"comment-buffer-boundary", c07CommentBoundary(2047)}, {"comment-buffer-boundary", c07CommentBoundary(2048)}, {"comment-buffer-boundary", c07CommentBoundary(5000)},
		{"generate-wide-modifier", "$ORIGIN example.\n$GENERATE 0-3 host 300 IN TXT ${0,256}\n$GENERATE 0-3 host 300 IN TXT ${0,65535,x}\n"},
		{"generate-wide-modifier", "$ORIGIN example.\n$GENERATE 0-9 host 300 IN TXT \"${0,255,d}${1,255,o}${2,255,X}\" ${0,30000000,d}\n"},
		{"generate-offset-overflow", "$ORIGIN example.\n$GENERATE 0-3 h${9223372036854775807,1,d} 300 IN A 127.0.0.1\n"},
		{"nested-generate", "$ORIGIN example.\n$GENERATE 0-2 $$GENERATE 0-2 h$$ 300 IN A 127.0.0.1\n"},
		{"nested-generate", "$ORIGIN example.\n$GENERATE 0-1 \\$GENERATE 0-1 x 300 IN A 127.0.0.1\n"},
		{"generate-include", "$ORIGIN example.\n$GENERATE 0-1 $$INCLUDE gen$.db\n"},
		{"include-absolute", "$INCLUDE " + filepath.Dir(cfg.file+"x") + "/abs.db\n"},
		{"include-relative", "$INCLUDE rel.db\n$INCLUDE ../up.db example.\n"},
		{"include-dotdot", "$INCLUDE ../../../../etc/hostname\n"},
		{"include-no-arg", "$INCLUDE\n"},
		{"include-garbage", "$INCLUDE a.db b. c.\n"},
		{"ttl-overflow", "$TTL 99999999999999999999\na. IN A 192.0.2.1\n"},
		{"origin-bad", "$ORIGIN a..b.\n$ORIGIN " + big(300, "x") + ".\n"},
		{"crlf", "a. 300 IN A 192.0.2.1\r\nb. 300 IN A 192.0.2.2\r\n"},
		{"no-final-newline", "a. 300 IN A 192.0.2.1"},
		{"rfc3597-lying-length", "a. 300 IN TYPE999 \\# 65535 00\n"},
		{"rfc3597-huge", "a. 300 IN TYPE999 \\# 99999999999 00\n"},
	}
	t := texts[j%len(texts)]
	files := fstest.MapFS{}
	c07Parse(w, t.text, cfg, t.kind, files)
	// the same with a read error in the middle
	c2 := cfg
	c2.failAt = len(t.text) / 2
	c07Parse(w, t.text, c2, "read-error", files)
	// self-including and mutually including files
	if j%4 == 0 {
		cfg3 := c07Cfg{includes: true, fsMode: 1, origin: "example.", defTTL: true, file: "zones/self.db", failAt: -1}
		self := fstest.MapFS{"zones/self.db": &fstest.MapFile{Data: []byte("a 300 IN A 192.0.2.1\n$INCLUDE self.db\nb 300 IN A 192.0.2.2\n")}}
		c07Parse(w, "a 300 IN A 192.0.2.1\n$INCLUDE self.db\nb 300 IN A 192.0.2.2\n", cfg3, "self-include", self)
		mutual := fstest.MapFS{"zones/p.db": &fstest.MapFile{Data: []byte("$INCLUDE q.db\n")}, "zones/q.db": &fstest.MapFile{Data: []byte("x 300 IN A 192.0.2.1\n$INCLUDE p.db sub\n")}}
		c07Parse(w, "$INCLUDE p.db\n", cfg3, "self-include", mutual)
		// files that include themselves through a line produced by $GENERATE, entered directly and
		// through an $INCLUDE (the nesting count must not depend on who wrote the $INCLUDE line)
		gen := fstest.MapFS{"zones/g.db": &fstest.MapFile{Data: []byte("$GENERATE 0-0 $$INCLUDE g.db\n")},
			"zones/p.db": &fstest.MapFile{Data: []byte("$GENERATE 1-1 $$INCLUDE q.db\n")}, "zones/q.db": &fstest.MapFile{Data: []byte("x 300 IN A 192.0.2.1\n$INCLUDE p.db\n")}}
		for _, main := range []string{"$INCLUDE g.db\n", "$GENERATE 0-0 $$INCLUDE g.db\n", "$INCLUDE p.db\n", "$INCLUDE q.db\n", "a 300 IN A 192.0.2.1\n$GENERATE 5-5 $$INCLUDE q.db\n"} {
			c07Parse(w, main, cfg3, "self-include", gen)
		}
		// an included file whose reads fail, and a directory
		c07Parse(w, "a 300 IN A 192.0.2.1\n$INCLUDE dir\nb 300 IN A 192.0.2.2\n", cfg3, "include-directory", fstest.MapFS{"zones/dir/x": &fstest.MapFile{Data: []byte("x")}})
		w.Count("self_include_cases", 1)
	}
}

// c07BrokenInclude: an included file that opens but whose reads fail: the error must surface.
type brokenFS struct{}

type brokenFile struct{ n int }

func (b *brokenFile) Stat() (fs.FileInfo, error) { return nil, errors.New("no stat") }
func (b *brokenFile) Read(p []byte) (int, error) {
	if b.n == 0 {
		b.n++
		return copy(p, "inc 300 IN A 192.0.2.9\n"), nil
	}
	return 0, errInjectedRead
}
func (b *brokenFile) Close() error            { return nil }
func (brokenFS) Open(string) (fs.File, error) { return &brokenFile{}, nil }

func c07Broken(w *core.W, j int) {
	text := "a 300 IN A 192.0.2.1\n$INCLUDE broken.db\nb 300 IN A 192.0.2.2\n"
	zp := dns.NewZoneParser(strings.NewReader(text), "example.", "zones/main.db")
	zp.SetIncludeAllowed(true)
	zp.SetIncludeFS(brokenFS{})
	var owners []string
	w.Eval(1)
	w.Count("broken_include_cases", 1)
	w.NontrivialStr("broken-include", fmt.Sprint(j))
	wit := map[string]any{"zone_text": text}
	w.Guard("ZoneParser", wit, func() {
		for rr, ok := zp.Next(); ok; rr, ok = zp.Next() {
			owners = append(owners, rr.Header().Name)
			if len(owners) > 10 {
				break
			}
		}
	})
	err := zp.Err()
	if err == nil {
		w.Violation("C07/include-read-error-swallowed", fmt.Sprintf("an included file failed while being read but Err() is nil; records returned: %v", owners), wit)
	}
	for _, o := range owners {
		if o == "b.example." {
			w.Violation("C07/records-after-include-error", fmt.Sprintf("a record after the failing $INCLUDE was returned: %v (err=%v)", owners, err), wit)
		}
	}
}

func init() {
	plan, run := sections(
		section{"crafted", tiered(144, 720), c07Crafted},
		section{"broken-include", tiered(2, 4), c07Broken},
		section{"mutations", tiered(12000, 400000), c07Case},
		section{"prefixes", func(string) int { return len(textLayouts()) + 4 }, c07Prefixes},
		section{"token-soup", tiered(1500, 60000), c07TokenSoup},
		section{"directive-parens", tiered(7, 7), c07DirectiveParens},
		concurrentSection("C07"),
	)
	core.Register(&core.Monitor{
		ID: "C07", Level: "exploration", Plan: plan, Run: run, Terminates: true, CaseTimeout: 30e9, MaxParallel: 16,
		Rule: "mutations (byte/token deletion, duplication, transposition, hostile octets, directive soup, truncation) of zone renderings with $GENERATE/$INCLUDE, token soup, 36 crafted texts (100 KiB tokens/comments/strings, unterminated quote/parenthesis/escape, NUL, CRLF, $GENERATE at and over 65536 steps, int64-overflowing ranges, nested $GENERATE, bad modifiers, $INCLUDE with absolute/relative/.. paths, self- and mutually including files, an included file whose reads fail), " +
			"every octet-prefix of a plain record line of every type (RDATA ending early at end of input, open parenthesis/quote/backslash after each token), surplus tokens after complete RDATA, a closing parenthesis that closes nothing after every blank of the line and an unclosed one at its end (must be reported, whatever the type), arbitrary tokens after every type mnemonic incl. types without presentation format; each with a read error injected at a chosen offset, x {includes off/on} x {no FS / recording FS} x 5 origins x default TTL; oracle: no panic/hang, nothing returned and Err() stable after parsing stops, errors carry line:col (and the file), <= 65536 records per $GENERATE, nested $GENERATE rejected, " +
			"zero Open calls on the recording FS and zero openat(2) under the canary directory in the strace log of the worker while includes are disabled, <= 8 opens for self-including files, TotalAlloc delta within 4 KiB/octet + per-record allowance; the same operations called from 8 goroutines at once give the results they give alone; non-trivial = distinct accepted text",
		Assumptions: []string{"the worker runs under strace -f -e trace=open,openat (seccomp-bpf); the canary directory does not exist"},
		MinObserved: []string{"texts", "errors", "accepted", "self_include_cases", "broken_include_cases", "strace_openat_lines", "must_error_texts"},
		Wrapper: func(argv []string, scratch string, chunk int) []string {
			log := filepath.Join(scratch, fmt.Sprintf("strace-%d.log", chunk))
			os.Remove(log)
			return append([]string{"strace", "-f", "--seccomp-bpf", "-e", "trace=open,openat,openat2", "-o", log}, argv...)
		},
		PostChunk: func(scratch string, chunk int, res *core.Result) {
			log := filepath.Join(scratch, fmt.Sprintf("strace-%d.log", chunk))
			b, err := os.ReadFile(log)
			if err != nil {
				res.Inconclusive["strace-log-missing"]++
				return
			}
			lines := strings.Split(string(b), "\n")
			res.Counters["strace_openat_lines"] += int64(len(lines))
			for _, l := range lines {
				if strings.Contains(l, c07Allowed) {
					res.Counters["strace_opens_with_includes_enabled"]++
				}
				if strings.Contains(l, c07Canary) {
					res.Counters["strace_canary_opens"]++
					key := "C07/file-opened-although-includes-disabled/openat"
					res.ViolCount[key]++
					if res.ViolCount[key] <= 2 {
						res.Violations = append(res.Violations, core.Violation{Key: key, Case: -1, Detail: "the strace log of the worker shows an open under the canary directory, which is only ever named by parsers with includes disabled: " + l})
					}
				}
			}
			os.Remove(log)
		},
	})
}
