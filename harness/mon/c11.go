package mon

import (
	"bytes"
	"encoding/base64"
	"encoding/binary"
	"encoding/hex"
	"errors"
	"fmt"
	"io"
	"strings"
	"sync"
	"sync/atomic"
	"time"

	"github.com/miekg/dns"

	"verifharness/core"
	"verifharness/model"
	"verifharness/netsim"
)

var tsigAlgs = []string{dns.HmacSHA1, dns.HmacSHA224, dns.HmacSHA256, dns.HmacSHA384, dns.HmacSHA512}

// c11ModelVerify is the statement's acceptance condition computed independently.
func c11ModelVerify(msg []byte, secrets map[string][]byte, reqMAC []byte, timersOnly bool, now uint64) (bool, string) {
	no, t, _, ok := model.SplitTSIG(msg)
	if !ok {
		return false, "no TSIG as last additional record"
	}
	secret, ok := secrets[t.KeyName.Lower().Pres()]
	if !ok {
		return false, "unknown key"
	}
	mac, err := t.Digest(no, secret, reqMAC, timersOnly)
	if err != nil {
		return false, err.Error()
	}
	if !bytes.Equal(mac, t.MAC) {
		return false, "MAC mismatch"
	}
	// the TSIG variables include the TTL of the TSIG RR (RFC 8945 s.4.3.3: the RR's field, which is 0
	// at the signer); the digest above is computed with 0, so another value on the wire is a mismatch.
	// (The CLASS is pinned to ANY by the same section and is not judged, see DESIGN.md s.7.)
	if !timersOnly && t.WireTTL != 0 {
		return false, "TSIG RR TTL altered"
	}
	d := int64(now) - int64(t.TimeSigned)
	if d < 0 {
		d = -d
	}
	if d > int64(t.Fudge) {
		return false, "outside the fudge window"
	}
	return true, ""
}

// region names the part of a signed message an offset falls in.
func c11Region(msg []byte, off int) string {
	no, _, _, ok := model.SplitTSIG(msg)
	if !ok {
		return "?"
	}
	switch {
	case off < 2:
		return "header-id"
	case off < 4:
		return "header-flags"
	case off < 12:
		return "header-counts"
	case off < len(no):
		return "body"
	}
	// inside the TSIG RR: owner, then type(2) class(2) ttl(4) rdlen(2), then rdata
	p := len(no)
	_, q, _, err := model.DecodeName(msg, p)
	if err != nil {
		return "tsig"
	}
	switch {
	case off < q:
		return "tsig-owner"
	case off < q+2:
		return "tsig-type"
	case off < q+4:
		return "tsig-class"
	case off < q+8:
		return "tsig-ttl"
	case off < q+10:
		return "tsig-rdlength"
	}
	_, a, _, err := model.DecodeName(msg, q+10)
	if err != nil {
		return "tsig-rdata"
	}
	ml := int(binary.BigEndian.Uint16(msg[a+8:]))
	switch {
	case off < a:
		return "tsig-algorithm"
	case off < a+6:
		return "tsig-time"
	case off < a+8:
		return "tsig-fudge"
	case off < a+10:
		return "tsig-macsize"
	case off < a+10+ml:
		return "tsig-mac"
	case off < a+12+ml:
		return "tsig-origid"
	case off < a+14+ml:
		return "tsig-error"
	}
	return "tsig-other"
}

func c11Case(w *core.W, j int) {
	g := model.NewGen(w.Rng(j))
	g.NoHuge = true
	g.MaxOpaque = 30
	r := g.R
	alg := tsigAlgs[j%len(tsigAlgs)]
	secret := g.Bytes(1 + r.IntN(64))
	secretB64 := base64.StdEncoding.EncodeToString(secret)
	keyName := model.Name{[]byte("Key"), []byte(fmt.Sprintf("k%d", j%7)), []byte("example")}
	if j%4 == 0 {
		keyName = keyName.Lower()
	}
	// the message
	ls := c01Layouts()
	var mm *model.Msg
	if j%3 == 0 {
		mm = &model.Msg{ID: uint16(r.IntN(65536)), Bits: 0x0100, Q: []model.Question{{Name: model.Name{[]byte("q"), []byte("example")}, Type: 1, Class: 1}}}
	} else {
		mm = genMsg(g, ls, 1+r.IntN(5))
		var ar []*model.Rec
		for _, x := range mm.Ar {
			if x.Type != 41 {
				ar = append(ar, x)
			}
		}
		mm.Ar = ar
		mm.Bits &^= 0x000F // RCODE NotAuth would make the verifier refuse early
	}
	// every eighth message is a request packed with compression (several records under one long name, so
	// that the compressed form is much shorter than the buffer it is packed into) whose header ID is
	// renewed after the TSIG stub was made: the stub's original ID differs from the ID on the wire
	renewID := j%8 == 6
	if renewID {
		long := g.NameOfWireLen(90 + r.IntN(120))
		mm = &model.Msg{ID: uint16(r.IntN(65536)), Bits: 0x0100, Q: []model.Question{{Name: long.Clone(), Type: 255, Class: 1}}}
		for i := 0; i < 2+r.IntN(6); i++ {
			mm.Ns = append(mm.Ns, &model.Rec{Owner: long.Clone(), Type: 1, Class: 1, TTL: 60, L: model.Layouts[1], Vals: []any{[]byte{10, 0, byte(i), byte(j)}}})
		}
		w.Count("renewed_id_requests", 1)
	}
	if len(mm.Wire()) > 8000 {
		return
	}
	base, err := buildMsgAny(mm)
	if err != nil {
		return
	}
	if renewID {
		base.Compress = true
	}
	signedAt := uint64(1_700_000_000 + r.IntN(1_000_000))
	fudge := []uint16{300, 1, 256, 60, 65535, 0}[r.IntN(6)] // 0 asks TsigGenerate for the default of 300
	var reqMAC []byte
	if j%2 == 1 {
		reqMAC = g.Bytes([]int{20, 28, 32, 48, 64, 10}[r.IntN(6)])
	}
	if renewID {
		reqMAC = nil
	}
	timersOnly := j%4 == 3 && len(reqMAC) > 0
	reqMACHex := hex.EncodeToString(reqMAC)
	wit := map[string]any{"alg": alg, "secret": hx(secret), "request_mac": reqMACHex, "timers_only": timersOnly, "model_wire": hx(mm.Wire()), "signed_at": signedAt, "fudge": fudge}

	m := base.Copy()
	m.SetTsig(keyName.Pres(), alg, fudge, int64(signedAt))
	if renewID {
		m.Id ^= 0x5A5A
	}
	if j%6 == 5 {
		// a response that reports a TSIG error other than BADKEY/BADSIG (unsigned by RFC 8945) and
		// BADTIME (carries other data) is signed like any other message
		te := []uint16{22, 9, 21, 23, 1, 4095, 18}[(j/6)%7]
		m.Extra[len(m.Extra)-1].(*dns.TSIG).Error = te
		if te == 18 {
			// BADTIME: the response carries the server's clock as other data (RFC 8945 s.5.2.3); it is
			// signed and judged - window included - like any other message
			ts := m.Extra[len(m.Extra)-1].(*dns.TSIG)
			ts.OtherLen = 6
			ts.OtherData = fmt.Sprintf("%012x", signedAt+100000)
		}
		wit["tsig_error"] = te
		w.Cover("tsig_error_field", fmt.Sprint(te))
	}
	var out []byte
	var mac string
	w.Eval(1)
	if w.Guard("TsigGenerate", wit, func() { out, mac, err = dns.TsigGenerate(m, secretB64, reqMACHex, timersOnly) }) {
		return
	}
	if err != nil {
		w.Count("generate_errors", 1)
		return
	}
	w.Count("generated", 1)
	w.Cover("alg", alg)
	w.Nontrivial(out)
	wit["signed"] = hx(out)
	key := func(s string) string { return "C11/" + s }
	// (A) shape of the output
	plain, perr := base.Copy().Pack()
	no, ts, _, ok := model.SplitTSIG(out)
	if perr != nil {
		return
	}
	if !ok {
		w.Violation(key("generate-shape/tsig-not-last"), "the output of TsigGenerate does not end in a well-formed TSIG record", wit)
		return
	}
	wantNo := append([]byte(nil), plain...)
	if renewID && len(wantNo) >= 2 && len(no) >= 2 {
		// which ID the message goes out with when stub and header disagree is not judged (the pinned
		// library writes the stub's original ID into the header, a forwarder would keep the new one); what
		// is judged is that the MAC covers the message with the original ID, whatever the header carries
		if id := binary.BigEndian.Uint16(no); id == m.Id || id == base.Id {
			binary.BigEndian.PutUint16(wantNo, id)
		}
	}
	if !bytes.Equal(no, wantNo) {
		w.Violation(key("generate-shape/message-octets"), "the signed octets before the TSIG record are not the packed message: "+diffWin(no, wantNo), wit)
	}
	if binary.BigEndian.Uint16(out[10:]) != binary.BigEndian.Uint16(plain[10:])+1 {
		w.Violation(key("generate-shape/arcount"), fmt.Sprintf("ARCOUNT %d, message had %d", binary.BigEndian.Uint16(out[10:]), binary.BigEndian.Uint16(plain[10:])), wit)
	}
	secrets := map[string][]byte{keyName.Lower().Pres(): secret}
	wantMAC, derr := ts.Digest(no, secret, reqMAC, timersOnly)
	if derr != nil || !bytes.Equal(wantMAC, ts.MAC) || hex.EncodeToString(ts.MAC) != mac {
		w.Violation(key("generate-mac/"+alg), fmt.Sprintf("MAC in the output %x (returned %s) is not the RFC 8945 HMAC %x", ts.MAC, mac, wantMAC), wit)
		return
	}
	if fudge == 0 {
		fudge = 300
		w.Count("default_fudge_stubs", 1)
	}
	if ts.TimeSigned != signedAt || ts.Fudge != fudge || ts.OrigID != base.Id || !ts.KeyName.Equal(keyName) {
		w.Violation(key("generate-shape/tsig-fields"), fmt.Sprintf("TSIG fields differ from the stub: time %d fudge %d origid %d key %s", ts.TimeSigned, ts.Fudge, ts.OrigID, ts.KeyName), wit)
	}
	// (B) the window
	provider := dns.VerifTsigSecretProvider(map[string]string{keyName.Pres(): secretB64})
	verify := func(b []byte, rm string, to bool, now uint64) (error, bool) {
		cp := append([]byte(nil), b...)
		var verr error
		if w.Guard("TsigVerify", wit, func() { verr = dns.VerifTsigVerify(cp, provider, rm, to, now) }) {
			return nil, false
		}
		w.Eval(1)
		return verr, true
	}
	for _, c := range []struct {
		now uint64
		ok  bool
	}{{signedAt, true}, {signedAt + uint64(fudge), true}, {signedAt - uint64(fudge), true}, {signedAt + uint64(fudge) + 1, false}, {signedAt - uint64(fudge) - 1, false},
		{signedAt + 65536, false}, {signedAt + 65536 + uint64(fudge)/2, false}, {signedAt - 65536 - uint64(fudge)/3, false}, {signedAt + 86400*365, false}} {
		verr, ok := verify(out, reqMACHex, timersOnly, c.now)
		if !ok {
			continue
		}
		if c.ok && verr != nil {
			w.Violation(key("own-output-rejected/"+alg), fmt.Sprintf("TsigVerify rejects TsigGenerate's output at now = signing time %+d (fudge %d): %v", int64(c.now)-int64(signedAt), fudge, verr), wit)
		}
		if !c.ok {
			if verr == nil {
				w.Violation(key("accepts-outside-window"), fmt.Sprintf("TsigVerify accepts at now = signing time %+d with fudge %d", int64(c.now)-int64(signedAt), fudge), wit)
			} else if !errors.Is(verr, dns.ErrTime) {
				w.Violation(key("window-error-kind"), fmt.Sprintf("outside the window the error is %v, want ErrTime", verr), wit)
			}
		}
		w.Count("window_checks", 1)
	}
	// (C) soundness: whatever is accepted must be acceptable to the model
	judge := func(name string, b []byte, rm []byte, to bool, now uint64) {
		verr, ok := verify(b, hex.EncodeToString(rm), to, now)
		if !ok {
			return
		}
		w.Cover("alteration", name)
		if verr != nil {
			w.Count("alterations_rejected", 1)
			return
		}
		w.Count("alterations_accepted", 1)
		if ma, why := c11ModelVerify(b, secrets, rm, to, now); !ma {
			w.Violation(key("accepts-altered/"+name), fmt.Sprintf("TsigVerify accepts after the alteration %q, the independent RFC 8945 check says: %s", name, why), map[string]any{"altered": hx(b), "original": hx(out), "alg": alg, "request_mac": hex.EncodeToString(rm), "timers_only": to})
		}
	}
	nbits := len(out) * 8
	if len(out) <= 160 || w.Tier == "thorough" && len(out) <= 600 {
		for bit := 0; bit < nbits; bit++ {
			b := append([]byte(nil), out...)
			b[bit/8] ^= 1 << (bit % 8)
			judge("bit/"+c11Region(out, bit/8), b, reqMAC, timersOnly, signedAt)
		}
		w.Count("exhaustive_bitflip_messages", 1)
	} else {
		for k := 0; k < 200; k++ {
			bit := r.IntN(nbits)
			b := append([]byte(nil), out...)
			b[bit/8] ^= 1 << (bit % 8)
			judge("bit/"+c11Region(out, bit/8), b, reqMAC, timersOnly, signedAt)
		}
	}
	// field alterations (re-encoded with the independent encoder, MAC left as it was)
	reenc := func(f func(t *model.TSIG)) []byte {
		t2 := *ts
		f(&t2)
		b := append([]byte(nil), no...)
		binary.BigEndian.PutUint16(b[10:], binary.BigEndian.Uint16(b[10:])+1)
		return append(b, t2.RRWire()...)
	}
	judge("field/fudge-zero", reenc(func(t *model.TSIG) { t.Fudge = 0 }), reqMAC, timersOnly, signedAt)
	judge("field/fudge+1", reenc(func(t *model.TSIG) { t.Fudge++ }), reqMAC, timersOnly, signedAt)
	judge("field/time-zero", reenc(func(t *model.TSIG) { t.TimeSigned = 0 }), reqMAC, timersOnly, signedAt)
	judge("field/time+1", reenc(func(t *model.TSIG) { t.TimeSigned++ }), reqMAC, timersOnly, signedAt)
	judge("field/error", reenc(func(t *model.TSIG) { t.Error = 16 }), reqMAC, timersOnly, signedAt)
	judge("field/other-data", reenc(func(t *model.TSIG) { t.Other = []byte{0, 0, 0, 0, 0, 1} }), reqMAC, timersOnly, signedAt)
	judge("field/origid", reenc(func(t *model.TSIG) { t.OrigID ^= 0x0100 }), reqMAC, timersOnly, signedAt)
	judge("field/algorithm", reenc(func(t *model.TSIG) { t.Algorithm = mustName(tsigAlgs[(j+1)%len(tsigAlgs)]) }), reqMAC, timersOnly, signedAt)
	judge("field/key-name", reenc(func(t *model.TSIG) { t.KeyName = append(model.Name{[]byte("x")}, t.KeyName...) }), reqMAC, timersOnly, signedAt)
	judge("field/mac-truncated", reenc(func(t *model.TSIG) { t.MAC = t.MAC[:len(t.MAC)/2] }), reqMAC, timersOnly, signedAt)
	judge("field/mac-10-octets", reenc(func(t *model.TSIG) { t.MAC = t.MAC[:10] }), reqMAC, timersOnly, signedAt)
	judge("field/mac-empty", reenc(func(t *model.TSIG) { t.MAC = nil }), reqMAC, timersOnly, signedAt)
	// context alterations
	judge("context/request-mac-altered", out, append(append([]byte(nil), reqMAC...), 1), timersOnly, signedAt)
	if len(reqMAC) > 0 {
		x := append([]byte(nil), reqMAC...)
		x[0] ^= 1
		judge("context/request-mac-bit", out, x, timersOnly, signedAt)
		judge("context/request-mac-missing", out, nil, timersOnly, signedAt)
		judge("context/timers-only-toggled", out, reqMAC, !timersOnly, signedAt)
	}
	{
		// wrong secret under the same key name
		p2 := dns.VerifTsigSecretProvider(map[string]string{keyName.Pres(): base64.StdEncoding.EncodeToString(append([]byte{1}, secret...))})
		cp := append([]byte(nil), out...)
		if verr := dns.VerifTsigVerify(cp, p2, reqMACHex, timersOnly, signedAt); verr == nil {
			w.Violation(key("accepts-altered/context/wrong-secret"), "verification succeeds with a different secret", wit)
		}
		w.Cover("alteration", "context/wrong-secret")
	}
	// structural alterations
	{
		// a record appended after the TSIG
		b := append([]byte(nil), out...)
		binary.BigEndian.PutUint16(b[10:], binary.BigEndian.Uint16(b[10:])+1)
		b = append(b, 0, 0, 1, 0, 1, 0, 0, 0, 0, 0, 4, 6, 6, 6, 6)
		judge("structure/record-after-tsig", b, reqMAC, timersOnly, signedAt)
		// the TSIG removed: never verified
		b2 := append([]byte(nil), no...)
		judge("structure/tsig-removed", b2, reqMAC, timersOnly, signedAt)
		// the message without TSIG but with another additional record
		b3 := append([]byte(nil), no...)
		binary.BigEndian.PutUint16(b3[10:], binary.BigEndian.Uint16(b3[10:])+1)
		b3 = append(b3, 0, 0, 1, 0, 1, 0, 0, 0, 0, 0, 4, 6, 6, 6, 6)
		judge("structure/no-tsig-other-additional", b3, reqMAC, timersOnly, signedAt)
		// body altered by inserting a record before the TSIG (counts adjusted)
		if len(no) > 12 {
			b4 := append([]byte(nil), no...)
			b4 = append(b4, 0, 0, 1, 0, 1, 0, 0, 0, 0, 0, 4, 9, 9, 9, 9)
			binary.BigEndian.PutUint16(b4[10:], binary.BigEndian.Uint16(b4[10:])+2)
			b4 = append(b4, ts.RRWire()...)
			judge("structure/record-inserted-before-tsig", b4, reqMAC, timersOnly, signedAt)
		}
	}
	if w.WantSample() {
		w.Sample(map[string]any{"alg": alg, "signed": hx(out), "request_mac": reqMACHex, "timers_only": timersOnly, "octets": len(out)})
	}
}

// c11Chain: chains of envelopes where each MAC covers the previous one.
func c11Chain(w *core.W, j int) {
	g := model.NewGen(w.Rng(j))
	r := g.R
	alg := tsigAlgs[j%len(tsigAlgs)]
	secret := g.Bytes(8 + r.IntN(40))
	secretB64 := base64.StdEncoding.EncodeToString(secret)
	keyName := model.Name{[]byte("chain"), []byte("example")}
	secrets := map[string][]byte{keyName.Pres(): secret}
	provider := dns.VerifTsigSecretProvider(map[string]string{keyName.Pres(): secretB64})
	n := 1 + r.IntN(6)
	signedAt := uint64(1_700_000_000)
	reqMAC := g.Bytes(32)
	byHarness := j%2 == 0
	var envs [][]byte
	var macs [][]byte
	prev := reqMAC
	for i := 0; i < n; i++ {
		m := new(dns.Msg)
		m.Id = uint16(j)
		m.Response = true
		m.Question = []dns.Question{{Name: "zone.example.", Qtype: dns.TypeAXFR, Qclass: 1}}
		m.Answer = []dns.RR{&dns.A{Hdr: dns.RR_Header{Name: fmt.Sprintf("h%d.zone.example.", i), Rrtype: 1, Class: 1, Ttl: 60}, A: []byte{10, 0, byte(i), byte(j)}}}
		var out []byte
		var mac []byte
		if byHarness {
			plain, _ := m.Pack()
			t := &model.TSIG{KeyName: keyName, Algorithm: mustName(alg), TimeSigned: signedAt + uint64(i), Fudge: 300}
			var err error
			out, mac, err = t.Sign(plain, secret, prev, i > 0)
			if err != nil {
				return
			}
		} else {
			m.SetTsig(keyName.Pres(), alg, 300, int64(signedAt)+int64(i))
			o, macHex, err := dns.TsigGenerate(m, secretB64, hex.EncodeToString(prev), i > 0)
			if err != nil {
				w.Count("generate_errors", 1)
				return
			}
			out = o
			mac, _ = hex.DecodeString(macHex)
			// the library's MAC must be the RFC 8945 one
			no, ts, _, ok := model.SplitTSIG(out)
			if ok {
				want, _ := ts.Digest(no, secret, prev, i > 0)
				if !bytes.Equal(want, mac) {
					w.Violation("C11/chain-mac/"+alg, fmt.Sprintf("envelope %d of %d: MAC %x is not the RFC 8945 HMAC over the previous MAC, the message and the timers (%x)", i, n, mac, want), map[string]any{"envelope": hx(out), "prev_mac": hex.EncodeToString(prev)})
				}
			}
		}
		envs = append(envs, out)
		macs = append(macs, mac)
		prev = mac
	}
	w.Eval(1)
	w.Count("chains", 1)
	w.Cover("chain_length", fmt.Sprint(n))
	w.NontrivialStr("chain", fmt.Sprint(j))
	// the intact chain verifies
	walk := func(seq [][]byte, name string, expectOK bool) {
		prev := reqMAC
		for i, e := range seq {
			cp := append([]byte(nil), e...)
			verr := dns.VerifTsigVerify(cp, provider, hex.EncodeToString(prev), i > 0, signedAt+uint64(i))
			w.Eval(1)
			ma, why := c11ModelVerify(e, secrets, prev, i > 0, signedAt+uint64(i))
			if verr == nil && !ma {
				w.Violation("C11/chain-accepts/"+name, fmt.Sprintf("envelope %d of the %s chain verifies although the independent check says: %s", i, name, why), map[string]any{"envelope": hx(e), "prev_mac": hex.EncodeToString(prev), "by_harness": byHarness})
				return
			}
			if verr != nil {
				if expectOK {
					w.Violation("C11/chain-rejected/"+alg, fmt.Sprintf("envelope %d of an intact %d-envelope chain (made by harness=%v) is rejected: %v", i, len(seq), byHarness, verr), map[string]any{"envelope": hx(e), "prev_mac": hex.EncodeToString(prev)})
				}
				return // the verifier stops at the first failure
			}
			_, ts, _, _ := model.SplitTSIG(e)
			prev = ts.MAC
		}
	}
	walk(envs, "intact", true)
	// the fudge window applies to every envelope, also to those verified over the timers only: each
	// envelope, against its true predecessor, at the edges of its window and one second beyond
	for i, e := range envs {
		pm := reqMAC
		if i > 0 {
			pm = macs[i-1]
		}
		t := signedAt + uint64(i)
		for _, now := range []uint64{t + 300, t - 300, t + 301, t - 301, t + 100000} {
			verr := dns.VerifTsigVerify(append([]byte(nil), e...), provider, hex.EncodeToString(pm), i > 0, now)
			ma, why := c11ModelVerify(e, secrets, pm, i > 0, now)
			w.Eval(1)
			w.Count("chain_window_checks", 1)
			if verr == nil && !ma {
				w.Violation("C11/chain-accepts/outside-window", fmt.Sprintf("envelope %d of %d (timers only: %v), signed at %d with fudge 300, verifies at time %d: %s", i, n, i > 0, t, now, why), map[string]any{"envelope": hx(e), "prev_mac": hex.EncodeToString(pm)})
			}
			if verr != nil && ma {
				w.Violation("C11/chain-rejected/inside-window/"+alg, fmt.Sprintf("envelope %d of %d (timers only: %v), signed at %d with fudge 300, is rejected at time %d: %v", i, n, i > 0, t, now, verr), map[string]any{"envelope": hx(e), "prev_mac": hex.EncodeToString(pm)})
			}
		}
	}
	if n >= 2 {
		k := r.IntN(n - 1)
		// removal
		rem := append(append([][]byte{}, envs[:k+1]...), envs[k+2:]...)
		if len(rem) > k+1 {
			walk(rem, "envelope-removed", false)
		}
		// reordering
		sw := append([][]byte{}, envs...)
		sw[k], sw[k+1] = sw[k+1], sw[k]
		walk(sw, "envelopes-reordered", false)
		// alteration of an answer octet
		al := append([][]byte{}, envs...)
		x := append([]byte(nil), al[k+1]...)
		x[len(x)/3] ^= 0x20
		al[k+1] = x
		walk(al, "envelope-altered", false)
		// each later envelope checked against a wrong previous MAC
		for i := 1; i < n; i++ {
			wrong := append([]byte(nil), macs[i-1]...)
			wrong[0] ^= 1
			for _, pm := range [][]byte{wrong, reqMAC, nil, macs[(i+n-2)%n]} {
				if bytes.Equal(pm, macs[i-1]) {
					continue
				}
				cp := append([]byte(nil), envs[i]...)
				if verr := dns.VerifTsigVerify(cp, provider, hex.EncodeToString(pm), true, signedAt+uint64(i)); verr == nil {
					w.Violation("C11/chain-accepts/wrong-previous-mac", fmt.Sprintf("envelope %d verifies against a previous MAC that is not the one it was chained to", i), map[string]any{"envelope": hx(envs[i]), "prev_mac": hex.EncodeToString(pm), "right_prev_mac": hex.EncodeToString(macs[i-1])})
				}
				w.Eval(1)
			}
		}
	}
}

// c11Concurrent: several goroutines sign and verify messages of their own with one shared secret
// and algorithm at the same time; every MAC must be the RFC 8945 HMAC and every message verify.
func c11Concurrent(w *core.W, j int) {
	g := model.NewGen(w.Rng(j))
	alg := tsigAlgs[j%len(tsigAlgs)]
	secret := g.Bytes(16 + g.R.IntN(32))
	secretB64 := base64.StdEncoding.EncodeToString(secret)
	keyName := model.Name{[]byte("shared"), []byte("example")}
	provider := dns.VerifTsigSecretProvider(map[string]string{keyName.Pres(): secretB64})
	signedAt := uint64(1_700_000_000 + g.R.IntN(1_000_000))
	var bad, panics atomic.Int32
	var first atomic.Value
	var wg sync.WaitGroup
	w.Eval(1)
	for t := 0; t < 8; t++ {
		wg.Add(1)
		go func(t int) {
			defer wg.Done()
			defer func() {
				if r := recover(); r != nil {
					panics.Add(1)
					first.CompareAndSwap(nil, fmt.Sprintf("panic: %v", r))
				}
			}()
			for it := 0; it < 25; it++ {
				m := new(dns.Msg)
				m.SetQuestion(fmt.Sprintf("q%d-%d.example.", t, it), dns.TypeTXT)
				m.Id = uint16(t*1000 + it)
				m.Answer = append(m.Answer, &dns.TXT{Hdr: dns.RR_Header{Name: m.Question[0].Name, Rrtype: dns.TypeTXT, Class: 1, Ttl: 5}, Txt: []string{strings.Repeat("x", 20*t+it)}})
				m.SetTsig(keyName.Pres(), alg, 300, int64(signedAt))
				out, mac, err := dns.TsigGenerate(m, secretB64, "", false)
				if err != nil {
					bad.Add(1)
					first.CompareAndSwap(nil, "TsigGenerate: "+err.Error())
					continue
				}
				no, ts, _, ok := model.SplitTSIG(out)
				if !ok {
					bad.Add(1)
					continue
				}
				want, derr := ts.Digest(no, secret, nil, false)
				if derr != nil || !bytes.Equal(want, ts.MAC) || hex.EncodeToString(want) != mac {
					bad.Add(1)
					first.CompareAndSwap(nil, fmt.Sprintf("MAC %x is not the RFC 8945 HMAC %x", ts.MAC, want))
				}
				if verr := dns.VerifTsigVerify(append([]byte(nil), out...), provider, "", false, signedAt); verr != nil {
					bad.Add(1)
					first.CompareAndSwap(nil, "TsigVerify of a correctly signed message: "+verr.Error())
				}
			}
		}(t)
	}
	wg.Wait()
	w.Count("concurrent_rounds", 1)
	if bad.Load() > 0 || panics.Load() > 0 {
		w.Violation("C11/concurrent-use/"+alg, fmt.Sprintf("8 goroutines x 25 sign+verify with one shared secret: %d wrong results, %d panics (first: %v)", bad.Load(), panics.Load(), first.Load()), map[string]any{"alg": alg, "secret": hx(secret)})
	}
}

// c11ServerChain: the MAC chain as a Server's ResponseWriter produces it. A signed AXFR-style request
// arrives over a (simulated) stream; the handler answers with 1..5 envelopes through Transfer.Out, the
// way the package documents it; every envelope on the wire has to carry the RFC 8945 MAC: the first over
// the request MAC and the full TSIG variables, each later one over its predecessor's MAC and the timers.
func c11ServerChain(w *core.W, j int) {
	g := model.NewGen(w.Rng(j))
	r := g.R
	alg := tsigAlgs[j%len(tsigAlgs)]
	secret := g.Bytes(8 + r.IntN(40))
	secretB64 := base64.StdEncoding.EncodeToString(secret)
	keyName := model.Name{[]byte("xfr-key"), []byte("example")}
	secrets := map[string][]byte{keyName.Pres(): secret}
	n := 1 + (j/len(tsigAlgs))%5
	ln := netsim.NewListener()
	started := make(chan struct{})
	done := make(chan error, 1)
	var status error
	h := dns.HandlerFunc(func(rw dns.ResponseWriter, req *dns.Msg) {
		status = rw.TsigStatus()
		ch := make(chan *dns.Envelope, n)
		for i := 0; i < n; i++ {
			ch <- &dns.Envelope{RR: []dns.RR{&dns.A{Hdr: dns.RR_Header{Name: fmt.Sprintf("h%d.zone.example.", i), Rrtype: 1, Class: 1, Ttl: 60}, A: []byte{10, 1, byte(i), byte(j)}}}}
		}
		close(ch)
		done <- new(dns.Transfer).Out(rw, req, ch)
	})
	srv := &dns.Server{Listener: ln, Handler: h, ReadTimeout: time.Hour, TsigSecret: map[string]string{keyName.Pres(): secretB64}, NotifyStartedFunc: func() { close(started) }}
	serveErr := make(chan error, 1)
	go func() { serveErr <- srv.ActivateAndServe() }()
	select {
	case <-started:
	case <-time.After(20 * time.Second):
		w.Inconclusive("server-chain-server-did-not-start")
		return
	}
	defer func() { srv.Shutdown(); <-serveErr }()
	q := new(dns.Msg)
	q.SetAxfr("zone.example.")
	q.Id = uint16(0x5000 + j)
	plain, _ := q.Pack()
	now := uint64(time.Now().Unix())
	qt := &model.TSIG{KeyName: keyName, Algorithm: mustName(alg), TimeSigned: now, Fudge: 300}
	signedQ, reqMAC, err := qt.Sign(plain, secret, nil, false)
	if err != nil {
		return
	}
	cl, derr := ln.Dial()
	if derr != nil {
		w.Inconclusive("server-chain-dial")
		return
	}
	defer cl.Close()
	cl.Write(frame(signedQ))
	w.Eval(1)
	var outErr error
	select {
	case outErr = <-done:
	case <-time.After(20 * time.Second):
		w.Inconclusive("server-chain-handler-did-not-finish")
		return
	}
	wit := map[string]any{"alg": alg, "envelopes": n, "request": hx(signedQ)}
	if status != nil {
		w.Violation("C11/server-chain/request-rejected/"+alg, fmt.Sprintf("a request signed with the RFC 8945 MAC (made by the harness) reached its handler with TsigStatus %v", status), wit)
		return
	}
	if outErr != nil {
		w.Violation("C11/server-chain/write-error/"+alg, fmt.Sprintf("Transfer.Out: %v", outErr), wit)
		return
	}
	raw := cl.Drain()
	prev := reqMAC
	got := 0
	for len(raw) >= 2 {
		l := int(binary.BigEndian.Uint16(raw))
		if 2+l > len(raw) {
			break
		}
		e := raw[2 : 2+l]
		raw = raw[2+l:]
		_, ts, _, ok := model.SplitTSIG(e)
		if !ok {
			w.Violation("C11/server-chain/envelope-unsigned/"+alg, fmt.Sprintf("envelope %d of %d written by the server carries no TSIG record", got, n), wit)
			return
		}
		w.Eval(1)
		if ma, why := c11ModelVerify(e, secrets, prev, got > 0, ts.TimeSigned); !ma {
			w.Violation("C11/server-chain/mac/"+alg, fmt.Sprintf("envelope %d of %d written through the server's ResponseWriter does not carry the RFC 8945 MAC over %s: %s", got, n,
				map[bool]string{false: "the request MAC, the message and the TSIG variables", true: "the previous envelope's MAC, the message and the timers"}[got > 0], why),
				map[string]any{"alg": alg, "envelope": hx(e), "prev_mac": hex.EncodeToString(prev), "index": got})
			return
		}
		// and the library's own verifier, fed the chain the way a secondary walks it
		if verr := dns.VerifTsigVerify(append([]byte(nil), e...), dns.VerifTsigSecretProvider(map[string]string{keyName.Pres(): secretB64}), hex.EncodeToString(prev), got > 0, ts.TimeSigned); verr != nil {
			w.Violation("C11/server-chain/own-output-rejected/"+alg, fmt.Sprintf("envelope %d of %d: %v", got, n, verr), wit)
			return
		}
		prev = ts.MAC
		got++
	}
	if got != n {
		w.Violation("C11/server-chain/envelope-count", fmt.Sprintf("%d envelopes handed to Transfer.Out, %d complete frames on the wire", n, got), wit)
	}
	w.Count("server_chains", 1)
	w.Count("server_chain_envelopes", got)
	w.NontrivialStr("server-chain", fmt.Sprint(j))
}

// c11PacedServerChain: a signed outgoing transfer whose second envelope is produced a few seconds after
// the first (a large zone, a slow source). Each envelope is verified with the exported verifier the
// moment it arrives, against the request's fudge of one second: a chain made by the library's own
// sender is timely when its own receiver reads it. (A verdict needs less than 0.9 s between handing
// the envelope to Transfer.Out and the verifier's return; otherwise the case is undecided.)
func c11PacedServerChain(w *core.W, j int) {
	g := model.NewGen(w.Rng(j))
	r := g.R
	alg := tsigAlgs[j%len(tsigAlgs)]
	secret := g.Bytes(8 + r.IntN(40))
	secretB64 := base64.StdEncoding.EncodeToString(secret)
	keyName := model.Name{[]byte("paced-key"), []byte("example")}
	provider := dns.VerifTsigSecretProvider(map[string]string{keyName.Pres(): secretB64})
	const n = 2
	pause := 2400 * time.Millisecond
	ln := netsim.NewListener()
	started := make(chan struct{})
	done := make(chan error, 1)
	feed := make(chan *dns.Envelope)
	var status error
	h := dns.HandlerFunc(func(rw dns.ResponseWriter, req *dns.Msg) {
		status = rw.TsigStatus()
		done <- new(dns.Transfer).Out(rw, req, feed)
	})
	srv := &dns.Server{Listener: ln, Handler: h, ReadTimeout: time.Hour, TsigSecret: map[string]string{keyName.Pres(): secretB64}, NotifyStartedFunc: func() { close(started) }}
	serveErr := make(chan error, 1)
	go func() { serveErr <- srv.ActivateAndServe() }()
	select {
	case <-started:
	case <-time.After(20 * time.Second):
		w.Inconclusive("paced-chain-server-did-not-start")
		return
	}
	defer func() { srv.Shutdown(); <-serveErr }()
	q := new(dns.Msg)
	q.SetAxfr("zone.example.")
	q.Id = uint16(0x6000 + j)
	plain, _ := q.Pack()
	qt := &model.TSIG{KeyName: keyName, Algorithm: mustName(alg), TimeSigned: uint64(time.Now().Unix()), Fudge: 1}
	signedQ, reqMAC, err := qt.Sign(plain, secret, nil, false)
	if err != nil {
		return
	}
	cl, derr := ln.Dial()
	if derr != nil {
		w.Inconclusive("paced-chain-dial")
		return
	}
	defer cl.Close()
	cl.Write(frame(signedQ))
	readFrame := func() ([]byte, bool) {
		cl.SetReadDeadline(time.Now().Add(20 * time.Second))
		var l [2]byte
		if _, err := io.ReadFull(cl, l[:]); err != nil {
			return nil, false
		}
		b := make([]byte, binary.BigEndian.Uint16(l[:]))
		if _, err := io.ReadFull(cl, b); err != nil {
			return nil, false
		}
		return b, true
	}
	prev := hex.EncodeToString(reqMAC)
	wit := map[string]any{"alg": alg, "request": hx(signedQ), "pause_ms": pause.Milliseconds(), "request_fudge": 1}
	for i := 0; i < n; i++ {
		if i > 0 {
			time.Sleep(pause)
		}
		env := &dns.Envelope{RR: []dns.RR{&dns.A{Hdr: dns.RR_Header{Name: fmt.Sprintf("h%d.zone.example.", i), Rrtype: 1, Class: 1, Ttl: 60}, A: []byte{10, 2, byte(i), byte(j)}}}}
		t0 := time.Now()
		select {
		case feed <- env:
		case err := <-done:
			done <- err
			w.Violation("C11/server-chain/write-error/"+alg, fmt.Sprintf("Transfer.Out ended before envelope %d was taken: %v (TsigStatus of the request: %v)", i, err, status), wit)
			close(feed)
			return
		case <-time.After(20 * time.Second):
			w.Inconclusive("paced-chain-envelope-not-taken")
			return
		}
		e, ok := readFrame()
		if !ok {
			w.Inconclusive("paced-chain-envelope-not-received")
			close(feed)
			return
		}
		w.Eval(1)
		verr := dns.TsigVerifyWithProvider(append([]byte(nil), e...), provider, prev, i > 0)
		elapsed := time.Since(t0)
		_, ts, _, okT := model.SplitTSIG(e)
		if !okT {
			w.Violation("C11/server-chain/envelope-unsigned/"+alg, fmt.Sprintf("envelope %d written by the server carries no TSIG record", i), wit)
			close(feed)
			return
		}
		if elapsed > 900*time.Millisecond {
			w.Count("paced_chain_undecided", 1)
		} else if verr != nil {
			w.Violation("C11/server-chain/paced-envelope-rejected", fmt.Sprintf("envelope %d, handed to Transfer.Out %.1f s after the transfer began and verified %d ms later with the request's fudge of 1 s: %v (time signed %d, clock %d)", i, (time.Duration(i) * pause).Seconds(), elapsed.Milliseconds(), verr, ts.TimeSigned, time.Now().Unix()),
				map[string]any{"alg": alg, "envelope": hx(e), "index": i})
			close(feed)
			return
		} else {
			w.Count("paced_chain_envelopes_verified", 1)
		}
		prev = hex.EncodeToString(ts.MAC)
	}
	close(feed)
	select {
	case <-done:
	case <-time.After(20 * time.Second):
	}
	w.NontrivialStr("paced-server-chain", fmt.Sprint(j))
}

// c11PublicAPI drives the exported entry points as a caller has them - TsigGenerate / TsigVerify with a
// base64 secret, TsigGenerateWithProvider / TsigVerifyWithProvider with a key table - at the wall-clock
// time the verifier reads itself. Every verdict is bracketed: the clock is read before and after the
// call, and a verdict is taken only when the signing time lies at least 5 s inside (must verify) or
// outside (must fail with ErrTime) the window for both readings; otherwise the case counts as undecided.
func c11PublicAPI(w *core.W, j int) {
	g := model.NewGen(w.Rng(j))
	g.NoHuge = true
	g.MaxOpaque = 30
	r := g.R
	alg := tsigAlgs[j%len(tsigAlgs)]
	secret := g.Bytes(1 + r.IntN(64))
	secretB64 := base64.StdEncoding.EncodeToString(secret)
	keyName := model.Name{[]byte("Pub"), []byte(fmt.Sprintf("k%d", j%5)), []byte("example")}
	var mm *model.Msg
	if j%2 == 0 {
		mm = &model.Msg{ID: uint16(r.IntN(65536)), Bits: 0x0100, Q: []model.Question{{Name: model.Name{[]byte("q"), []byte("example")}, Type: 1, Class: 1}}}
	} else {
		mm = genMsg(g, c01Layouts(), 1+r.IntN(3))
		var ar []*model.Rec
		for _, x := range mm.Ar {
			if x.Type != 41 {
				ar = append(ar, x)
			}
		}
		mm.Ar = ar
		mm.Bits &^= 0x000F
	}
	if len(mm.Wire()) > 4000 {
		return
	}
	base, err := buildMsgAny(mm)
	if err != nil {
		return
	}
	var reqMAC []byte
	if j%3 == 1 {
		reqMAC = g.Bytes([]int{20, 32, 64}[r.IntN(3)])
	}
	timersOnly := j%6 == 4 && len(reqMAC) > 0
	reqMACHex := hex.EncodeToString(reqMAC)
	fudge := []uint16{300, 30, 65535, 10, 0}[(j/5)%5]
	effFudge := int64(fudge)
	if fudge == 0 {
		effFudge = 300
	}
	provider := dns.VerifTsigSecretProvider(map[string]string{keyName.Pres(): secretB64})
	otherProvider := dns.VerifTsigSecretProvider(map[string]string{"another-key.example.": secretB64})
	secrets := map[string][]byte{keyName.Lower().Pres(): secret}
	key := func(s string) string { return "C11/public-api/" + s }
	const margin = 5

	// offsets of the signing time relative to the verifier's clock, and whether the statement wants success
	type off struct {
		d    int64
		want bool
		zero bool // leave the stub's time unset: TsigGenerate stamps the current time
	}
	offs := []off{{0, true, false}, {0, true, true}, {-(effFudge - margin), true, false}, {effFudge - margin, true, false}, {-(effFudge + margin), false, false}, {effFudge + margin, false, false}}
	for _, o := range offs {
		t0 := time.Now().Unix()
		signedAt := t0 + o.d
		m := base.Copy()
		if o.zero {
			m.SetTsig(keyName.Pres(), alg, fudge, 0)
		} else {
			m.SetTsig(keyName.Pres(), alg, fudge, signedAt)
		}
		wit := map[string]any{"alg": alg, "secret": hx(secret), "request_mac": reqMACHex, "timers_only": timersOnly, "model_wire": hx(mm.Wire()), "offset_from_now": o.d, "fudge": fudge, "stub_time_unset": o.zero}
		var out []byte
		var mac string
		var gerr error
		viaProvider := j%2 == 1
		w.Eval(1)
		if w.Guard("TsigGenerate(public)", wit, func() {
			if viaProvider {
				out, mac, gerr = dns.TsigGenerateWithProvider(m, provider, reqMACHex, timersOnly)
			} else {
				out, mac, gerr = dns.TsigGenerate(m, secretB64, reqMACHex, timersOnly)
			}
		}) {
			return
		}
		if gerr != nil {
			w.Violation(key("generate-fails/"+alg), fmt.Sprintf("signing a well-formed message fails: %v", gerr), wit)
			return
		}
		wit["signed"] = hx(out)
		no, ts, _, ok := model.SplitTSIG(out)
		if !ok {
			w.Violation(key("generate-shape"), "the output does not end in a well-formed TSIG record", wit)
			return
		}
		tAfterGen := time.Now().Unix()
		if o.zero {
			// the time stamped by the library lies between the two clock readings
			if int64(ts.TimeSigned) < t0 || int64(ts.TimeSigned) > tAfterGen {
				w.Violation(key("unset-time-not-stamped-with-now"), fmt.Sprintf("stub without a time: TSIG carries %d, the clock showed %d before and %d after the call", ts.TimeSigned, t0, tAfterGen), wit)
			}
			w.Count("public_unset_time_stubs", 1)
		} else if int64(ts.TimeSigned) != signedAt {
			w.Violation(key("generate-shape/time"), fmt.Sprintf("TSIG carries time %d, the stub said %d", ts.TimeSigned, signedAt), wit)
		}
		if int64(ts.Fudge) != effFudge {
			w.Violation(key("generate-shape/fudge"), fmt.Sprintf("TSIG carries fudge %d, want %d", ts.Fudge, effFudge), wit)
		}
		wantMAC, derr := ts.Digest(no, secret, reqMAC, timersOnly)
		if derr != nil || !bytes.Equal(wantMAC, ts.MAC) || hex.EncodeToString(ts.MAC) != mac {
			w.Violation(key("generate-mac/"+alg), fmt.Sprintf("MAC in the output %x (returned %s) is not the RFC 8945 HMAC %x", ts.MAC, mac, wantMAC), wit)
			return
		}
		w.Nontrivial(out)
		// verification through both exported verifiers; the clock is read again afterwards
		type ver struct {
			name string
			f    func(b []byte, rm string, to bool) error
		}
		vers := []ver{
			{"TsigVerify", func(b []byte, rm string, to bool) error { return dns.TsigVerify(b, secretB64, rm, to) }},
			{"TsigVerifyWithProvider", func(b []byte, rm string, to bool) error { return dns.TsigVerifyWithProvider(b, provider, rm, to) }},
		}
		for _, v := range vers {
			call := func(b []byte, rm string, to bool) (error, bool) {
				cp := append([]byte(nil), b...)
				var verr error
				if w.Guard(v.name+"(public)", wit, func() { verr = v.f(cp, rm, to) }) {
					return nil, false
				}
				w.Eval(1)
				return verr, true
			}
			verr, ok := call(out, reqMACHex, timersOnly)
			t1 := time.Now().Unix()
			if !ok {
				return
			}
			// decided only if the verdict is the same for every clock value the verifier can have read
			d0, d1 := t0-int64(ts.TimeSigned), t1-int64(ts.TimeSigned)
			in := func(d int64) bool {
				if d < 0 {
					d = -d
				}
				return d <= effFudge
			}
			if in(d0) != in(d1) || t1-t0 > margin-1 {
				w.Count("public_window_undecided", 1)
				continue
			}
			if in(d0) != o.want {
				w.Count("public_window_undecided", 1)
				continue
			}
			w.Count("public_window_checks", 1)
			w.Cover("public_verifier", v.name)
			if o.want && verr != nil {
				w.Violation(key("own-output-rejected/"+v.name+"/"+alg), fmt.Sprintf("%s rejects what TsigGenerate signed %+d s from now (fudge %d): %v", v.name, o.d, effFudge, verr), wit)
				continue
			}
			if !o.want {
				if verr == nil {
					w.Violation(key("accepts-outside-window/"+v.name), fmt.Sprintf("%s accepts a message signed %+d s from now with fudge %d", v.name, o.d, effFudge), wit)
				} else if !errors.Is(verr, dns.ErrTime) {
					w.Violation(key("window-error-kind/"+v.name), fmt.Sprintf("outside the window the error is %v, want ErrTime", verr), wit)
				}
				continue
			}
			// soundness of the exported verifiers at the real time: alterations
			alter := func(name string, b []byte, rm []byte, to bool) {
				verr, ok := call(b, hex.EncodeToString(rm), to)
				if !ok {
					return
				}
				w.Cover("public_alteration", name)
				if verr != nil {
					w.Count("public_alterations_rejected", 1)
					return
				}
				sec := secrets
				if v.name == "TsigVerify" {
					// TsigVerify is given one secret and no key table: whatever name the record carries, "the
					// secret of the named key" is that secret (in a timers-only digest the name is not even covered)
					if _, t2, _, ok2 := model.SplitTSIG(b); ok2 {
						sec = map[string][]byte{t2.KeyName.Lower().Pres(): secret}
					}
				}
				if ma, why := c11ModelVerify(b, sec, rm, to, uint64(time.Now().Unix())); !ma {
					w.Violation(key("accepts-altered/"+v.name+"/"+name), fmt.Sprintf("%s accepts after the alteration %q, the independent RFC 8945 check says: %s", v.name, name, why), map[string]any{"altered": hx(b), "original": hx(out), "alg": alg, "request_mac": hex.EncodeToString(rm), "timers_only": to})
				}
			}
			for k := 0; k < 24; k++ {
				bit := r.IntN(len(out) * 8)
				b := append([]byte(nil), out...)
				b[bit/8] ^= 1 << (bit % 8)
				alter("bit/"+c11Region(out, bit/8), b, reqMAC, timersOnly)
			}
			alter("structure/tsig-removed", append([]byte(nil), no...), reqMAC, timersOnly)
			alter("context/request-mac-altered", out, append(append([]byte(nil), reqMAC...), 1), timersOnly)
			if len(reqMAC) > 0 {
				alter("context/request-mac-missing", out, nil, timersOnly)
				alter("context/timers-only-toggled", out, reqMAC, !timersOnly)
			}
		}
		// a wrong secret (TsigVerify) and a key table without the key (TsigVerifyWithProvider)
		if o.want {
			cp := append([]byte(nil), out...)
			if verr := dns.TsigVerify(cp, base64.StdEncoding.EncodeToString(append([]byte{7}, secret...)), reqMACHex, timersOnly); verr == nil {
				w.Violation(key("accepts-altered/TsigVerify/wrong-secret"), "TsigVerify succeeds with a different secret", wit)
			}
			cp = append([]byte(nil), out...)
			if verr := dns.TsigVerifyWithProvider(cp, otherProvider, reqMACHex, timersOnly); verr == nil {
				w.Violation(key("accepts-altered/TsigVerifyWithProvider/unknown-key"), "TsigVerifyWithProvider succeeds although the key table does not hold the named key", wit)
			}
			w.Count("public_wrong_key_checks", 2)
		}
	}
}

func init() {
	plan, run := sections(
		section{"messages", tiered(300, 12000), c11Case},
		section{"chains", tiered(400, 12000), c11Chain},
		section{"concurrent", tiered(20, 400), c11Concurrent},
		section{"server-chain", tiered(50, 1500), c11ServerChain},
		section{"public-api", tiered(60, 1500), c11PublicAPI},
		section{"paced-server-chain", tiered(4, 40), c11PacedServerChain},
	)
	core.Register(&core.Monitor{
		ID: "C11", Level: "exploration", Plan: plan, Run: run,
		Rule: "5 HMAC algorithms x messages (query-only and 1..5-record messages of all types) x secrets of 1..64 octets x {no request MAC, request MAC, request MAC + timers-only} x fudge {1,60,256,300,65535}; " +
			"oracle = independent RFC 8945 digest (model encoder + crypto/hmac): output shape and MAC, window at t, t+-fudge, t+-(fudge+1), +-65536 multiples via the explicit-now hook; soundness under every single-bit flip (messages <= 160 octets, 200 sampled above), " +
			"~25 field/context/structure alterations; envelope chains of 1..6 made by the library and by the harness, with removal, reordering, alteration and wrong previous MACs; 8 goroutines signing and verifying their own messages with one shared secret at the same time; the exported TsigGenerate/TsigVerify (base64 secret) and the WithProvider pair at the wall-clock time they read themselves, signing times 5 s inside and outside the window, stubs without a time, a signed outgoing transfer whose second envelope is produced 2.4 s after the first, verified on arrival with a fudge of 1 s (verdicts bracketed by two clock readings, else undecided); non-trivial = distinct signed message / chain",
		Assumptions: []string{"the CLASS of the TSIG RR on the wire is not part of the statement's acceptance condition (the digest always uses ANY)", "now is passed explicitly through the verif hook VerifTsigVerify"},
		MinObserved: []string{"generated", "window_checks", "alterations_rejected", "exhaustive_bitflip_messages", "chains", "server_chains", "public_window_checks", "public_alterations_rejected", "paced_chain_envelopes_verified"},
	})
}
