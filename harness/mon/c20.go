package mon

import (
	"sync/atomic"
	"sync"
	"bytes"
	"encoding/base64"
	"encoding/binary"
	"fmt"
	"strings"

	"github.com/miekg/dns"

	"verifharness/core"
	"verifharness/model"
)

// c20Key is the model's equality key of a record: type, class, lower-cased owner wire and
// RDATA wire with every embedded domain name lower-cased.
func c20Key(r *model.Rec) string {
	rd, refs := r.Rdata()
	out := append([]byte{}, rd...)
	for _, ref := range refs {
		copy(out[ref.Off:], ref.N.Lower().Wire())
	}
	return fmt.Sprintf("%d/%d/%x/%x", r.Type, r.Class, r.Owner.Lower().Wire(), out)
}

func cloneRec(r *model.Rec) *model.Rec {
	c := *r
	c.Owner = r.Owner.Clone()
	c.Vals = make([]any, len(r.Vals))
	for i, v := range r.Vals {
		switch x := v.(type) {
		case model.Name:
			c.Vals[i] = x.Clone()
		case []byte:
			c.Vals[i] = append([]byte(nil), x...)
		case []model.Name:
			var ns []model.Name
			for _, n := range x {
				ns = append(ns, n.Clone())
			}
			c.Vals[i] = ns
		case model.Gateway:
			x.Host = x.Host.Clone()
			x.Addr = append([]byte(nil), x.Addr...)
			c.Vals[i] = x
		default:
			c.Vals[i] = v // other kinds are replaced wholesale by Mutate, never edited in place
		}
	}
	return &c
}

func flipCase(g *model.Gen, n model.Name) (model.Name, bool) {
	o := n.Clone()
	changed := false
	for _, l := range o {
		for i, c := range l {
			if (c >= 'a' && c <= 'z' || c >= 'A' && c <= 'Z') && g.R.IntN(2) == 0 {
				l[i] = c ^ 0x20
				changed = true
			}
		}
	}
	return o, changed
}

// caseVariant flips letter case in the owner (what=0) or in the embedded names (what=1).
func caseVariant(g *model.Gen, r *model.Rec, what int) (*model.Rec, bool) {
	c := cloneRec(r)
	changed := false
	if what == 0 {
		var ch bool
		c.Owner, ch = flipCase(g, c.Owner)
		return c, ch
	}
	for i, v := range c.Vals {
		switch x := v.(type) {
		case model.Name:
			var ch bool
			c.Vals[i], ch = flipCase(g, x)
			changed = changed || ch
		case []model.Name:
			for k := range x {
				var ch bool
				x[k], ch = flipCase(g, x[k])
				changed = changed || ch
			}
		case model.Gateway:
			if x.Type == 3 {
				var ch bool
				x.Host, ch = flipCase(g, x.Host)
				c.Vals[i] = x
				changed = changed || ch
			}
		}
	}
	return c, changed
}

func fromWire(r *model.Rec) dns.RR {
	// the buffer a record came from is the caller's again once the decoder has returned (a read loop
	// puts the next message into it): it is overwritten before the record is compared with anything
	buf := r.Wire()
	rr, _, err := dns.UnpackRR(buf, 0)
	for i := range buf {
		buf[i] = 0xA5
	}
	if err != nil {
		return nil
	}
	return rr
}

func c20Class(r *model.Rec) string {
	switch r.Type {
	case 41:
		return "OPT"
	case privType:
		return "XPRIV"
	}
	return ""
}

// c20DecoderAccepted: records the decoder accepts although a stricter reader would not (a mandatory
// list naming a key twice or out of order, parameters with empty values): two decodings of the same
// octets are duplicates, and so are a record and its copy.
func c20DecoderAccepted(w *core.W, j int) {
	g := model.NewGen(w.Rng(j, 9))
	owner := model.Name{[]byte("svc"), []byte("example")}
	params := [][]byte{
		{0, 0, 0, 4, 0, 1, 0, 1},                           // mandatory=alpn,alpn
		{0, 0, 0, 4, 0, 3, 0, 1},                           // mandatory=port,alpn (not in key order)
		{0, 0, 0, 6, 0, 1, 0, 3, 0, 1},                     // mandatory=alpn,port,alpn
		{0, 0, 0, 2, 0, 0},                                 // mandatory=mandatory
		{0, 0, 0, 4, 0, 1, 0, 1, 0, 1, 0, 3, 2, 'h', '2'},  // ... followed by the alpn it names
		{0, 3, 0, 2, 1, 187, 0, 1, 0, 3, 2, 'h', '3'},      // port before alpn (keys not ascending)
		{0, 1, 0, 3, 2, 'h', '2', 0, 1, 0, 3, 2, 'h', '2'}, // alpn twice
		{0, 4, 0, 0}, {0, 6, 0, 0}, {0, 2, 0, 0}, // empty hint lists, no-default-alpn
	}
	// APL items whose address carries bits beyond the prefix length (the decoder keeps them)
	apl := [][]byte{
		{0, 1, 8, 4, 10, 1, 2, 3},
		{0, 1, 22, 0x84, 198, 51, 103, 255},
		{0, 2, 35, 6, 0x20, 0x01, 0x0d, 0xb8, 0xff, 0xff},
		{0, 1, 0, 1, 7, 0, 1, 24, 3, 192, 0, 2},
	}
	for _, t := range []uint16{64, 65, 42, 42} {
		ps := params
		if t == 42 {
			ps = apl
		}
		for pi, p := range ps {
			rd := append([]byte{0, byte(1 + g.R.IntN(3))}, model.Name{[]byte("target"), []byte("example")}.Wire()...)
			rd = append(rd, p...)
			if t == 42 {
				rd = append([]byte(nil), p...)
			}
			wire := append([]byte(nil), owner.Wire()...)
			wire = binary.BigEndian.AppendUint16(wire, t)
			wire = binary.BigEndian.AppendUint16(wire, 1)
			wire = binary.BigEndian.AppendUint32(wire, 300)
			wire = binary.BigEndian.AppendUint16(wire, uint16(len(rd)))
			wire = append(wire, rd...)
			a, _, e1 := dns.UnpackRR(wire, 0)
			b, _, e2 := dns.UnpackRR(append([]byte(nil), wire...), 0)
			if e1 != nil || e2 != nil || a == nil || b == nil {
				w.Count("decoder_refused_odd_records", 1)
				continue
			}
			w.Eval(1)
			w.Count("decoder_accepted_odd_records", 1)
			wit := map[string]any{"wire": hx(wire), "params": pi}
			w.Guard("IsDuplicate", wit, func() {
				if !dns.IsDuplicate(a, a) || !dns.IsDuplicate(a, dns.Copy(a)) || !dns.IsDuplicate(dns.Copy(a), a) {
					w.Violation("C20/not-reflexive/"+typeName(t)+"/decoder-accepted", fmt.Sprintf("IsDuplicate(r, r) / (r, Copy(r)) is false for %s", cutS(a.String())), wit)
				}
				if !dns.IsDuplicate(a, b) || !dns.IsDuplicate(b, a) {
					w.Violation("C20/is-false-want-true/"+typeName(t)+"/decoder-accepted", fmt.Sprintf("two decodings of the same octets are not duplicates: %s", cutS(a.String())), wit)
				}
			})
		}
	}
}

func c20Pairs(w *core.W, j int) {
	registerPrivate()
	if j%40 == 0 {
		c20DecoderAccepted(w, j)
	}
	ls := c01Layouts()
	g := model.NewGen(w.Rng(j))
	g.NoHuge = true
	for k := 0; k < 6; k++ {
		l := ls[(j*6+k)%len(ls)]
		g.Plain = k%2 == 0 // letters make case variants meaningful
		g.MakePool(3)
		base := g.Rec(l)
		if c01Class(base, nil) != "" {
			continue // records the decoder cannot represent (C01 findings) are not "obtained from the wire"
		}
		variants := []struct {
			name string
			r    *model.Rec
		}{{"identical", cloneRec(base)}}
		t := cloneRec(base)
		t.TTL ^= 0x5555
		if l.Type != 41 {
			variants = append(variants, struct {
				name string
				r    *model.Rec
			}{"ttl", t})
		}
		if v, ok := caseVariant(g, base, 0); ok && l.Type != 41 {
			variants = append(variants, struct {
				name string
				r    *model.Rec
			}{"owner-case", v})
		}
		if v, ok := caseVariant(g, base, 1); ok {
			variants = append(variants, struct {
				name string
				r    *model.Rec
			}{"rdata-name-case", v})
		}
		// a base64 field whose text differs from the original's only in letter case: other octets
		for fi, fd := range l.Fields {
			if fd.Kind != model.KB64 && fd.Kind != model.KB64N {
				continue
			}
			old, ok := base.Vals[fi].([]byte)
			if !ok || len(old) == 0 {
				continue
			}
			txt := []byte(base64.StdEncoding.EncodeToString(old))
			for i, c := range txt {
				if c >= 'a' && c <= 'z' || c >= 'A' && c <= 'Z' {
					txt[i] = c ^ 0x20
				}
			}
			nb, err := base64.StdEncoding.DecodeString(string(txt))
			if err != nil || len(nb) != len(old) || bytes.Equal(nb, old) {
				continue
			}
			v := cloneRec(base)
			v.Vals[fi] = nb
			v.Fixup()
			if c01Class(v, nil) == "" {
				variants = append(variants, struct {
					name string
					r    *model.Rec
				}{"base64-text-case:" + fd.Go, v})
			}
		}
		for m := 0; m < 3; m++ {
			v := cloneRec(base)
			if fi := g.Mutate(v); fi >= 0 && c01Class(v, nil) == "" {
				variants = append(variants, struct {
					name string
					r    *model.Rec
				}{"field:" + l.Fields[fi].Go, v})
			}
		}
		if l.Type == 42 { // APL: the same address written as an IPv4 item and as an IPv4-mapped IPv6 item
			if items, ok := base.Vals[0].([]model.APLItem); ok {
				for i, it := range items {
					if it.Family != 1 {
						continue
					}
					v := cloneRec(base)
					ni := append([]model.APLItem(nil), items...)
					afd := append(append(make([]byte, 10), 0xff, 0xff), it.AFD...)
					ni[i] = model.APLItem{Family: 2, Prefix: it.Prefix, Neg: it.Neg, AFD: afd}
					v.Vals[0] = ni
					v.Fixup()
					variants = append(variants, struct {
						name string
						r    *model.Rec
					}{"apl-ipv4-mapped-item", v})
					break
				}
			}
		}
		if strings.HasPrefix(l.Name, "TYPE") && len(l.Fields) == 1 && l.Type < 65535 && model.Layouts[l.Type+1] == nil && model.Layouts[l.Type] == nil {
			// two unknown types (both decode into the same generic struct) with identical RDATA
			v := cloneRec(base)
			v.Type = l.Type + 1
			v.L = model.Unknown(v.Type)
			variants = append(variants, struct {
				name string
				r    *model.Rec
			}{"type-of-unknown", v})
		}
		cl := cloneRec(base)
		cl.Class ^= 2
		if l.Type != 41 && l.Type != 250 {
			variants = append(variants, struct {
				name string
				r    *model.Rec
			}{"class", cl})
		}
		a := fromWire(base)
		if a == nil {
			continue
		}
		w.Cover("type", l.Name)
		wit0 := map[string]any{"type": l.Name, "a": hx(base.Wire())}
		// reflexive, and with its copy
		w.Eval(1)
		w.Guard("IsDuplicate", wit0, func() {
			if !dns.IsDuplicate(a, a) || !dns.IsDuplicate(a, dns.Copy(a)) || !dns.IsDuplicate(dns.Copy(a), a) {
				w.Violation("C20/not-reflexive/"+l.Name, fmt.Sprintf("IsDuplicate(r, r)/IsDuplicate(r, Copy(r)) is false for %s", cutS(a.String())), wit0)
			}
		})
		var equalSet []dns.RR
		for _, v := range variants {
			b := fromWire(v.r)
			if b == nil {
				continue
			}
			want := c20Key(base) == c20Key(v.r)
			wit := map[string]any{"type": l.Name, "a": hx(base.Wire()), "b": hx(v.r.Wire()), "variant": v.name}
			w.Eval(1)
			w.Nontrivial(base.Wire(), v.r.Wire())
			w.Cover("variant", strings.SplitN(v.name, ":", 2)[0])
			if strings.HasPrefix(v.name, "field:") {
				w.Cover("mutated_field", l.Name+"."+v.name[6:])
			}
			w.Guard("IsDuplicate", wit, func() {
				ab, ba := dns.IsDuplicate(a, b), dns.IsDuplicate(b, a)
				if ab != ba {
					w.Violation("C20/not-symmetric/"+l.Name, fmt.Sprintf("IsDuplicate(a,b)=%v but IsDuplicate(b,a)=%v (%s)", ab, ba, v.name), wit)
				}
				if ab != want {
					cls := c20Class(base)
					if cls != "" && want {
						return // reported once under not-reflexive
					}
					vk := strings.SplitN(v.name, ":", 2)[0]
					w.Violation(fmt.Sprintf("C20/is-%v-want-%v/%s/%s", ab, want, l.Name, vk), fmt.Sprintf("IsDuplicate=%v, model equality=%v for variant %q\n a=%s\n b=%s", ab, want, v.name, cutS(a.String()), cutS(b.String())), wit)
				}
			})
			if want {
				equalSet = append(equalSet, b)
			}
		}
		// owners written with raw (unescaped) octets above 0x7F that differ from each other: no case
		// folding applies to them, whatever Unicode thinks of the byte sequences
		if l.Type != 41 && l.Type != 250 {
			ra := fromWire(base)
			if ra != nil {
				for _, pr := range [][2]string{{"\xff", "\xfe"}, {"\xe9", "\xc9"}, {"\xe2\x84\xaa", "k"}, {"\xc5\xbf", "s"}, {"\xc3\x89", "\xc3\xa9"}} {
					x, y := dns.Copy(ra), dns.Copy(ra)
					x.Header().Name = pr[0] + "raw.example."
					y.Header().Name = pr[1] + "raw.example."
					w.Eval(1)
					w.Cover("variant", "owner-raw-8bit")
					if dns.IsDuplicate(x, y) || dns.IsDuplicate(y, x) {
						w.Violation("C20/is-true-want-false/"+l.Name+"/owner-raw-8bit", fmt.Sprintf("records owned by %q and %q are reported as duplicates", x.Header().Name, y.Header().Name), map[string]any{"type": l.Name})
					}
				}
			}
		}
		// the same records as they come out of a compressed message: the second copy of an embedded
		// name is a pointer, so the records' RDLENGTH differ while their uncompressed RDATA does not
		if l.Type != 41 && l.Type != 250 && l.Type != 249 {
			for ci, allRdata := range []bool{false, true} {
				mm := &model.Msg{ID: uint16(j), Bits: 0x8000, An: []*model.Rec{cloneRec(base), cloneRec(base)}}
				for _, v := range variants {
					if c20Key(base) == c20Key(v.r) && len(mm.An) < 5 {
						mm.An = append(mm.An, cloneRec(v.r))
					}
				}
				wire := mm.WireCompressed(allRdata)
				if len(wire) > 65535 {
					continue
				}
				dm := new(dns.Msg)
				wit := map[string]any{"type": l.Name, "msg": hx(wire), "all_rdata_names_compressed": allRdata}
				if err := dm.Unpack(wire); err != nil || len(dm.Answer) != len(mm.An) {
					continue // what the decoder accepts is C02/C01's subject
				}
				w.Eval(1)
				w.Cover("variant", []string{"from-compressed-message", "from-fully-compressed-message"}[ci])
				w.Guard("IsDuplicate", wit, func() {
					for x := range dm.Answer {
						for y := range dm.Answer {
							if !dns.IsDuplicate(dm.Answer[x], dm.Answer[y]) {
								if c20Class(base) != "" {
									return
								}
								w.Violation("C20/is-false-want-true/"+l.Name+"/from-compressed-message", fmt.Sprintf("records %d and %d of one compressed message have equal uncompressed octets (up to case) but IsDuplicate is false\n a=%s\n b=%s", x, y, cutS(dm.Answer[x].String()), cutS(dm.Answer[y].String())), wit)
								return
							}
						}
					}
				})
			}
		}
		// owners (and embedded names) that differ in one octet by 0x20 where neither octet is a letter
		if l.Type != 41 && l.Type != 250 {
			p1 := cloneRec(base)
			p1.Owner = model.Name{[]byte("ho[st]^`_x"), []byte("example")}
			p2 := cloneRec(p1)
			pos := []int{2, 5, 6, 7, 8}[g.R.IntN(5)]
			p2.Owner[0][pos] ^= 0x20
			ra, rb := fromWire(p1), fromWire(p2)
			if ra != nil && rb != nil {
				w.Eval(1)
				w.Cover("variant", "owner-0x20-nonletter")
				witp := map[string]any{"type": l.Name, "a": hx(p1.Wire()), "b": hx(p2.Wire()), "variant": "owner-0x20-nonletter"}
				w.Guard("IsDuplicate", witp, func() {
					if dns.IsDuplicate(ra, rb) || dns.IsDuplicate(rb, ra) {
						w.Violation("C20/is-true-want-false/"+l.Name+"/owner-0x20-nonletter", fmt.Sprintf("records whose owners differ (%q vs %q) are reported as duplicates", p1.Owner.Pres(), p2.Owner.Pres()), witp)
					}
				})
			}
			if v, ok := caseVariant(g, base, 1); ok { // the type has embedded names: the same inside RDATA
				_ = v
				q1 := cloneRec(base)
				changed := false
				for i, val := range q1.Vals {
					if n, ok := val.(model.Name); ok && len(n) > 0 && !changed {
						nn := n.Clone()
						nn[0] = []byte("na[me]^`")
						q1.Vals[i] = nn
						changed = true
					}
				}
				if changed {
					q1.Fixup()
					q2 := cloneRec(q1)
					for i, val := range q2.Vals {
						if n, ok := val.(model.Name); ok && len(n) > 0 && string(n[0]) == "na[me]^`" {
							nn := n.Clone()
							nn[0][2] ^= 0x20
							q2.Vals[i] = nn
							break
						}
					}
					q2.Fixup()
					ra, rb := fromWire(q1), fromWire(q2)
					if ra != nil && rb != nil && c20Key(q1) != c20Key(q2) {
						w.Eval(1)
						w.Cover("variant", "rdata-name-0x20-nonletter")
						witq := map[string]any{"type": l.Name, "a": hx(q1.Wire()), "b": hx(q2.Wire()), "variant": "rdata-name-0x20-nonletter"}
						if dns.IsDuplicate(ra, rb) || dns.IsDuplicate(rb, ra) {
							w.Violation("C20/is-true-want-false/"+l.Name+"/rdata-name-0x20-nonletter", "records whose embedded names differ by 0x20 in a non-letter are reported as duplicates", witq)
						}
					}
				}
			}
		}
		// transitivity over the equal variants
		if c20Class(base) == "" {
			for x := 0; x < len(equalSet); x++ {
				for y := 0; y < len(equalSet); y++ {
					if !dns.IsDuplicate(equalSet[x], equalSet[y]) {
						w.Violation("C20/not-transitive/"+l.Name, fmt.Sprintf("two records both equal to a third are not duplicates of each other: %s / %s", cutS(equalSet[x].String()), cutS(equalSet[y].String())), wit0)
					}
				}
			}
			w.Count("triples", len(equalSet)*len(equalSet))
		}
	}
}

// rdataText is the record's text without its header.
func rdataText(rr dns.RR) string {
	return strings.TrimPrefix(rr.String(), rr.Header().String())
}

func c20DedupKey(rr dns.RR) string {
	h := rr.Header()
	n, _, _ := model.ParsePres(h.Name)
	return fmt.Sprintf("%s|%d|%d|%s", n.Lower().Pres(), h.Class, h.Rrtype, rdataText(rr))
}

func c20Dedup(w *core.W, j int) {
	var ls []*model.Layout
	for _, l := range model.LayoutList {
		if !l.NoText {
			ls = append(ls, l)
		}
	}
	g := model.NewGen(w.Rng(j))
	g.NoHuge = true
	g.MaxOpaque = 40
	// one scratch map serves several calls (the documented use: "m is used to store the RRs temporary");
	// later lists hold records equal to those an earlier call kept
	shared := map[string]dns.RR{}
	var carried []*model.Rec
	for k := 0; k < 4; k++ {
		g.Plain = k%2 == 0
		g.MakePool(2)
		nb := 1 + g.R.IntN(4)
		var bases []*model.Rec
		if j%2 == 1 {
			bases = append(bases, carried...)
		}
		for i := 0; i < nb; i++ {
			r := g.Rec(ls[g.R.IntN(len(ls))])
			if c01Class(r, nil) == "" {
				bases = append(bases, r)
			}
		}
		if len(bases) == 0 {
			continue
		}
		carried = []*model.Rec{bases[len(bases)-1], bases[0]}
		var list []dns.RR
		n := g.Len(1, 14)
		for i := 0; i < n; i++ {
			b := bases[g.R.IntN(len(bases))]
			v := cloneRec(b)
			switch g.R.IntN(5) {
			case 0:
				v.TTL = uint32(g.Uint(32))
			case 1:
				v, _ = caseVariant(g, v, 0)
				v.TTL = uint32(g.R.IntN(1000))
			case 2:
				v, _ = caseVariant(g, v, 1)
			case 3:
				g.Mutate(v)
			}
			if rr := fromWire(v); rr != nil && c01Class(v, nil) == "" {
				list = append(list, rr)
			}
		}
		if len(list) == 0 {
			continue
		}
		// the very same record value may stand in the list more than once (a section appended to itself,
		// a cached record referenced twice)
		if k%2 == 1 {
			for x := g.R.IntN(4); x > 0; x-- {
				list = append(list, list[g.R.IntN(len(list))])
			}
			w.Count("dedup_lists_with_repeated_pointers", 1)
		}
		// reference: stable first-occurrence filter, survivor carries the minimum TTL of its group
		type grp struct {
			first  int
			minTTL uint32
		}
		groups := map[string]*grp{}
		var order []string
		for i, rr := range list {
			key := c20DedupKey(rr)
			if gr, ok := groups[key]; ok {
				if rr.Header().Ttl < gr.minTTL {
					gr.minTTL = rr.Header().Ttl
				}
				continue
			}
			groups[key] = &grp{first: i, minTTL: rr.Header().Ttl}
			order = append(order, key)
		}
		var desc []string
		for _, rr := range list {
			desc = append(desc, cutS(rr.String()))
		}
		wit := map[string]any{"list": desc}
		in := append([]dns.RR(nil), list...)
		orig := append([]dns.RR(nil), list...)
		var out []dns.RR
		w.Eval(1)
		w.Count("dedup_lists", 1)
		if len(order) < len(list) {
			w.NontrivialStr(desc...)
			w.Count("dedup_lists_with_duplicates", 1)
		}
		var m map[string]dns.RR
		if g.R.IntN(2) == 0 {
			m = map[string]dns.RR{}
		}
		if j%2 == 1 {
			m = shared
			w.Count("dedup_calls_with_reused_map", 1)
		}
		if w.Guard("Dedup", wit, func() { out = dns.Dedup(in, m) }) {
			continue
		}
		if m != nil && len(m) != 0 {
			w.Violation("C20/dedup-scratch-map-not-empty", fmt.Sprintf("Dedup left %d record(s) in the scratch map: the next call using the map takes its records for duplicates of these", len(m)), wit)
			clear(m)
		}
		if len(out) != len(order) {
			w.Violation("C20/dedup-count", fmt.Sprintf("Dedup returned %d records, %d groups expected", len(out), len(order)), wit)
			continue
		}
		for i, key := range order {
			gr := groups[key]
			if out[i] != orig[gr.first] {
				w.Violation("C20/dedup-representative", fmt.Sprintf("position %d: expected the first occurrence (input index %d) of its group, got %s", i, gr.first, cutS(out[i].String())), wit)
				break
			}
			if out[i].Header().Ttl != gr.minTTL {
				w.Violation("C20/dedup-ttl", fmt.Sprintf("position %d carries TTL %d, the smallest TTL of its group is %d", i, out[i].Header().Ttl, gr.minTTL), wit)
				break
			}
		}
		if w.WantSample() && len(order) < len(list) {
			w.Sample(map[string]any{"input": desc, "groups": len(order)})
		}
	}
}

// c20HandBuilt: "holds between a record and its copy" for records a program filled in by hand (a field,
// an EDNS0 option or an SVCB parameter set directly: addresses in 4- and 16-octet form, hex in either
// case, unpadded base64, ...), as long as the packer accepts the value.
func c20HandBuilt(w *core.W, j int) {
	ls := c01Layouts()
	g := model.NewGen(w.Rng(j))
	g.NoHuge = true
	g.MaxOpaque = 60
	for k := 0; k < 10; k++ {
		l := ls[(j*10+k)%len(ls)]
		if l.Type == 41 { // OPT: recorded finding C20/not-reflexive/OPT
			continue
		}
		rr, err := buildAny(g.Rec(l))
		if err != nil || rr == nil {
			continue
		}
		if _, priv := rr.(*dns.PrivateRR); priv {
			continue
		}
		touched := handMutate(g, rr)
		for x := 0; x < 2 && (l.Type == 64 || l.Type == 65 || l.Type == 42); x++ {
			touched = append(touched, handMutate(g, rr)...)
		}
		if len(touched) == 0 {
			continue
		}
		// only values the packer accepts are records (an alpn id over 255 octets, an IPv6 address in an
		// ipv4hint ... make a struct that denotes nothing; SVCB compares parameters by their wire form)
		if _, perr := dns.PackRR(rr, make([]byte, 70000), 0, nil, false); perr != nil {
			w.Count("hand_built_unpackable", 1)
			continue
		}
		w.Eval(1)
		w.Count("hand_built_records", 1)
		wit := map[string]any{"type": l.Name, "fields_set_by_hand": touched, "value": cutS(fmt.Sprintf("%#v", rr))}
		w.Guard("IsDuplicate(hand-built)", wit, func() {
			cp := dns.Copy(rr)
			if !dns.IsDuplicate(rr, rr) || !dns.IsDuplicate(rr, cp) || !dns.IsDuplicate(cp, rr) {
				w.Violation("C20/not-reflexive/"+l.Name+"/hand-built", fmt.Sprintf("IsDuplicate(r, r) / (r, Copy(r)) / (Copy(r), r) is not true for a %s whose %v were set by hand: %s", l.Name, touched, cutS(rr.String())), wit)
			}
		})
	}
}

// c20TypeLists: records that carry a list of types (NSEC, NSEC3, CSYNC, NXT) built by hand with lists the
// wire never yields - a type named twice, types out of order. Whatever the relation makes of them, it is
// an equivalence: symmetric over every pair, transitive over every triple of the family.
func c20TypeLists(w *core.W, j int) {
	alphabet := []uint16{dns.TypeA, dns.TypeMX, dns.TypeTXT, dns.TypeAAAA, dns.TypeRRSIG}
	var lists [][]uint16
	n := 2 + j%2
	var rec func(cur []uint16)
	rec = func(cur []uint16) {
		if len(cur) == n {
			lists = append(lists, append([]uint16(nil), cur...))
			return
		}
		for _, t := range alphabet[:3+j%3] {
			rec(append(cur, t))
		}
	}
	rec(nil)
	mk := func(kind int, bm []uint16) dns.RR {
		h := dns.RR_Header{Name: "types.example.", Class: 1, Ttl: 60}
		switch kind {
		case 0:
			h.Rrtype = dns.TypeNSEC
			return &dns.NSEC{Hdr: h, NextDomain: "next.example.", TypeBitMap: bm}
		case 1:
			h.Rrtype = dns.TypeNSEC3
			return &dns.NSEC3{Hdr: h, Hash: 1, Iterations: 1, SaltLength: 0, Salt: "", HashLength: 20, NextDomain: "0123456789ABCDEFGHIJKLMNOPQRSTUV", TypeBitMap: bm}
		case 2:
			h.Rrtype = dns.TypeCSYNC
			return &dns.CSYNC{Hdr: h, Serial: 1, Flags: 3, TypeBitMap: bm}
		}
		h.Rrtype = dns.TypeNXT
		return &dns.NXT{NSEC: dns.NSEC{Hdr: h, NextDomain: "next.example.", TypeBitMap: bm}}
	}
	kind := (j / 6) % 4
	name := []string{"NSEC", "NSEC3", "CSYNC", "NXT"}[kind]
	var rrs []dns.RR
	for _, l := range lists {
		rrs = append(rrs, mk(kind, l))
	}
	w.Eval(1)
	w.Count("type_list_families", 1)
	dup := make([][]bool, len(rrs))
	wit := map[string]any{"type": name, "list_length": n}
	if w.Guard("IsDuplicate(type lists)", wit, func() {
		for a := range rrs {
			dup[a] = make([]bool, len(rrs))
			for b := range rrs {
				dup[a][b] = dns.IsDuplicate(rrs[a], rrs[b])
			}
		}
	}) {
		return
	}
	for a := range rrs {
		if !dup[a][a] {
			w.Violation("C20/not-reflexive/"+name+"/type-list", fmt.Sprintf("IsDuplicate(r, r) is false for %s", cutS(rrs[a].String())), wit)
			return
		}
		for b := range rrs {
			if dup[a][b] != dup[b][a] {
				w.Violation("C20/not-symmetric/"+name+"/type-list", fmt.Sprintf("IsDuplicate(a,b)=%v but IsDuplicate(b,a)=%v for type lists %v and %v", dup[a][b], dup[b][a], lists[a], lists[b]), wit)
				return
			}
			if !dup[a][b] {
				continue
			}
			for c := range rrs {
				if dup[b][c] && !dup[a][c] {
					w.Violation("C20/not-transitive/"+name+"/type-list", fmt.Sprintf("type lists %v ~ %v and %v ~ %v, but not %v ~ %v", lists[a], lists[b], lists[b], lists[c], lists[a], lists[c]), wit)
					return
				}
			}
		}
	}
	w.Count("type_list_pairs", len(rrs)*len(rrs))
	w.NontrivialStr("type-lists", name, fmt.Sprint(n), fmt.Sprint(j%3))
}

// c20ConcurrentDedup: Dedup from 8 goroutines at once, each on lists of its own (hundreds of records, every
// group two to four strong): what each call returns is what the same call returns alone.
func c20ConcurrentDedup(w *core.W, j int) {
	mkList := func(t, round int) []dns.RR {
		var l []dns.RR
		groups := 150 + (t*37+round*11+j)%200
		for gi := 0; gi < groups; gi++ {
			for c := 0; c < 2+(gi+t)%3; c++ {
				name := fmt.Sprintf("h%d-%d.example.", t, gi)
				if c%2 == 1 {
					name = strings.ToUpper(name)
				}
				l = append(l, &dns.A{Hdr: dns.RR_Header{Name: name, Rrtype: dns.TypeA, Class: 1, Ttl: uint32(1000 - c*100 + gi)}, A: []byte{10, byte(t), byte(gi >> 8), byte(gi)}})
			}
		}
		// interleave the groups: members are not adjacent
		out := make([]dns.RR, 0, len(l))
		for off := 0; off < 3; off++ {
			for i := off; i < len(l); i += 3 {
				out = append(out, l[i])
			}
		}
		return out
	}
	render := func(l []dns.RR) string {
		var sb strings.Builder
		for _, r := range l {
			sb.WriteString(r.String())
			sb.WriteByte('\n')
		}
		return sb.String()
	}
	const rounds = 6
	want := map[[2]int]string{}
	for t := 0; t < 8; t++ {
		for r := 0; r < rounds; r++ {
			want[[2]int{t, r}] = render(dns.Dedup(mkList(t, r), nil))
		}
	}
	var bad atomic.Int32
	var first atomic.Value
	var wg sync.WaitGroup
	for t := 0; t < 8; t++ {
		wg.Add(1)
		go func(t int) {
			defer wg.Done()
			defer func() {
				if r := recover(); r != nil {
					bad.Add(1)
					first.CompareAndSwap(nil, fmt.Sprintf("panic: %v", r))
				}
			}()
			for rep := 0; rep < 10; rep++ {
				for r := 0; r < rounds; r++ {
					in := mkList(t, r)
					if got := render(dns.Dedup(in, nil)); got != want[[2]int{t, r}] {
						bad.Add(1)
						first.CompareAndSwap(nil, fmt.Sprintf("list of %d records: %d lines alone, %d lines now", len(in), strings.Count(want[[2]int{t, r}], "\n"), strings.Count(got, "\n")))
					}
				}
			}
		}(t)
	}
	wg.Wait()
	w.Eval(1)
	w.Count("concurrent_dedup_calls", 8*10*rounds)
	if n := bad.Load(); n > 0 {
		w.Violation("C20/concurrent-use-differs/Dedup-large-lists", fmt.Sprintf("%d of %d Dedup calls made from 8 goroutines at once, each on a list of its own, returned something else than the same call made alone (%v)", n, 8*10*rounds, first.Load()), nil)
	}
	w.NontrivialStr("concurrent-dedup", fmt.Sprint(j))
}

func init() {
	plan, run := sections(
		section{"pairs", tiered(3000, 80000), c20Pairs},
		section{"hand-built", tiered(600, 15000), c20HandBuilt},
		section{"dedup", tiered(2500, 60000), c20Dedup},
		concurrentSection("C20"),
		section{"type-lists", tiered(24, 240), c20TypeLists},
		section{"concurrent-dedup", tiered(8, 80), c20ConcurrentDedup},
	)
	core.Register(&core.Monitor{
		ID: "C20", Level: "exploration", Plan: plan, Run: run,
		Rule: "per registry type: a wire-originated record against its copy and variants {identical, TTL, owner case, embedded-name case, one RDATA field re-drawn (x3), class, APL IPv4 item vs the same address as IPv4-mapped IPv6 item}; oracle = model key (type, class, lower-cased owner wire, RDATA wire with embedded names lower-cased); " +
			"symmetry, reflexivity, transitivity over the equal variants; Dedup against a stable first-occurrence filter keyed by text minus TTL with lower-cased owner, minimum TTL, with nil, fresh and reused scratch maps (later lists repeat records an earlier call kept); hand-built NSEC/NSEC3/CSYNC/NXT records over all type lists of length 2-3 from a 3-5 letter alphabet (repeats, any order): reflexive, symmetric, transitive; Dedup of 300-1000-record lists from 8 goroutines at once; the same operations called from 8 goroutines at once give the results they give alone; non-trivial = distinct (record, variant) pair / list with duplicates",
		MinObserved: []string{"triples", "dedup_lists_with_duplicates", "hand_built_records", "type_list_pairs", "concurrent_dedup_calls"},
	})
}
