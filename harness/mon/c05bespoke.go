package mon

import (
	"bytes"
	"encoding/base32"
	"encoding/base64"
	"encoding/hex"
	"fmt"
	"net/netip"
	"strconv"
	"strings"
	"time"

	"verifharness/model"
)

// Independent readers for some of the bespoke presentation formats, written from the RFC text (RFC 1876
// LOC, RFC 3123 APL, RFC 5155 NSEC3/NSEC3PARAM, RFC 4034 NSEC / RFC 7477 CSYNC type lists, RFC 4025
// IPSECKEY, RFC 8777 AMTRELAY). They read the tokens of a record's text and return the field values the
// way another implementation would understand them; c05Independent compares these with the model record.
// A change made consistently to the library's printer and parser is invisible to a round trip but not
// to these.

var bespokeText = map[uint16]bool{29: true, 42: true, 50: true, 51: true, 47: true, 62: true, 45: true, 260: true, 46: true, 24: true, 55: true}

// decimalScaled reads a non-negative decimal string ("12", "12.3", "0.05") as an integer scaled by 10^frac.
func decimalScaled(s string, frac int) (int64, bool) {
	ip, fp, _ := strings.Cut(s, ".")
	if ip == "" || len(fp) > frac {
		return 0, false
	}
	for len(fp) < frac {
		fp += "0"
	}
	v, err := strconv.ParseInt(ip+fp, 10, 64)
	return v, err == nil && v >= 0
}

func typeFromMnemonic(s string) (uint16, bool) {
	u := strings.ToUpper(s)
	if strings.HasPrefix(u, "TYPE") {
		v, err := strconv.ParseUint(u[4:], 10, 16)
		return uint16(v), err == nil
	}
	for _, l := range model.LayoutList {
		if l.Name == u {
			return l.Type, true
		}
	}
	// IANA mnemonics of types that have no layout in the model (meta types, obsolete and experimental ones)
	if v, ok := map[string]uint16{"NSAP": 22, "ATMA": 34, "A6": 38, "SINK": 40, "UNSPEC": 103, "IXFR": 251, "AXFR": 252, "MAILB": 253, "MAILA": 254, "ANY": 255, "DOA": 259, "WALLET": 262, "CLA": 263, "IPN": 264}[u]; ok {
		return v, true
	}
	return 0, false
}

// readBitmap reads a list of type mnemonics. A mnemonic this reader does not know is reported as
// "skip" (not judged: its table is the IANA registry as far as it was typed in, not the library's).
func readBitmap(toks []model.Token) ([]uint16, string) {
	var out []uint16
	for _, t := range toks {
		v, ok := typeFromMnemonic(t.Raw)
		if !ok {
			return nil, "skip"
		}
		out = append(out, v)
	}
	return out, ""
}

// sameBitmap compares two type lists as sets (a bitmap has no order and no repetitions).
func sameBitmap(got []uint16, want []uint16) bool {
	a, b := map[uint16]bool{}, map[uint16]bool{}
	for _, x := range got {
		a[x] = true
	}
	for _, x := range want {
		b[x] = true
	}
	if len(a) != len(b) {
		return false
	}
	for x := range a {
		if !b[x] {
			return false
		}
	}
	return true
}

// bitmapOutsideText: type codes 0 and 65535 print as "None" / "Reserved", which nothing reads back - a
// recorded finding with keys of its own (C05/.../TypeBitMap/boundary*), not judged again here.
func bitmapOutsideText(want []uint16) bool {
	for _, x := range want {
		if x == 0 || x == 65535 {
			return true
		}
	}
	return false
}

// locPrecision reads "1m", "0.05m", "10000.00m" as the RFC 1876 mantissa/exponent octet (centimetres).
func locPrecision(s string) (uint64, bool) {
	cm, ok := decimalScaled(strings.TrimSuffix(s, "m"), 2)
	if !ok {
		return 0, false
	}
	d := strconv.FormatInt(cm, 10)
	if cm == 0 {
		return 0, true
	}
	if strings.Trim(d[1:], "0") != "" || len(d) > 10 {
		return 0, false
	}
	return uint64(d[0]-'0')<<4 | uint64(len(d)-1), true
}

// c05Bespoke compares the RDATA tokens with the model record for the types in bespokeText; it returns
// a description of the first difference ("" when the text denotes the record).
func c05Bespoke(r *model.Rec, rd []model.Token) string {
	val := func(name string) any {
		if i := r.L.FieldIndex(name); i >= 0 {
			return r.Vals[i]
		}
		return nil
	}
	u := func(name string) uint64 { x, _ := val(name).(uint64); return x }
	num := func(t model.Token, want uint64, what string) string {
		if x, err := strconv.ParseUint(t.Raw, 10, 64); err != nil || x != want {
			return fmt.Sprintf("%s: token %q, want %d", what, t.Raw, want)
		}
		return ""
	}
	switch r.Type {
	case 29: // LOC: d m s.sss N|S d m s.sss E|W alt[m] size[m] hp[m] vp[m]
		if len(rd) != 12 {
			return fmt.Sprintf("%d tokens, want 12 (d m s N d m s E alt size hp vp)", len(rd))
		}
		angle := func(t []model.Token, pos, neg string) (uint64, string) {
			d, e1 := strconv.ParseUint(t[0].Raw, 10, 32)
			m, e2 := strconv.ParseUint(t[1].Raw, 10, 32)
			ms, ok := decimalScaled(t[2].Raw, 3)
			if e1 != nil || e2 != nil || !ok || m > 59 || ms > 59999 {
				return 0, fmt.Sprintf("angle %q %q %q", t[0].Raw, t[1].Raw, t[2].Raw)
			}
			v := int64(d)*3600000 + int64(m)*60000 + ms
			switch strings.ToUpper(t[3].Raw) {
			case pos:
				return uint64(int64(1)<<31 + v), ""
			case neg:
				return uint64(int64(1)<<31 - v), ""
			}
			return 0, fmt.Sprintf("hemisphere %q", t[3].Raw)
		}
		lat, why := angle(rd[0:4], "N", "S")
		if why == "" && lat != u("Latitude") {
			why = fmt.Sprintf("latitude reads as %d, want %d", lat, u("Latitude"))
		}
		if why != "" {
			return why
		}
		lon, why := angle(rd[4:8], "E", "W")
		if why == "" && lon != u("Longitude") {
			why = fmt.Sprintf("longitude reads as %d, want %d", lon, u("Longitude"))
		}
		if why != "" {
			return why
		}
		as := strings.TrimSuffix(rd[8].Raw, "m")
		neg := strings.HasPrefix(as, "-")
		cm, ok := decimalScaled(strings.TrimPrefix(as, "-"), 2)
		if !ok {
			return fmt.Sprintf("altitude %q", rd[8].Raw)
		}
		if neg {
			cm = -cm
		}
		if uint64(cm+10000000) != u("Altitude") {
			return fmt.Sprintf("altitude %q reads as %d, want %d", rd[8].Raw, cm+10000000, u("Altitude"))
		}
		for i, name := range []string{"Size", "HorizPre", "VertPre"} {
			p, ok := locPrecision(rd[9+i].Raw)
			if !ok || p != u(name) {
				return fmt.Sprintf("%s %q reads as %#x, want %#x", name, rd[9+i].Raw, p, u(name))
			}
		}
		if u("Version") != 0 {
			return "version is not 0 (no text form)"
		}
	case 42: // APL: [!]afi:address/prefix ...
		items, _ := val("Prefixes").([]model.APLItem)
		if len(rd) != len(items) {
			return fmt.Sprintf("%d items in the text, want %d", len(rd), len(items))
		}
		for i, t := range rd {
			s := t.Raw
			neg := strings.HasPrefix(s, "!")
			s = strings.TrimPrefix(s, "!")
			fam, rest, ok1 := strings.Cut(s, ":")
			addr, plen, ok2 := strings.Cut(rest, "/")
			f, e1 := strconv.ParseUint(fam, 10, 16)
			p, e2 := strconv.ParseUint(plen, 10, 8)
			a, e3 := netip.ParseAddr(addr)
			if !ok1 || !ok2 || e1 != nil || e2 != nil || e3 != nil {
				return fmt.Sprintf("item %q is not [!]afi:address/prefix", t.Raw)
			}
			var b []byte
			if f == 1 && a.Is4() {
				x := a.As4()
				b = x[:]
			} else if f == 2 && a.Is6() {
				x := a.As16()
				b = x[:]
			} else {
				return fmt.Sprintf("item %q: address family %d does not fit the address", t.Raw, f)
			}
			b = bytes.TrimRight(b, "\x00")
			it := items[i]
			if uint16(f) != it.Family || uint8(p) != it.Prefix || neg != it.Neg || !bytes.Equal(b, bytes.TrimRight(it.AFD, "\x00")) {
				return fmt.Sprintf("item %q reads as family %d prefix %d negation %v address %x, want %d %d %v %x", t.Raw, f, p, neg, b, it.Family, it.Prefix, it.Neg, it.AFD)
			}
		}
	case 50, 51: // NSEC3 / NSEC3PARAM: alg flags iterations salt|- [next-hashed-owner types...]
		min := 4
		if r.Type == 50 {
			min = 5
		}
		if len(rd) < min {
			return fmt.Sprintf("%d tokens", len(rd))
		}
		for i, name := range []string{"Hash", "Flags", "Iterations"} {
			if why := num(rd[i], u(name), name); why != "" {
				return why
			}
		}
		salt, _ := val("Salt").([]byte)
		if rd[3].Raw == "-" {
			if len(salt) != 0 {
				return "salt \"-\" for a non-empty salt"
			}
		} else if b, err := hex.DecodeString(rd[3].Raw); err != nil || !bytes.Equal(b, salt) {
			return fmt.Sprintf("salt %q, want %x", rd[3].Raw, salt)
		}
		if r.Type == 51 {
			if len(rd) != 4 {
				return "tokens after the salt"
			}
			break
		}
		next, _ := val("NextDomain").([]byte)
		b, err := base32.HexEncoding.WithPadding(base32.NoPadding).DecodeString(strings.ToUpper(rd[4].Raw))
		if err != nil || !bytes.Equal(b, next) {
			return fmt.Sprintf("next hashed owner %q reads as %x, want %x", rd[4].Raw, b, next)
		}
		bm, why := readBitmap(rd[5:])
		if want, _ := val("TypeBitMap").([]uint16); why == "skip" || bitmapOutsideText(want) {
			return ""
		} else if !sameBitmap(bm, want) {
			return fmt.Sprintf("type list reads as %v, want %v", bm, want)
		}
	case 47: // NSEC: next types...
		if len(rd) < 1 {
			return "no tokens"
		}
		want, _ := val("NextDomain").(model.Name)
		if n, fq, err := model.ParsePres(rd[0].Raw); err != nil || !fq || !n.Equal(want) {
			return fmt.Sprintf("next domain name %q does not denote %s", rd[0].Raw, want.Pres())
		}
		bm, why := readBitmap(rd[1:])
		if want, _ := val("TypeBitMap").([]uint16); why == "skip" || bitmapOutsideText(want) {
			return ""
		} else if !sameBitmap(bm, want) {
			return fmt.Sprintf("type list reads as %v, want %v", bm, want)
		}
	case 62: // CSYNC: serial flags types...
		if len(rd) < 2 {
			return "too few tokens"
		}
		if why := num(rd[0], u("Serial"), "Serial"); why != "" {
			return why
		}
		if why := num(rd[1], u("Flags"), "Flags"); why != "" {
			return why
		}
		bm, why := readBitmap(rd[2:])
		if want, _ := val("TypeBitMap").([]uint16); why == "skip" || bitmapOutsideText(want) {
			return ""
		} else if !sameBitmap(bm, want) {
			return fmt.Sprintf("type list reads as %v, want %v", bm, want)
		}
	case 46, 24: // RRSIG / SIG: covered alg labels origttl expiration inception keytag signer signature
		if len(rd) < 8 { // (an empty signature leaves no ninth token)
			return fmt.Sprintf("%d tokens", len(rd))
		}
		if u("TypeCovered") == 0 || u("TypeCovered") == 65535 {
			return "" // prints as None / Reserved: recorded finding with keys of its own
		}
		if tc, ok := typeFromMnemonic(rd[0].Raw); ok && uint64(tc) != u("TypeCovered") {
			return fmt.Sprintf("type covered %q reads as %d, want %d", rd[0].Raw, tc, u("TypeCovered"))
		}
		for i, name := range map[int]string{1: "Algorithm", 2: "Labels", 3: "OrigTtl", 6: "KeyTag"} {
			if why := num(rd[i], u(name), name); why != "" {
				return why
			}
		}
		for i, name := range map[int]string{4: "Expiration", 5: "Inception"} {
			// RFC 4034 s.3.2: YYYYMMDDHHmmSS in UTC (or a plain number of seconds), a 32-bit serial number
			var secs uint64
			if tm, err := time.Parse("20060102150405", rd[i].Raw); err == nil && len(rd[i].Raw) == 14 {
				secs = uint64(uint32(tm.Unix()))
			} else if v, err := strconv.ParseUint(rd[i].Raw, 10, 32); err == nil {
				secs = v
			} else {
				return fmt.Sprintf("%s %q is neither YYYYMMDDHHmmSS nor a number", name, rd[i].Raw)
			}
			if secs != u(name) {
				return fmt.Sprintf("%s %q reads as %d, want %d", name, rd[i].Raw, secs, u(name))
			}
		}
		signer, _ := val("SignerName").(model.Name)
		if n, fq, err := model.ParsePres(rd[7].Raw); err != nil || !fq || !n.Equal(signer) {
			return fmt.Sprintf("signer name %q does not denote %s", rd[7].Raw, signer.Pres())
		}
		var sb strings.Builder
		for _, t := range rd[8:] {
			sb.WriteString(t.Raw)
		}
		sig, _ := val("Signature").([]byte)
		if b, err := base64.StdEncoding.DecodeString(sb.String()); err != nil || !bytes.Equal(b, sig) {
			return fmt.Sprintf("signature %q does not decode to the field (%d octets)", cutS(sb.String()), len(sig))
		}
	case 55: // HIP: pk-algorithm hit(hex) public-key(base64) rendezvous-servers...
		if len(rd) < 3 {
			return fmt.Sprintf("%d tokens", len(rd))
		}
		if why := num(rd[0], u("PublicKeyAlgorithm"), "PublicKeyAlgorithm"); why != "" {
			return why
		}
		hit, _ := val("Hit").([]byte)
		if b, err := hex.DecodeString(rd[1].Raw); err != nil || !bytes.Equal(b, hit) {
			return fmt.Sprintf("HIT %q, want %x", rd[1].Raw, hit)
		}
		pk, _ := val("PublicKey").([]byte)
		if b, err := base64.StdEncoding.DecodeString(rd[2].Raw); err != nil || !bytes.Equal(b, pk) {
			return fmt.Sprintf("public key %q does not decode to the field (%d octets)", cutS(rd[2].Raw), len(pk))
		}
		servers, _ := val("RendezvousServers").([]model.Name)
		if len(rd)-3 != len(servers) {
			return fmt.Sprintf("%d rendezvous servers in the text, want %d", len(rd)-3, len(servers))
		}
		for i, t := range rd[3:] {
			if n, fq, err := model.ParsePres(t.Raw); err != nil || !fq || !n.Equal(servers[i]) {
				return fmt.Sprintf("rendezvous server %q does not denote %s", t.Raw, servers[i].Pres())
			}
		}
	case 45, 260: // IPSECKEY: precedence gwtype algorithm gateway key ; AMTRELAY: precedence D type relay
		gw, _ := val("Gateway").(model.Gateway)
		var gtok model.Token
		if r.Type == 45 {
			if len(rd) < 4 {
				return "too few tokens"
			}
			for i, name := range []string{"Precedence", "GatewayType", "Algorithm"} {
				if why := num(rd[i], u(name), name); why != "" {
					return why
				}
			}
			gtok = rd[3]
			var sb strings.Builder
			for _, t := range rd[4:] {
				sb.WriteString(t.Raw)
			}
			key, _ := val("PublicKey").([]byte)
			if b, err := base64.StdEncoding.DecodeString(sb.String()); err != nil || !bytes.Equal(b, key) {
				return fmt.Sprintf("public key %q does not decode to the field (%d octets)", cutS(sb.String()), len(key))
			}
		} else {
			if len(rd) != 4 {
				return fmt.Sprintf("%d tokens, want 4", len(rd))
			}
			if why := num(rd[0], u("Precedence"), "Precedence"); why != "" {
				return why
			}
			if why := num(rd[1], u("GatewayType")>>7, "discovery bit"); why != "" {
				return why
			}
			if why := num(rd[2], u("GatewayType")&0x7f, "relay type"); why != "" {
				return why
			}
			gtok = rd[3]
		}
		switch gw.Type {
		case 0:
			if gtok.Raw != "." {
				return fmt.Sprintf("gateway %q for 'no gateway', want \".\"", gtok.Raw)
			}
		case 1, 2:
			a, err := netip.ParseAddr(gtok.Raw)
			if err != nil || (gw.Type == 1) != a.Is4() {
				return fmt.Sprintf("gateway %q is not an address of type %d", gtok.Raw, gw.Type)
			}
			if !bytes.Equal(a.AsSlice(), gw.Addr) {
				return fmt.Sprintf("gateway %q reads as %x, want %x", gtok.Raw, a.AsSlice(), gw.Addr)
			}
		case 3:
			if n, fq, err := model.ParsePres(gtok.Raw); err != nil || !fq || !n.Equal(gw.Host) {
				return fmt.Sprintf("gateway %q does not denote %s", gtok.Raw, gw.Host.Pres())
			}
		}
	}
	return ""
}
