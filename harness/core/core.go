// Package core is the driver/worker framework shared by all monitors.
//
// The driver never runs library code itself: it spawns worker processes (the same
// binary with -worker), each executing a contiguous range of case indices of one
// monitor. Workers journal the case index before executing it, so a process-fatal
// event (stack overflow, concurrent map write, OOM, hang) is attributed to a case.
package core

import (
	"encoding/binary"
	"encoding/json"
	"fmt"
	"hash/fnv"
	"math/rand/v2"
	"os"
	"runtime"
	"runtime/debug"
	"sort"
	"strings"
	"sync"
	"sync/atomic"
	"time"
)

// Monitor is one property's workload + oracle.
type Monitor struct {
	ID          string
	Level       string // evidence level: exploration | fault_enumeration | ...
	Rule        string // how cases are generated and what counts as non-trivial
	Race        bool   // workers run from the -race binary
	Terminates  bool   // the property's statement includes termination: a reproduced hang is a violation
	Assumptions []string
	// Plan returns the number of cases for the tier.
	Plan func(tier string) int
	// Run executes case i (0 <= i < Plan(tier)).
	Run func(w *W, i int)
	// CaseTimeout is the per-case no-progress watchdog (default 180 s).
	CaseTimeout time.Duration
	// MaxParallel limits concurrently running worker processes (default 16).
	MaxParallel int
	// ChunksPerWorker: how many chunks per parallel slot the case range is cut in (default 4).
	ChunksPerWorker int
	// MinObserved lists counters that must be > 0 in the merged result, else the run is inconclusive.
	MinObserved []string
	// Exhaustive is reported in the evidence when the monitor enumerates a finite space completely.
	Exhaustive bool
	// Wrapper, if set, wraps the worker command line (e.g. strace). It gets the argv and the
	// scratch dir and returns the argv to execute.
	Wrapper func(argv []string, scratch string, chunk int) []string
	// PostChunk, if set, is run by the driver after a chunk finishes (e.g. parse strace logs).
	// Isolate, when it returns a non-empty label for case i, makes the driver run that case alone in
	// its own worker process with its own race log; process-level evidence (deaths, race reports)
	// from that process is keyed under "<label>/...". Ordinary workers skip such cases.
	Isolate   func(tier string, i int) string
	PostChunk func(scratch string, chunk int, res *Result)
}

var registry = map[string]*Monitor{}

// Register adds a monitor.
func Register(m *Monitor) {
	if _, dup := registry[m.ID]; dup {
		panic("duplicate monitor " + m.ID)
	}
	registry[m.ID] = m
}

// Get returns a registered monitor.
func Get(id string) *Monitor { return registry[id] }

// IDs lists registered monitors.
func IDs() []string {
	var ids []string
	for k := range registry {
		ids = append(ids, k)
	}
	sort.Strings(ids)
	return ids
}

// Violation is one refuting observation.
type Violation struct {
	Key     string          `json:"key"`
	Case    int             `json:"case"`
	Detail  string          `json:"detail"`
	Witness json.RawMessage `json:"witness,omitempty"`
}

// Result is what a worker (or the merge of workers) observed.
type Result struct {
	Evaluations  int64                       `json:"evaluations"`
	Cases        int64                       `json:"cases"`
	Counters     map[string]int64            `json:"counters"`
	Cover        map[string]map[string]int64 `json:"cover"`
	Samples      []json.RawMessage           `json:"samples"`
	Violations   []Violation                 `json:"violations"`
	ViolCount    map[string]int64            `json:"viol_count"`
	Inconclusive map[string]int64            `json:"inconclusive"`
	Maxima       map[string]float64          `json:"maxima"`
	hashes       map[uint64]struct{}
}

func newResult() *Result {
	return &Result{
		Counters:     map[string]int64{},
		Cover:        map[string]map[string]int64{},
		ViolCount:    map[string]int64{},
		Inconclusive: map[string]int64{},
		Maxima:       map[string]float64{},
		hashes:       map[uint64]struct{}{},
	}
}

// W is the worker-side context handed to Monitor.Run.
type W struct {
	Prop string
	Tier string
	Seed int64

	mu       sync.Mutex
	res      *Result
	cur      int
	progress atomic.Int64 // unix nanos of last progress
	journal  *os.File
	maxSamp  int
	Scratch  string // per-run scratch directory (under /verif/.build/run/...)
	Replay   bool   // true when re-running a single case for replay/triage
}

// Rng returns the deterministic PRNG for (seed, property, case, stream).
func (w *W) Rng(i int, stream ...int) *rand.Rand {
	h := fnv.New64a()
	fmt.Fprintf(h, "%d/%s/%d", w.Seed, w.Prop, i)
	for _, s := range stream {
		fmt.Fprintf(h, "/%d", s)
	}
	s1 := h.Sum64()
	fmt.Fprintf(h, "#")
	s2 := h.Sum64()
	return rand.New(rand.NewPCG(s1, s2))
}

// Progress tells the watchdog the current case is still advancing.
func (w *W) Progress() { w.progress.Store(time.Now().UnixNano()) }

// Case returns the index of the running case.
func (w *W) Case() int { return w.cur }

// Eval counts n evaluated cases / executions.
func (w *W) Eval(n int) {
	w.mu.Lock()
	w.res.Evaluations += int64(n)
	w.mu.Unlock()
}

// Nontrivial records a distinct non-trivial case identified by the given octets.
func (w *W) Nontrivial(parts ...[]byte) {
	h := fnv.New64a()
	for _, p := range parts {
		var l [4]byte
		binary.BigEndian.PutUint32(l[:], uint32(len(p)))
		h.Write(l[:])
		h.Write(p)
	}
	w.NontrivialHash(h.Sum64())
}

// NontrivialStr is Nontrivial for strings.
func (w *W) NontrivialStr(parts ...string) {
	h := fnv.New64a()
	for _, p := range parts {
		var l [4]byte
		binary.BigEndian.PutUint32(l[:], uint32(len(p)))
		h.Write(l[:])
		h.Write([]byte(p))
	}
	w.NontrivialHash(h.Sum64())
}

// NontrivialHash records a distinct non-trivial case by hash.
func (w *W) NontrivialHash(h uint64) {
	w.mu.Lock()
	w.res.hashes[h] = struct{}{}
	w.mu.Unlock()
}

// Count adds n to a named counter.
func (w *W) Count(name string, n int) {
	w.mu.Lock()
	w.res.Counters[name] += int64(n)
	w.mu.Unlock()
}

// Max records the maximum of a named measurement.
func (w *W) Max(name string, v float64) {
	w.mu.Lock()
	if old, ok := w.res.Maxima[name]; !ok || v > old {
		w.res.Maxima[name] = v
	}
	w.mu.Unlock()
}

// Cover counts an item in a coverage category (e.g. "type" / "MX").
func (w *W) Cover(cat, item string) {
	w.mu.Lock()
	m := w.res.Cover[cat]
	if m == nil {
		m = map[string]int64{}
		w.res.Cover[cat] = m
	}
	m[item]++
	w.mu.Unlock()
}

// Sample keeps up to a few written-out cases for the evidence file.
func (w *W) Sample(v any) {
	w.mu.Lock()
	defer w.mu.Unlock()
	if len(w.res.Samples) >= w.maxSamp {
		return
	}
	b, err := json.Marshal(v)
	if err != nil {
		return
	}
	if len(b) > 1500 {
		b, _ = json.Marshal(string(b[:1500]) + "...(cut)")
	}
	w.res.Samples = append(w.res.Samples, b)
}

// WantSample reports whether another sample would be kept (to avoid building it).
func (w *W) WantSample() bool {
	w.mu.Lock()
	defer w.mu.Unlock()
	return len(w.res.Samples) < w.maxSamp
}

// Violation records a refuting observation under a stable key.
func (w *W) Violation(key, detail string, witness any) {
	w.mu.Lock()
	defer w.mu.Unlock()
	w.res.ViolCount[key]++
	if w.res.ViolCount[key] > 2 {
		return
	}
	var raw json.RawMessage
	if witness != nil {
		raw, _ = json.Marshal(witness)
		if len(raw) > 200000 {
			raw, _ = json.Marshal(string(raw[:200000]) + "...(cut)")
		}
	}
	if len(detail) > 4000 {
		detail = detail[:4000] + "...(cut)"
	}
	w.res.Violations = append(w.res.Violations, Violation{Key: key, Case: w.cur, Detail: detail, Witness: raw})
}

// Inconclusive records that something could not be decided.
func (w *W) Inconclusive(reason string) {
	w.mu.Lock()
	w.res.Inconclusive[reason]++
	w.mu.Unlock()
}

// PanicKey derives a stable key from a panic's stack: the first frame inside the library.
func PanicKey(stack string) string {
	lines := strings.Split(stack, "\n")
	for _, l := range lines {
		l = strings.TrimSpace(l)
		if strings.HasPrefix(l, "github.com/miekg/dns") {
			if i := strings.LastIndex(l, "("); i > 0 {
				l = l[:i]
			}
			return strings.TrimPrefix(l, "github.com/miekg/dns")
		}
	}
	return "?"
}

// Guard runs f and converts a panic into a violation "panic/<site>"; it reports whether f panicked.
func (w *W) Guard(what string, witness any, f func()) (panicked bool) {
	defer func() {
		if r := recover(); r != nil {
			st := string(debug.Stack())
			w.Violation("panic/"+what+"/"+PanicKey(st), fmt.Sprintf("%v\n%s", r, st), witness)
			panicked = true
		}
	}()
	f()
	return false
}

// exit codes of a worker process
const (
	exitOK    = 0
	exitHang  = 97
	exitUsage = 2
)

// RunWorker executes cases [from,to) of monitor m and writes the result to out.
func RunWorker(m *Monitor, tier string, seed int64, from, to int, out, journalPath, scratch string, replay bool) int {
	w := &W{Prop: m.ID, Tier: tier, Seed: seed, res: newResult(), maxSamp: 4, Scratch: scratch, Replay: replay}
	if journalPath != "" {
		f, err := os.OpenFile(journalPath, os.O_CREATE|os.O_WRONLY|os.O_TRUNC, 0o644)
		if err != nil {
			fmt.Fprintln(os.Stderr, "journal:", err)
			return exitUsage
		}
		w.journal = f
	}
	timeout := m.CaseTimeout
	if timeout == 0 {
		timeout = 180 * time.Second
	}
	if replay {
		timeout *= 2
	}
	w.Progress()
	done := make(chan struct{})
	go func() { // watchdog: no progress within timeout => dump stacks and exit
		t := time.NewTicker(time.Second)
		defer t.Stop()
		for {
			select {
			case <-done:
				return
			case <-t.C:
				if time.Since(time.Unix(0, w.progress.Load())) > timeout {
					buf := make([]byte, 1<<20)
					n := runtime.Stack(buf, true)
					fmt.Fprintf(os.Stderr, "WATCHDOG: case %d made no progress for %v\n%s\n", w.cur, timeout, buf[:n])
					os.Exit(exitHang)
				}
			}
		}
	}()
	var jb [8]byte
	for i := from; i < to; i++ {
		if m.Isolate != nil && !replay && m.Isolate(tier, i) != "" {
			continue // run by the driver in a process of its own
		}
		w.cur = i
		if w.journal != nil {
			binary.BigEndian.PutUint64(jb[:], uint64(i))
			w.journal.WriteAt(jb[:], 0)
		}
		w.Progress()
		func() {
			defer func() {
				if r := recover(); r != nil {
					st := string(debug.Stack())
					w.Violation("panic/uncaught/"+PanicKey(st), fmt.Sprintf("%v\n%s", r, st), nil)
				}
			}()
			m.Run(w, i)
		}()
		w.res.Cases++
	}
	close(done)
	if w.journal != nil {
		binary.BigEndian.PutUint64(jb[:], ^uint64(0))
		w.journal.WriteAt(jb[:], 0)
		w.journal.Close()
	}
	return writeResult(w.res, out)
}

func writeResult(r *Result, out string) int {
	b, err := json.Marshal(r)
	if err != nil {
		fmt.Fprintln(os.Stderr, "marshal:", err)
		return exitUsage
	}
	if err := os.WriteFile(out+".tmp", b, 0o644); err != nil {
		fmt.Fprintln(os.Stderr, "write:", err)
		return exitUsage
	}
	hb := make([]byte, 0, 8*len(r.hashes))
	for h := range r.hashes {
		hb = binary.BigEndian.AppendUint64(hb, h)
	}
	if err := os.WriteFile(out+".hashes", hb, 0o644); err != nil {
		return exitUsage
	}
	if err := os.Rename(out+".tmp", out); err != nil {
		return exitUsage
	}
	return exitOK
}

func (r *Result) merge(o *Result, maxSamples int) {
	r.Evaluations += o.Evaluations
	r.Cases += o.Cases
	for k, v := range o.Counters {
		r.Counters[k] += v
	}
	for c, m := range o.Cover {
		if r.Cover[c] == nil {
			r.Cover[c] = map[string]int64{}
		}
		for k, v := range m {
			r.Cover[c][k] += v
		}
	}
	for k, v := range o.Maxima {
		if old, ok := r.Maxima[k]; !ok || v > old {
			r.Maxima[k] = v
		}
	}
	for _, s := range o.Samples {
		if len(r.Samples) < maxSamples {
			r.Samples = append(r.Samples, s)
		}
	}
	for k, v := range o.ViolCount {
		r.ViolCount[k] += v
	}
	for k, v := range o.Inconclusive {
		r.Inconclusive[k] += v
	}
	r.Violations = append(r.Violations, o.Violations...)
}
