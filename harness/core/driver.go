package core

import (
	"sync/atomic"
	"bytes"
	"encoding/binary"
	"encoding/json"
	"fmt"
	"os"
	"os/exec"
	"path/filepath"
	"regexp"
	"runtime"
	"sort"
	"strings"
	"sync"
	"syscall"
	"time"
)

// Finding is one entry of /verif/known_findings.json.
type Finding struct {
	Property string `json:"property"`
	Key      string `json:"key"`
	Status   string `json:"status"` // "known" | "fixed"
	Commit   string `json:"commit,omitempty"`
	What     string `json:"what"`
}

// Config of one driver run.
type Config struct {
	Root     string // /verif
	Prop     string
	Tier     string
	Seed     int64
	SelfBin  string // non-race worker binary
	RaceBin  string // race worker binary
	Parallel int
}

func loadFindings(root string) ([]Finding, error) {
	b, err := os.ReadFile(filepath.Join(root, "known_findings.json"))
	if err != nil {
		if os.IsNotExist(err) {
			return nil, nil
		}
		return nil, err
	}
	var f struct {
		Findings []Finding `json:"findings"`
	}
	if err := json.Unmarshal(b, &f); err != nil {
		return nil, err
	}
	return f.Findings, nil
}

type chunk struct {
	idx      int
	from, to int
	label    string // non-empty: an isolated single case (Monitor.Isolate)
}

type chunkOutcome struct {
	res  *Result
	note string
}

var sanitizeRe = regexp.MustCompile(`[^A-Za-z0-9_.-]+`)

func sanitize(s string) string {
	s = sanitizeRe.ReplaceAllString(s, "_")
	if len(s) > 80 {
		s = s[:80]
	}
	return s
}

// Drive runs monitor cfg.Prop at cfg.Tier and returns the process exit code.
func Drive(cfg Config) int {
	m := Get(cfg.Prop)
	if m == nil {
		fmt.Fprintf(os.Stderr, "unknown property %q (have %v)\n", cfg.Prop, IDs())
		return exitUsage
	}
	start := time.Now()
	n := m.Plan(cfg.Tier)
	par := cfg.Parallel
	if par <= 0 {
		par = runtime.NumCPU()
		if par > 16 {
			par = 16
		}
	}
	if m.MaxParallel > 0 && par > m.MaxParallel {
		par = m.MaxParallel
	}
	cpw := m.ChunksPerWorker
	if cpw <= 0 {
		cpw = 4
	}
	nchunks := par * cpw
	if nchunks > n {
		nchunks = n
	}
	if nchunks < 1 {
		nchunks = 1
	}
	scratch := filepath.Join(cfg.Root, ".build", "run", fmt.Sprintf("%s-%s-%d-%d", cfg.Prop, cfg.Tier, cfg.Seed, os.Getpid()))
	os.RemoveAll(scratch)
	if err := os.MkdirAll(scratch, 0o755); err != nil {
		fmt.Fprintln(os.Stderr, err)
		return exitUsage
	}
	defer os.RemoveAll(scratch)

	var chunks []chunk
	for c := 0; c < nchunks; c++ {
		from := n * c / nchunks
		to := n * (c + 1) / nchunks
		if to > from {
			chunks = append(chunks, chunk{idx: c, from: from, to: to})
		}
	}
	if m.Isolate != nil {
		for i := 0; i < n; i++ {
			if l := m.Isolate(cfg.Tier, i); l != "" {
				chunks = append(chunks, chunk{idx: isoBase + i, from: i, to: i + 1, label: l})
			}
		}
	}
	bin := cfg.SelfBin
	if m.Race {
		bin = cfg.RaceBin
	}
	d := &driver{cfg: cfg, m: m, bin: bin, scratch: scratch, isoLabels: map[int]string{}}
	for _, c := range chunks {
		if c.label != "" {
			d.isoLabels[c.idx] = c.label
		}
	}
	total := newResult()
	var mu sync.Mutex
	var wg sync.WaitGroup
	sem := make(chan struct{}, par)
	for _, c := range chunks {
		wg.Add(1)
		sem <- struct{}{}
		go func(c chunk) {
			defer wg.Done()
			defer func() { <-sem }()
			r := d.runChunk(c)
			mu.Lock()
			total.merge(r, 8)
			for h := range r.hashes {
				total.hashes[h] = struct{}{}
			}
			mu.Unlock()
		}(c)
	}
	wg.Wait()
	if m.Race {
		d.collectRaces(total)
	}
	for _, c := range m.MinObserved {
		if total.Counters[c] == 0 {
			total.Inconclusive["nothing-observed:"+c]++
		}
	}
	return d.report(total, n, time.Since(start))
}

const isoBase = 1 << 24

type driver struct {
	cfg       Config
	m         *Monitor
	bin       string
	scratch   string
	isoLabels map[int]string // chunk idx -> label
	confirmed atomic.Int32   // worker deaths reproduced 3/3 in isolation so far (violations)
}

func (d *driver) workerCmd(c chunk, tag string, replay bool) (*exec.Cmd, string, string, string) {
	out := filepath.Join(d.scratch, fmt.Sprintf("res-%d%s.json", c.idx, tag))
	journal := filepath.Join(d.scratch, fmt.Sprintf("journal-%d%s", c.idx, tag))
	errf := filepath.Join(d.scratch, fmt.Sprintf("stderr-%d%s.txt", c.idx, tag))
	argv := []string{d.bin, "-worker", "-prop", d.cfg.Prop, "-tier", d.cfg.Tier, "-seed", fmt.Sprint(d.cfg.Seed),
		"-from", fmt.Sprint(c.from), "-to", fmt.Sprint(c.to), "-out", out, "-journal", journal, "-scratch", d.scratch}
	if replay || c.label != "" {
		argv = append(argv, "-isolated")
	}
	if d.m.Wrapper != nil {
		argv = d.m.Wrapper(argv, d.scratch, c.idx)
	}
	cmd := exec.Command(argv[0], argv[1:]...)
	cmd.Env = append(os.Environ(), "GOTRACEBACK=all")
	if d.m.Race {
		cmd.Env = append(cmd.Env, "GORACE=halt_on_error=0 exitcode=0 history_size=4 log_path="+filepath.Join(d.scratch, raceLogName(c)))
	}
	return cmd, out, journal, errf
}

func raceLogName(c chunk) string {
	if c.label != "" {
		return fmt.Sprintf("race-iso%d", c.idx)
	}
	return "race"
}

// runProc runs one worker process; returns result (nil if it died), exit code, last journaled case, stderr tail.
func (d *driver) runProc(c chunk, tag string, replay bool) (*Result, int, int, string) {
	cmd, out, journal, errf := d.workerCmd(c, tag, replay)
	ef, _ := os.Create(errf)
	cmd.Stderr = ef
	cmd.Stdout = ef
	err := cmd.Run()
	ef.Close()
	code := 0
	if err != nil {
		code = -1
		if ee, ok := err.(*exec.ExitError); ok {
			code = ee.ExitCode()
			if ws, ok := ee.Sys().(syscall.WaitStatus); ok && ws.Signaled() {
				code = 128 + int(ws.Signal())
			}
		}
	}
	last := -1
	if jb, err := os.ReadFile(journal); err == nil && len(jb) >= 8 {
		v := binary.BigEndian.Uint64(jb)
		if v != ^uint64(0) {
			last = int(v)
		}
	}
	tail := ""
	if eb, err := os.ReadFile(errf); err == nil {
		if len(eb) > 6000 {
			eb = append(eb[:3000:3000], append([]byte("\n...\n"), eb[len(eb)-3000:]...)...)
		}
		tail = string(eb)
	}
	var res *Result
	if code == 0 {
		res = readResult(out)
		if res == nil {
			code = -2
		}
	}
	if d.m.PostChunk != nil && res != nil {
		d.m.PostChunk(d.scratch, c.idx, res)
	}
	return res, code, last, tail
}

func readResult(out string) *Result {
	b, err := os.ReadFile(out)
	if err != nil {
		return nil
	}
	r := newResult()
	if err := json.Unmarshal(b, r); err != nil {
		return nil
	}
	if r.Counters == nil {
		r.Counters = map[string]int64{}
	}
	if r.Cover == nil {
		r.Cover = map[string]map[string]int64{}
	}
	if r.ViolCount == nil {
		r.ViolCount = map[string]int64{}
	}
	if r.Inconclusive == nil {
		r.Inconclusive = map[string]int64{}
	}
	if r.Maxima == nil {
		r.Maxima = map[string]float64{}
	}
	if hb, err := os.ReadFile(out + ".hashes"); err == nil {
		for i := 0; i+8 <= len(hb); i += 8 {
			r.hashes[binary.BigEndian.Uint64(hb[i:])] = struct{}{}
		}
	}
	os.Remove(out)
	os.Remove(out + ".hashes")
	return r
}

var fatalRe = regexp.MustCompile(`(?m)^(fatal error: .*|panic: .*|runtime: .*exceeds.*|WATCHDOG: .*)$`)

func fatalKey(tail string) string {
	if m := fatalRe.FindString(tail); m != "" {
		// strip addresses / numbers that vary
		m = regexp.MustCompile(`0x[0-9a-f]+|\d+`).ReplaceAllString(m, "N") // (all numbers: "case 41" and "case 206" are one finding)
		site := PanicKey(tail)
		return sanitize(m) + "/" + site
	}
	return "unknown-death"
}

// runChunk runs a chunk, surviving worker deaths by isolating the culprit case.
func (d *driver) runChunk(c chunk) *Result {
	acc := newResult()
	from := c.from
	attempt := 0
	deaths := 0
	for from < c.to {
		attempt++
		sub := chunk{idx: c.idx, from: from, to: c.to, label: c.label}
		res, code, last, tail := d.runProc(sub, fmt.Sprintf("-a%d", attempt), false)
		if res != nil {
			acc.merge(res, 8)
			for h := range res.hashes {
				acc.hashes[h] = struct{}{}
			}
			break
		}
		if last < from || last >= c.to {
			// died before journaling anything: infrastructure problem
			acc.Inconclusive[fmt.Sprintf("worker-died-before-first-case(code=%d)", code)]++
			fmt.Fprintf(os.Stderr, "worker for %s chunk %d died (code %d) before running a case:\n%s\n", d.cfg.Prop, c.idx, code, tail)
			break
		}
		// Re-run cases [from,last) to recover their observations, then the culprit alone.
		if last > from {
			pre := chunk{idx: c.idx, from: from, to: last}
			r2, _, _, _ := d.runProc(pre, fmt.Sprintf("-a%dpre", attempt), false)
			if r2 != nil {
				acc.merge(r2, 8)
				for h := range r2.hashes {
					acc.hashes[h] = struct{}{}
				}
			} else {
				acc.Inconclusive["prefix-rerun-failed"]++
			}
		}
		// Triage is expensive for hangs (3 isolated runs, each up to twice the watchdog period). Once two
		// deaths have been reproduced the verdict of the run is settled (violated): further deaths are
		// counted, not re-run, and a chunk that keeps dying is abandoned - inconclusive for those cases.
		deaths++
		if d.confirmed.Load() >= 2 {
			acc.Inconclusive[fmt.Sprintf("worker-death-not-triaged-after-2-reproduced(code=%d)", code)]++
			if deaths >= 2 {
				acc.Inconclusive["cases-not-run-after-repeated-worker-deaths"] += int64(c.to - last - 1)
				break
			}
		} else {
			d.triage(c, last, code, tail, acc)
		}
		from = last + 1
	}
	return acc
}

// triage re-runs the culprit case alone (up to 3 times) and classifies the death.
func (d *driver) triage(c chunk, cs int, code int, tail string, acc *Result) {
	one := chunk{idx: c.idx, from: cs, to: cs + 1, label: c.label}
	deaths := 0
	var lastTail string
	var lastCode int
	for try := 0; try < 3; try++ {
		res, code2, _, tail2 := d.runProc(one, fmt.Sprintf("-iso%d-%d", cs, try), true)
		if res != nil {
			// the case survives in isolation: keep its observations, note the flake
			acc.merge(res, 8)
			for h := range res.hashes {
				acc.hashes[h] = struct{}{}
			}
			break
		}
		deaths++
		lastTail, lastCode = tail2, code2
	}
	if deaths == 0 {
		acc.Inconclusive[fmt.Sprintf("worker-death-not-reproduced(code=%d)", code)]++
		fmt.Fprintf(os.Stderr, "case %d: worker died (code %d) but case passes in isolation; stderr:\n%s\n", cs, code, tail)
		return
	}
	if deaths < 3 {
		acc.Inconclusive[fmt.Sprintf("worker-death-flaky(code=%d)", lastCode)]++
		return
	}
	hang := lastCode == exitHang
	if hang && !d.m.Terminates {
		acc.Inconclusive["hang-reproduced-but-termination-not-claimed"]++
		return
	}
	kind := "fatal"
	if hang {
		kind = "hang"
	}
	key := kind + "/" + fatalKey(lastTail)
	if c.label != "" {
		key = c.label + "/" + key
	}
	d.confirmed.Add(1)
	acc.ViolCount[key]++
	acc.Violations = append(acc.Violations, Violation{Key: key, Case: cs,
		Detail: fmt.Sprintf("worker process died 3/3 times on this case in isolation (exit code %d)\n%s", lastCode, lastTail)})
}

var raceFrameRe = regexp.MustCompile(`(?m)^  (\S+?)\([^()]*\)$`)
var isoLogRe = regexp.MustCompile(`^race-iso(\d+)\.`)

// collectRaces parses race-detector logs written by the workers.
func (d *driver) collectRaces(total *Result) {
	files, _ := filepath.Glob(filepath.Join(d.scratch, "race*.*"))
	seen := map[string]bool{}
	for _, f := range files {
		b, err := os.ReadFile(f)
		if err != nil {
			continue
		}
		prefix := ""
		if m := isoLogRe.FindStringSubmatch(filepath.Base(f)); m != nil {
			var idx int
			fmt.Sscan(m[1], &idx)
			if l := d.isoLabels[idx]; l != "" {
				prefix = l + "/"
			}
		}
		for _, blk := range bytes.Split(b, []byte("==================")) {
			if !bytes.Contains(blk, []byte("WARNING: DATA RACE")) {
				continue
			}
			total.Counters["race_reports"]++
			// split in the two accesses
			parts := regexp.MustCompile(`(?m)^(Previous |Goroutine )`).Split(string(blk), 3)
			var tops []string
			lib := false
			for i, p := range parts {
				if i > 1 {
					break
				}
				fr := raceFrameRe.FindAllStringSubmatch(p, -1)
				top := "?"
				for _, m := range fr {
					fn := m[1]
					if strings.HasPrefix(fn, "github.com/miekg/dns") {
						top = strings.TrimPrefix(fn, "github.com/miekg/dns")
						lib = true
						break
					}
				}
				if top == "?" && len(fr) > 0 {
					top = fr[0][1]
				}
				tops = append(tops, top)
			}
			sort.Strings(tops)
			key := prefix + "race/" + strings.Join(tops, "|")
			if !lib {
				total.Inconclusive["harness-only-race:"+key]++
				if !seen[key] {
					fmt.Fprintf(os.Stderr, "harness-only race report:\n%s\n", blk)
				}
				seen[key] = true
				continue
			}
			total.ViolCount[key]++
			if !seen[key] {
				total.Violations = append(total.Violations, Violation{Key: key, Case: -1, Detail: string(blk)})
			}
			seen[key] = true
		}
	}
}

// Evidence is the schema of /verif/evidence/<id>.json.
type Evidence struct {
	PropertyID  string         `json:"property_id"`
	Tier        string         `json:"tier"`
	Seed        int64          `json:"seed"`
	Level       string         `json:"level"`
	Coverage    map[string]any `json:"coverage"`
	Assumptions []string       `json:"assumptions"`
	WallS       float64        `json:"wall_s"`
	Violations  int            `json:"violations"`
}

func (d *driver) report(total *Result, planned int, wall time.Duration) int {
	findings, err := loadFindings(d.cfg.Root)
	if err != nil {
		fmt.Fprintln(os.Stderr, "known_findings.json:", err)
		return exitUsage
	}
	known := map[string]Finding{}
	for _, f := range findings {
		if f.Property == d.cfg.Prop && f.Status == "known" {
			known[f.Key] = f
		}
	}
	// group violations by key
	byKey := map[string][]Violation{}
	var keys []string
	for _, v := range total.Violations {
		if _, ok := byKey[v.Key]; !ok {
			keys = append(keys, v.Key)
		}
		byKey[v.Key] = append(byKey[v.Key], v)
	}
	sort.Strings(keys)
	nviol := 0
	knownHit := map[string]int64{}
	os.MkdirAll(filepath.Join(d.cfg.Root, "replay"), 0o755)
	for _, k := range keys {
		if f, ok := known[k]; ok {
			fmt.Printf("KNOWN-FINDING: property=%s %s — %s (observed %d times this run)\n", d.cfg.Prop, k, f.What, total.ViolCount[k])
			knownHit[k] = total.ViolCount[k]
			continue
		}
		nviol++
		v := byKey[k][0]
		path := filepath.Join(d.cfg.Root, "replay", fmt.Sprintf("%s-%s-s%d-c%d.json", d.cfg.Prop, sanitize(k), d.cfg.Seed, v.Case))
		rb, _ := json.MarshalIndent(map[string]any{
			"property": d.cfg.Prop, "tier": d.cfg.Tier, "seed": d.cfg.Seed, "case": v.Case,
			"key": k, "detail": v.Detail, "witness": v.Witness, "count": total.ViolCount[k],
		}, "", " ")
		os.WriteFile(path, rb, 0o644)
		fmt.Printf("VIOLATION property=%s replay=%s\n", d.cfg.Prop, path)
		det := v.Detail
		if len(det) > 1200 {
			det = det[:1200] + "..."
		}
		fmt.Printf("  key=%s case=%d count=%d\n  %s\n", k, v.Case, total.ViolCount[k], strings.ReplaceAll(det, "\n", "\n  "))
	}
	var inc []string
	for k, v := range total.Inconclusive {
		inc = append(inc, fmt.Sprintf("%s×%d", k, v))
	}
	sort.Strings(inc)
	for _, s := range inc {
		fmt.Printf("INCONCLUSIVE property=%s %s\n", d.cfg.Prop, s)
	}
	cov := map[string]any{
		"evaluations":         total.Evaluations,
		"distinct_nontrivial": len(total.hashes),
		"rule":                d.m.Rule,
		"samples":             total.Samples,
		"cases_planned":       planned,
		"cases_run":           total.Cases,
		"counters":            total.Counters,
		"maxima":              total.Maxima,
		"known_findings_hit":  knownHit,
		"inconclusive":        total.Inconclusive,
	}
	if d.m.Exhaustive {
		cov["exhaustive"] = true
	}
	// coverage categories: list item counts; large categories are summarised
	for c, mm := range total.Cover {
		if len(mm) <= 400 {
			cov["cover_"+c] = mm
		} else {
			cov["cover_"+c+"_distinct"] = len(mm)
		}
	}
	if len(total.Samples) == 0 {
		cov["samples"] = []any{}
	}
	ev := Evidence{PropertyID: d.cfg.Prop, Tier: d.cfg.Tier, Seed: d.cfg.Seed, Level: d.m.Level, Coverage: cov,
		Assumptions: d.m.Assumptions, WallS: wall.Seconds(), Violations: nviol}
	if ev.Assumptions == nil {
		ev.Assumptions = []string{}
	}
	eb, _ := json.MarshalIndent(ev, "", " ")
	os.MkdirAll(filepath.Join(d.cfg.Root, "evidence"), 0o755)
	if err := os.WriteFile(filepath.Join(d.cfg.Root, "evidence", d.cfg.Prop+".json"), eb, 0o644); err != nil {
		fmt.Fprintln(os.Stderr, err)
		return exitUsage
	}
	fmt.Printf("SUMMARY property=%s tier=%s seed=%d cases=%d/%d evaluations=%d distinct_nontrivial=%d violations=%d known_hit=%d inconclusive=%d wall=%.1fs\n",
		d.cfg.Prop, d.cfg.Tier, d.cfg.Seed, total.Cases, planned, total.Evaluations, len(total.hashes), nviol, len(knownHit), len(total.Inconclusive), wall.Seconds())
	if nviol > 0 {
		return 1
	}
	return 0
}

// ReplayFile re-runs the case recorded in a replay file in an isolated worker and reports.
func ReplayFile(cfg Config, path string) int {
	b, err := os.ReadFile(path)
	if err != nil {
		fmt.Fprintln(os.Stderr, err)
		return exitUsage
	}
	var rf struct {
		Property string `json:"property"`
		Tier     string `json:"tier"`
		Seed     int64  `json:"seed"`
		Case     int    `json:"case"`
		Key      string `json:"key"`
	}
	if err := json.Unmarshal(b, &rf); err != nil {
		fmt.Fprintln(os.Stderr, err)
		return exitUsage
	}
	cfg.Prop, cfg.Tier, cfg.Seed = rf.Property, rf.Tier, rf.Seed
	m := Get(cfg.Prop)
	if m == nil {
		return exitUsage
	}
	if rf.Case < 0 {
		fmt.Printf("replay: %s was observed by the race detector over the whole run; re-running the tier\n", rf.Key)
		return Drive(cfg)
	}
	scratch := filepath.Join(cfg.Root, ".build", "run", fmt.Sprintf("replay-%d", os.Getpid()))
	os.MkdirAll(scratch, 0o755)
	defer os.RemoveAll(scratch)
	bin := cfg.SelfBin
	if m.Race {
		bin = cfg.RaceBin
	}
	d := &driver{cfg: cfg, m: m, bin: bin, scratch: scratch}
	rc := chunk{idx: 0, from: rf.Case, to: rf.Case + 1}
	if m.Isolate != nil {
		if l := m.Isolate(cfg.Tier, rf.Case); l != "" {
			rc.idx, rc.label = isoBase+rf.Case, l
			d.isoLabels = map[int]string{rc.idx: l}
		}
	}
	res, code, _, tail := d.runProc(rc, "-replay", true)
	if res == nil {
		fmt.Printf("replay: worker died (code %d)\n%s\nVIOLATION property=%s replay=%s\n", code, tail, cfg.Prop, path)
		return 1
	}
	if m.Race {
		d.collectRaces(res)
	}
	hit := false
	for _, v := range res.Violations {
		fmt.Printf("replay: key=%s\n  %s\n", v.Key, strings.ReplaceAll(v.Detail, "\n", "\n  "))
		if v.Key == rf.Key {
			hit = true
		}
	}
	if hit {
		fmt.Printf("VIOLATION property=%s replay=%s\n", cfg.Prop, path)
		return 1
	}
	fmt.Printf("replay: case %d no longer shows %s\n", rf.Case, rf.Key)
	return 0
}
