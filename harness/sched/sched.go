// Package sched is the controller installed as dns.VerifHook: it logs hook events on a
// logical clock and can gate (block until released), delay or scribble at hook points.
package sched

import (
	"math/rand/v2"
	"sync"
	"sync/atomic"
	"time"
)

// Event is one observed event on the logical clock.
type Event struct {
	Seq   int64
	Point string
	Note  string
}

// Gate blocks the next arrivals at a hook point until released.
type Gate struct {
	point   string
	arrived chan struct{} // closed on first arrival
	release chan struct{} // closed on release
	once    sync.Once
	relOnce sync.Once
	count   atomic.Int32
	// Sticky gates hold every arrival until released; one-shot gates hold only the first.
	sticky bool
}

// Arrived is closed when some goroutine reached the gate.
func (g *Gate) Arrived() <-chan struct{} { return g.arrived }

// WaitArrived waits up to d for an arrival.
func (g *Gate) WaitArrived(d time.Duration) bool {
	select {
	case <-g.arrived:
		return true
	case <-time.After(d):
		return false
	}
}

// Release lets the held goroutine(s) continue.
func (g *Gate) Release() { g.relOnce.Do(func() { close(g.release) }) }

// Count returns the number of arrivals.
func (g *Gate) Count() int { return int(g.count.Load()) }

// Controller implements the hook.
type Controller struct {
	seq   atomic.Int64
	mu    sync.Mutex
	log   []Event
	gates map[string]*Gate
	hits  map[string]int
	// Delay: if > 0, every hook arrival sleeps a seeded duration in [0,Delay).
	Delay time.Duration
	rng   *rand.Rand
	// Scribble: overwrite the buffer handed to the "serveDNS.poolPut" point.
	Scribble bool
	// GateTimeout bounds how long a gate holds a goroutine (safety net; default 20 s).
	GateTimeout time.Duration
	timedOut    atomic.Int32
	// OnPoint, if set, is called for every arrival (after logging, before gating).
	OnPoint func(point string)
}

// New returns a controller with a seeded PRNG for delays.
func New(seed uint64) *Controller {
	return &Controller{gates: map[string]*Gate{}, hits: map[string]int{}, rng: rand.New(rand.NewPCG(seed, seed^0x9E3779B97F4A7C15)), GateTimeout: 20 * time.Second}
}

// Gate arms a gate at point. A one-shot gate holds only the first arrival.
func (c *Controller) Gate(point string, sticky bool) *Gate {
	g := &Gate{point: point, arrived: make(chan struct{}), release: make(chan struct{}), sticky: sticky}
	c.mu.Lock()
	c.gates[point] = g
	c.mu.Unlock()
	return g
}

// Note logs a harness-side (boundary) event on the same logical clock.
func (c *Controller) Note(point, note string) int64 {
	s := c.seq.Add(1)
	c.mu.Lock()
	c.log = append(c.log, Event{Seq: s, Point: point, Note: note})
	c.mu.Unlock()
	return s
}

// Hook is the function to install as dns.VerifHook.
func (c *Controller) Hook(point string, buf []byte) {
	s := c.seq.Add(1)
	c.mu.Lock()
	c.log = append(c.log, Event{Seq: s, Point: point})
	c.hits[point]++
	g := c.gates[point]
	var d time.Duration
	if c.Delay > 0 {
		d = time.Duration(c.rng.Int64N(int64(c.Delay)))
	}
	c.mu.Unlock()
	if c.Scribble && point == "serveDNS.poolPut" {
		for i := range buf {
			buf[i] = 0xA5
		}
	}
	if c.OnPoint != nil {
		c.OnPoint(point)
	}
	if d > 0 {
		time.Sleep(d)
	}
	if g != nil {
		n := g.count.Add(1)
		if n == 1 || g.sticky {
			g.once.Do(func() { close(g.arrived) })
			to := c.GateTimeout
			select {
			case <-g.release:
			case <-time.After(to):
				c.timedOut.Add(1)
			}
		}
	}
}

// Log returns a copy of the event log.
func (c *Controller) Log() []Event {
	c.mu.Lock()
	defer c.mu.Unlock()
	return append([]Event(nil), c.log...)
}

// Hits returns the hook hit counts.
func (c *Controller) Hits() map[string]int {
	c.mu.Lock()
	defer c.mu.Unlock()
	m := map[string]int{}
	for k, v := range c.hits {
		m[k] = v
	}
	return m
}

// GateTimeouts reports how many gate holds ended by the safety timeout.
func (c *Controller) GateTimeouts() int { return int(c.timedOut.Load()) }

// ReleaseAll releases every armed gate.
func (c *Controller) ReleaseAll() {
	c.mu.Lock()
	gs := make([]*Gate, 0, len(c.gates))
	for _, g := range c.gates {
		gs = append(gs, g)
	}
	c.mu.Unlock()
	for _, g := range gs {
		g.Release()
	}
}

// Order returns the sequence of point names (the observed event order).
func (c *Controller) Order() []string {
	c.mu.Lock()
	defer c.mu.Unlock()
	out := make([]string, len(c.log))
	for i, e := range c.log {
		out[i] = e.Point
	}
	return out
}

var current atomic.Pointer[Controller]

// Dispatch is installed once as dns.VerifHook; it forwards to the controller in use.
func Dispatch(point string, buf []byte) {
	if c := current.Load(); c != nil {
		c.Hook(point, buf)
	}
}

// Use makes c the controller receiving hook events (nil: none).
func Use(c *Controller) { current.Store(c) }
