// Package model is an independent model of DNS names, RR wire layouts and messages,
// written from the RFCs. It never calls into github.com/miekg/dns.
package model

import (
	"errors"
	"fmt"
	"strings"
)

// Name is a sequence of wire labels (root label not included).
type Name [][]byte

// Root is the root name.
var Root = Name{}

// Wire is the uncompressed wire form.
func (n Name) Wire() []byte {
	b := make([]byte, 0, n.WireLen())
	for _, l := range n {
		b = append(b, byte(len(l)))
		b = append(b, l...)
	}
	return append(b, 0)
}

// WireLen is the number of octets of the uncompressed wire form.
func (n Name) WireLen() int {
	t := 1
	for _, l := range n {
		t += 1 + len(l)
	}
	return t
}

// Valid reports RFC 1035 validity: labels of 1..63 octets, at most 255 octets on the wire.
func (n Name) Valid() bool {
	for _, l := range n {
		if len(l) < 1 || len(l) > 63 {
			return false
		}
	}
	return n.WireLen() <= 255
}

func lowerByte(c byte) byte {
	if c >= 'A' && c <= 'Z' {
		return c + 32
	}
	return c
}

// Lower folds ASCII letters.
func (n Name) Lower() Name {
	o := make(Name, len(n))
	for i, l := range n {
		o[i] = make([]byte, len(l))
		for j, c := range l {
			o[i][j] = lowerByte(c)
		}
	}
	return o
}

// Equal compares octet-exact.
func (n Name) Equal(o Name) bool {
	if len(n) != len(o) {
		return false
	}
	for i := range n {
		if string(n[i]) != string(o[i]) {
			return false
		}
	}
	return true
}

// EqualFold compares ASCII-case-insensitively.
func (n Name) EqualFold(o Name) bool { return n.Lower().Equal(o.Lower()) }

// Clone deep-copies.
func (n Name) Clone() Name {
	o := make(Name, len(n))
	for i, l := range n {
		o[i] = append([]byte(nil), l...)
	}
	return o
}

// Suffix returns the name made of the last k labels.
func (n Name) Suffix(k int) Name { return n[len(n)-k:] }

// CommonSuffix is the number of trailing labels n and o share (ASCII-case-insensitive).
func (n Name) CommonSuffix(o Name) int {
	k := 0
	for k < len(n) && k < len(o) {
		a, b := n[len(n)-1-k], o[len(o)-1-k]
		if len(a) != len(b) {
			break
		}
		eq := true
		for i := range a {
			if lowerByte(a[i]) != lowerByte(b[i]) {
				eq = false
				break
			}
		}
		if !eq {
			break
		}
		k++
	}
	return k
}

func labelSpecial(b byte) bool {
	switch b {
	case '.', ' ', '\'', '@', ';', '(', ')', '"', '\\':
		return true
	}
	return false
}

// PresLabel is the canonical presentation form of one label: the specials
// . SP ' @ ; ( ) " \ are backslash-escaped, octets < 0x21 (other than SP) or > 0x7E are \DDD.
func PresLabel(l []byte) string {
	var sb strings.Builder
	for _, b := range l {
		switch {
		case labelSpecial(b):
			sb.WriteByte('\\')
			sb.WriteByte(b)
		case b < ' ' || b > '~':
			fmt.Fprintf(&sb, "\\%03d", b)
		default:
			sb.WriteByte(b)
		}
	}
	return sb.String()
}

// Pres is the canonical (library) presentation form, always fully qualified; root is ".".
func (n Name) Pres() string {
	if len(n) == 0 {
		return "."
	}
	var sb strings.Builder
	for _, l := range n {
		sb.WriteString(PresLabel(l))
		sb.WriteByte('.')
	}
	return sb.String()
}

// PresRel is the presentation form without the trailing dot (relative spelling).
func (n Name) PresRel() string {
	s := n.Pres()
	if s == "." {
		return ""
	}
	return s[:len(s)-1]
}

func (n Name) String() string { return n.Pres() }

// ErrEmptyLabel etc. are parse errors.
var (
	ErrEmptyLabel = errors.New("empty label")
	ErrDangling   = errors.New("dangling backslash")
	ErrBadDDD     = errors.New("\\DDD above 255")
)

// ParsePres parses RFC 1035 presentation syntax: "\DDD" (three digits) is the octet DDD,
// "\c" is c for any other c. It returns the labels and whether the text ended in an
// unescaped dot (fully qualified). "." is the root (fqdn, no labels). Empty labels are errors.
func ParsePres(s string) (n Name, fqdn bool, err error) {
	if s == "." {
		return Name{}, true, nil
	}
	if s == "" {
		return Name{}, false, nil
	}
	var cur []byte
	haveCur := false
	i := 0
	for i < len(s) {
		c := s[i]
		switch {
		case c == '\\':
			if i+1 >= len(s) {
				return nil, false, ErrDangling
			}
			if i+3 < len(s) && isDig(s[i+1]) && isDig(s[i+2]) && isDig(s[i+3]) {
				v := int(s[i+1]-'0')*100 + int(s[i+2]-'0')*10 + int(s[i+3]-'0')
				if v > 255 {
					return nil, false, ErrBadDDD
				}
				cur = append(cur, byte(v))
				i += 4
			} else {
				cur = append(cur, s[i+1])
				i += 2
			}
			haveCur = true
		case c == '.':
			if !haveCur {
				return nil, false, ErrEmptyLabel
			}
			n = append(n, cur)
			cur, haveCur = nil, false
			i++
			if i == len(s) {
				return n, true, nil
			}
		default:
			cur = append(cur, c)
			haveCur = true
			i++
		}
	}
	if haveCur {
		n = append(n, cur)
	}
	return n, false, nil
}

func isDig(b byte) bool { return b >= '0' && b <= '9' }

// Ptr records one compression pointer met while decoding.
type Ptr struct {
	At     int // offset of the pointer's first octet
	Target int
}

// DecodeName decodes a possibly compressed name strictly: pointers must point to an
// earlier offset (< the pointer's own position), label types 01 and 10 are errors,
// the expanded name must respect 63/255. It returns the offset after the name (after the
// first pointer if any) and the pointers followed.
func DecodeName(msg []byte, off int) (n Name, next int, ptrs []Ptr, err error) {
	next = -1
	total := 1
	hops := 0
	for {
		if off >= len(msg) {
			return nil, 0, nil, errors.New("name runs past end")
		}
		c := int(msg[off])
		switch c & 0xC0 {
		case 0x00:
			if c == 0 {
				if next < 0 {
					next = off + 1
				}
				return n, next, ptrs, nil
			}
			if off+1+c > len(msg) {
				return nil, 0, nil, errors.New("label runs past end")
			}
			total += 1 + c
			if total > 255 {
				return nil, 0, nil, errors.New("name longer than 255 octets")
			}
			n = append(n, append([]byte(nil), msg[off+1:off+1+c]...))
			off += 1 + c
		case 0xC0:
			if off+1 >= len(msg) {
				return nil, 0, nil, errors.New("pointer runs past end")
			}
			t := (c&0x3F)<<8 | int(msg[off+1])
			if t >= off {
				return nil, 0, nil, fmt.Errorf("pointer at %d does not point backwards (%d)", off, t)
			}
			ptrs = append(ptrs, Ptr{At: off, Target: t})
			if next < 0 {
				next = off + 2
			}
			hops++
			if hops > 127 {
				return nil, 0, nil, errors.New("too many pointers")
			}
			off = t
		default:
			return nil, 0, nil, errors.New("reserved label type")
		}
	}
}
