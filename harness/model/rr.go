package model

import (
	"encoding/binary"
	"fmt"
	"sort"
)

// Kind is the RFC-level kind of one RDATA field.
type Kind uint8

const (
	KU8 Kind = iota
	KU16
	KU32
	KU48
	KU64
	KA       // 4 address octets
	KAAAA    // 16 address octets
	KName    // domain name, never compressed on output
	KCName   // domain name of the RFC 3597 s.4 set: may be compressed
	KStr     // one <character-string>
	KStrs    // one or more <character-string>s up to the end of RDATA
	KStrOpt  // optional trailing <character-string> (ISDN sub-address)
	KHex     // opaque to end of RDATA, hex in Go/text
	KB64     // opaque to end of RDATA, base64 in Go/text
	KRaw     // opaque to end of RDATA, raw Go string (NULL)
	KOctet   // opaque to end of RDATA, text with backslash escapes in Go (URI target, CAA value)
	KHexN    // opaque whose length is carried by another integer field, hex
	KB64N    // same, base64
	KB32N    // same, base32hex
	KBitmap  // RFC 4034 s.4.1.2 type bitmap
	KAPL     // RFC 3123 items
	KSVCB    // RFC 9460 SvcParams
	KOPT     // RFC 6891 options
	KGateway // IPSECKEY / AMTRELAY gateway (none, a, aaaa, name) selected by a type field
	KNames   // zero or more uncompressed names to the end of RDATA (HIP)
)

// Field is one RDATA field of a layout.
type Field struct {
	Kind Kind
	Go   string // name of the Go struct field carrying it ("" for derived-only)
	// LenOf names the field whose octet length this integer field carries (derived).
	LenOf string
	// GwOf names the gateway field whose type this integer carries (low 7 bits for AMTRELAY).
	GwOf string
}

// Layout is the RDATA layout of one RR type.
type Layout struct {
	Type   uint16
	Name   string
	Fields []Field
	// NoText: the type has no presentation format (OPT, TSIG, TKEY, NULL, ANY, NXNAME).
	NoText bool
}

// APLItem is one RFC 3123 address prefix item.
type APLItem struct {
	Family uint16
	Prefix uint8
	Neg    bool
	AFD    []byte // address octets without trailing zero octets
}

// SVCParam is one SvcParam: Key and the wire Value; Parsed mirrors the value by kind.
type SVCParam struct {
	Key   uint16
	Value []byte
}

// Opt is one EDNS0 option.
type Opt struct {
	Code uint16
	Data []byte
}

// Gateway is the IPSECKEY/AMTRELAY gateway union.
type Gateway struct {
	Type uint8 // 0 none, 1 IPv4, 2 IPv6, 3 name
	Addr []byte
	Host Name
}

// OptStr is an optional character-string.
type OptStr struct {
	Present bool
	S       []byte
}

// Rec is a model record.
type Rec struct {
	Owner Name
	Type  uint16
	Class uint16
	TTL   uint32
	L     *Layout
	Vals  []any
	// NoRdata: the record carries no RDATA at all (dynamic update form); Vals is ignored.
	NoRdata bool
}

func f(k Kind, g string) Field                    { return Field{Kind: k, Go: g} }
func lenf(k Kind, g, of string) Field             { return Field{Kind: k, Go: g, LenOf: of} }
func lay(t uint16, n string, fs ...Field) *Layout { return &Layout{Type: t, Name: n, Fields: fs} }

func one(t uint16, n string, k Kind, g string) *Layout { return lay(t, n, f(k, g)) }

// Layouts is the table of RDATA layouts, transcribed from the RFCs (DESIGN.md Appendix A).
var Layouts = map[uint16]*Layout{}

// LayoutList is Layouts in type-code order.
var LayoutList []*Layout

func init() {
	dnskey := func(t uint16, n string) *Layout {
		return lay(t, n, f(KU16, "Flags"), f(KU8, "Protocol"), f(KU8, "Algorithm"), f(KB64, "PublicKey"))
	}
	ds := func(t uint16, n string) *Layout {
		return lay(t, n, f(KU16, "KeyTag"), f(KU8, "Algorithm"), f(KU8, "DigestType"), f(KHex, "Digest"))
	}
	sig := func(t uint16, n string) *Layout {
		return lay(t, n, f(KU16, "TypeCovered"), f(KU8, "Algorithm"), f(KU8, "Labels"), f(KU32, "OrigTtl"),
			f(KU32, "Expiration"), f(KU32, "Inception"), f(KU16, "KeyTag"), f(KName, "SignerName"), f(KB64, "Signature"))
	}
	tlsa := func(t uint16, n string) *Layout {
		return lay(t, n, f(KU8, "Usage"), f(KU8, "Selector"), f(KU8, "MatchingType"), f(KHex, "Certificate"))
	}
	nsec := func(t uint16, n string) *Layout {
		return lay(t, n, f(KName, "NextDomain"), f(KBitmap, "TypeBitMap"))
	}
	svcb := func(t uint16, n string) *Layout {
		return lay(t, n, f(KU16, "Priority"), f(KName, "Target"), f(KSVCB, "Value"))
	}
	all := []*Layout{
		one(1, "A", KA, "A"),
		one(2, "NS", KCName, "Ns"),
		one(3, "MD", KCName, "Md"),
		one(4, "MF", KCName, "Mf"),
		one(5, "CNAME", KCName, "Target"),
		lay(6, "SOA", f(KCName, "Ns"), f(KCName, "Mbox"), f(KU32, "Serial"), f(KU32, "Refresh"), f(KU32, "Retry"), f(KU32, "Expire"), f(KU32, "Minttl")),
		one(7, "MB", KCName, "Mb"),
		one(8, "MG", KCName, "Mg"),
		one(9, "MR", KCName, "Mr"),
		{Type: 10, Name: "NULL", Fields: []Field{f(KRaw, "Data")}, NoText: true},
		one(12, "PTR", KCName, "Ptr"),
		lay(13, "HINFO", f(KStr, "Cpu"), f(KStr, "Os")),
		lay(14, "MINFO", f(KCName, "Rmail"), f(KCName, "Email")),
		lay(15, "MX", f(KU16, "Preference"), f(KCName, "Mx")),
		one(16, "TXT", KStrs, "Txt"),
		lay(17, "RP", f(KName, "Mbox"), f(KName, "Txt")),
		lay(18, "AFSDB", f(KU16, "Subtype"), f(KName, "Hostname")),
		one(19, "X25", KStr, "PSDNAddress"),
		lay(20, "ISDN", f(KStr, "Address"), f(KStrOpt, "SubAddress")),
		lay(21, "RT", f(KU16, "Preference"), f(KName, "Host")),
		one(23, "NSAP-PTR", KName, "Ptr"),
		sig(24, "SIG"),
		dnskey(25, "KEY"),
		lay(26, "PX", f(KU16, "Preference"), f(KName, "Map822"), f(KName, "Mapx400")),
		lay(27, "GPOS", f(KStr, "Longitude"), f(KStr, "Latitude"), f(KStr, "Altitude")),
		one(28, "AAAA", KAAAA, "AAAA"),
		lay(29, "LOC", f(KU8, "Version"), f(KU8, "Size"), f(KU8, "HorizPre"), f(KU8, "VertPre"), f(KU32, "Latitude"), f(KU32, "Longitude"), f(KU32, "Altitude")),
		nsec(30, "NXT"),
		one(31, "EID", KHex, "Endpoint"),
		one(32, "NIMLOC", KHex, "Locator"),
		lay(33, "SRV", f(KU16, "Priority"), f(KU16, "Weight"), f(KU16, "Port"), f(KName, "Target")),
		lay(35, "NAPTR", f(KU16, "Order"), f(KU16, "Preference"), f(KStr, "Flags"), f(KStr, "Service"), f(KStr, "Regexp"), f(KName, "Replacement")),
		lay(36, "KX", f(KU16, "Preference"), f(KName, "Exchanger")),
		lay(37, "CERT", f(KU16, "Type"), f(KU16, "KeyTag"), f(KU8, "Algorithm"), f(KB64, "Certificate")),
		one(39, "DNAME", KName, "Target"),
		{Type: 41, Name: "OPT", Fields: []Field{f(KOPT, "Option")}, NoText: true},
		one(42, "APL", KAPL, "Prefixes"),
		ds(43, "DS"),
		lay(44, "SSHFP", f(KU8, "Algorithm"), f(KU8, "Type"), f(KHex, "FingerPrint")),
		lay(45, "IPSECKEY", f(KU8, "Precedence"), Field{Kind: KU8, Go: "GatewayType", GwOf: "Gateway"}, f(KU8, "Algorithm"), f(KGateway, "Gateway"), f(KB64, "PublicKey")),
		sig(46, "RRSIG"),
		nsec(47, "NSEC"),
		dnskey(48, "DNSKEY"),
		one(49, "DHCID", KB64, "Digest"),
		lay(50, "NSEC3", f(KU8, "Hash"), f(KU8, "Flags"), f(KU16, "Iterations"), lenf(KU8, "SaltLength", "Salt"), f(KHexN, "Salt"),
			lenf(KU8, "HashLength", "NextDomain"), f(KB32N, "NextDomain"), f(KBitmap, "TypeBitMap")),
		lay(51, "NSEC3PARAM", f(KU8, "Hash"), f(KU8, "Flags"), f(KU16, "Iterations"), lenf(KU8, "SaltLength", "Salt"), f(KHexN, "Salt")),
		tlsa(52, "TLSA"),
		tlsa(53, "SMIMEA"),
		lay(55, "HIP", lenf(KU8, "HitLength", "Hit"), f(KU8, "PublicKeyAlgorithm"), lenf(KU16, "PublicKeyLength", "PublicKey"),
			f(KHexN, "Hit"), f(KB64N, "PublicKey"), f(KNames, "RendezvousServers")),
		one(56, "NINFO", KStrs, "ZSData"),
		dnskey(57, "RKEY"),
		lay(58, "TALINK", f(KName, "PreviousName"), f(KName, "NextName")),
		ds(59, "CDS"),
		dnskey(60, "CDNSKEY"),
		one(61, "OPENPGPKEY", KB64, "PublicKey"),
		lay(62, "CSYNC", f(KU32, "Serial"), f(KU16, "Flags"), f(KBitmap, "TypeBitMap")),
		lay(63, "ZONEMD", f(KU32, "Serial"), f(KU8, "Scheme"), f(KU8, "Hash"), f(KHex, "Digest")),
		svcb(64, "SVCB"),
		svcb(65, "HTTPS"),
		one(99, "SPF", KStrs, "Txt"),
		one(100, "UINFO", KStr, "Uinfo"),
		one(101, "UID", KU32, "Uid"),
		one(102, "GID", KU32, "Gid"),
		lay(104, "NID", f(KU16, "Preference"), f(KU64, "NodeID")),
		lay(105, "L32", f(KU16, "Preference"), f(KA, "Locator32")),
		lay(106, "L64", f(KU16, "Preference"), f(KU64, "Locator64")),
		lay(107, "LP", f(KU16, "Preference"), f(KName, "Fqdn")),
		one(108, "EUI48", KU48, "Address"),
		one(109, "EUI64", KU64, "Address"),
		{Type: 128, Name: "NXNAME", NoText: true},
		{Type: 249, Name: "TKEY", NoText: true, Fields: []Field{f(KName, "Algorithm"), f(KU32, "Inception"), f(KU32, "Expiration"), f(KU16, "Mode"), f(KU16, "Error"),
			lenf(KU16, "KeySize", "Key"), f(KHexN, "Key"), lenf(KU16, "OtherLen", "OtherData"), f(KHexN, "OtherData")}},
		{Type: 250, Name: "TSIG", NoText: true, Fields: []Field{f(KName, "Algorithm"), f(KU48, "TimeSigned"), f(KU16, "Fudge"), lenf(KU16, "MACSize", "MAC"), f(KHexN, "MAC"),
			f(KU16, "OrigId"), f(KU16, "Error"), lenf(KU16, "OtherLen", "OtherData"), f(KHexN, "OtherData")}},
		{Type: 255, Name: "ANY", NoText: true},
		lay(256, "URI", f(KU16, "Priority"), f(KU16, "Weight"), f(KOctet, "Target")),
		lay(257, "CAA", f(KU8, "Flag"), f(KStr, "Tag"), f(KOctet, "Value")),
		one(258, "AVC", KStrs, "Txt"),
		lay(260, "AMTRELAY", f(KU8, "Precedence"), Field{Kind: KU8, Go: "GatewayType", GwOf: "Gateway"}, f(KGateway, "Gateway")),
		one(261, "RESINFO", KStrs, "Txt"),
		ds(32768, "TA"),
		ds(32769, "DLV"),
	}
	for _, l := range all {
		if _, dup := Layouts[l.Type]; dup {
			panic(fmt.Sprintf("duplicate layout %d", l.Type))
		}
		Layouts[l.Type] = l
	}
	LayoutList = all
}

// Unknown returns the RFC 3597 layout for a type without a specific layout.
func Unknown(t uint16) *Layout {
	return &Layout{Type: t, Name: fmt.Sprintf("TYPE%d", t), Fields: []Field{f(KHex, "Rdata")}}
}

// FieldIndex returns the index of the field with Go name g, or -1.
func (l *Layout) FieldIndex(g string) int {
	for i, fd := range l.Fields {
		if fd.Go == g {
			return i
		}
	}
	return -1
}

// NameRef marks where a name sits in encoded RDATA (for compression oracles).
type NameRef struct {
	Off          int // offset within RDATA
	N            Name
	Compressible bool
}

// EncodeBitmap encodes an RFC 4034 s.4.1.2 type bitmap (types must be sorted and unique).
func EncodeBitmap(types []uint16) []byte {
	var out []byte
	i := 0
	for i < len(types) {
		win := types[i] >> 8
		var bm [32]byte
		last := 0
		for i < len(types) && types[i]>>8 == win {
			lo := int(types[i] & 0xFF)
			bm[lo/8] |= 0x80 >> (lo % 8)
			if lo/8+1 > last {
				last = lo/8 + 1
			}
			i++
		}
		out = append(out, byte(win), byte(last))
		out = append(out, bm[:last]...)
	}
	return out
}

// EncodeAPL encodes RFC 3123 items.
func EncodeAPL(items []APLItem) []byte {
	var out []byte
	for _, it := range items {
		out = binary.BigEndian.AppendUint16(out, it.Family)
		out = append(out, it.Prefix)
		b := byte(len(it.AFD))
		if it.Neg {
			b |= 0x80
		}
		out = append(out, b)
		out = append(out, it.AFD...)
	}
	return out
}

// EncodeSVCB encodes SvcParams in ascending key order.
func EncodeSVCB(ps []SVCParam) []byte {
	s := append([]SVCParam(nil), ps...)
	sort.SliceStable(s, func(i, j int) bool { return s[i].Key < s[j].Key })
	var out []byte
	for _, p := range s {
		out = binary.BigEndian.AppendUint16(out, p.Key)
		out = binary.BigEndian.AppendUint16(out, uint16(len(p.Value)))
		out = append(out, p.Value...)
	}
	return out
}

// EncodeOpts encodes EDNS0 options in order.
func EncodeOpts(os []Opt) []byte {
	var out []byte
	for _, o := range os {
		out = binary.BigEndian.AppendUint16(out, o.Code)
		out = binary.BigEndian.AppendUint16(out, uint16(len(o.Data)))
		out = append(out, o.Data...)
	}
	return out
}

// Rdata encodes the record's RDATA uncompressed and lists the names inside it.
func (r *Rec) Rdata() ([]byte, []NameRef) {
	if r.NoRdata {
		return nil, nil
	}
	var out []byte
	var refs []NameRef
	for i, fd := range r.L.Fields {
		v := r.Vals[i]
		switch fd.Kind {
		case KU8:
			out = append(out, byte(v.(uint64)))
		case KU16:
			out = binary.BigEndian.AppendUint16(out, uint16(v.(uint64)))
		case KU32:
			out = binary.BigEndian.AppendUint32(out, uint32(v.(uint64)))
		case KU48:
			u := v.(uint64)
			out = append(out, byte(u>>40), byte(u>>32), byte(u>>24), byte(u>>16), byte(u>>8), byte(u))
		case KU64:
			out = binary.BigEndian.AppendUint64(out, v.(uint64))
		case KA, KAAAA, KHex, KB64, KRaw, KOctet, KHexN, KB64N, KB32N:
			out = append(out, v.([]byte)...)
		case KName, KCName:
			n := v.(Name)
			refs = append(refs, NameRef{Off: len(out), N: n, Compressible: fd.Kind == KCName})
			out = append(out, n.Wire()...)
		case KStr:
			s := v.([]byte)
			out = append(out, byte(len(s)))
			out = append(out, s...)
		case KStrs:
			for _, s := range v.([][]byte) {
				out = append(out, byte(len(s)))
				out = append(out, s...)
			}
		case KStrOpt:
			o := v.(OptStr)
			if o.Present {
				out = append(out, byte(len(o.S)))
				out = append(out, o.S...)
			}
		case KBitmap:
			out = append(out, EncodeBitmap(v.([]uint16))...)
		case KAPL:
			out = append(out, EncodeAPL(v.([]APLItem))...)
		case KSVCB:
			out = append(out, EncodeSVCB(v.([]SVCParam))...)
		case KOPT:
			out = append(out, EncodeOpts(v.([]Opt))...)
		case KGateway:
			g := v.(Gateway)
			switch g.Type {
			case 1, 2:
				out = append(out, g.Addr...)
			case 3:
				refs = append(refs, NameRef{Off: len(out), N: g.Host, Compressible: false})
				out = append(out, g.Host.Wire()...)
			}
		case KNames:
			for _, n := range v.([]Name) {
				refs = append(refs, NameRef{Off: len(out), N: n, Compressible: false})
				out = append(out, n.Wire()...)
			}
		default:
			panic("unknown kind")
		}
	}
	return out, refs
}

// Wire encodes the whole record uncompressed.
func (r *Rec) Wire() []byte {
	rd, _ := r.Rdata()
	out := r.Owner.Wire()
	out = binary.BigEndian.AppendUint16(out, r.Type)
	out = binary.BigEndian.AppendUint16(out, r.Class)
	out = binary.BigEndian.AppendUint32(out, r.TTL)
	out = binary.BigEndian.AppendUint16(out, uint16(len(rd)))
	return append(out, rd...)
}

// Question is a model question.
type Question struct {
	Name  Name
	Type  uint16
	Class uint16
}

// Msg is a model message. Bits is the 16-bit flags word as sent on the wire (QR, opcode, AA, TC,
// RD, RA, Z, AD, CD and the low 4 RCODE bits).
type Msg struct {
	ID   uint16
	Bits uint16
	Q    []Question
	An   []*Rec
	Ns   []*Rec
	Ar   []*Rec
}

// Wire encodes the message uncompressed.
func (m *Msg) Wire() []byte {
	out := make([]byte, 12, 512)
	binary.BigEndian.PutUint16(out[0:], m.ID)
	binary.BigEndian.PutUint16(out[2:], m.Bits)
	binary.BigEndian.PutUint16(out[4:], uint16(len(m.Q)))
	binary.BigEndian.PutUint16(out[6:], uint16(len(m.An)))
	binary.BigEndian.PutUint16(out[8:], uint16(len(m.Ns)))
	binary.BigEndian.PutUint16(out[10:], uint16(len(m.Ar)))
	for _, q := range m.Q {
		out = append(out, q.Name.Wire()...)
		out = binary.BigEndian.AppendUint16(out, q.Type)
		out = binary.BigEndian.AppendUint16(out, q.Class)
	}
	for _, sec := range [][]*Rec{m.An, m.Ns, m.Ar} {
		for _, r := range sec {
			out = append(out, r.Wire()...)
		}
	}
	return out
}
