package model

import (
	"bytes"
	"crypto"
	"crypto/ecdsa"
	"crypto/ed25519"
	"crypto/elliptic"
	"crypto/rsa"
	"crypto/sha1"
	"crypto/sha256"
	"crypto/sha512"
	"encoding/binary"
	"math/big"
	"sort"
)

// Algorithm numbers.
const (
	AlgRSASHA1      = 5
	AlgRSASHA1NSEC3 = 7
	AlgRSASHA256    = 8
	AlgRSASHA512    = 10
	AlgECDSAP256    = 13
	AlgECDSAP384    = 14
	AlgED25519      = 15
)

// SigFields are the RRSIG RDATA fields.
type SigFields struct {
	TypeCovered uint16
	Alg, Labels uint8
	OrigTTL     uint32
	Expiration  uint32
	Inception   uint32
	KeyTag      uint16
	Signer      Name
	Sig         []byte
}

// lowerRdataTypes: RFC 4034 s.6.2 as amended by RFC 6840 s.5.1 (no NSEC, no HINFO); NXT and A6
// are obsolete and not generated.
var lowerRdataTypes = map[uint16]bool{2: true, 3: true, 4: true, 5: true, 6: true, 7: true, 8: true, 9: true, 12: true, 14: true, 15: true,
	17: true, 18: true, 21: true, 24: true, 26: true, 35: true, 36: true, 33: true, 39: true}

// LowersRdataNames reports whether names embedded in the RDATA of type t are lower-cased in canonical form.
func LowersRdataNames(t uint16) bool { return lowerRdataTypes[t] }

// CanonicalRdata returns the RDATA in canonical form (RFC 4034 s.6.2 (3)).
func (r *Rec) CanonicalRdata() []byte {
	rd, refs := r.Rdata()
	if !lowerRdataTypes[r.Type] {
		return rd
	}
	out := append([]byte(nil), rd...)
	for _, ref := range refs {
		copy(out[ref.Off:], ref.N.Lower().Wire())
	}
	return out
}

// SigData builds the octet string that is signed (RFC 4034 s.3.1.8.1): RRSIG RDATA without the
// signature, then the RRset in canonical form and order, duplicates removed.
func SigData(s SigFields, rrs []*Rec) []byte {
	var buf []byte
	buf = binary.BigEndian.AppendUint16(buf, s.TypeCovered)
	buf = append(buf, s.Alg, s.Labels)
	buf = binary.BigEndian.AppendUint32(buf, s.OrigTTL)
	buf = binary.BigEndian.AppendUint32(buf, s.Expiration)
	buf = binary.BigEndian.AppendUint32(buf, s.Inception)
	buf = binary.BigEndian.AppendUint16(buf, s.KeyTag)
	buf = append(buf, s.Signer.Lower().Wire()...)
	type item struct{ hdr, rd []byte }
	var items []item
	for _, r := range rrs {
		owner := r.Owner.Lower()
		if len(owner) > int(s.Labels) {
			owner = append(Name{[]byte("*")}, owner[len(owner)-int(s.Labels):]...)
		}
		h := owner.Wire()
		h = binary.BigEndian.AppendUint16(h, r.Type)
		h = binary.BigEndian.AppendUint16(h, r.Class)
		h = binary.BigEndian.AppendUint32(h, s.OrigTTL)
		items = append(items, item{h, r.CanonicalRdata()})
	}
	sort.SliceStable(items, func(i, j int) bool { return bytes.Compare(items[i].rd, items[j].rd) < 0 })
	for i, it := range items {
		if i > 0 && bytes.Equal(it.rd, items[i-1].rd) && bytes.Equal(it.hdr, items[i-1].hdr) {
			continue
		}
		buf = append(buf, it.hdr...)
		buf = binary.BigEndian.AppendUint16(buf, uint16(len(it.rd)))
		buf = append(buf, it.rd...)
	}
	return buf
}

// KeyRdata is the DNSKEY/KEY RDATA.
func KeyRdata(flags uint16, proto, alg uint8, pub []byte) []byte {
	out := binary.BigEndian.AppendUint16(nil, flags)
	out = append(out, proto, alg)
	return append(out, pub...)
}

// KeyTag is RFC 4034 Appendix B (not for algorithm 1).
func KeyTag(rdata []byte) uint16 {
	var ac uint32
	for i, b := range rdata {
		if i&1 == 1 {
			ac += uint32(b)
		} else {
			ac += uint32(b) << 8
		}
	}
	ac += (ac >> 16) & 0xFFFF
	return uint16(ac & 0xFFFF)
}

// DSDigest is RFC 4034 s.5.1.4 (digest types 1, 2, 4); nil for other types.
func DSDigest(owner Name, keyRdata []byte, digestType uint8) []byte {
	data := append(owner.Lower().Wire(), keyRdata...)
	switch digestType {
	case 1:
		s := sha1.Sum(data)
		return s[:]
	case 2:
		s := sha256.Sum256(data)
		return s[:]
	case 4:
		s := sha512.Sum384(data)
		return s[:]
	}
	return nil
}

// NSEC3Hash is RFC 5155 s.5: IH(salt, x, 0) = H(x || salt); IH(salt, x, k) = H(IH(salt, x, k-1) || salt).
func NSEC3Hash(name Name, salt []byte, iterations uint16) []byte {
	x := name.Lower().Wire()
	h := sha1.Sum(append(append([]byte(nil), x...), salt...))
	for i := 0; i < int(iterations); i++ {
		h = sha1.Sum(append(append([]byte(nil), h[:]...), salt...))
	}
	return h[:]
}

// ParsePublicKey decodes the DNSKEY public key field per RFC 3110 / 6605 / 8080.
func ParsePublicKey(alg uint8, pub []byte) crypto.PublicKey {
	switch alg {
	case AlgRSASHA1, AlgRSASHA1NSEC3, AlgRSASHA256, AlgRSASHA512:
		if len(pub) < 3 {
			return nil
		}
		el := int(pub[0])
		off := 1
		if el == 0 {
			el = int(pub[1])<<8 | int(pub[2])
			off = 3
		}
		if el == 0 || off+el >= len(pub) || el > 8 {
			return nil
		}
		e := new(big.Int).SetBytes(pub[off : off+el])
		n := new(big.Int).SetBytes(pub[off+el:])
		if !e.IsInt64() || e.Int64() > 1<<31-1 || e.Int64() < 2 || n.Sign() == 0 {
			return nil
		}
		return &rsa.PublicKey{N: n, E: int(e.Int64())}
	case AlgECDSAP256, AlgECDSAP384:
		c, l := elliptic.P256(), 32
		if alg == AlgECDSAP384 {
			c, l = elliptic.P384(), 48
		}
		if len(pub) != 2*l {
			return nil
		}
		return &ecdsa.PublicKey{Curve: c, X: new(big.Int).SetBytes(pub[:l]), Y: new(big.Int).SetBytes(pub[l:])}
	case AlgED25519:
		if len(pub) != ed25519.PublicKeySize {
			return nil
		}
		return ed25519.PublicKey(append([]byte(nil), pub...))
	}
	return nil
}

func hashFor(alg uint8) (crypto.Hash, []byte, func([]byte) []byte) {
	switch alg {
	case AlgRSASHA1, AlgRSASHA1NSEC3:
		return crypto.SHA1, nil, func(b []byte) []byte { s := sha1.Sum(b); return s[:] }
	case AlgRSASHA256, AlgECDSAP256:
		return crypto.SHA256, nil, func(b []byte) []byte { s := sha256.Sum256(b); return s[:] }
	case AlgECDSAP384:
		return crypto.SHA384, nil, func(b []byte) []byte { s := sha512.Sum384(b); return s[:] }
	case AlgRSASHA512:
		return crypto.SHA512, nil, func(b []byte) []byte { s := sha512.Sum512(b); return s[:] }
	}
	return 0, nil, nil
}

// VerifySig checks sig over data under the public key (DNSKEY wire form).
func VerifySig(alg uint8, pub []byte, data, sig []byte) bool {
	k := ParsePublicKey(alg, pub)
	if k == nil {
		return false
	}
	switch key := k.(type) {
	case *rsa.PublicKey:
		h, _, f := hashFor(alg)
		return rsa.VerifyPKCS1v15(key, h, f(data), sig) == nil
	case *ecdsa.PublicKey:
		_, _, f := hashFor(alg)
		// RFC 6605 s.4: r | s, each of exactly the curve's octet length
		if len(sig) != 2*((key.Curve.Params().BitSize+7)/8) {
			return false
		}
		if !key.Curve.IsOnCurve(key.X, key.Y) {
			return false
		}
		r := new(big.Int).SetBytes(sig[:len(sig)/2])
		s := new(big.Int).SetBytes(sig[len(sig)/2:])
		return ecdsa.Verify(key, f(data), r, s)
	case ed25519.PublicKey:
		return ed25519.Verify(key, data, sig)
	}
	return false
}

// SignData signs data with the private key in the DNSSEC signature format of alg.
func SignData(alg uint8, priv crypto.Signer, data []byte, rnd interface{ Read([]byte) (int, error) }) ([]byte, error) {
	switch k := priv.(type) {
	case *rsa.PrivateKey:
		h, _, f := hashFor(alg)
		return rsa.SignPKCS1v15(nil, k, h, f(data))
	case *ecdsa.PrivateKey:
		_, _, f := hashFor(alg)
		r, s, err := ecdsa.Sign(rnd, k, f(data))
		if err != nil {
			return nil, err
		}
		l := 32
		if alg == AlgECDSAP384 {
			l = 48
		}
		out := make([]byte, 2*l)
		r.FillBytes(out[:l])
		s.FillBytes(out[l:])
		return out, nil
	case ed25519.PrivateKey:
		return ed25519.Sign(k, data), nil
	}
	return priv.Sign(rnd, data, crypto.Hash(0))
}
