package model

import (
	"encoding/binary"
	"errors"
	"fmt"
)

// PtrUse describes one compression pointer found in a message.
type PtrUse struct {
	At, Target int
	Where      string // "question", "owner", "rdata"
	RRType     uint16
	// Compressible: the pointer sits in a name field of the RFC 3597 s.4 set (or owner/question).
	Compressible bool
	// TargetIsLabelStart: the target is the start of a label of a name that appears (literally) earlier.
	TargetIsLabelStart bool
}

type walker struct {
	msg    []byte
	out    []byte
	ptrs   []PtrUse
	starts map[int]bool
}

// name decodes a name at off, appends its expansion to out, records pointers.
func (w *walker) name(off int, where string, t uint16, compressible bool) (int, error) {
	// register literal label starts of the in-place part
	p := off
	for p < len(w.msg) {
		c := int(w.msg[p])
		if c == 0 || c&0xC0 != 0 {
			break
		}
		if p+1+c > len(w.msg) {
			break
		}
		w.starts[p] = true
		p += 1 + c
	}
	n, next, ptrs, err := DecodeName(w.msg, off)
	if err != nil {
		return 0, fmt.Errorf("%s name at %d: %w", where, off, err)
	}
	for i, q := range ptrs {
		u := PtrUse{At: q.At, Target: q.Target, Where: where, RRType: t, Compressible: compressible, TargetIsLabelStart: w.starts[q.Target]}
		if i > 0 {
			// a pointer reached through another pointer: it was judged where it was written
			continue
		}
		w.ptrs = append(w.ptrs, u)
	}
	w.out = append(w.out, n.Wire()...)
	return next, nil
}

func (w *walker) copy(off, n int) (int, error) {
	if off+n > len(w.msg) || n < 0 {
		return 0, errors.New("field runs past end")
	}
	w.out = append(w.out, w.msg[off:off+n]...)
	return off + n, nil
}

// rdata walks RDATA [off,end) of type t and appends the decompressed RDATA to out.
func (w *walker) rdata(t uint16, off, end int) error {
	l := Layouts[t]
	if l == nil || off == end {
		_, err := w.copy(off, end-off)
		return err
	}
	ints := map[string]uint64{}
	var err error
	for _, fd := range l.Fields {
		if off > end {
			return errors.New("rdata overrun")
		}
		fixed := 0
		switch fd.Kind {
		case KU8:
			fixed = 1
		case KU16:
			fixed = 2
		case KU32, KA:
			fixed = 4
		case KU48:
			fixed = 6
		case KU64:
			fixed = 8
		case KAAAA:
			fixed = 16
		}
		switch fd.Kind {
		case KU8, KU16, KU32, KU48, KU64:
			if off+fixed > end {
				return errors.New("integer runs past rdata")
			}
			var v uint64
			for _, b := range w.msg[off : off+fixed] {
				v = v<<8 | uint64(b)
			}
			ints[fd.Go] = v
			off, err = w.copy(off, fixed)
		case KA, KAAAA:
			off, err = w.copy(off, fixed)
		case KName, KCName:
			off, err = w.name(off, "rdata", t, fd.Kind == KCName)
		case KStr:
			if off >= end {
				return errors.New("string runs past rdata")
			}
			off, err = w.copy(off, 1+int(w.msg[off]))
		case KHexN, KB64N, KB32N:
			n := -1
			for _, o := range l.Fields {
				if o.LenOf == fd.Go {
					n = int(ints[o.Go])
				}
			}
			off, err = w.copy(off, n)
		case KGateway:
			gt := ints["GatewayType"] & 0x7f
			switch gt {
			case 1:
				off, err = w.copy(off, 4)
			case 2:
				off, err = w.copy(off, 16)
			case 3:
				off, err = w.name(off, "rdata", t, false)
			}
		case KNames:
			for off < end && err == nil {
				off, err = w.name(off, "rdata", t, false)
			}
		default: // everything else extends to the end of RDATA and holds no compressible name
			off, err = w.copy(off, end-off)
		}
		if err != nil {
			return err
		}
	}
	if off != end {
		return fmt.Errorf("rdata of type %d: walked to %d, RDLENGTH ends at %d", t, off, end)
	}
	return nil
}

// Decompress strictly decodes a message and re-encodes it with every name expanded
// (RDLENGTHs adjusted). It also lists every compression pointer written in the message.
func Decompress(msg []byte) ([]byte, []PtrUse, error) {
	if len(msg) < 12 {
		return nil, nil, errors.New("short header")
	}
	w := &walker{msg: msg, starts: map[int]bool{}}
	w.out = append(w.out, msg[:12]...)
	qd := int(binary.BigEndian.Uint16(msg[4:]))
	rrs := int(binary.BigEndian.Uint16(msg[6:])) + int(binary.BigEndian.Uint16(msg[8:])) + int(binary.BigEndian.Uint16(msg[10:]))
	off := 12
	var err error
	for i := 0; i < qd; i++ {
		if off, err = w.name(off, "question", 0, true); err != nil {
			return nil, nil, err
		}
		if off, err = w.copy(off, 4); err != nil {
			return nil, nil, err
		}
	}
	for i := 0; i < rrs; i++ {
		if off, err = w.name(off, "owner", 0, true); err != nil {
			return nil, nil, err
		}
		if off+10 > len(msg) {
			return nil, nil, errors.New("rr header runs past end")
		}
		t := binary.BigEndian.Uint16(msg[off:])
		rdlen := int(binary.BigEndian.Uint16(msg[off+8:]))
		w.out = append(w.out, msg[off:off+10]...)
		lenAt := len(w.out) - 2
		off += 10
		if off+rdlen > len(msg) {
			return nil, nil, errors.New("rdata runs past end")
		}
		before := len(w.out)
		if err = w.rdata(t, off, off+rdlen); err != nil {
			return nil, nil, fmt.Errorf("record %d: %w", i, err)
		}
		newLen := len(w.out) - before
		if newLen > 65535 {
			return nil, nil, errors.New("expanded rdata over 65535")
		}
		binary.BigEndian.PutUint16(w.out[lenAt:], uint16(newLen))
		off += rdlen
	}
	if off != len(msg) {
		return nil, nil, fmt.Errorf("trailing octets: walked to %d of %d", off, len(msg))
	}
	return w.out, w.ptrs, nil
}

// compressor is a simple greedy RFC 1035 s.4.1.4 compressor used by the model encoder.
type compressor struct {
	out   []byte
	table map[string]int // suffix wire (exact octets) -> offset
	// memo: a later occurrence of a name points at the latest place the name was written, which
	// may itself be a pointer (RFC 1035 s.4.1.4 allows "a pointer to a prior occurrence of the same
	// name"); hops counts the pointers such a target already goes through, kept at most memo.
	memo int
	hops map[string]int
}

func (c *compressor) name(n Name, compress bool) {
	for i := range n {
		suf := string(Name(n[i:]).Wire())
		if off, ok := c.table[suf]; ok && compress {
			if c.memo > 0 && c.hops[suf] < c.memo && len(c.out) < 0x4000 {
				c.table[suf] = len(c.out)
				c.hops[suf]++
			}
			c.out = append(c.out, 0xC0|byte(off>>8), byte(off))
			return
		}
		if _, ok := c.table[suf]; !ok && len(c.out) < 0x4000 {
			c.table[suf] = len(c.out)
		}
		c.out = append(c.out, byte(len(n[i])))
		c.out = append(c.out, n[i]...)
	}
	c.out = append(c.out, 0)
}

// WireCompressed encodes the message compressing owner and question names and, when allRdata
// is set, the names inside the RDATA of every type (legal input that decoders must accept);
// otherwise only RDATA names of the RFC 3597 s.4 set.
func (m *Msg) WireCompressed(allRdata bool) []byte { return m.WireCompressedMemo(allRdata, 0) }

// WireCompressedMemo is WireCompressed by a sender that remembers where it last wrote a name: with
// memo > 0 pointers may target earlier pointers, through at most memo further pointers.
func (m *Msg) WireCompressedMemo(allRdata bool, memo int) []byte {
	c := &compressor{table: map[string]int{}, memo: memo, hops: map[string]int{}}
	c.out = make([]byte, 12)
	binary.BigEndian.PutUint16(c.out[0:], m.ID)
	binary.BigEndian.PutUint16(c.out[2:], m.Bits)
	binary.BigEndian.PutUint16(c.out[4:], uint16(len(m.Q)))
	binary.BigEndian.PutUint16(c.out[6:], uint16(len(m.An)))
	binary.BigEndian.PutUint16(c.out[8:], uint16(len(m.Ns)))
	binary.BigEndian.PutUint16(c.out[10:], uint16(len(m.Ar)))
	for _, q := range m.Q {
		c.name(q.Name, true)
		c.out = binary.BigEndian.AppendUint16(c.out, q.Type)
		c.out = binary.BigEndian.AppendUint16(c.out, q.Class)
	}
	for _, sec := range [][]*Rec{m.An, m.Ns, m.Ar} {
		for _, r := range sec {
			c.name(r.Owner, true)
			c.out = binary.BigEndian.AppendUint16(c.out, r.Type)
			c.out = binary.BigEndian.AppendUint16(c.out, r.Class)
			c.out = binary.BigEndian.AppendUint32(c.out, r.TTL)
			lenAt := len(c.out)
			c.out = append(c.out, 0, 0)
			rd, refs := r.Rdata()
			pos := 0
			for _, ref := range refs {
				c.out = append(c.out, rd[pos:ref.Off]...)
				c.name(ref.N, allRdata || ref.Compressible)
				pos = ref.Off + ref.N.WireLen()
			}
			c.out = append(c.out, rd[pos:]...)
			binary.BigEndian.PutUint16(c.out[lenAt:], uint16(len(c.out)-lenAt-2))
		}
	}
	return c.out
}
