package model

import (
	"encoding/binary"
	"math/rand/v2"
	"sort"
)

// Gen draws boundary-biased model values.
type Gen struct {
	R *rand.Rand
	// Pool, when non-empty, is a set of names new names are derived from (shared suffixes).
	Pool []Name
	// Plain restricts names and strings to octets that need no escape in presentation form.
	Plain bool
	// MaxOpaque bounds opaque field sizes (default 300; rarely the full RDLENGTH).
	MaxOpaque int
	// NoHuge disables the rare 65535-octet RDATA cases.
	NoHuge bool
}

// NewGen returns a generator on r.
func NewGen(r *rand.Rand) *Gen { return &Gen{R: r, MaxOpaque: 300} }

func (g *Gen) chance(num, den int) bool { return g.R.IntN(den) < num }

// Len draws a length in [min,max], biased to the boundaries.
func (g *Gen) Len(min, max int) int {
	if max <= min {
		return min
	}
	switch g.R.IntN(10) {
	case 0:
		return min
	case 1:
		return max
	case 2:
		return min + 1
	case 3:
		if max-1 >= min {
			return max - 1
		}
	}
	if g.chance(2, 3) { // mostly small
		hi := min + 12
		if hi > max {
			hi = max
		}
		return min + g.R.IntN(hi-min+1)
	}
	return min + g.R.IntN(max-min+1)
}

const plainChars = "abcdefghijklmnopqrstuvwxyzABCDEFGHIJKLMNOPQRSTUVWXYZ0123456789-_"

var hostileOctets = []byte{0, '.', '\\', '"', ' ', ';', '(', ')', '@', '\'', '\n', '\t', 0x7f, 0x80, 0xff, '$', '0', '9', 'A', 'Z', 'a', 'z', '[', '`', '{', 0xc0, 0xe0, '\r'}

// Octet draws one octet (any value, biased to troublesome ones) or a plain character.
func (g *Gen) Octet() byte {
	if g.Plain {
		return plainChars[g.R.IntN(len(plainChars))]
	}
	switch g.R.IntN(4) {
	case 0:
		return hostileOctets[g.R.IntN(len(hostileOctets))]
	case 1:
		return byte(g.R.IntN(256))
	default:
		return plainChars[g.R.IntN(len(plainChars))]
	}
}

// Bytes draws n octets.
func (g *Gen) Bytes(n int) []byte {
	b := make([]byte, n)
	if n > 2000 { // big blobs: fill fast
		var x uint64
		for i := range b {
			if i%8 == 0 {
				x = g.R.Uint64()
			}
			b[i] = byte(x >> (8 * (i % 8)))
		}
		return b
	}
	mode := g.R.IntN(5)
	for i := range b {
		switch mode {
		case 0:
			b[i] = byte(g.R.IntN(256))
		case 1:
			b[i] = 0
		case 2:
			b[i] = 0xff
		default:
			b[i] = g.Octet()
		}
	}
	return b
}

// TextBytes draws n octets for a character-string / label.
func (g *Gen) TextBytes(n int) []byte {
	b := make([]byte, n)
	mode := g.R.IntN(4)
	if !g.Plain && g.R.IntN(8) == 0 {
		// one octet throughout, mostly one whose presentation form is the longest there is (\DDD, \"): at
		// the maximum length the text of the string is four times, or twice, as long as the string
		fill := []byte{0x00, 0xff, 0x7f, 0x1f, 0x80, '"', '\\', ';', ' '}[g.R.IntN(9)]
		for i := range b {
			b[i] = fill
		}
		return b
	}
	for i := range b {
		if g.Plain || mode == 0 {
			b[i] = plainChars[g.R.IntN(len(plainChars))]
		} else {
			b[i] = g.Octet()
		}
	}
	return b
}

// Label draws a label of 1..63 octets.
func (g *Gen) Label() []byte {
	var n int
	switch g.R.IntN(12) {
	case 0:
		n = 63
	case 1:
		n = 62
	case 2:
		n = 1
	default:
		n = 1 + g.R.IntN(10)
	}
	return g.TextBytes(n)
}

// FreshName draws a name not derived from the pool.
func (g *Gen) FreshName() Name {
	switch g.R.IntN(14) {
	case 0:
		return Name{}
	case 1: // maximal name: 255 octets on the wire
		return g.NameOfWireLen(255)
	case 2:
		return g.NameOfWireLen(254)
	}
	nl := 1 + g.R.IntN(4)
	n := make(Name, 0, nl)
	total := 1
	for i := 0; i < nl; i++ {
		l := g.Label()
		if total+1+len(l) > 255 {
			break
		}
		total += 1 + len(l)
		n = append(n, l)
	}
	return n
}

// NameOfWireLen builds a valid name with exactly the given wire length (3..255; 1 is root).
func (g *Gen) NameOfWireLen(w int) Name {
	if w <= 1 {
		return Name{}
	}
	rem := w - 1
	var n Name
	for rem > 0 {
		if rem == 1 { // cannot have an empty label: grow the previous one or steal
			if len(n) > 0 && len(n[len(n)-1]) < 63 {
				n[len(n)-1] = append(n[len(n)-1], g.TextBytes(1)...)
				rem = 0
				break
			}
			// previous label is 63 long: shrink it by one and add a 1-octet label (2 octets)
			n[len(n)-1] = n[len(n)-1][:62]
			rem = 2
		}
		l := 63
		if rem-1 < l {
			l = rem - 1
		}
		if l > 1 && rem-1 > l && g.chance(1, 3) {
			l = 1 + g.R.IntN(l)
		}
		n = append(n, g.TextBytes(l))
		rem -= 1 + l
	}
	return n
}

// Name draws a name; with a pool, most names share a suffix with a pool name or differ in case only.
func (g *Gen) Name() Name {
	if len(g.Pool) == 0 || g.chance(1, 5) {
		return g.FreshName()
	}
	base := g.Pool[g.R.IntN(len(g.Pool))]
	switch g.R.IntN(6) {
	case 0:
		return base.Clone()
	case 1: // a suffix
		if len(base) > 0 {
			return base.Suffix(g.R.IntN(len(base) + 1)).Clone()
		}
		return base.Clone()
	case 2: // case variant
		n := base.Clone()
		for _, l := range n {
			for i, c := range l {
				if g.chance(1, 2) {
					if c >= 'a' && c <= 'z' {
						l[i] = c - 32
					} else if c >= 'A' && c <= 'Z' {
						l[i] = c + 32
					}
				}
			}
		}
		return n
	case 3:
		// names whose presentation forms lie next to each other at a label boundary: the first two labels
		// of a pool name as they are, merged into one label that holds a dot, or with a backslash as the last
		// octet of the first (text: a.b / a\.b / a\\.b / a\\\.b) - different names, nearly the same text
		n := base.Clone()
		if len(n) >= 2 && !g.Plain {
			a, b := n[0], n[1]
			switch g.R.IntN(4) {
			case 0:
				if len(a)+1+len(b) <= 63 {
					n = append(Name{append(append(append([]byte{}, a...), '.'), b...)}, n[2:]...)
				}
			case 1:
				if len(a) < 63 && n.WireLen() < 255 {
					n[0] = append(append([]byte{}, a...), '\\')
				}
			case 2:
				if len(a)+2+len(b) <= 63 && n.WireLen() < 255 {
					n = append(Name{append(append(append([]byte{}, a...), '\\', '.'), b...)}, n[2:]...)
				}
			}
		}
		return n
	default: // prepend labels
		n := base.Clone()
		k := 1 + g.R.IntN(2)
		for i := 0; i < k; i++ {
			l := g.Label()
			if n.WireLen()+1+len(l) > 255 {
				break
			}
			n = append(Name{l}, n...)
		}
		return n
	}
}

// MakePool draws a small pool of related names.
func (g *Gen) MakePool(k int) {
	g.Pool = nil
	for i := 0; i < k; i++ {
		g.Pool = append(g.Pool, g.Name())
	}
}

// Uint draws an integer of the given bit width, boundary biased.
func (g *Gen) Uint(bits int) uint64 {
	max := uint64(1)<<bits - 1
	if bits == 64 {
		max = ^uint64(0)
	}
	switch g.R.IntN(8) {
	case 0:
		return 0
	case 1:
		return max
	case 2:
		return 1
	case 3:
		return max - 1
	case 4:
		return uint64(1) << g.R.IntN(bits)
	case 5:
		return uint64(g.R.IntN(256)) & max
	}
	return g.R.Uint64() & max
}

// Opaque draws an opaque blob of min..max octets (max additionally capped by MaxOpaque unless huge).
func (g *Gen) Opaque(min, max int) []byte {
	cap := g.MaxOpaque
	if cap == 0 {
		cap = 300
	}
	if max > cap {
		max = cap
	}
	return g.Bytes(g.Len(min, max))
}

// Bitmap draws a sorted unique list of types.
func (g *Gen) Bitmap() []uint16 {
	k := g.Len(0, 12)
	set := map[uint16]bool{}
	for i := 0; i < k; i++ {
		var t uint16
		switch g.R.IntN(8) {
		case 0:
			t = uint16(g.R.IntN(65536))
		case 1:
			t = []uint16{255, 256, 257, 65534, 32768, 32769, 511, 512, 248, 249}[g.R.IntN(10)]
		case 2:
			t = uint16(g.R.IntN(4)) * 256 // window starts
		default:
			t = uint16(1 + g.R.IntN(110))
		}
		set[t] = true
	}
	if g.chance(1, 40) { // a full window
		w := uint16(g.R.IntN(3))
		for i := 0; i < 256; i++ {
			set[w<<8|uint16(i)] = true
		}
	}
	var out []uint16
	for t := range set {
		out = append(out, t)
	}
	sort.Slice(out, func(i, j int) bool { return out[i] < out[j] })
	return out
}

// APL draws RFC 3123 items in canonical form.
func (g *Gen) APL() []APLItem {
	k := g.Len(0, 5)
	items := make([]APLItem, 0, k)
	for i := 0; i < k; i++ {
		fam := uint16(1 + g.R.IntN(2))
		bits := 32
		if fam == 2 {
			bits = 128
		}
		var prefix int
		switch g.R.IntN(5) {
		case 0:
			prefix = 0
		case 1:
			prefix = bits
		default:
			prefix = g.R.IntN(bits + 1)
		}
		addr := g.Bytes(bits / 8)
		if fam == 2 && g.R.IntN(4) == 0 {
			// an IPv6 prefix inside ::ffff:0:0/96 (IPv4-mapped) and others that Go's net.IP treats specially
			copy(addr, []byte{0, 0, 0, 0, 0, 0, 0, 0, 0, 0, 0xff, 0xff})
			if prefix < 96 {
				prefix = 96 + g.R.IntN(33)
			}
		}
		// mask to the prefix
		for b := 0; b < len(addr); b++ {
			switch {
			case (b+1)*8 <= prefix:
			case b*8 >= prefix:
				addr[b] = 0
			default:
				addr[b] &= byte(0xFF << (8 - prefix%8))
			}
		}
		addr = addr[:(prefix+7)/8]
		for len(addr) > 0 && addr[len(addr)-1] == 0 {
			addr = addr[:len(addr)-1]
		}
		items = append(items, APLItem{Family: fam, Prefix: uint8(prefix), Neg: g.chance(1, 3), AFD: addr})
	}
	return items
}

// SVCB keys.
const (
	SvcMandatory = 0
	SvcALPN      = 1
	SvcNoDefALPN = 2
	SvcPort      = 3
	SvcIPv4Hint  = 4
	SvcECH       = 5
	SvcIPv6Hint  = 6
	SvcDoHPath   = 7
	SvcOHTTP     = 8
)

// SVCParamValue draws a well-formed value for key.
func (g *Gen) SVCParamValue(key uint16) []byte {
	switch key {
	case SvcMandatory:
		k := 1 + g.R.IntN(4)
		set := map[uint16]bool{}
		for i := 0; i < k; i++ {
			if g.chance(1, 4) {
				set[uint16(1+g.R.IntN(65534))] = true
			} else {
				set[uint16(1+g.R.IntN(8))] = true
			}
		}
		var ks []uint16
		for x := range set {
			ks = append(ks, x)
		}
		sort.Slice(ks, func(i, j int) bool { return ks[i] < ks[j] })
		var out []byte
		for _, x := range ks {
			out = binary.BigEndian.AppendUint16(out, x)
		}
		return out
	case SvcALPN:
		k := 1 + g.R.IntN(3)
		var out []byte
		for i := 0; i < k; i++ {
			id := g.TextBytes(g.Len(1, 20))
			if g.chance(1, 30) {
				id = g.TextBytes(255)
			}
			out = append(out, byte(len(id)))
			out = append(out, id...)
		}
		return out
	case SvcNoDefALPN, SvcOHTTP:
		return []byte{}
	case SvcPort:
		return binary.BigEndian.AppendUint16(nil, uint16(g.Uint(16)))
	case SvcIPv4Hint:
		return g.Bytes(4 * (1 + g.R.IntN(3)))
	case SvcIPv6Hint:
		return g.Bytes(16 * (1 + g.R.IntN(3)))
	case SvcECH:
		return g.Opaque(1, 200)
	case SvcDoHPath:
		return g.TextBytes(g.Len(1, 60))
	}
	return g.Opaque(0, 120)
}

// SVCB draws SvcParams with distinct keys.
func (g *Gen) SVCB() []SVCParam {
	k := g.Len(0, 6)
	used := map[uint16]bool{}
	var ps []SVCParam
	for i := 0; i < k; i++ {
		var key uint16
		switch g.R.IntN(6) {
		case 0:
			key = uint16(9 + g.R.IntN(65526)) // 9..65534 (65535 is reserved/invalid)
		case 1:
			key = uint16(65280 + g.R.IntN(255)) // private range
		default:
			key = uint16(g.R.IntN(9))
		}
		if used[key] {
			continue
		}
		used[key] = true
		ps = append(ps, SVCParam{Key: key, Value: g.SVCParamValue(key)})
	}
	sort.Slice(ps, func(i, j int) bool { return ps[i].Key < ps[j].Key })
	return ps
}

// EDNS0 option codes.
const (
	OptLLQ         = 1
	OptUL          = 2
	OptNSID        = 3
	OptESU         = 4
	OptDAU         = 5
	OptDHU         = 6
	OptN3U         = 7
	OptSubnet      = 8
	OptExpire      = 9
	OptCookie      = 10
	OptKeepalive   = 11
	OptPadding     = 12
	OptEDE         = 15
	OptReporting   = 18
	OptZoneVersion = 19
)

// OptData draws well-formed option data for code.
func (g *Gen) OptData(code uint16) []byte {
	switch code {
	case OptLLQ:
		return g.Bytes(18)
	case OptUL:
		if g.chance(1, 2) {
			return g.Bytes(4)
		}
		b := g.Bytes(8) // the 8-octet form carries a non-zero key lease
		if b[4]|b[5]|b[6]|b[7] == 0 {
			b[7] = 1
		}
		return b
	case OptNSID, OptPadding:
		return g.Opaque(0, 100)
	case OptESU:
		return g.TextBytes(g.Len(0, 40))
	case OptDAU, OptDHU, OptN3U:
		return g.Bytes(g.Len(0, 8))
	case OptSubnet:
		fam := uint16(1 + g.R.IntN(2))
		bits := 32
		if fam == 2 {
			bits = 128
		}
		mask := g.Len(0, bits)
		addr := g.Bytes((mask + 7) / 8)
		if mask%8 != 0 {
			addr[len(addr)-1] &= byte(0xFF << (8 - mask%8))
		}
		scope := uint8(0)
		if g.chance(1, 2) {
			scope = uint8(g.R.IntN(bits + 1))
		}
		out := binary.BigEndian.AppendUint16(nil, fam)
		out = append(out, byte(mask), scope)
		return append(out, addr...)
	case OptExpire:
		if g.chance(1, 3) {
			return []byte{}
		}
		return g.Bytes(4)
	case OptCookie:
		if g.chance(1, 2) {
			return g.Bytes(8)
		}
		return g.Bytes(16 + g.R.IntN(25))
	case OptKeepalive:
		if g.chance(1, 3) {
			return []byte{}
		}
		return g.Bytes(2)
	case OptEDE:
		out := binary.BigEndian.AppendUint16(nil, uint16(g.Uint(16)))
		return append(out, g.TextBytes(g.Len(0, 40))...)
	case OptReporting:
		n := g.FreshName()
		return n.Wire()
	case OptZoneVersion:
		if g.chance(1, 4) {
			return []byte{}
		}
		out := []byte{byte(g.R.IntN(10)), byte(g.R.IntN(3))}
		return append(out, g.Bytes(g.Len(0, 12))...)
	}
	return g.Opaque(0, 100)
}

var optCodes = []uint16{OptLLQ, OptUL, OptNSID, OptESU, OptDAU, OptDHU, OptN3U, OptSubnet, OptExpire, OptCookie, OptKeepalive, OptPadding, OptEDE, OptReporting, OptZoneVersion}

// Opts draws EDNS0 options.
func (g *Gen) Opts() []Opt {
	k := g.Len(0, 5)
	var os []Opt
	for i := 0; i < k; i++ {
		var code uint16
		switch g.R.IntN(5) {
		case 0:
			code = uint16(65001 + g.R.IntN(534))
		case 1:
			code = uint16(20 + g.R.IntN(65000))
		default:
			code = optCodes[g.R.IntN(len(optCodes))]
		}
		os = append(os, Opt{Code: code, Data: g.OptData(code)})
	}
	return os
}

// IPv6 draws 16 address octets; one in six lies in ::ffff:0:0/96 (IPv4-mapped) or ::/96, which the
// Go net package is inclined to take for IPv4 addresses.
func (g *Gen) IPv6() []byte {
	b := g.Bytes(16)
	switch g.R.IntN(12) {
	case 0:
		copy(b, []byte{0, 0, 0, 0, 0, 0, 0, 0, 0, 0, 0xff, 0xff})
	case 1:
		copy(b, make([]byte, 12))
	}
	return b
}

// Val draws a value for field fd of layout l. budget is the remaining RDATA room.
func (g *Gen) Val(l *Layout, fd Field, budget int) any {
	switch fd.Kind {
	case KU8:
		return g.Uint(8)
	case KU16:
		return g.Uint(16)
	case KU32:
		return g.Uint(32)
	case KU48:
		return g.Uint(48)
	case KU64:
		return g.Uint(64)
	case KA:
		return g.Bytes(4)
	case KAAAA:
		return g.IPv6()
	case KName, KCName:
		return g.Name()
	case KStr:
		return g.TextBytes(g.Len(0, 255))
	case KStrs:
		k := 1 + g.R.IntN(3)
		if g.chance(1, 20) {
			k = 1 + g.R.IntN(12)
		}
		ss := make([][]byte, k)
		for i := range ss {
			ss[i] = g.TextBytes(g.Len(0, 255))
		}
		return ss
	case KStrOpt:
		if g.chance(1, 4) {
			return OptStr{}
		}
		return OptStr{Present: true, S: g.TextBytes(g.Len(0, 255))}
	case KHex, KB64, KRaw:
		if !g.NoHuge && g.chance(1, 400) {
			return g.Bytes(budget) // fill RDLENGTH completely
		}
		return g.Opaque(0, budget)
	case KOctet:
		if g.chance(1, 25) {
			return g.TextBytes(g.Len(1000, 3000))
		}
		return g.TextBytes(g.Len(0, 300))
	case KHexN, KB64N:
		max := 255
		for _, o := range l.Fields {
			if o.LenOf == fd.Go && o.Kind == KU16 {
				max = 65535
			}
		}
		if max > budget {
			max = budget
		}
		return g.Opaque(0, max)
	case KB32N:
		return g.Opaque(1, 255)
	case KBitmap:
		return g.Bitmap()
	case KAPL:
		return g.APL()
	case KSVCB:
		return g.SVCB()
	case KOPT:
		return g.Opts()
	case KGateway:
		gw := Gateway{Type: uint8(g.R.IntN(4))}
		switch gw.Type {
		case 1:
			gw.Addr = g.Bytes(4)
		case 2:
			gw.Addr = g.IPv6()
		case 3:
			gw.Host = g.Name()
		}
		return gw
	case KNames:
		k := g.R.IntN(4)
		ns := make([]Name, k)
		for i := range ns {
			ns[i] = g.Name()
		}
		return ns
	}
	panic("gen: unknown kind")
}

// Fixup recomputes derived fields (length and gateway-type fields).
func (r *Rec) Fixup() {
	if r.NoRdata || r.L == nil {
		return
	}
	for i, fd := range r.L.Fields {
		if fd.LenOf != "" {
			j := r.L.FieldIndex(fd.LenOf)
			r.Vals[i] = uint64(len(r.Vals[j].([]byte)))
		}
		if fd.GwOf != "" {
			j := r.L.FieldIndex(fd.GwOf)
			gw := r.Vals[j].(Gateway)
			old, _ := r.Vals[i].(uint64)
			if r.Type == 260 { // AMTRELAY: keep the discovery bit
				r.Vals[i] = old&0x80 | uint64(gw.Type)
			} else {
				r.Vals[i] = uint64(gw.Type)
			}
		}
	}
}

// Rec draws a well-formed record of layout l.
func (g *Gen) Rec(l *Layout) *Rec {
	r := &Rec{Owner: g.Name(), Type: l.Type, Class: 1, TTL: uint32(g.Uint(32)), L: l}
	switch g.R.IntN(10) {
	case 0:
		r.Class = uint16(g.Uint(16))
	case 1:
		r.Class = []uint16{3, 4, 254, 255}[g.R.IntN(4)]
	}
	budget := 65535
	r.Vals = make([]any, len(l.Fields))
	for i, fd := range l.Fields {
		r.Vals[i] = g.Val(l, fd, budget-64)
		switch v := r.Vals[i].(type) {
		case []byte:
			budget -= len(v)
		}
		if budget < 600 {
			budget = 600
		}
	}
	if l.Type == 41 { // OPT: owner root; class = UDP size; TTL = ext-rcode/version/flags
		r.Owner = Name{}
		r.Class = uint16(g.Uint(16))
	}
	if l.Type == 250 { // TSIG: class ANY, TTL 0
		r.Class = 255
		r.TTL = 0
	}
	r.Fixup()
	// keep RDATA within 65535
	for tries := 0; tries < 8; tries++ {
		rd, _ := r.Rdata()
		if len(rd) <= 65535 {
			break
		}
		for i, fd := range l.Fields {
			if b, ok := r.Vals[i].([]byte); ok && len(b) > 1000 && fd.Kind != KA && fd.Kind != KAAAA {
				r.Vals[i] = b[:len(b)/2]
			}
		}
		r.Fixup()
	}
	return r
}

// Mutate changes exactly one RDATA field (index returned) to a different value, keeping the
// record well-formed; it returns -1 if the layout has no mutable field.
func (g *Gen) Mutate(r *Rec) int {
	if r.NoRdata || len(r.L.Fields) == 0 {
		return -1
	}
	var cands []int
	for i, fd := range r.L.Fields {
		if fd.LenOf == "" && fd.GwOf == "" {
			cands = append(cands, i)
		}
	}
	if r.Type == 260 { // the discovery bit is carried by the derived field
		cands = append(cands, 1)
	}
	for tries := 0; tries < 20; tries++ {
		i := cands[g.R.IntN(len(cands))]
		before, _ := r.Rdata()
		if r.L.Fields[i].GwOf != "" {
			r.Vals[i] = r.Vals[i].(uint64) ^ 0x80
		} else {
			r.Vals[i] = g.Val(r.L, r.L.Fields[i], 2000)
		}
		r.Fixup()
		after, _ := r.Rdata()
		if string(before) != string(after) && len(after) <= 65535 {
			return i
		}
	}
	return -1
}
