package model

import (
	"errors"
	"fmt"
)

// Token is one RFC 1035 s.5.1 master-file token.
type Token struct {
	Raw    string // text as written, without the surrounding quotes (escapes intact)
	Val    []byte // with \c and \DDD escapes resolved
	Quoted bool
}

// Tokenize splits one master-file entry (a logical line: newlines are allowed only inside
// parentheses) into tokens per RFC 1035 s.5.1: blanks separate tokens, ';' starts a comment,
// parentheses group across line ends, "..." quotes a string, \c and \DDD escape octets.
func Tokenize(s string) ([]Token, error) {
	var toks []Token
	paren := 0
	i := 0
	for i < len(s) {
		c := s[i]
		switch {
		case c == ' ' || c == '\t' || c == '\r':
			i++
		case c == '\n':
			if paren == 0 {
				// end of the entry: nothing but blanks/comments may follow
				rest, err := Tokenize(s[i+1:])
				if err != nil {
					return nil, err
				}
				if len(rest) != 0 {
					return nil, errors.New("text continues on a new line outside parentheses")
				}
				return toks, nil
			}
			i++
		case c == ';':
			for i < len(s) && s[i] != '\n' {
				i++
			}
		case c == '(':
			paren++
			i++
		case c == ')':
			paren--
			if paren < 0 {
				return nil, errors.New("unbalanced )")
			}
			i++
		case c == '"':
			j := i + 1
			var val []byte
			closed := false
			for j < len(s) {
				if s[j] == '\\' {
					b, n, err := unescape(s[j:])
					if err != nil {
						return nil, err
					}
					val = append(val, b)
					j += n
					continue
				}
				if s[j] == '"' {
					closed = true
					break
				}
				if s[j] == '\n' {
					return nil, errors.New("raw newline inside a quoted string")
				}
				val = append(val, s[j])
				j++
			}
			if !closed {
				return nil, errors.New("unterminated quoted string")
			}
			toks = append(toks, Token{Raw: s[i+1 : j], Val: val, Quoted: true})
			i = j + 1
			if i < len(s) && !isBlank(s[i]) && s[i] != ')' && s[i] != ';' && s[i] != '(' {
				return nil, fmt.Errorf("text directly after a closing quote at %d", i)
			}
		default:
			j := i
			var val []byte
			for j < len(s) && !isBlank(s[j]) && s[j] != '(' && s[j] != ')' && s[j] != ';' && s[j] != '"' {
				if s[j] == '\\' {
					b, n, err := unescape(s[j:])
					if err != nil {
						return nil, err
					}
					val = append(val, b)
					j += n
					continue
				}
				val = append(val, s[j])
				j++
			}
			// RFC 9460 s.2.1 (SvcParams): key="value" - a quoted run may continue an unquoted token
			for j < len(s) && s[j] == '"' {
				k := j + 1
				closed := false
				for k < len(s) {
					if s[k] == '\\' {
						b, n, err := unescape(s[k:])
						if err != nil {
							return nil, err
						}
						val = append(val, b)
						k += n
						continue
					}
					if s[k] == '"' {
						closed = true
						break
					}
					if s[k] == '\n' {
						return nil, errors.New("raw newline inside a quoted string")
					}
					val = append(val, s[k])
					k++
				}
				if !closed {
					return nil, errors.New("unterminated quoted string")
				}
				j = k + 1
				for j < len(s) && !isBlank(s[j]) && s[j] != '(' && s[j] != ')' && s[j] != ';' && s[j] != '"' {
					if s[j] == '\\' {
						b, n, err := unescape(s[j:])
						if err != nil {
							return nil, err
						}
						val = append(val, b)
						j += n
						continue
					}
					val = append(val, s[j])
					j++
				}
			}
			toks = append(toks, Token{Raw: s[i:j], Val: val})
			i = j
		}
	}
	if paren != 0 {
		return nil, errors.New("unbalanced (")
	}
	return toks, nil
}

func isBlank(c byte) bool { return c == ' ' || c == '\t' || c == '\n' || c == '\r' }

func unescape(s string) (byte, int, error) {
	if len(s) < 2 {
		return 0, 0, errors.New("dangling backslash")
	}
	if isDig(s[1]) {
		if len(s) < 4 || !isDig(s[2]) || !isDig(s[3]) {
			return 0, 0, errors.New("\\D not followed by three digits")
		}
		v := int(s[1]-'0')*100 + int(s[2]-'0')*10 + int(s[3]-'0')
		if v > 255 {
			return 0, 0, errors.New("\\DDD above 255")
		}
		return byte(v), 4, nil
	}
	if s[1] == '\n' {
		return 0, 0, errors.New("escaped newline")
	}
	return s[1], 2, nil
}
