package model

import (
	"crypto/hmac"
	"crypto/sha1"
	"crypto/sha256"
	"crypto/sha512"
	"encoding/binary"
	"errors"
	"hash"
)

// TSIG is the model of a TSIG RR (RFC 8945 s.4.2).
type TSIG struct {
	KeyName    Name
	Algorithm  Name
	TimeSigned uint64
	Fudge      uint16
	MAC        []byte
	OrigID     uint16
	Error      uint16
	Other      []byte
	// OtherLenWire is the OTHER LEN as found on the wire when it differs from len(Other)
	// (a record whose other data is cut short); 0 means len(Other).
	OtherLenWire int
	// WireClass / WireTTL: the CLASS and TTL fields of the TSIG RR as found on the wire (SplitTSIG).
	WireClass uint16
	WireTTL   uint32
}

// HMACFor returns the hash constructor for an algorithm name (lower-case, fully qualified text).
func HMACFor(alg string) func() hash.Hash {
	switch alg {
	case "hmac-sha1.":
		return sha1.New
	case "hmac-sha224.":
		return sha256.New224
	case "hmac-sha256.":
		return sha256.New
	case "hmac-sha384.":
		return sha512.New384
	case "hmac-sha512.":
		return sha512.New
	}
	return nil
}

// Digest computes the RFC 8945 s.4.3 MAC input and HMAC: the request MAC (length-prefixed) if
// any, the message as sent but with the original ID and without the TSIG RR (ARCOUNT
// decremented), then the TSIG variables (or only the timers for subsequent envelopes).
func (t *TSIG) Digest(msgNoTSIG []byte, secret, requestMAC []byte, timersOnly bool) ([]byte, error) {
	h := HMACFor(t.Algorithm.Lower().Pres())
	if h == nil {
		return nil, errors.New("unknown algorithm")
	}
	var buf []byte
	if len(requestMAC) > 0 {
		buf = binary.BigEndian.AppendUint16(buf, uint16(len(requestMAC)))
		buf = append(buf, requestMAC...)
	}
	m := append([]byte(nil), msgNoTSIG...)
	binary.BigEndian.PutUint16(m, t.OrigID)
	buf = append(buf, m...)
	tm := []byte{byte(t.TimeSigned >> 40), byte(t.TimeSigned >> 32), byte(t.TimeSigned >> 24), byte(t.TimeSigned >> 16), byte(t.TimeSigned >> 8), byte(t.TimeSigned)}
	if timersOnly {
		buf = append(buf, tm...)
		buf = binary.BigEndian.AppendUint16(buf, t.Fudge)
	} else {
		buf = append(buf, t.KeyName.Lower().Wire()...)
		buf = binary.BigEndian.AppendUint16(buf, 255) // CLASS ANY
		buf = binary.BigEndian.AppendUint32(buf, 0)   // TTL
		buf = append(buf, t.Algorithm.Lower().Wire()...)
		buf = append(buf, tm...)
		buf = binary.BigEndian.AppendUint16(buf, t.Fudge)
		buf = binary.BigEndian.AppendUint16(buf, t.Error)
		ol := len(t.Other)
		if t.OtherLenWire != 0 {
			ol = t.OtherLenWire
		}
		buf = binary.BigEndian.AppendUint16(buf, uint16(ol))
		buf = append(buf, t.Other...)
	}
	mac := hmac.New(h, secret)
	mac.Write(buf)
	return mac.Sum(nil), nil
}

// RRWire encodes the TSIG RR (class ANY, TTL 0).
func (t *TSIG) RRWire() []byte {
	rd := append([]byte(nil), t.Algorithm.Wire()...)
	rd = append(rd, byte(t.TimeSigned>>40), byte(t.TimeSigned>>32), byte(t.TimeSigned>>24), byte(t.TimeSigned>>16), byte(t.TimeSigned>>8), byte(t.TimeSigned))
	rd = binary.BigEndian.AppendUint16(rd, t.Fudge)
	rd = binary.BigEndian.AppendUint16(rd, uint16(len(t.MAC)))
	rd = append(rd, t.MAC...)
	rd = binary.BigEndian.AppendUint16(rd, t.OrigID)
	rd = binary.BigEndian.AppendUint16(rd, t.Error)
	rd = binary.BigEndian.AppendUint16(rd, uint16(len(t.Other)))
	rd = append(rd, t.Other...)
	out := append([]byte(nil), t.KeyName.Wire()...)
	out = binary.BigEndian.AppendUint16(out, 250)
	out = binary.BigEndian.AppendUint16(out, 255)
	out = binary.BigEndian.AppendUint32(out, 0)
	out = binary.BigEndian.AppendUint16(out, uint16(len(rd)))
	return append(out, rd...)
}

// Sign appends a TSIG RR to msg (an encoded message without TSIG): computes the MAC and
// returns the signed message (ARCOUNT incremented) and the MAC.
func (t *TSIG) Sign(msg []byte, secret, requestMAC []byte, timersOnly bool) ([]byte, []byte, error) {
	t.OrigID = binary.BigEndian.Uint16(msg)
	mac, err := t.Digest(msg, secret, requestMAC, timersOnly)
	if err != nil {
		return nil, nil, err
	}
	t.MAC = mac
	out := append([]byte(nil), msg...)
	binary.BigEndian.PutUint16(out[10:], binary.BigEndian.Uint16(out[10:])+1)
	out = append(out, t.RRWire()...)
	return out, mac, nil
}

// SplitTSIG strictly decodes a message whose last additional record is a TSIG RR and returns
// the message without it (ARCOUNT decremented) and the TSIG. ok=false if the last record is
// not a TSIG (or the message does not parse).
func SplitTSIG(msg []byte) (noTSIG []byte, t *TSIG, classTTLOK bool, ok bool) {
	if len(msg) < 12 {
		return nil, nil, false, false
	}
	qd := int(binary.BigEndian.Uint16(msg[4:]))
	n := int(binary.BigEndian.Uint16(msg[6:])) + int(binary.BigEndian.Uint16(msg[8:])) + int(binary.BigEndian.Uint16(msg[10:]))
	ar := int(binary.BigEndian.Uint16(msg[10:]))
	if ar == 0 {
		return nil, nil, false, false
	}
	off := 12
	skipName := func() bool {
		_, next, _, err := DecodeName(msg, off)
		if err != nil {
			return false
		}
		off = next
		return true
	}
	for i := 0; i < qd; i++ {
		if !skipName() || off+4 > len(msg) {
			return nil, nil, false, false
		}
		off += 4
	}
	last := 0
	for i := 0; i < n; i++ {
		last = off
		if !skipName() || off+10 > len(msg) {
			return nil, nil, false, false
		}
		rl := int(binary.BigEndian.Uint16(msg[off+8:]))
		off += 10 + rl
		if off > len(msg) {
			return nil, nil, false, false
		}
	}
	// octets after the last record are ignored: they are covered by no digest and by no count
	// decode the last record
	kn, p, _, err := DecodeName(msg, last)
	if err != nil || binary.BigEndian.Uint16(msg[p:]) != 250 {
		return nil, nil, false, false
	}
	classTTLOK = binary.BigEndian.Uint16(msg[p+2:]) == 255 && binary.BigEndian.Uint32(msg[p+4:]) == 0
	wireClass, wireTTL := binary.BigEndian.Uint16(msg[p+2:]), binary.BigEndian.Uint32(msg[p+4:])
	rdEnd := p + 10 + int(binary.BigEndian.Uint16(msg[p+8:]))
	q := p + 10
	an, q2, _, err := DecodeName(msg, q)
	if err != nil || q2+10 > rdEnd {
		return nil, nil, false, false
	}
	q = q2
	t = &TSIG{KeyName: kn, Algorithm: an}
	for i := 0; i < 6; i++ {
		t.TimeSigned = t.TimeSigned<<8 | uint64(msg[q+i])
	}
	t.Fudge = binary.BigEndian.Uint16(msg[q+6:])
	ml := int(binary.BigEndian.Uint16(msg[q+8:]))
	q += 10
	if q+ml > rdEnd {
		return nil, nil, false, false
	}
	t.MAC = append([]byte(nil), msg[q:q+ml]...)
	q += ml
	// The fields after the MAC are read as far as RDLENGTH provides them; what is cut off
	// counts as zero / empty (the statement is about the MAC, not about TSIG RR syntax).
	if q+2 <= rdEnd {
		t.OrigID = binary.BigEndian.Uint16(msg[q:])
	}
	if q+4 <= rdEnd {
		t.Error = binary.BigEndian.Uint16(msg[q+2:])
	}
	if q+6 <= rdEnd {
		ol := int(binary.BigEndian.Uint16(msg[q+4:]))
		q += 6
		if q+ol > rdEnd {
			ol = rdEnd - q
		}
		t.Other = append([]byte(nil), msg[q:q+ol]...)
		t.OtherLenWire = int(binary.BigEndian.Uint16(msg[q-2:]))
	}
	noTSIG = append([]byte(nil), msg[:last]...)
	binary.BigEndian.PutUint16(noTSIG[10:], uint16(ar-1))
	t.WireClass, t.WireTTL = wireClass, wireTTL
	return noTSIG, t, classTTLOK, true
}
