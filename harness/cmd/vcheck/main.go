// vcheck: driver and worker for the runtime monitors.
package main

import (
	"flag"
	"fmt"
	"os"
	"strconv"

	"verifharness/core"
	_ "verifharness/mon"
)

func main() {
	var (
		worker   = flag.Bool("worker", false, "run as worker")
		prop     = flag.String("prop", "", "property id")
		tier     = flag.String("tier", "quick", "quick|thorough")
		seed     = flag.Int64("seed", 0, "seed (default $VERIF_SEED or 1)")
		from     = flag.Int("from", 0, "")
		to       = flag.Int("to", 0, "")
		out      = flag.String("out", "", "")
		journal  = flag.String("journal", "", "")
		scratch  = flag.String("scratch", "", "")
		isolated = flag.Bool("isolated", false, "")
		replay   = flag.String("replay", "", "replay file")
		root     = flag.String("root", "/verif", "")
		raceBin  = flag.String("racebin", "", "")
		list     = flag.Bool("list", false, "list monitors")
		par      = flag.Int("parallel", 0, "")
	)
	flag.Parse()
	if *list {
		for _, id := range core.IDs() {
			fmt.Println(id)
		}
		return
	}
	if *seed == 0 {
		*seed = 1
		if s := os.Getenv("VERIF_SEED"); s != "" {
			if v, err := strconv.ParseInt(s, 10, 64); err == nil {
				*seed = v
			}
		}
	}
	if *worker {
		m := core.Get(*prop)
		if m == nil {
			fmt.Fprintln(os.Stderr, "unknown property", *prop)
			os.Exit(2)
		}
		os.Exit(core.RunWorker(m, *tier, *seed, *from, *to, *out, *journal, *scratch, *isolated))
	}
	self, _ := os.Executable()
	cfg := core.Config{Root: *root, Prop: *prop, Tier: *tier, Seed: *seed, SelfBin: self, RaceBin: *raceBin, Parallel: *par}
	if cfg.RaceBin == "" {
		cfg.RaceBin = self
	}
	if *replay != "" {
		os.Exit(core.ReplayFile(cfg, *replay))
	}
	os.Exit(core.Drive(cfg))
}
