# sourced by bin/check and bin/setup
export PATH=/root/go/pkg/mod/golang.org/toolchain@v0.0.1-go1.25.0.linux-amd64/bin:$PATH
export GOTOOLCHAIN=local GOSUMDB=off GOFLAGS=-mod=mod GOPROXY=off
export VERIF_ROOT=/verif
