#!/bin/bash
# usage: tools/sweepall.sh [verify]  — re-ports every stored change to /repo HEAD, (optionally) re-confirms each with
# tools/seedverify.sh, runs the quick check of its property against it in ten parallel scratch lanes and writes the results
# into seeded/*/meta.json (tools/seedmeta.py). Seeds with an `also_run` entry are additionally run through that property's check.
cd "$(dirname "$0")/.."
python3 tools/seedstore.py > /tmp/sweep-store.log 2>&1
grep -c "stored via" /tmp/sweep-store.log
grep -v "stored via git" /tmp/sweep-store.log | head
if [ "$1" = verify ]; then
  ls seeded | xargs -P 6 -I{} tools/seedverify.sh $PWD/seeded/{} 2>/dev/null | grep -v "^\[" > /tmp/sweep-verify.log
  grep -vc "applies=yes suite_with_change=pass demo_with_change=fails demo_without_change=pass" /tmp/sweep-verify.log
  grep -v "applies=yes suite_with_change=pass demo_with_change=fails demo_without_change=pass" /tmp/sweep-verify.log
fi
rm -rf /tmp/lanes/results; mkdir -p /tmp/lanes/results
lane() { name="$1"; shift; items=(); for p in "$@"; do for d in seeded/$p*; do sid=$(basename $d); items+=("$sid:$PWD/$d/patch.diff"); done; done; tools/seedlane.sh "$name" quick "${items[@]}" > /dev/null 2>&1; }
lane L1 C01 C02 & lane L2 C03 C04 & lane L3 C05 C06 & lane L4 C07 C20 & lane L5 C08 C09 & lane L6 C10 C19 & lane L7 C11 C17 & lane L8 C12 & lane L9 C13 & lane L10 C14 C18 & lane L11 C15 C16 &
wait
# seeds that are another property's business
tools/seedlane.sh X1 quick C11h@C15:$PWD/seeded/C11h/patch.diff C11p@C15:$PWD/seeded/C11p/patch.diff C11r@C12:$PWD/seeded/C11r/patch.diff C18n@C16:$PWD/seeded/C18n/patch.diff C11y@C12:$PWD/seeded/C11y/patch.diff C12aa@C16:$PWD/seeded/C12aa/patch.diff > /dev/null 2>&1
python3 tools/seedmeta.py quick | tail -3
