#!/usr/bin/env python3
"""Regenerates /verif/known_findings.json (run by hand when a finding is triaged; never at check time)."""
import json
F=[]
def known(prop,key,what): F.append({"property":prop,"key":key,"status":"known","what":what})
def fixed(prop,key,commit,what): F.append({"property":prop,"key":key,"status":"fixed","commit":commit,"what":what})

# ---- C01
rdl="AFSDB AMTRELAY CAA CDNSKEY CDS CERT CSYNC DLV DNSKEY DS EUI48 EUI64 GID GPOS HINFO HIP HTTPS IPSECKEY ISDN KEY KX L32 L64 LOC LP MX NAPTR NID NSEC3 NSEC3PARAM PX RKEY RRSIG RT SIG SMIMEA SOA SRV SSHFP SVCB TA TKEY TLSA TSIG UID UINFO URI X25 ZONEMD".split()
for t in rdl:
    known("C01","C01/rdataless-repack/"+t,"an RDATA-less (RFC 2136 update-form) %s record decodes into a typed struct whose fixed-width fields re-pack as RDATA, so Unpack->Pack does not reproduce the octets"%t)
for k in ("pack-mismatch","repack-mismatch"):
    known("C01","C01/%s/ISDN/no-subaddress"%k,"ISDN without the optional sub-address (RFC 1183 s.3.2) cannot be represented: it packs/re-packs with an extra empty <character-string>")
    known("C01","C01/%s/OPT/keepalive-timeout-zero"%k,"edns-tcp-keepalive with an explicit TIMEOUT of 0 (RFC 7828: two octets) is packed as the empty option because Timeout==0 means 'omitted' in the struct")
for k in ("pack-mismatch","unpack-error"):
    known("C01","C01/%s/OPT/zoneversion-empty"%k,"the empty ZONEVERSION option (RFC 9660 s.2: queries carry OPTION-LENGTH 0) is rejected by unpack (ErrBuf) and cannot be produced by pack")
fixed("C01","C01/unpack-error/AMTRELAY/discovery-bit","3c7ed4d","AMTRELAY with the discovery bit set could not be unpacked and was packed without its relay field (pack/unpack/len switched on the unmasked type octet)")
fixed("C01","C01/repack-mismatch/URI/backslash-in-octet-field","b110fba","URI target / CAA value containing the octet 0x5C lost it on Unpack->Pack and in String() (unpack stored it raw, pack treats backslash as an escape)")
fixed("C01","C01/pack-error/URI/octet-field-over-1025","714ee18","URI target / CAA value longer than 1025 characters failed to pack with ErrBuf (length guard copied from the character-string packer)")

# ---- C03
fixed("C02","panic/UnpackRRWithHeader(short RDLENGTH)/DS/.unpackStringHex","57c788c","UnpackRRWithHeader panicked (slice bounds out of range) for DS, DNSKEY, RRSIG, TLSA, SSHFP, IPSECKEY ... when the header's RDLENGTH ends before the type's fixed fields do and the buffer continues behind the RDATA (reported by a round-5 sub-agent as present on the clean checkout)")
fixed("C03","C03/IsDomainName-true-model-false/wire-length-256","f4d6b59","names of 256 and 257 wire octets were accepted by IsDomainName and packed by PackDomainName although UnpackDomainName rejects them (255-octet limit)")
fixed("C03","C03/packer-accepts-non-fqdn/random-text","bb43edc","IsFqdn counted the backslashes before the final dot in runes: a multi-byte UTF-8 sequence in front of them flipped the parity, so names ending in an escaped dot were packed and some fully-qualified ones refused")
fixed("C12","C12/datagram-real-reply-missed/undecodable-foreign-reply","dd8f6b7","a datagram with another ID whose body does not unpack (or whose TSIG does not verify) ended the client exchange with that error although the matching reply arrived right behind it: the skip loop broke on any error instead of on read errors only (also C12/datagram-no-deadline-error when only such replies arrive)")
fixed("C13","C13/restart-while-shutdown-returns/second-server-does-not-answer/pc-sim/restart-while-shutdown-is-returning","4f66017","ShutdownContext closed `srv.PacketConn` - read without the lock, after the wait - when it was done: a Server started again (with another socket) as soon as its serve call had returned, while the Shutdown of the first run was still on its way out, had the socket of its second run closed by that Shutdown, and the field was read while the restart wrote it (also C13/packetconn-open-when-shutdown-returns/pc-sim/restart-*: the first run's own socket was left open in that case; found when the restart-while-Shutdown-is-returning scenario prompted by seed C13ab ran against the unchanged tree)")
fixed("C10","C10/accepts-invalid/rrsig.Signature-halves-zero-padded/ECDSAP256SHA256","e8ee899","RRSIG.Verify and SIG.Verify split an ECDSA signature in the middle, whatever its length: the two integers of a valid signature, each with a zero octet in front (66 / 98 octets instead of the 64 / 96 of RFC 6605 s.4), verified - a change to the signature that does not make verification fail (also C18/accepts-altered/sig-halves-zero-padded/*; found when the length-changing signature alterations prompted by seed C10y were added)")
fixed("C10","C10/sign-fails/MF/ECDSAP256SHA256","4efda5d","RRSIG.Sign and Verify rebuilt the owner of a wildcard directly below the root (owner `*.`, or any single-label name with Labels 0) as `*..`, which does not pack: Sign returned `bad rdata` for every RRset owned by `*.`, and an answer synthesised from the root wildcard never verified (also C10/reused-rrsig/sign-error/*; found when the C10 zones started to include the root and a TLD)")
# ---- C16
fixed("C16","C16/copy-alias/OPT/*dns.EDNS0_SUBNET.Address","e6225bc","Copy/Msg.Copy shared the Address slice of EDNS0_SUBNET and the AlgCode slices of EDNS0_DAU/DHU/N3U with the original")
# ---- C17
for pos in ("boundary","inside","before","after"):
    known("C17","C17/validity-period/beyond-2^32/"+pos,"RRSIG.ValidityPeriod adjusts the 32-bit inception/expiration by multiples of 2^31 instead of using RFC 1982 arithmetic modulo 2^32, so windows and times at or beyond the 2^32 wrap (year 2106) are judged wrongly although all three are within 68 years of each other; an RFC 1982 repair breaks the existing TestSignature, which expects a 120-year window (1980-2100) to be valid")
fixed("C17","C17/nsec3-cover/normal/equals-owner","cf9dea5","NSEC3.Cover returned true for a name whose hash equals the owner hash of a non-wrapping interval")
fixed("C17","C17/nsec3-hash-non-ascii-folded","bae68b8","HashName lower-cased non-ASCII letters (strings.ToLower), so names differing in such a letter hashed alike")
fixed("C17","C17/nsec3-cover/normal/inside-or-outside/lower-case-next-hash","92ce231","NSEC3.Cover compared a lower-case NextDomain bytewise with upper-cased hashes, ordering the interval by ASCII case instead of by value")
# ---- C18
fixed("C18","C18/sign-fails/compressible/ED25519","b50b305","SIG(0) Sign returned ErrBuf whenever compression saved more octets than the SIG record needs: its buffer was sized from the compressed length but PackBuffer needs the uncompressed one")
fixed("C18","C18/own-signature-rejected/additional-254..512/ED25519","a2f04f8","SIG(0) Verify hashed byte((adc-1)<<8) (always 0) instead of the high octet of the original ARCOUNT, so messages with 256+ additional records signed by Sign did not verify")
fixed("C18","C18/reused-sig/sign-output-invalid/ED25519","dd215bf","SIG.Sign called again on a SIG value that already carries a signature (one SIG template per key) packed and hashed the old signature as RDATA and appended the new one after it: every message after the first did not verify")
# ---- C20
known("C20","C20/not-reflexive/OPT","OPT.isDuplicate is hard-wired to false: an OPT record is never a duplicate of itself or of its copy")
known("C20","C20/not-reflexive/XPRIV","PrivateRR.isDuplicate is hard-wired to false: a user-registered private record is never a duplicate of itself or of its copy")
fixed("C20","C20/dedup-count","8d3a818","Dedup returned early when all records were distinct and left them all in the caller's scratch map; a caller reusing the map (the documented purpose of the parameter, see BenchmarkDedup) got the next list's records treated as duplicates of the previous list's: duplicates kept, wrong TTLs, TTLs written into records of the earlier list (also C20/dedup-ttl, C20/dedup-scratch-map-not-empty)")
fixed("C20","C20/is-true-want-false/AMTRELAY/field","5591374","AMTRELAY records with the discovery bit set and different relays were reported as duplicates (isDuplicate switched on the unmasked type octet)")

# ---- C05
for t in ("CSYNC","NSEC","NSEC3","NXT"):
    known("C05","C05/reparse-error/%s/TypeBitMap/boundary1"%t,"a type bitmap containing type 0 prints it as 'None', which the zone parser does not accept (the lookup upper-cases the token)")
    known("C05","C05/reparse-error/%s/TypeBitMap/boundary2"%t,"a type bitmap containing type 65535 prints it as 'Reserved', which the zone parser does not accept")
for t in ("RRSIG","SIG"):
    known("C05","C05/reparse-error/%s/TypeCovered/boundary0"%t,"type covered 0 prints as 'None', which the zone parser does not accept")
    known("C05","C05/reparse-error/%s/TypeCovered/boundary1"%t,"type covered 65535 prints as 'Reserved', which the zone parser does not accept")
known("C05","C05/type-code-spelling-rejected/mnemonic:None","Type(0).String() is 'None'; written as a record type it is rejected (TYPE0 is accepted)")
known("C05","C05/type-code-spelling-rejected/mnemonic:Reserved","Type(65535).String() is 'Reserved'; written as a record type it is rejected (TYPE65535 is accepted)")
known("C05","C05/reparse-error/URI/Target/len300","a URI target longer than 255 octets prints as one quoted string that the parser splits into 255-octet chunks and then rejects ('bad URI Target')")
known("C05","C05/reparse-error/CAA/Value/len300","a CAA value longer than 255 octets prints as one quoted string that the parser splits into 255-octet chunks and then rejects ('bad CAA Value')")
fixed("C05","C05/rdata-differs/NSEC3/Salt/boundary1","9e33174","NSEC3.parse and HIP.parse converted the hex length to uint8 before halving it: salts / HITs of 128..255 octets got a wrong length field when read from text")
fixed("C05","C05/reparse-error/X25/PSDNAddress/space","bd5e33b","X25 printed its PSDN address verbatim (no quoting) and parsed a single bare token: addresses with blanks, ';', parentheses or empty could not be read back")
fixed("C05","C05/zone-sequence/parse-error/IPSECKEY","844328e","an IPSECKEY record followed by another entry made the zone parser fail with 'garbage after rdata': IPSECKEY.parse called slurpRemainder after endingToString had already consumed the end of the line, so it read the next entry's owner")
fixed("C05","C05/rdata-differs/LOC/Latitude/around-equator","ae08fcd","LOC latitude/longitude seconds were truncated instead of rounded when read from text (1000*1.001 = 1000.9999999999999): values such as 1.001, 2.002 came back one 1/1000 arc-second off")
fixed("C05","C05/reparse-error/IPSECKEY/random","8f47d29","IPSECKEY and AMTRELAY with an IPv6 gateway (type 2) inside ::ffff:0:0/96 printed the gateway as a dotted quad, which their own parser refuses for that type (and it refused the ::ffff: spelling too): such records could not be read back from their String() form (also C05/reparse-error/AMTRELAY/random)")
# ---- C06
known("C06","C06/quoting/NAPTR/bare","NAPTR flags/service/regexp written as bare (unquoted) <character-string>s, which RFC 1035 s.5.1 allows, are rejected: the NAPTR parser insists on quotes")
fixed("C06","C06/ttl/omitted-uses-$TTL/ttl-class/generate","c4c1c70","records produced by $GENERATE ignored $TTL, the last stated TTL and the configured default (always 3600)")
fixed("C06","C06/parse-error/owner-only-escaped-specials","ce2e7fa","an entry whose owner (or any token) consists only of escaped special characters (e.g. the owner \\; ) was rejected with 'no blank after owner': the lexer did not end the run of blanks for escaped characters")
fixed("C06","C06/parse-error/mnemonic-like-token-after-comment-in-parentheses","603cf10","a comment inside parentheses reset the lexer's 'type seen' flag, so a following RDATA token spelling a type/class mnemonic (base64 chunk AAAA) was lexed as a type and the record rejected")
fixed("C06","C06/keyword-like-token/origin-relative/a","7b7f089","a relative $ORIGIN value that spells a type mnemonic (a, mx, ns, soa, txt, aaaa, any) was rejected, and such an origin argument of $INCLUDE was silently ignored (included records completed with the wrong origin)")
fixed("C06","C06/keyword-like-token/origin-absolute-trailing-comment/classic","2b347ff","an origin name that merely starts with TYPE or CLASS (classic.example., type1.example., typeset) followed by a blank or a comment after $ORIGIN / as $INCLUDE origin was rejected with 'unknown RR type' / 'unknown class' by the lexer")
fixed("C06","C06/sequence/include-line-produced-by-generate-uses-the-include-FS","91f43d4","an $INCLUDE line produced by $GENERATE ($GENERATE 0-1 $$INCLUDE gen$.db) ignored the fs.FS given with SetIncludeFS and went to os.Open: the named files were not found in the FS (and the real file system was read instead)")
# ---- C07
fixed("C07","C07/error-line-out-of-range/mutation","de58904","a zone text ending right after a $GENERATE range ('$GENERATE 13-17<EOF>') was reported as 'garbage after $GENERATE range: \"\" at line: 0:0': the end-of-input token carries no position")
fixed("C07","C07/syntax-error-not-reported/unbalanced-parenthesis/CSYNC","cdc71f1","an unbalanced parenthesis inside the RDATA of NSEC, NSEC3, NXT, CSYNC, LOC, HIP, APL, SVCB/HTTPS or NSEC3PARAM was swallowed: the record was returned, every later entry silently dropped and Err() stayed nil (those RDATA loops ignore the lexer's error flag)")
fixed("C07","C07/syntax-error-not-reported/unbalanced-parenthesis/directive/$INCLUDE","7edbe58","a lexer error in the token after the blank that follows the file name of $INCLUDE (a closing parenthesis that closes nothing, a parenthesis still open at the end of the input) was dropped: the file was included, every later entry of the zone was skipped and Err() stayed nil (hinted at by a round-11 sub-agent as odd behaviour of the clean checkout, confirmed with the directive-parenthesis matrix)")
fixed("C07","C07/record-returned-after-error/read-error","67c4db3","when reading the input failed (or a $GENERATE modifier was bad) in the middle of a record's RDATA, the token stream ended like the input does and Next handed out the record built from what had arrived - an SOA with expire and minimum 0, an A record without an address - with ok=true, the error showing only in Err(); likewise an $INCLUDE or $GENERATE line cut short by a read error was acted on and its records handed out (hinted at by a round-11 sub-agent, confirmed with the oracle that Err() is nil whenever Next returns a record)")
fixed("C07","C07/syntax-error-not-reported/ttl-out-of-range","caf99ce","a TTL written with so many digits that the 64-bit accumulator wraps (18446744073709551617) was accepted as a small TTL (1) in records, $TTL and $GENERATE templates instead of being reported (noticed by a round-5 sub-agent while preparing a different change)")
# ---- C11
known("C10","C10/sign-fails/key-tag-0","RRSIG.Sign treats KeyTag 0 as 'not set' and returns ErrKey: an RRset cannot be signed with a key whose RFC 4034 key tag is 0 (one key in 65536; reproduced with a deterministic Ed25519 key)")
known("C18","C18/sign-fails/key-tag-0","SIG.Sign (and SIG.Verify) treat KeyTag 0 as 'not set' and return ErrKey: SIG(0) cannot be used with a KEY whose key tag is 0 (one key in 65536; reproduced with a deterministic Ed25519 key)")
fixed("C10","C10/irrelevant-variant-rejected/raw-8bit-spelling/ED25519","8981502","CanonicalName mapped runes instead of octets (strings.Map): every raw octet above 0x7F that is not part of a valid UTF-8 sequence was replaced by U+FFFD, so RRSIGs over names holding such octets did not verify against the same names written with \\DDD escapes; also observable as C19/CanonicalName/raw-8bit")
fixed("C10","C10/sign-output-labels/ED25519","2936713","RRSIG.Sign took every owner that starts with an asterisk (*ab.example., **.example.) for a wildcard: Labels was one too small and the signature was made over *.example. instead of the RRset's owner; such an RRSIG verifies only within this library and is a valid signature for a wildcard that was never signed (found by the thorough tier at seed 3 through a random label; quick now draws such labels on purpose)")
fixed("C11","C11/accepts-altered/field/fudge-zero","a6d820e","TsigVerify substituted the default fudge 300 (and the current time) for a zero fudge / time signed found in the received TSIG, so a message whose fudge was changed from 300 to 0 still verified")
# ---- C13
fixed("C13","fatal/panic_close_of_closed_channel/.(*Server).serveTCP.func1","66a701b","starting a Server again while a Shutdown of it was still waiting for a handler re-created srv.shutdown under the old serve loop: the process died with 'close of closed channel' (serveTCP/serveUDP epilogue) and ShutdownContext raced with init() on the field; a start is now refused until the previous loop has drained")
# ---- C15
fixed("C15","C15/fault-hidden/rcode/axfr/plain","4093943","an incoming AXFR ignored an error RCODE in every envelope but the first and reported the transfer as complete and error-free")


# ---- C05: RDATA-less records read from text (found in round 12 from a sub-agent's remark about the clean checkout)
for t in "A AAAA AFSDB CAA CNAME DNAME GPOS HIP HTTPS KX L32 LOC LP MB MD MF MG MINFO MR MX NAPTR NS NSAP-PTR NSEC NSEC3 NULL NXNAME NXT PTR PX RP RRSIG RT SIG SOA SRV SVCB TALINK".split():
    known("C05","C05/rdataless-text-not-rereadable/"+t,"the entry `name ttl class %s` (no RDATA: the RFC 2136 prerequisite / deletion form, which the zone parser accepts as the last entry of its input) is read as a %s record without RDATA, but the typed struct cannot say \"no RDATA\": String() prints a trailing tab followed by nothing or by the zero values of the fields, which the parser refuses or reads as another record (same root as C01/rdataless-repack)"%(t,t))

json.dump({"comment":"Committed list of genuine defects of the pinned miekg/dns tree. status=known suppresses exactly the listed key (printed as KNOWN-FINDING); status=fixed suppresses nothing. Never written at run time; regenerate with tools/mkfindings.py.","findings":F},open('/verif/known_findings.json','w'),indent=1)
print(len(F),"findings")
