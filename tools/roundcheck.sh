#!/bin/bash
# usage: tools/roundcheck.sh <seed-dir> <v1> <v2> <PROP>...  — confirms each delivered change (tools/seedverify.sh) and runs the
# quick check of its property against it in a scratch lane (tools/seedlane.sh); prints one block per change.
base="$1"; v1="$2"; v2="$3"; shift 3
for p in "$@"; do
  (
    items=()
    for v in $v1 $v2; do
      d="$base/out-$p/$v"
      [ -f "$d/patch.diff" ] || { echo "$p$v: no patch"; continue; }
      tools/seedverify.sh "$d"
      items+=("$p$v:$d/patch.diff")
    done
    tools/seedlane.sh "r-$p" quick "${items[@]}" >/dev/null 2>&1
    for v in $v1 $v2; do echo "--- $p$v"; cat /tmp/lanes/results/$p$v.txt 2>/dev/null | cut -c1-230; done
  ) &
done
wait
