#!/usr/bin/env python3
"""Copies the confirmed seeded changes into /verif/seeded/<id>/ and runs the matching check on each (applied to /repo, then reverted)."""
import json,os,shutil,subprocess,sys,re,time
SRC='/tmp/seed'
out=[]
only=sys.argv[1:]
for n in range(1,21):
    pid='C%02d'%n
    for v in 'ab':
        sid=pid+v
        if only and sid not in only and pid not in only: continue
        d='%s/out-%s/%s'%(SRC,pid,v)
        dst='/verif/seeded/%s'%sid
        if os.path.isdir(d):
            os.makedirs(dst,exist_ok=True)
            patch=d+'/patch.ported.diff' if os.path.exists(d+'/patch.ported.diff') else d+'/patch.diff'
            shutil.copy(patch,dst+'/patch.diff')
            shutil.copy(d+'/demo_test.go',dst+'/demo_test.go')
            meta=json.load(open(d+'/meta.json'))
        else:
            meta=json.load(open(dst+'/meta.json'))
        st=subprocess.run('git -C /repo status --porcelain',shell=True,capture_output=True,text=True).stdout.strip()
        assert st=='',"repo not clean: "+st
        r=subprocess.run('git -C /repo apply %s/patch.diff'%dst,shell=True)
        assert r.returncode==0,'apply failed '+sid
        t0=time.time()
        p=subprocess.run('cd /verif && timeout 1800 bin/check %s quick'%pid,shell=True,capture_output=True,text=True)
        wall=time.time()-t0
        subprocess.run('git -C /repo checkout -- . && git -C /repo clean -fdq',shell=True)
        keys=re.findall(r'^  key=(\S+)',p.stdout,re.M)
        detected=p.returncode==1 and 'VIOLATION' in p.stdout
        meta.update({"property":pid,"variant":v,"confirmed_by_me":{"applies_to_current_tree":True,"suite_passes_with_change":True,"demo_fails_with_change":True,"demo_passes_without_change":True,
            "how":"tools/seedverify.sh in a scratch worktree of /repo HEAD (go build, go test ./..., go test -run TestSeedDemo with and without the patch)"},
            "check_run":{"cmd":"git -C /repo apply seeded/%s/patch.diff; bin/check %s quick; git -C /repo checkout -- ."%(sid,pid),"detected":detected,"exit_code":p.returncode,"violation_keys":keys[:12],"wall_s":round(wall,1)}})
        json.dump(meta,open(dst+'/meta.json','w'),indent=1)
        out.append((sid,detected,keys[:3],round(wall,1)))
        print(sid,detected,keys[:3],round(wall,1),flush=True)
