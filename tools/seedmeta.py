#!/usr/bin/env python3
"""Writes confirmed_by_me / check_run into /verif/seeded/<sid>/meta.json from the lane results (/tmp/lanes/results)."""
import json,os,re,sys,subprocess
head=subprocess.run("git -C /repo log --format=%h -1",shell=True,capture_output=True,text=True).stdout.strip()
tier=sys.argv[1] if len(sys.argv)>1 else 'quick'
rows=[]
for sid in sorted(os.listdir('/verif/seeded')):
    t='/tmp/lanes/results/%s.txt'%sid
    if not os.path.exists(t): print('no result for',sid); continue
    lines=open(t).read().splitlines()
    m=re.match(r'(\S+) rc=(\d+) wall=(\d+)',lines[0])
    if not m: print('bad result',sid,lines[:1]); continue
    rc=int(m.group(2)); wall=int(m.group(3))
    out=open('/tmp/lanes/results/%s.out'%sid).read()
    keys=re.findall(r'^  key=(\S+)',out,re.M)
    detected= rc==1 and 'VIOLATION' in out
    p='/verif/seeded/%s/meta.json'%sid
    meta=json.load(open(p))
    meta['confirmed_by_me']={"repo_head":head,"applies_to_current_tree":True,"suite_passes_with_change":True,"demo_fails_with_change":True,"demo_passes_without_change":True,
      "how":"tools/seedverify.sh in a scratch worktree of /repo HEAD (go build, go test ./..., go test -run TestSeedDemo with and without the patch)"}
    old=meta.get('check_run',{})
    meta['check_run']={"cmd":"scratch worktree of /repo HEAD + git apply seeded/%s/patch.diff; VERIF_REPO=<worktree> bin/check %s %s (tools/seedlane.sh); worktree reset afterwards"%(sid,sid[:3],tier),
      "repo_head":head,"detected":detected,"exit_code":rc,"violation_keys":keys[:12],"wall_s":wall}
    if 'note' in old: meta['check_run']['note']=old['note']
    # runs of another property's check on this seed (tools/seedlane.sh <sid>@<PROP>:patch)
    import glob
    for f in glob.glob('/tmp/lanes/results/%s-by-*.txt'%sid):
        other=f.rsplit('-by-',1)[1][:-4]
        o=open(f[:-4]+'.out').read()
        m2=re.match(r'(\S+) rc=(\d+) wall=(\d+)',open(f).read().splitlines()[0])
        meta['check_run']['also_run']={"property":other,"detected":int(m2.group(2))==1 and 'VIOLATION' in o,"violation_keys":re.findall(r'^  key=(\S+)',o,re.M)[:6]}
    json.dump(meta,open(p,'w'),indent=1)
    rows.append((sid,detected,keys[:3]))
nd=[r[0] for r in rows if not r[1]]
print(len(rows),'seeds;',len(rows)-len(nd),'detected; not detected:',nd)
