#!/bin/bash
# usage: tools/seedlane.sh <lane-name> <tier> <sid>:<patch>...   (scratch lanes under /tmp/lanes; results in /tmp/lanes/results/<sid>.txt)
# Runs the matching check against a scratch worktree of /repo HEAD with the patch applied (VERIF_REPO), from a private copy of /verif.
lane="$1"; tier="$2"; shift 2
. /verif/bin/env.sh
L=/tmp/lanes/$lane
mkdir -p /tmp/lanes/results
rm -rf "$L/verif"; mkdir -p "$L/verif"
rsync -a --exclude .build --exclude replay --exclude .git /verif/ "$L/verif/"
[ -d "$L/repo" ] || git -C /repo worktree add -q --detach "$L/repo" HEAD || exit 2
git -C "$L/repo" checkout -q --detach "$(git -C /repo rev-parse HEAD)"
for item in "$@"; do
  sid="${item%%:*}"; patch="${item#*:}"; prop="${sid:0:3}"
  case "$sid" in *@*) prop="${sid#*@}"; sid="${sid%@*}-by-$prop";; esac   # C11h@C15: run another property's check on this seed
  git -C "$L/repo" checkout -q -- . ; git -C "$L/repo" clean -fdq
  if ! git -C "$L/repo" apply "$patch" 2>/dev/null && ! patch -p1 -s -d "$L/repo" < "$patch" >/dev/null 2>&1; then echo "$sid APPLY-FAILED" > /tmp/lanes/results/$sid.txt; continue; fi
  t0=$(date +%s)
  ( cd "$L/verif" && VERIF_REPO="$L/repo" timeout 3000 bin/check "$prop" "$tier" ) > /tmp/lanes/results/$sid.out 2>&1
  rc=$?
  t1=$(date +%s)
  { echo "$sid rc=$rc wall=$((t1-t0))"; grep -E '^  key=' /tmp/lanes/results/$sid.out | head -12; grep -E '^(SUMMARY|INCONCLUSIVE)' /tmp/lanes/results/$sid.out | cut -c1-250; } > /tmp/lanes/results/$sid.txt
  git -C "$L/repo" checkout -q -- . ; git -C "$L/repo" clean -fdq
done
echo "lane $lane done"
