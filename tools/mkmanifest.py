#!/usr/bin/env python3
"""Regenerates /verif/MANIFEST.json from the table below."""
import json,subprocess
props=[json.loads(l) for l in open('/verif/properties.jsonl')]
BUILT={
 # id: (level, technique, text, note)
 "C01":("exploration","runtime monitor: differential oracle against an independent RFC wire model over seeded boundary-biased records/messages; exhaustive header-word and RCODE sub-spaces",
        "Every registry type (+unknown codes, a PrivateHandle type, RDATA-less forms) is driven through Pack/Unpack and compared with an independent RFC-layout encoder; all 2^16 flag words and all 4096 RCODEs x OPT are enumerated. Held on the executions explored, not a proof.",
        "trusts the model layout table (DESIGN.md App. A) and the bridge's documented struct representation"),
 "C02":("exploration","runtime monitor: hostile-input workload (structure-aware mutation, pointer graphs, lying counts, TLV soup) with panic/fatal/hang triage per isolated worker, allocation meter and model name validity",
        "150k+ hostile inputs per quick run through every decoder; verdict from observed panics/fatals/hangs, ReadMemStats allocation deltas, offsets and the model's name limits.",
        "allocation measured by runtime.ReadMemStats in a single-goroutine worker; hang = watchdog firing 3x on the isolated case"),
 "C03":("exploration","runtime monitor: independent name model (validity, canonical presentation, presentation parser) over exhaustive boundary shapes/octets/escape spellings plus random names",
        "Exhaustive over the boundary sub-spaces named in the property (lengths 240..260, labels 60..66, 256 octets x positions, all escape spellings), random beyond; both directions text<->wire.",
        "trusts the model's reading of RFC 1035 presentation syntax"),
 "C04":("exploration","runtime monitor: strict model decoder logs every compression pointer of library output and compares the expansion byte-exact with the uncompressed packing; model-compressed input fed back",
        "Messages from suffix-sharing/case-variant pools incl. >16384-octet ones; every pointer's position, target and field judged by an independent decoder.",
        "RFC 3597 s.4 set hard-coded in the model"),
 "C05":("exploration","runtime monitor: String()->NewRR round trip with octet comparison for wire-decoded and struct-built records; independent RFC 1035 s.5.1 tokenizer and typed field reader for 56 regular types; one-hostile-feature-at-a-time matrix over every text field; generic-form and numeric/mnemonic spellings; all 65536 type/class codes",
        "The feature matrix attributes every failure to one (type, field, content class); the independent reader decides whether other implementations would read the same values.",
        "independent value-level readers exist for the regular types and for LOC, APL, NSEC3, NSEC3PARAM, NSEC, CSYNC, IPSECKEY, AMTRELAY, RRSIG, SIG, HIP; the other bespoke formats (SVCB/HTTPS, CERT mnemonics) are checked token-level only"),
 "C06":("exploration","runtime monitor: model record lists rendered by an independent zone writer choosing among equivalent spellings (owner/TTL/class omission and order, units, case, parentheses, comments, $ORIGIN/$TTL/$GENERATE/$INCLUDE), parser output compared with the list the text denotes; TTL-state x line-shape matrix, quoting and keyword-like-token matrices",
        "Metamorphic + model: every rendering of a record list must parse to that list; $GENERATE is expanded by an independent implementation; include trees come from an in-memory FS.",
        "14 regular record types rendered by the harness's own RDATA writer; cases the statement leaves open (owner/TTL right after $GENERATE/$INCLUDE) are never produced"),
 "C07":("exploration","runtime monitor: hostile zone texts (mutations of valid renderings, token soup, 36 crafted texts, injected read errors) x parser configurations; panic/hang triage, stop-stays-stopped oracle, error-position oracle, recording include FS, strace openat log with a canary directory, allocation meter",
        "Every clause of the statement has an observable: records after the first error, Err() stability, line:col, Open calls on the FS and openat(2) in the worker's strace log while includes are off, open count for self-including files, TotalAlloc deltas.",
        "strace (seccomp-bpf) wraps the worker; allocation bound is linear in the text plus an allowance per generated/included record"),
 "C08":("exploration","runtime monitor: Len()/Len(rr) vs actual Pack output, exactness on escape-free common types, PackBuffer in-place check by address, records straddling offset 16384 at 80 alignments per name-bearing type",
        "Observes the inequality/equality on every generated message in both compression settings and at the 16384 boundary.",
        "the model generator only produces packable messages"),
 "C09":("exploration","runtime monitor: statement-derived oracle (pointer-identity prefixes, TC rule, fit rule, first-dropped rule) over sizes including the exact packed length of every record prefix +-1",
        "Each (message,size) pair is judged by an oracle written from the property, using Pack only to measure lengths.",
        "uses the library's Pack to measure lengths of candidate prefixes"),
 "C10":("exploration","runtime monitor: independent DNSSEC verifier (own RFC 4034/6840 canonical form, own key decoding, Go crypto) as oracle for Sign output, harness-made signatures, irrelevant metamorphic variants and ~60 single-field/bit alterations per RRset",
        "Both directions: what Sign emits must verify independently; what Verify accepts must be acceptable to the independent verifier; valid canonical signatures made outside the library must be accepted.",
        "keys are generated per run with crypto/rand; the model's s.6.2 type list follows RFC 6840 s.5.1"),
 "C11":("exploration","runtime monitor: independent RFC 8945 digest as oracle; explicit-now hook for the fudge window; exhaustive single-bit flips of short signed messages, field/context/structure alterations, envelope chains made by library and harness, and the chain a Server's ResponseWriter emits through Transfer.Out",
        "Soundness is decided per altered octet string by recomputing the HMAC independently; the window is decided at t, t+-fudge, t+-(fudge+1) without reading the wall clock; the exported TsigVerify/TsigGenerate pairs are driven at the real time too, 5 s inside and outside the window, every verdict bracketed by two clock readings.",
        "uses the verif-tagged accessor VerifTsigVerify(now) for the boundary seconds; the exported entry points only where a 5 s margin makes the clock irrelevant (else undecided); TSIG RR class on the wire not part of the acceptance condition"),
 "C12":("fault_enumeration","runtime monitor: fault enumeration over simulated streams (every split point, EOF/error at every offset, oversize writes, scripted stale/foreign datagram replies) + concurrent unique-request workload against real loopback servers with scribbled recycled buffers, offline no-mixing/exactly-once check (UDP, TCP, TLS, through reader/writer decorators; handlers compare RemoteAddr with the declared source address), wildcard IPv4/IPv6/dual-stack UDP servers, race detector",
        "Framing and ID handling are enumerated over deterministic in-memory transports; cross-talk is decided offline over the merged client/handler log of uniquely tagged requests; the poolPut hook scribbles every recycled UDP buffer so aliasing is seen deterministically.",
        "in-memory transports model short reads, not kernel behaviour; 20 s watchdog decides 'hang'"),
 "C13":("exploration","runtime monitor: steered schedules through build-tag hook gates (Shutdown raced against every hook point in both release orders), held handlers, context expiry, misuse/restart/failed-start scripts, transport pauses, a listener that fails for good while connections are open; offline checker over a logical-clock event log; goroutine/connection leak probes; race detector",
        "Explores orderings at hook granularity (not instruction granularity) on 5 transports; each scenario's event log is judged offline against the statement; distinct observed event orders are counted in the evidence.",
        "liveness restated as bounded progress (15 s for operations that take microseconds); hooks sit outside critical sections; windows without a hook are reached only by the unsteered start/Shutdown storms (thousands of cycles per run)"),
 "C14":("exploration","runtime monitor: per-packet exactly-one-outcome oracle with hook-signalled quiescence on simulated UDP/TCP servers under the default and a user-supplied accept policy (recycled buffers scribbled, connections filled up to MaxTCPQueries); wire-label longest-suffix routing reference (own and default mux); porcupine linearizability check of concurrent Handle/HandleRemove/ServeDNS histories; race detector",
        "Admission decided per packet against a reference policy; routing against an independent suffix reference; the mux table is the one shared object, checked for linearizability on recorded histories.",
        "DS routing: any registered strict ancestor accepted (statement leaves it open); a message delivered after the socket reported a transient non-timeout failure counts as received"),
 "C15":("fault_enumeration","runtime monitor: the harness plays the primary over a simulated stream: all envelope compositions (n<=6) of AXFR/IXFR streams with an independently computed RFC 8945 MAC chain, faults injected at every envelope index and EOF at every octet; oracle over delivered envelopes, channel and connection close log",
        "Every fault class of the statement is injected at every position of small transfers; good runs compare delivered with transmitted records byte-exact.",
        "envelopes signed at the real clock with fudge 300 (far from the boundary); connection closure is observed at the primary (simulated stream close count, hang-up on real sockets incl. transfers that dial for themselves)"),
 "C16":("exploration","runtime monitor: object-graph address-range walker (copy vs original, decoded vs input buffer), deep snapshots around read-only operations, Go race detector on concurrent read-only use",
        "Aliasing is decided from the actual addresses of every reachable slice/pointer/map, not from sampled writes; read-only operations are bracketed by deep snapshots; concurrent use runs under -race.",
        "reflect-based walker sees exported and unexported fields; strings exempt for Copy"),
 "C17":("exploration","runtime monitor: closed-form RFC oracles (key tag App. B incl. constructed double-carry sums, DS digests, NSEC3 hash, circular interval membership, RFC 1982 windows) over boundary-biased inputs; key export/re-import checked with library and independent verification",
        "Every sub-claim of the statement has its own reference function; interval shapes and hash positions are enumerated over all pairs of sampled hashes.",
        "digest type 5 (library extension) not exercised; ValidityPeriod findings beyond 2^32 are recorded as known"),
 "C18":("fault_enumeration","runtime monitor: independent RFC 2931 verification as oracle; every single-bit flip of message part and SIG RDATA and every truncation point of short signed messages, other key/signer, windows >= 1 h off the real clock, structure-aware mutations; panics attributed per isolated worker",
        "Sign must succeed on every packable message (incl. heavily compressible ones and 254..512 additional records); Verify==nil implies independent acceptance; truncations and mutations must yield errors, never panics.",
        "SIG.Verify reads the wall clock: boundary second not decided; SIG RR header bits outside the statement"),
 "C19":("exploration","runtime monitor: bounded-exhaustive enumeration of names over an 8-atom alphabet in canonical presentation form vs the model's wire label sequence; all pairs in sampled blocks",
        "All names up to 6 (quick) / 7 (thorough) atoms incl. escaped dots/backslashes/non-printables, FQDN and relative spelling, plus random long names and pairs.",
        "names restricted to the library's canonical presentation form"),
 "C20":("exploration","runtime monitor: model equality key (type, class, lower-cased owner/RDATA-name wire) vs IsDuplicate over wire-originated records and single-field variants; Dedup vs reference filter",
        "Every type, every RDATA field re-drawn at least once, case/TTL variants, equivalence laws, Dedup lists with arbitrary duplicate patterns.",
        "embedded names located through the model's layout table"),
}
PENDING="check not built yet in this revision (runtime monitor planned, see DESIGN.md s.3)"
hook_commit=subprocess.run("git -C /repo log --format=%h --grep='^verif:' ",shell=True,capture_output=True,text=True).stdout.split()
m={"version":1,"setup_cmd":"bin/setup",
"hooks":{"guard":"verif","enable":"go build -tags verif (harness/go.mod replaces github.com/miekg/dns with /repo)","baseline_off_cmd":"cd /repo && PATH=/root/go/pkg/mod/golang.org/toolchain@v0.0.1-go1.25.0.linux-amd64/bin:$PATH GOTOOLCHAIN=local GOFLAGS=-mod=mod GOPROXY=off go test -json -vet=off -count=1 -timeout 25m ./...","source_commits":hook_commit,"add_only":True},
"engines":[
 {"name":"vcheck","path":"harness/cmd/vcheck","serves_properties":sorted(BUILT),"kind_free_text":"Go driver/worker: seeded workloads + oracles per property; worker processes journal each case so panics, fatal errors and hangs are attributed and replayed"},
 {"name":"model","path":"harness/model","serves_properties":[p for p in sorted(BUILT) if p not in ("C19",)],"kind_free_text":"independent RFC model of names, RDATA layouts, messages, compression (never calls the library)"},
 {"name":"go race detector","path":"bin/check (go build -race)","serves_properties":[p for p in ("C12","C13","C14","C15","C16") if p in BUILT],"kind_free_text":"built-in sanitizer; reports parsed and attributed by stack"},
 {"name":"porcupine","path":"harness/mon/c14.go","serves_properties":["C14"],"kind_free_text":"linearizability checker v1.3.0 over recorded Handle/HandleRemove/ServeDNS histories"},
 {"name":"strace","path":"harness/mon/c07.go","serves_properties":["C07"],"kind_free_text":"syscall monitor: openat log of the worker process, canary directory"},
 {"name":"sched","path":"harness/sched","serves_properties":["C12","C13","C14"],"kind_free_text":"controller behind the verif-tagged hook points: logical-clock event log, gates, seeded delays, buffer scribbling"},
],
"checks":[],"notes":"All checks: bin/check <ID> quick|thorough [--replay file]; VERIF_SEED selects the PRNG streams. Known findings: known_findings.json (generated by tools/mkfindings.py, never at run time).",
"not_applicable":[]}
for p in props:
    i=p["id"]
    if i in BUILT:
        lvl,tech,text,note=BUILT[i]
        m["checks"].append({"property_id":i,"quick_cmd":"bin/check %s quick"%i,"thorough_cmd":"bin/check %s thorough"%i,"evidence_file":"/verif/evidence/%s.json"%i,
          "replay_cmd_template":"bin/check %s --replay {path}"%i,"engine":"vcheck","level_claimed":{"category":lvl,"text":text,"design_ref":"DESIGN.md s.3 %s"%i},"level_note":note,"technique":tech})
    else:
        m["not_applicable"].append({"property_id":i,"reason":PENDING})
json.dump(m,open('/verif/MANIFEST.json','w'),indent=1)
print(len(m["checks"]),"checks",len(m["not_applicable"]),"pending")
