#!/bin/bash
# usage: tools/runall.sh [tier] [seed...]  — runs every registered check, prints one summary line each
tier="${1:-quick}"; shift
seeds="${@:-1}"
cd "$(dirname "$0")/.."
for s in $seeds; do
for id in C01 C02 C03 C04 C05 C06 C07 C08 C09 C10 C11 C12 C13 C14 C15 C16 C17 C18 C19 C20; do
  out=$(VERIF_SEED=$s timeout 7200 bin/check $id $tier 2>&1); rc=$?
  echo "$out" | grep -E "^(VIOLATION|INCONCLUSIVE|BUILD)" | cut -c1-220 | head -5
  echo "$out" | grep "^SUMMARY" | cut -c1-200 | sed "s/$/ rc=$rc/"
done; done
