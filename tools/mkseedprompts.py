#!/usr/bin/env python3
"""usage: tools/mkseedprompts.py <dir> <variant1> <variant2>  — writes <dir>/PROMPT-Cxx.md and creates <dir>/wt-Cxx worktrees of /repo HEAD.
The prompt contains only the property text, the agent's own worktree and (one-line) summaries of changes already taken."""
import json,os,subprocess,sys
base,v1,v2=sys.argv[1],sys.argv[2],sys.argv[3]
os.makedirs(base,exist_ok=True)
tmpl=open('/verif/tools/seedprompt.tmpl').read()
for l in open('/verif/properties.jsonl'):
    p=json.loads(l); pid=p['id']
    taken=[]
    for sid in sorted(os.listdir('/verif/seeded')):
        if sid.startswith(pid):
            s=json.load(open('/verif/seeded/%s/meta.json'%sid))['summary'].replace('\n',' ')
            taken.append('- '+s[:330])
    wt='%s/wt-%s'%(base,pid); out='%s/out-%s'%(base,pid)
    os.makedirs(out,exist_ok=True)
    if not os.path.isdir(wt):
        assert subprocess.run('git -C /repo worktree add -q --detach %s HEAD'%wt,shell=True).returncode==0
    t=tmpl.replace('@WT@',wt).replace('@OUT@',out).replace('@ID@',pid).replace('@TITLE@',p['title']).replace('@STATEMENT@',p['statement']).replace('@QUANT@',p['quantifier']['text']).replace('@TAKEN@','\n'.join(taken)).replace('@V1@',v1).replace('@V2@',v2)
    open('%s/PROMPT-%s.md'%(base,pid),'w').write(t)
print('ok')
