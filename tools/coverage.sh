#!/bin/bash
# usage: tools/coverage.sh [tier] [seed]  — which statements of miekg/dns do the monitors' workloads reach?
# Builds the harness (and its -race twin) with Go's coverage instrumentation for github.com/miekg/dns and dnsutil,
# runs every check once, merges the counters and writes coverage/<tier>-seed<seed>.txt: per-file totals and every
# block no workload reached. Scratch data goes to /tmp/vcov and is removed. Nothing registered in MANIFEST.json needs this.
tier="${1:-quick}"; seed="${2:-1}"
here="$(cd "$(dirname "$0")/.." && pwd)"
. "$here/bin/env.sh"
S=/tmp/vcov; rm -rf $S; mkdir -p $S/root $S/data "$here/coverage"
cp "$here/known_findings.json" "$here/properties.jsonl" $S/root/
cd "$here/harness" && cp /repo/go.sum .
CP=github.com/miekg/dns,github.com/miekg/dns/dnsutil,verifharness/cmd/vcheck   # main must be covered too, or no counters are written
go build -cover -covermode=atomic -coverpkg=$CP -tags verif -o $S/vcheck ./cmd/vcheck || exit 2
go build -race -cover -covermode=atomic -coverpkg=$CP -tags verif -o $S/vcheck-race ./cmd/vcheck || exit 2
for id in C01 C02 C03 C04 C05 C06 C07 C08 C09 C10 C11 C12 C13 C14 C15 C16 C17 C18 C19 C20; do
  mkdir -p $S/data/$id
  GOCOVERDIR=$S/data/$id VERIF_SEED=$seed $S/vcheck -root $S/root -prop $id -tier $tier -racebin $S/vcheck-race 2>&1 | grep -E "^(SUMMARY|VIOLATION|INCONCL)" | cut -c1-150
done
dirs=$(ls -d $S/data/* | tr '\n' ',' | sed 's/,$//')
go tool covdata textfmt -i=$dirs -o $S/all.cov || exit 2
python3 - "$S/all.cov" "$here/coverage/$tier-seed$seed.txt" <<'PY'
import collections,sys,subprocess
cov=collections.defaultdict(int)
for l in open(sys.argv[1]):
    if l.startswith('mode:'): continue
    k,n,c=l.rsplit(' ',2); cov[(k,int(n))]=max(cov[(k,int(n))],int(c))
per=collections.defaultdict(lambda:[0,0]); unc=collections.defaultdict(list)
for (k,n),c in cov.items():
    if 'verifharness' in k: continue
    fn=k.split(':')[0].replace('github.com/miekg/dns/','')
    per[fn][0]+=n
    if c>0: per[fn][1]+=n
    else: unc[fn].append(k.split(':')[1])
tot=sum(v[0] for v in per.values()); cv=sum(v[1] for v in per.values())
head=subprocess.run("git -C /repo log --format=%h -1",shell=True,capture_output=True,text=True).stdout.strip()
out=open(sys.argv[2],'w')
print(f"statements of github.com/miekg/dns (+dnsutil) at {head} reached by the workloads of all 20 checks: {cv} of {tot} ({100*cv/tot:.1f}%)\n",file=out)
print(f"{'file':30s} {'stmts':>6s} {'reached':>8s} {'not':>5s}",file=out)
for fn,(t,c) in sorted(per.items(), key=lambda x:x[1][0]-x[1][1], reverse=True):
    print(f"{fn:30s} {t:6d} {c:8d} {t-c:5d}",file=out)
print("\nblocks no workload reached (file:line of the first statement, source line):",file=out)
for fn in sorted(unc):
    try: src=open('/repo/'+fn).read().split('\n')
    except Exception: continue
    for r in sorted(unc[fn],key=lambda r:int(r.split('.')[0])):
        l1=int(r.split('.')[0]); print(f"{fn}:{l1}: {src[l1-1].strip()[:110]}",file=out)
print(open(sys.argv[2]).read().split('\n')[0])
PY
rm -rf $S
