#!/bin/bash
# usage: tools/seedtest.sh <patch.diff> <PROP> [tier]   — applies a seeded change to /repo, runs the check, reverts.
patch="$1"; prop="$2"; tier="${3:-quick}"
cd /repo || exit 2
if [ -n "$(git status --porcelain)" ]; then echo "/repo not clean"; exit 2; fi
git apply "$patch" 2>/dev/null || patch -p1 -s < "$patch" || { echo "patch does not apply"; git checkout -- .; git clean -fdq; exit 2; }
cd /verif && bin/check "$prop" "$tier" > /tmp/seedtest.$$.log 2>&1
rc=$?
grep -c "^VIOLATION" /tmp/seedtest.$$.log | sed 's/^/violations: /'
grep "^VIOLATION" -A2 /tmp/seedtest.$$.log | cut -c1-220 | head -${SEEDTEST_LINES:-12}
grep "^SUMMARY\|BUILD FAILED\|INCONCLUSIVE" /tmp/seedtest.$$.log | cut -c1-300
rm -f /tmp/seedtest.$$.log
cd /repo && git checkout -- . && git clean -fdq -e '*.orig' && find . -name '*.orig' -delete
echo "exit=$rc"
