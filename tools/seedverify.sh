#!/bin/bash
# usage: tools/seedverify.sh <out-dir> (e.g. /tmp/seed/out-C01/a) -> prints JSON-ish result; uses a scratch worktree
d="$1"
. /verif/bin/env.sh
wt=/tmp/seedver/wt.$$
mkdir -p /tmp/seedver
git -C /repo worktree add -q --detach "$wt" HEAD || exit 2
patch="$d/patch.diff"; [ -f "$d/patch.ported.diff" ] && patch="$d/patch.ported.diff"
cd "$wt"
res_clean_demo=unknown; res_suite=unknown; res_demo=unknown; applies=yes
cp "$d/demo_test.go" ./zz_seed_demo_test.go
if go test -vet=off -count=1 -run 'TestSeedDemo$' . >/tmp/seedver/clean.$$.log 2>&1; then res_clean_demo=pass; else res_clean_demo=FAIL; fi
rm -f zz_seed_demo_test.go
if git apply "$patch" 2>/dev/null || patch -p1 -s < "$patch" >/dev/null 2>&1; then
  find . -name '*.orig' -delete
  if go build ./... >/dev/null 2>&1; then
    if go test -vet=off -count=1 ./... >/tmp/seedver/suite.$$.log 2>&1; then res_suite=pass; else res_suite=FAIL; fi
    cp "$d/demo_test.go" ./zz_seed_demo_test.go
    if go test -vet=off -count=1 -run 'TestSeedDemo$' . >/tmp/seedver/demo.$$.log 2>&1; then res_demo=PASS_unexpected; else res_demo=fails; fi
  else res_suite=BUILD_FAIL; fi
else applies=NO; fi
echo "$d applies=$applies suite_with_change=$res_suite demo_with_change=$res_demo demo_without_change=$res_clean_demo"
cd /; git -C /repo worktree remove --force "$wt"; rm -f /tmp/seedver/*.$$.log
