#!/usr/bin/env python3
"""usage: tools/mkroundtable.py <short.tsv> — prints the DESIGN.md table rows of one seeding round. short.tsv holds
<sid>\t<what it changes>\t<first missed?>; the detecting keys come from seeded/<sid>/meta.json (check_run / also_run)."""
import json,sys
for l in open(sys.argv[1]):
    l=l.rstrip('\n')
    if not l: continue
    sid,what,missed=l.split('\t')[:3]
    m=json.load(open('/verif/seeded/%s/meta.json'%sid))
    cr=m.get('check_run',{})
    keys=cr.get('violation_keys',[])[:2]
    det=', '.join(keys) if cr.get('detected') else 'NOT DETECTED'
    a=cr.get('also_run')
    if a and a.get('detected') and not cr.get('detected'):
        det='by %s: %s'%(a['property'],', '.join(a['violation_keys'][:2]))
    print('| %s | %s | %s | %s |'%(sid,what,missed,det))
