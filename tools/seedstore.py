#!/usr/bin/env python3
"""Stores / refreshes seeded changes under /verif/seeded/<sid>/ so that patch.diff applies to /repo HEAD with `git apply`.
usage: tools/seedstore.py [--from /tmp/seed2 c d]   (without arguments: re-port the stored ones to the current HEAD)"""
import json,os,shutil,subprocess,sys
def sh(c,**k): return subprocess.run(c,shell=True,capture_output=True,text=True,**k)
src=None; variants=[]
if len(sys.argv)>1 and sys.argv[1]=='--from':
    src=sys.argv[2]; variants=sys.argv[3:]
wt='/tmp/seedver/store-wt'
sh('git -C /repo worktree remove --force %s'%wt); os.makedirs('/tmp/seedver',exist_ok=True)
assert sh('git -C /repo worktree add -q --detach %s HEAD'%wt).returncode==0
todo=[]
if src:
    for n in range(1,21):
        for v in variants:
            d='%s/out-C%02d/%s'%(src,n,v)
            if os.path.exists(d+'/patch.diff') and os.path.exists(d+'/meta.json') and os.path.exists(d+'/demo_test.go'): todo.append(('C%02d%s'%(n,v),d))
else:
    for sid in sorted(os.listdir('/verif/seeded')): todo.append((sid,'/verif/seeded/'+sid))
for sid,d in todo:
    dst='/verif/seeded/'+sid
    os.makedirs(dst,exist_ok=True)
    sh('git -C %s checkout -q -- . && git -C %s clean -fdq'%(wt,wt))
    patch=d+'/patch.diff'
    how='git apply'
    if sh('git -C %s apply %s'%(wt,patch)).returncode!=0:
        how='patch -p1 (fuzz), re-diffed against HEAD'
        r=sh('patch -p1 -s -d %s < %s'%(wt,patch))
        if r.returncode!=0:
            print(sid,'DOES NOT APPLY',r.stdout[-300:]); continue
        sh('find %s -name "*.orig" -delete'%wt)
    diff=sh('git -C %s diff'%wt).stdout
    open(dst+'/patch.diff','w').write(diff)
    if d!=dst:
        shutil.copy(d+'/demo_test.go',dst+'/demo_test.go')
        meta=json.load(open(d+'/meta.json'))
        meta['property']=sid[:3]; meta['variant']=sid[3:]
        json.dump(meta,open(dst+'/meta.json','w'),indent=1)
    print(sid,'stored via',how)
sh('git -C /repo worktree remove --force %s'%wt)
